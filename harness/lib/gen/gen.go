// Package gen generates raft log commands of every registered consul FSM command type over a small,
// deliberately colliding universe of names. A command is generated adaptively (the generator may
// peek at a store to pick "current" indexes/IDs) but is then FIXED bytes: every replica decodes its
// own copy.
package gen

import (
	"fmt"
	"google.golang.org/protobuf/types/known/timestamppb"
	"sort"
	"strings"
	"time"

	"google.golang.org/protobuf/proto"

	"github.com/hashicorp/consul/agent/consul/state"
	"github.com/hashicorp/consul/agent/structs"
	"github.com/hashicorp/consul/api"
	"github.com/hashicorp/consul/proto/private/pbpeering"
	"github.com/hashicorp/consul/types"
	"github.com/hashicorp/consul/zzverif/core"
	"github.com/hashicorp/serf/coordinate"
)

type Cmd struct {
	Type  structs.MessageType `json:"type"`
	Class string              `json:"class"`
	Desc  string              `json:"desc"`
	Bytes []byte              `json:"-"`
}

// Weights selects which families are generated (0 = never).
type Weights struct {
	Catalog, KV, Session, Txn, ACL, Config, Intention, CA, Peering, Query, Coord, Autopilot, SysMeta, Fed, VIP, Reap, Feature int
}

func AllWeights() Weights {
	return Weights{Catalog: 22, KV: 10, Session: 6, Txn: 8, ACL: 8, Config: 14, Intention: 5, CA: 4, Peering: 5, Query: 4, Coord: 2, Autopilot: 2, SysMeta: 3, Fed: 2, VIP: 2, Reap: 2, Feature: 1}
}
func CatalogWeights() Weights {
	return Weights{Catalog: 40, KV: 2, Session: 4, Txn: 8, Config: 22, SysMeta: 3, VIP: 2, Peering: 2, Intention: 3}
}

// IntentionWeights: mostly intention mutations (by-name upserts and deletes on entries that
// accumulate several sources) plus some config entries and catalog traffic
func IntentionWeights() Weights {
	return Weights{Intention: 45, Config: 10, Catalog: 12, KV: 3}
}

// IntentionPrelude switches intentions to the config-entry representation (what a leader does once,
// after migration), which the by-name mutations require.
func IntentionPrelude() []Cmd {
	req := structs.SystemMetadataRequest{Datacenter: "dc1", Op: structs.SystemMetadataUpsert, Entry: &structs.SystemMetadataEntry{Key: structs.SystemMetadataIntentionFormatKey, Value: structs.SystemMetadataIntentionFormatConfigValue}}
	return []Cmd{mk(structs.SystemMetadataRequestType, "sysmeta:upsert:"+structs.SystemMetadataIntentionFormatKey, &req)}
}

// VIPWeights: catalog + many manual virtual-IP assignments over 3 addresses and 3 services
func VIPWeights() Weights {
	return Weights{Catalog: 30, VIP: 25, Config: 8, SysMeta: 2, Txn: 4}
}
func SessionWeights() Weights {
	return Weights{Catalog: 22, KV: 22, Session: 18, Txn: 18, Query: 6, Reap: 1}
}

type G struct {
	// NodeNames/NodeIDList: the node universe of this generator (default: without case variants;
	// CaseVariantNodes() adds "N1", which the catalog treats as the same node as "n1")
	NodeNames  []string
	NodeIDList []types.NodeID
	// Focus: choose references (session checks, lock holders) by peeking at the store so that
	// most session / lock commands are accepted (used by the session/lock monitor)
	Focus bool
	// EmptyStatus: some checks are written without a Status (the store then stores them as critical).
	// Off by default so that the command streams of monitors that do not ask for it stay as they are.
	EmptyStatus bool
	// UpperSessionIDs: 15% of the references to a session spell its UUID in upper case.
	UpperSessionIDs bool
	// SharedQuerySessions: prepared queries are bound to sessions more often and several to the same one.
	SharedQuerySessions bool
	lastQuerySession    string
	peek        *state.Store
	R           *core.Rand
	W           Weights
	sessSeq     int
	Sessions    []string // session IDs ever created (for references)
	idSeq       int
}

func New(r *core.Rand, w Weights) *G {
	return &G{R: r, W: w, NodeNames: []string{"n1", "n2", "n3", "n1x"}, NodeIDList: NodeIDs}
}

// CaseVariantNodes switches the node universe to one containing "n1" and "N1".
func (g *G) CaseVariantNodes() *G { g.NodeNames = Nodes; return g }

// ---------- universe ----------

var Nodes = []string{"n1", "n2", "N1", "n1x"}
var NodeIDs = []types.NodeID{"11111111-1111-1111-1111-111111111111", "22222222-2222-2222-2222-222222222222", "33333333-3333-3333-3333-333333333333", ""}
var Services = []string{"web", "db", "api", "web.v1", "webxv1"}
var Peers = []string{"", "", "", "peerA", "peerB"}
var Keys = []string{"a", "a/", "a/b", "a/b/c", "ab", "a/é", "A"}
var Prefixes = []string{"", "a", "a/", "a/b", "ab", "zz"}
var CheckIDs = []types.CheckID{"serfHealth", "c1", "service:web", "service:db"}
var DCs = []string{"dc1", "dc2"}

func uuid(n int) string { return fmt.Sprintf("%08x-aaaa-bbbb-cccc-%012x", n, n) }

func (g *G) node() string { return core.Pick(g.R, g.NodeNames) }
func (g *G) svc() string  { return core.Pick(g.R, Services) }
func (g *G) peer() string { return core.Pick(g.R, Peers) }
func (g *G) status() string {
	return core.Pick(g.R, []string{api.HealthPassing, api.HealthPassing, api.HealthWarning, api.HealthCritical})
}

func enc(t structs.MessageType, v any) []byte {
	b, err := structs.Encode(t, v)
	if err != nil {
		panic(err)
	}
	return b
}
func encPB(t structs.MessageType, m proto.Message) []byte {
	b, err := structs.EncodeProto(t, m)
	if err != nil {
		panic(err)
	}
	return b
}

func mk(t structs.MessageType, class string, req any) Cmd {
	return Cmd{Type: t, Class: class, Desc: fmt.Sprintf("%s %s", class, core.JSON(req)), Bytes: enc(t, req)}
}

// ---------- catalog ----------

func (g *G) nodeService(name string, peer string) *structs.NodeService {
	r := g.R
	ns := &structs.NodeService{ID: name, Service: name, Port: 8000 + r.Intn(3), PeerName: peer}
	if r.Chance(30) {
		ns.ID = name + "-" + fmt.Sprint(r.Intn(2))
	}
	if r.Chance(40) {
		ns.Tags = []string{core.Pick(r, []string{"v1", "v2", "primary"})}
	}
	if r.Chance(20) {
		ns.Meta = map[string]string{"m": core.Pick(r, []string{"1", "2"})}
	}
	if r.Chance(20) {
		ns.Address = core.Pick(r, []string{"10.1.0.1", "10.1.0.2"})
	}
	switch r.Intn(10) {
	case 0, 1, 2:
		// sidecar proxy of another service
		dest := g.svc()
		ns.Kind = structs.ServiceKindConnectProxy
		ns.Service = dest + "-sidecar-proxy"
		ns.ID = ns.Service
		if r.Chance(30) {
			ns.ID = ns.Service + "-" + fmt.Sprint(r.Intn(2))
		}
		ns.Proxy = structs.ConnectProxyConfig{DestinationServiceName: dest, DestinationServiceID: dest}
		nu := r.Intn(3)
		if peer != "" {
			nu = 0 // imported instances never carry upstreams (the exporter does not send sidecar config)
		}
		for i := 0; i < nu; i++ {
			u := structs.Upstream{DestinationName: g.svc(), LocalBindPort: 9000 + i}
			if r.Chance(15) {
				u.DestinationPeer = "peerA"
			}
			if r.Chance(10) {
				u.DestinationType = structs.UpstreamDestTypePreparedQuery
			}
			ns.Proxy.Upstreams = append(ns.Proxy.Upstreams, u)
		}
		if r.Chance(15) {
			ns.Proxy.Mode = structs.ProxyModeTransparent
		}
	case 3:
		ns.Connect.Native = true
	case 4:
		gi := r.Intn(3)
		ns.Kind = []structs.ServiceKind{structs.ServiceKindIngressGateway, structs.ServiceKindTerminatingGateway, structs.ServiceKindMeshGateway}[gi]
		ns.Service = []string{"igw", "tgw", "mgw"}[gi]
		ns.ID = ns.Service
	}
	if r.Chance(10) {
		ns.Weights = &structs.Weights{Passing: 1 + r.Intn(3), Warning: 1}
	}
	if r.Chance(5) {
		ns.EnableTagOverride = true
	}
	return ns
}

func (g *G) check(node string, svc *structs.NodeService, peer string) *structs.HealthCheck {
	r := g.R
	c := &structs.HealthCheck{Node: node, CheckID: core.Pick(r, CheckIDs), Name: "chk", Status: g.status(), PeerName: peer}
	if r.Chance(20) {
		c.Type = "session"
	}
	if svc != nil && r.Chance(60) {
		c.ServiceID = svc.ID
		c.ServiceName = svc.Service
		c.CheckID = types.CheckID("service:" + svc.ID)
	} else if r.Chance(15) {
		c.ServiceID = g.svc() // may not exist -> rejected
	}
	if r.Chance(30) {
		c.Output = core.Pick(r, []string{"ok", "bad"})
	}
	if g.Focus && g.peek != nil && peer == "" && r.Chance(30) {
		// update an EXISTING check of that node (status changes incl. critical are what ends sessions)
		if _, cs, err := g.peek.NodeChecks(nil, node, nil, ""); err == nil && len(cs) > 0 {
			e := cs[r.Intn(len(cs))]
			c.CheckID, c.ServiceID, c.ServiceName, c.Type = e.CheckID, e.ServiceID, e.ServiceName, e.Type
			c.Status = core.Pick(r, []string{api.HealthCritical, api.HealthCritical, api.HealthWarning, api.HealthPassing})
			if g.EmptyStatus && r.Chance(25) {
				c.Status = "" // the store defaults a missing status to critical
			}
		}
	}
	if g.EmptyStatus && r.Chance(8) {
		c.Status = ""
	}
	return c
}

func (g *G) Register() Cmd {
	r := g.R
	peer := g.peer()
	i := r.Intn(len(g.NodeNames))
	req := structs.RegisterRequest{Datacenter: "dc1", Node: g.NodeNames[i], Address: "10.0.0." + fmt.Sprint(1+i), PeerName: peer}
	switch r.Intn(10) {
	case 0, 1, 2, 3, 4:
		req.ID = NodeIDs[i]
	case 5:
		req.ID = core.Pick(r, NodeIDs) // rename by ID / id conflicts
	}
	if r.Chance(10) {
		req.Address = "10.0.9.9"
	}
	if r.Chance(15) {
		req.NodeMeta = map[string]string{"role": core.Pick(r, []string{"a", "b"})}
	}
	if r.Chance(10) {
		req.TaggedAddresses = map[string]string{"wan": "1.2.3.4"}
	}
	if r.Chance(15) {
		req.SkipNodeUpdate = true
	}
	var svc *structs.NodeService
	if r.Chance(70) {
		svc = g.nodeService(g.svc(), peer)
		req.Service = svc
	}
	nc := 4
	if g.Focus {
		nc = 2 // more checks, so sessions have something to bind to
	}
	switch r.Intn(nc) {
	case 0:
		req.Check = g.check(req.Node, svc, peer)
	case 1:
		n := 1 + r.Intn(2)
		for k := 0; k < n; k++ {
			req.Checks = append(req.Checks, g.check(req.Node, svc, peer))
		}
	}
	return mk(structs.RegisterRequestType, "register", &req)
}

func (g *G) Deregister() Cmd {
	r := g.R
	if g.Focus && g.peek != nil && r.Chance(80) {
		// deregister something that exists (local)
		if _, nodes, err := g.peek.Nodes(nil, nil, ""); err == nil && len(nodes) > 0 {
			n := nodes[r.Intn(len(nodes))]
			req := structs.DeregisterRequest{Datacenter: "dc1", Node: n.Node}
			switch r.Intn(5) {
			case 0, 1:
				if _, cs, err := g.peek.NodeChecks(nil, n.Node, nil, ""); err == nil && len(cs) > 0 {
					req.CheckID = cs[r.Intn(len(cs))].CheckID
					return mk(structs.DeregisterRequestType, "deregister:check", &req)
				}
			case 2, 3:
				if _, ns, err := g.peek.NodeServices(nil, n.Node, nil, ""); err == nil && ns != nil && len(ns.Services) > 0 {
					var ids []string
					for id := range ns.Services {
						ids = append(ids, id)
					}
					sort.Strings(ids)
					req.ServiceID = ids[r.Intn(len(ids))]
					return mk(structs.DeregisterRequestType, "deregister:service", &req)
				}
			}
			return mk(structs.DeregisterRequestType, "deregister:node", &req)
		}
	}
	req := structs.DeregisterRequest{Datacenter: "dc1", Node: g.node(), PeerName: g.peer()}
	cls := "deregister:node"
	switch r.Intn(3) {
	case 0:
		s := g.svc()
		req.ServiceID = core.Pick(r, []string{s, s + "-0", s + "-1", s + "-sidecar-proxy", "igw", "tgw"})
		cls = "deregister:service"
	case 1:
		req.CheckID = core.Pick(r, append(CheckIDs, "service:web-0", "service:web-sidecar-proxy"))
		cls = "deregister:check"
	}
	return mk(structs.DeregisterRequestType, cls, &req)
}

// ---------- KV / sessions ----------

func (g *G) kvIndex(s *state.Store, key string, idx uint64) uint64 {
	r := g.R
	switch r.Intn(5) {
	case 0:
		return 0
	case 1, 2:
		if s != nil {
			if _, e, _ := s.KVSGet(nil, key, nil); e != nil {
				return e.ModifyIndex
			}
		}
		return idx - 1
	case 3:
		if idx > 3 {
			return idx - 2 - uint64(r.Intn(3))
		}
		return 1
	}
	return idx + 7
}

func (g *G) sessionRef() string {
	id := g.sessionRef0()
	if g.UpperSessionIDs && g.R.Chance(15) {
		// session IDs are UUIDs; every session lookup parses them case-insensitively, so a client may spell them in upper case
		return strings.ToUpper(id)
	}
	return id
}

func (g *G) sessionRef0() string {
	if g.Focus && g.peek != nil && g.R.Chance(85) {
		if _, ss, err := g.peek.SessionList(nil, nil); err == nil && len(ss) > 0 {
			return ss[g.R.Intn(len(ss))].ID
		}
	}
	if len(g.Sessions) == 0 || g.R.Chance(10) {
		return uuid(9000 + g.R.Intn(3))
	}
	// prefer recent sessions
	n := len(g.Sessions)
	k := n - 1 - g.R.Intn(min(n, 4))
	return g.Sessions[k]
}

func (g *G) dirent(s *state.Store, verb api.KVOp, idx uint64) structs.DirEntry {
	r := g.R
	d := structs.DirEntry{Key: core.Pick(r, Keys), Flags: uint64(r.Intn(3))}
	if v := core.Pick(r, []string{"", "x", "y", "é\x00z"}); v != "" {
		d.Value = []byte(v)
	}
	switch verb {
	case api.KVCAS, api.KVDeleteCAS, api.KVCheckIndex:
		d.ModifyIndex = g.kvIndex(s, d.Key, idx)
	case api.KVLock, api.KVUnlock, api.KVCheckSession:
		d.Session = g.sessionRef()
	case api.KVSet:
		// a client echoing back an entry it read may leave the Session field filled in
		if r.Chance(15) {
			d.Session = g.sessionRef()
		}
	case api.KVDeleteTree, api.KVGetTree:
		d.Key = core.Pick(r, Prefixes)
	}
	return d
}

var kvVerbs = []api.KVOp{api.KVSet, api.KVSet, api.KVCAS, api.KVDelete, api.KVDeleteCAS, api.KVDeleteTree, api.KVLock, api.KVLock, api.KVUnlock}

func (g *G) KV(s *state.Store, idx uint64) Cmd {
	v := core.Pick(g.R, kvVerbs)
	req := structs.KVSRequest{Datacenter: "dc1", Op: v, DirEnt: g.dirent(s, v, idx)}
	return mk(structs.KVSRequestType, "kvs:"+string(v), &req)
}

func (g *G) SessionCreate() Cmd {
	r := g.R
	g.sessSeq++
	id := uuid(g.sessSeq)
	g.Sessions = append(g.Sessions, id)
	sess := structs.Session{ID: id, Node: g.node(), Behavior: core.Pick(r, []structs.SessionBehavior{structs.SessionKeysRelease, structs.SessionKeysRelease, structs.SessionKeysDelete})}
	if g.Focus && g.peek != nil && r.Chance(85) {
		// bind to checks that exist and are healthy on a registered node
		if _, nodes, err := g.peek.Nodes(nil, nil, ""); err == nil && len(nodes) > 0 {
			n := nodes[r.Intn(len(nodes))]
			sess.Node = n.Node
			if _, cs, err := g.peek.NodeChecks(nil, n.Node, nil, ""); err == nil {
				for _, c := range cs {
					if c.Status == api.HealthCritical || !r.Chance(60) {
						continue
					}
					if c.ServiceID != "" {
						sess.ServiceChecks = append(sess.ServiceChecks, structs.ServiceCheck{ID: string(c.CheckID)})
					} else {
						sess.NodeChecks = append(sess.NodeChecks, string(c.CheckID))
					}
				}
			}
		}
		if r.Chance(20) {
			sess.LockDelay = 15 * time.Second
		}
		req := structs.SessionRequest{Datacenter: "dc1", Op: structs.SessionCreate, Session: sess}
		return mk(structs.SessionRequestType, "session:create", &req)
	}
	if r.Chance(40) {
		sess.NodeChecks = []string{string(core.Pick(r, CheckIDs))}
	}
	if r.Chance(25) {
		s := g.svc()
		sess.ServiceChecks = []structs.ServiceCheck{{ID: "service:" + s}}
	}
	if r.Chance(10) {
		sess.Checks = []types.CheckID{core.Pick(r, CheckIDs)}
	}
	if r.Chance(20) {
		sess.LockDelay = 15 * time.Second
	}
	if r.Chance(20) {
		sess.TTL = "30s"
	}
	if r.Chance(3) {
		sess.Behavior = "bogus"
	}
	req := structs.SessionRequest{Datacenter: "dc1", Op: structs.SessionCreate, Session: sess}
	return mk(structs.SessionRequestType, "session:create", &req)
}

func (g *G) SessionDestroy() Cmd {
	req := structs.SessionRequest{Datacenter: "dc1", Op: structs.SessionDestroy, Session: structs.Session{ID: g.sessionRef()}}
	return mk(structs.SessionRequestType, "session:destroy", &req)
}

// ---------- transactions ----------

var txnKVVerbs = []api.KVOp{api.KVSet, api.KVCAS, api.KVDelete, api.KVDeleteCAS, api.KVDeleteTree, api.KVLock, api.KVUnlock, api.KVGet, api.KVGetOrEmpty, api.KVGetTree, api.KVCheckSession, api.KVCheckIndex, api.KVCheckNotExists}

func (g *G) TxnOp(s *state.Store, idx uint64) *structs.TxnOp {
	r := g.R
	switch r.Intn(10) {
	case 0, 1, 2, 3:
		v := core.Pick(r, txnKVVerbs)
		return &structs.TxnOp{KV: &structs.TxnKVOp{Verb: v, DirEnt: g.dirent(s, v, idx)}}
	case 4:
		v := core.Pick(r, []api.NodeOp{api.NodeGet, api.NodeSet, api.NodeCAS, api.NodeDelete, api.NodeDeleteCAS})
		i := r.Intn(len(g.NodeNames))
		n := structs.Node{Node: g.NodeNames[i], Address: "10.0.1." + fmt.Sprint(i), ID: NodeIDs[i], Datacenter: "dc1"}
		if r.Chance(20) {
			n.Meta = map[string]string{"t": "x"}
		}
		if v == api.NodeCAS || v == api.NodeDeleteCAS {
			n.ModifyIndex = g.someIndex(s, idx, func() uint64 {
				if s != nil {
					if _, e, _ := s.GetNode(n.Node, nil, ""); e != nil {
						return e.ModifyIndex
					}
				}
				return 0
			})
		}
		return &structs.TxnOp{Node: &structs.TxnNodeOp{Verb: v, Node: n}}
	case 5, 6:
		v := core.Pick(r, []api.ServiceOp{api.ServiceGet, api.ServiceSet, api.ServiceCAS, api.ServiceDelete, api.ServiceDeleteCAS})
		node := g.node()
		ns := g.nodeService(g.svc(), "")
		if v == api.ServiceCAS || v == api.ServiceDeleteCAS {
			ns.ModifyIndex = g.someIndex(s, idx, func() uint64 {
				if s != nil {
					if _, e, _ := s.NodeService(nil, node, ns.ID, nil, ""); e != nil {
						return e.ModifyIndex
					}
				}
				return 0
			})
		}
		return &structs.TxnOp{Service: &structs.TxnServiceOp{Verb: v, Node: node, Service: *ns}}
	case 7, 8:
		v := core.Pick(r, []api.CheckOp{api.CheckGet, api.CheckSet, api.CheckCAS, api.CheckDelete, api.CheckDeleteCAS})
		node := g.node()
		c := g.check(node, nil, "")
		if v == api.CheckCAS || v == api.CheckDeleteCAS {
			c.ModifyIndex = g.someIndex(s, idx, func() uint64 {
				if s != nil {
					if _, e, _ := s.NodeCheck(node, c.CheckID, nil, ""); e != nil {
						return e.ModifyIndex
					}
				}
				return 0
			})
		}
		return &structs.TxnOp{Check: &structs.TxnCheckOp{Verb: v, Check: *c}}
	default:
		return &structs.TxnOp{Session: &structs.TxnSessionOp{Verb: api.SessionDelete, Session: structs.Session{ID: g.sessionRef()}}}
	}
}

// someIndex picks an expected index: zero / current (via cur) / stale / future.
func (g *G) someIndex(s *state.Store, idx uint64, cur func() uint64) uint64 {
	switch g.R.Intn(6) {
	case 0:
		return 0
	case 1, 2, 3:
		if c := cur(); c != 0 {
			return c
		}
		return idx - 1
	case 4:
		if idx > 4 {
			return idx - 2 - uint64(g.R.Intn(2))
		}
		return 1
	}
	return idx + 9
}

func (g *G) Txn(s *state.Store, idx uint64) Cmd {
	n := 1 + g.R.Intn(5)
	var ops structs.TxnOps
	for i := 0; i < n; i++ {
		ops = append(ops, g.TxnOp(s, idx))
	}
	req := structs.TxnRequest{Datacenter: "dc1", Ops: ops}
	return mk(structs.TxnRequestType, "txn", &req)
}

// ---------- ACL ----------

var policyIDs = []string{uuid(101), uuid(102), uuid(103)}
var roleIDs = []string{uuid(201), uuid(202)}
var tokenIDs = []string{uuid(301), uuid(302), uuid(303)}
var ruleIDs = []string{uuid(401), uuid(402)}
var methodNames = []string{"m1", "m2"}

func (g *G) ACL(s *state.Store, idx uint64) Cmd {
	r := g.R
	switch r.Intn(12) {
	case 0:
		t := structs.ACLToken{AccessorID: uuid(300), SecretID: uuid(1300), Description: "boot", Policies: []structs.ACLTokenPolicyLink{{ID: structs.ACLPolicyGlobalManagementID}}}
		t.SetHash(true)
		req := structs.ACLTokenBootstrapRequest{Token: t, ResetIndex: uint64(r.Intn(3)) * (idx - 1)}
		return mk(structs.ACLBootstrapRequestType, "acl:bootstrap", &req)
	case 1, 2, 3:
		n := 1 + r.Intn(2)
		var toks structs.ACLTokens
		for i := 0; i < n; i++ {
			k := r.Intn(len(tokenIDs))
			t := &structs.ACLToken{AccessorID: tokenIDs[k], SecretID: uuid(1301 + k), Description: core.Pick(r, []string{"", "d"}), Local: r.Chance(20)}
			if r.Chance(60) {
				t.Policies = []structs.ACLTokenPolicyLink{{ID: core.Pick(r, policyIDs)}}
			}
			if r.Chance(30) {
				t.Roles = []structs.ACLTokenRoleLink{{ID: core.Pick(r, roleIDs)}}
			}
			if r.Chance(20) {
				t.ServiceIdentities = []*structs.ACLServiceIdentity{{ServiceName: g.svcPlain()}}
			}
			if r.Chance(10) {
				t.NodeIdentities = []*structs.ACLNodeIdentity{{NodeName: "n1", Datacenter: "dc1"}}
			}
			if r.Chance(10) {
				t.AuthMethod = core.Pick(r, methodNames)
			}
			if r.Chance(15) {
				e := time.Unix(1_900_000_000+int64(r.Intn(1000)), 0).UTC()
				t.ExpirationTime = &e
			}
			t.CreateTime = time.Unix(1_600_000_000+int64(r.Intn(100)), 0).UTC()
			if r.Chance(12) {
				t.CreateTime = time.Time{} // unset optional field
			}
			if r.Chance(10) {
				t.SecretID = uuid(1301) // secret clash
			}
			t.SetHash(true)
			toks = append(toks, t)
		}
		req := structs.ACLTokenBatchSetRequest{Tokens: toks, CAS: r.Chance(30), AllowMissingLinks: r.Chance(30), ProhibitUnprivileged: r.Chance(10), FromReplication: r.Chance(10)}
		if req.CAS {
			for _, t := range toks {
				t.ModifyIndex = g.someIndex(s, idx, func() uint64 {
					if s != nil {
						if _, e, _ := s.ACLTokenGetByAccessor(nil, t.AccessorID, nil); e != nil {
							return e.ModifyIndex
						}
					}
					return 0
				})
			}
		}
		return mk(structs.ACLTokenSetRequestType, "acl:token-set", &req)
	case 4:
		req := structs.ACLTokenBatchDeleteRequest{TokenIDs: []string{core.Pick(r, tokenIDs)}}
		return mk(structs.ACLTokenDeleteRequestType, "acl:token-delete", &req)
	case 5, 6:
		k := r.Intn(len(policyIDs))
		p := &structs.ACLPolicy{ID: policyIDs[k], Name: core.Pick(r, []string{"p" + fmt.Sprint(k), "p0"}), Rules: core.Pick(r, []string{`service "web" { policy = "read" }`, `key_prefix "" { policy = "write" }`, `node_prefix "" { policy = "read" }`})}
		if r.Chance(20) {
			p.Datacenters = []string{"dc1"}
		}
		p.SetHash(true)
		req := structs.ACLPolicyBatchSetRequest{Policies: structs.ACLPolicies{p}}
		return mk(structs.ACLPolicySetRequestType, "acl:policy-set", &req)
	case 7:
		req := structs.ACLPolicyBatchDeleteRequest{PolicyIDs: []string{core.Pick(r, policyIDs)}}
		return mk(structs.ACLPolicyDeleteRequestType, "acl:policy-delete", &req)
	case 8:
		k := r.Intn(len(roleIDs))
		ro := &structs.ACLRole{ID: roleIDs[k], Name: core.Pick(r, []string{"r" + fmt.Sprint(k), "r0"})}
		if r.Chance(70) {
			ro.Policies = []structs.ACLRolePolicyLink{{ID: core.Pick(r, policyIDs)}}
		}
		ro.SetHash(true)
		if r.Chance(40) {
			req := structs.ACLRoleBatchDeleteRequest{RoleIDs: []string{roleIDs[k]}}
			return mk(structs.ACLRoleDeleteRequestType, "acl:role-delete", &req)
		}
		req := structs.ACLRoleBatchSetRequest{Roles: structs.ACLRoles{ro}, AllowMissingLinks: r.Chance(30)}
		return mk(structs.ACLRoleSetRequestType, "acl:role-set", &req)
	case 9:
		k := r.Intn(len(ruleIDs))
		if r.Chance(35) {
			req := structs.ACLBindingRuleBatchDeleteRequest{BindingRuleIDs: []string{ruleIDs[k]}}
			return mk(structs.ACLBindingRuleDeleteRequestType, "acl:bindingrule-delete", &req)
		}
		br := &structs.ACLBindingRule{ID: ruleIDs[k], AuthMethod: core.Pick(r, methodNames), BindType: structs.BindingRuleBindTypeService, BindName: "web", Selector: core.Pick(r, []string{"", "serviceaccount.name==web"})}
		req := structs.ACLBindingRuleBatchSetRequest{BindingRules: structs.ACLBindingRules{br}}
		return mk(structs.ACLBindingRuleSetRequestType, "acl:bindingrule-set", &req)
	default:
		name := core.Pick(r, methodNames)
		if r.Chance(35) {
			req := structs.ACLAuthMethodBatchDeleteRequest{AuthMethodNames: []string{name}}
			return mk(structs.ACLAuthMethodDeleteRequestType, "acl:authmethod-delete", &req)
		}
		m := &structs.ACLAuthMethod{Name: name, Type: "jwt", Description: core.Pick(r, []string{"", "x"}), Config: map[string]interface{}{"k": "v"}}
		if r.Chance(30) {
			m.MaxTokenTTL = 5 * time.Minute
		}
		req := structs.ACLAuthMethodBatchSetRequest{AuthMethods: structs.ACLAuthMethods{m}}
		return mk(structs.ACLAuthMethodSetRequestType, "acl:authmethod-set", &req)
	}
}

func (g *G) svcPlain() string { return core.Pick(g.R, []string{"web", "db", "api"}) }

// ---------- config entries ----------

func (g *G) configEntry() structs.ConfigEntry {
	r := g.R
	name := g.svcPlain()
	switch r.Intn(12) {
	case 0, 1:
		e := &structs.ServiceConfigEntry{Kind: structs.ServiceDefaults, Name: name, Protocol: core.Pick(r, []string{"", "tcp", "http", "http", "grpc"})}
		if r.Chance(15) {
			e.Destination = &structs.DestinationConfig{Addresses: []string{core.Pick(r, []string{"example.com", "1.2.3.4"})}, Port: 443}
		}
		if r.Chance(15) {
			e.MeshGateway.Mode = structs.MeshGatewayModeLocal
		}
		return e
	case 2:
		e := &structs.ProxyConfigEntry{Kind: structs.ProxyDefaults, Name: structs.ProxyConfigGlobal, Config: map[string]interface{}{"protocol": core.Pick(r, []string{"tcp", "http"})}}
		return e
	case 3, 4:
		e := &structs.ServiceResolverConfigEntry{Kind: structs.ServiceResolver, Name: name}
		switch r.Intn(4) {
		case 0:
			e.Redirect = &structs.ServiceResolverRedirect{Service: g.svcPlain()}
		case 1:
			e.Subsets = map[string]structs.ServiceResolverSubset{"v1": {Filter: "Service.Meta.m == 1"}, "v2": {Filter: "Service.Meta.m == 2"}}
			e.DefaultSubset = core.Pick(r, []string{"", "v1"})
		case 2:
			e.Failover = map[string]structs.ServiceResolverFailover{"*": {Service: g.svcPlain()}}
		case 3:
			e.ConnectTimeout = 5 * time.Second
		}
		return e
	case 5:
		e := &structs.ServiceSplitterConfigEntry{Kind: structs.ServiceSplitter, Name: name, Splits: []structs.ServiceSplit{{Weight: 60, Service: g.svcPlain()}, {Weight: 40, Service: g.svcPlain()}}}
		return e
	case 6:
		e := &structs.ServiceRouterConfigEntry{Kind: structs.ServiceRouter, Name: name, Routes: []structs.ServiceRoute{{Match: &structs.ServiceRouteMatch{HTTP: &structs.ServiceRouteHTTPMatch{PathPrefix: "/x"}}, Destination: &structs.ServiceRouteDestination{Service: g.svcPlain()}}}}
		return e
	case 7:
		e := &structs.IngressGatewayConfigEntry{Kind: structs.IngressGateway, Name: "igw"}
		proto := core.Pick(r, []string{"tcp", "http"})
		l := structs.IngressListener{Port: 8080, Protocol: proto}
		if proto == "http" && r.Chance(50) {
			l.Services = []structs.IngressService{{Name: "*"}}
		} else {
			l.Services = []structs.IngressService{{Name: g.svcPlain()}}
			if proto == "http" && r.Chance(50) {
				l.Services = append(l.Services, structs.IngressService{Name: g.svcPlain(), Hosts: []string{"h.example"}})
			}
		}
		e.Listeners = []structs.IngressListener{l}
		return e
	case 8:
		e := &structs.TerminatingGatewayConfigEntry{Kind: structs.TerminatingGateway, Name: "tgw"}
		if r.Chance(40) {
			e.Services = []structs.LinkedService{{Name: "*"}}
		} else {
			e.Services = []structs.LinkedService{{Name: g.svcPlain()}}
		}
		if r.Chance(40) {
			e.Services = append(e.Services, structs.LinkedService{Name: core.Pick(r, []string{"api", "db"}), SNI: "sni.example"})
		}
		return e
	case 9:
		e := &structs.ServiceIntentionsConfigEntry{Kind: structs.ServiceIntentions, Name: core.Pick(r, []string{name, "*"})}
		n := 1 + r.Intn(2)
		seen := map[string]bool{}
		for i := 0; i < n; i++ {
			src := core.Pick(r, []string{"web", "db", "api", "*"})
			if seen[src] {
				continue
			}
			seen[src] = true
			si := &structs.SourceIntention{Name: src, Action: core.Pick(r, []structs.IntentionAction{structs.IntentionActionAllow, structs.IntentionActionDeny})}
			if r.Chance(15) {
				si.Peer = "peerA"
			}
			e.Sources = append(e.Sources, si)
		}
		return e
	case 10:
		e := &structs.ExportedServicesConfigEntry{Name: "default", Services: []structs.ExportedService{{Name: core.Pick(r, []string{name, "*"}), Consumers: []structs.ServiceConsumer{{Peer: core.Pick(r, []string{"peerA", "peerB"})}}}}}
		return e
	default:
		e := &structs.MeshConfigEntry{}
		if r.Chance(50) {
			e.TransparentProxy.MeshDestinationsOnly = true
		}
		return e
	}
}

func (g *G) Config(s *state.Store, idx uint64) (Cmd, bool) {
	r := g.R
	e := g.configEntry()
	if err := e.Normalize(); err != nil {
		return Cmd{}, false
	}
	if err := e.Validate(); err != nil {
		return Cmd{}, false
	}
	op := core.Pick(r, []structs.ConfigEntryOp{structs.ConfigEntryUpsert, structs.ConfigEntryUpsert, structs.ConfigEntryUpsert, structs.ConfigEntryUpsertCAS, structs.ConfigEntryDelete, structs.ConfigEntryDelete, structs.ConfigEntryDeleteCAS, structs.ConfigEntryUpsertWithStatusCAS})
	if op == structs.ConfigEntryUpsertCAS || op == structs.ConfigEntryDeleteCAS || op == structs.ConfigEntryUpsertWithStatusCAS {
		e.GetRaftIndex().ModifyIndex = g.someIndex(s, idx, func() uint64 {
			if s != nil {
				if _, cur, _ := s.ConfigEntry(nil, e.GetKind(), e.GetName(), e.GetEnterpriseMeta()); cur != nil {
					return cur.GetRaftIndex().ModifyIndex
				}
			}
			return 0
		})
	}
	req := structs.ConfigEntryRequest{Datacenter: "dc1", Op: op, Entry: e}
	return Cmd{Type: structs.ConfigEntryRequestType, Class: "config:" + string(op) + ":" + e.GetKind(),
		Desc: fmt.Sprintf("config:%s %s/%s %s", op, e.GetKind(), e.GetName(), core.JSON(e)), Bytes: enc(structs.ConfigEntryRequestType, &req)}, true
}

// ---------- intentions ----------

var ixnIDs = []string{uuid(501), uuid(502), uuid(503)}

func (g *G) Intention() Cmd {
	r := g.R
	if r.Chance(55) {
		// config-entry style mutation
		src := structs.NewServiceName(core.Pick(r, []string{"web", "db", "*"}), nil)
		dst := structs.NewServiceName(core.Pick(r, []string{"web", "db", "api", "*"}), nil)
		m := &structs.IntentionMutation{Source: src, Destination: dst}
		op := core.Pick(r, []structs.IntentionOp{structs.IntentionOpUpsert, structs.IntentionOpUpsert, structs.IntentionOpDelete, structs.IntentionOpCreate, structs.IntentionOpUpdate})
		if op != structs.IntentionOpDelete {
			m.Value = &structs.SourceIntention{Name: src.Name, Action: core.Pick(r, []structs.IntentionAction{structs.IntentionActionAllow, structs.IntentionActionDeny}), Precedence: 9, Type: structs.IntentionSourceConsul}
			if op != structs.IntentionOpUpsert {
				m.ID = core.Pick(r, ixnIDs)
				m.Value.LegacyID = m.ID
			}
		}
		req := structs.IntentionRequest{Datacenter: "dc1", Op: op, Mutation: m}
		return mk(structs.IntentionRequestType, "intention:mutation:"+string(op), &req)
	}
	op := core.Pick(r, []structs.IntentionOp{structs.IntentionOpCreate, structs.IntentionOpCreate, structs.IntentionOpUpdate, structs.IntentionOpDelete, structs.IntentionOpDeleteAll})
	ixn := &structs.Intention{ID: core.Pick(r, ixnIDs), SourceNS: "default", SourceName: core.Pick(r, []string{"web", "db", "*"}), DestinationNS: "default", DestinationName: core.Pick(r, []string{"web", "db", "*"}),
		Action: core.Pick(r, []structs.IntentionAction{structs.IntentionActionAllow, structs.IntentionActionDeny}), SourceType: structs.IntentionSourceConsul,
		CreatedAt: time.Unix(1_600_000_000, 0).UTC(), UpdatedAt: time.Unix(1_600_000_100, 0).UTC()}
	if r.Chance(12) {
		ixn.CreatedAt, ixn.UpdatedAt = time.Time{}, time.Time{} // unset optional fields
	}
	//nolint:staticcheck
	ixn.UpdatePrecedence()
	//nolint:staticcheck
	ixn.SetHash()
	req := structs.IntentionRequest{Datacenter: "dc1", Op: op, Intention: ixn}
	return mk(structs.IntentionRequestType, "intention:legacy:"+string(op), &req)
}

// ---------- CA ----------

func (g *G) CA(s *state.Store, idx uint64) Cmd {
	r := g.R
	root := func(k int, active bool) *structs.CARoot {
		return &structs.CARoot{ID: fmt.Sprintf("root-%d", k), Name: "r", RootCert: fmt.Sprintf("cert-%d", k), SigningKeyID: fmt.Sprintf("k%d", k), Active: active,
			NotBefore: time.Unix(1_600_000_000, 0).UTC(), NotAfter: time.Unix(1_900_000_000, 0).UTC()}
	}
	cfg := func() *structs.CAConfiguration {
		return &structs.CAConfiguration{ClusterID: uuid(600), Provider: core.Pick(r, []string{"consul", "vault"}), Config: map[string]interface{}{"LeafCertTTL": core.Pick(r, []string{"72h", "48h"})}}
	}
	rootsIdx := func() uint64 {
		return g.someIndex(s, idx, func() uint64 {
			if s != nil {
				i, _, _ := s.CARoots(nil)
				return i
			}
			return 0
		})
	}
	cfgIdx := func() uint64 {
		return g.someIndex(s, idx, func() uint64 {
			if s != nil {
				if _, c, _ := s.CAConfig(nil); c != nil {
					return c.ModifyIndex
				}
			}
			return 0
		})
	}
	roots := func() []*structs.CARoot {
		k := r.Intn(3)
		out := []*structs.CARoot{root(k, true)}
		if r.Chance(40) {
			out = append(out, root((k+1)%3, r.Chance(10)))
		}
		return out
	}
	switch r.Intn(8) {
	case 0, 1:
		c := cfg()
		if r.Chance(50) {
			c.ModifyIndex = cfgIdx()
		}
		req := structs.CARequest{Op: structs.CAOpSetConfig, Datacenter: "dc1", Config: c}
		return mk(structs.ConnectCARequestType, "ca:set-config", &req)
	case 2, 3:
		req := structs.CARequest{Op: structs.CAOpSetRoots, Datacenter: "dc1", Index: rootsIdx(), Roots: roots()}
		return mk(structs.ConnectCARequestType, "ca:set-roots", &req)
	case 4:
		c := cfg()
		c.ModifyIndex = cfgIdx()
		req := structs.CARequest{Op: structs.CAOpSetRootsAndConfig, Datacenter: "dc1", Index: rootsIdx(), Roots: roots(), Config: c}
		return mk(structs.ConnectCARequestType, "ca:set-roots-and-config", &req)
	case 5:
		ps := &structs.CAConsulProviderState{ID: core.Pick(r, []string{"ps1", "ps2"}), PrivateKey: "k", RootCert: "c"}
		op := core.Pick(r, []structs.CAOp{structs.CAOpSetProviderState, structs.CAOpSetProviderState, structs.CAOpDeleteProviderState})
		req := structs.CARequest{Op: op, Datacenter: "dc1", ProviderState: ps}
		return mk(structs.ConnectCARequestType, "ca:"+string(op), &req)
	case 6:
		req := structs.CARequest{Op: structs.CAOpIncrementProviderSerialNumber, Datacenter: "dc1"}
		return mk(structs.ConnectCARequestType, "ca:increment-serial", &req)
	default:
		req := structs.CALeafRequest{Op: structs.CALeafOpIncrementIndex, Datacenter: "dc1"}
		return mk(structs.ConnectCALeafRequestType, "ca:leaf-index", &req)
	}
}

// ---------- peering ----------

var peerIDs = map[string]string{"peerA": uuid(701), "peerB": uuid(702)}

func (g *G) Peering() Cmd {
	r := g.R
	name := core.Pick(r, []string{"peerA", "peerB"})
	switch r.Intn(8) {
	case 0, 1, 2:
		p := &pbpeering.Peering{ID: peerIDs[name], Name: name, State: core.Pick(r, []pbpeering.PeeringState{pbpeering.PeeringState_PENDING, pbpeering.PeeringState_ESTABLISHING, pbpeering.PeeringState_ACTIVE}), PeerServerName: "srv." + name}
		// NOTE: an ID that belongs to a peering of a DIFFERENT name is never generated: the endpoints
		// cannot produce it, and state.PeeringWrite dereferences a nil `existing` on that path
		// (peering.go "A peering already exists with the ID" message) - an incidental observation
		// outside the given properties (the panic is deterministic across replicas).
		if r.Chance(30) {
			p.Meta = map[string]string{"k": "v"}
		}
		if r.Chance(40) {
			p.PeerID = uuid(750)
			p.PeerServerAddresses = []string{"1.2.3.4:8502"}
		}
		req := &pbpeering.PeeringWriteRequest{Peering: p}
		if r.Chance(40) {
			req.SecretsRequest = &pbpeering.SecretsWriteRequest{PeerID: p.ID, Request: &pbpeering.SecretsWriteRequest_GenerateToken{GenerateToken: &pbpeering.SecretsWriteRequest_GenerateTokenRequest{EstablishmentSecret: uuid(760 + r.Intn(2))}}}
		}
		return Cmd{Type: structs.PeeringWriteType, Class: "peering:write", Desc: "peering:write " + core.JSON(req), Bytes: encPB(structs.PeeringWriteType, req)}
	case 3:
		req := &pbpeering.PeeringDeleteRequest{Name: name}
		return Cmd{Type: structs.PeeringDeleteType, Class: "peering:delete", Desc: "peering:delete " + name, Bytes: encPB(structs.PeeringDeleteType, req)}
	case 4:
		req := &pbpeering.PeeringTerminateByIDRequest{ID: peerIDs[name]}
		return Cmd{Type: structs.PeeringTerminateByIDType, Class: "peering:terminate", Desc: "peering:terminate " + name, Bytes: encPB(structs.PeeringTerminateByIDType, req)}
	case 5:
		req := &pbpeering.PeeringTrustBundleWriteRequest{PeeringTrustBundle: &pbpeering.PeeringTrustBundle{PeerName: name, TrustDomain: name + ".consul", RootPEMs: []string{"pem-" + fmt.Sprint(r.Intn(2))}}}
		return Cmd{Type: structs.PeeringTrustBundleWriteType, Class: "peering:bundle-write", Desc: "peering:bundle-write " + core.JSON(req), Bytes: encPB(structs.PeeringTrustBundleWriteType, req)}
	case 6:
		req := &pbpeering.PeeringTrustBundleDeleteRequest{Name: name}
		return Cmd{Type: structs.PeeringTrustBundleDeleteType, Class: "peering:bundle-delete", Desc: "peering:bundle-delete " + name, Bytes: encPB(structs.PeeringTrustBundleDeleteType, req)}
	default:
		req := &pbpeering.SecretsWriteRequest{PeerID: peerIDs[name], Request: &pbpeering.SecretsWriteRequest_GenerateToken{GenerateToken: &pbpeering.SecretsWriteRequest_GenerateTokenRequest{EstablishmentSecret: uuid(770 + r.Intn(2))}}}
		return Cmd{Type: structs.PeeringSecretsWriteType, Class: "peering:secrets", Desc: "peering:secrets " + core.JSON(req), Bytes: encPB(structs.PeeringSecretsWriteType, req)}
	}
}

// ---------- prepared queries, coordinates, autopilot, sysmeta, federation, vips, reap ----------

var queryIDs = []string{uuid(801), uuid(802), uuid(803)}

func (g *G) Query() Cmd {
	r := g.R
	op := core.Pick(r, []structs.PreparedQueryOp{structs.PreparedQueryCreate, structs.PreparedQueryCreate, structs.PreparedQueryUpdate, structs.PreparedQueryDelete})
	q := &structs.PreparedQuery{ID: core.Pick(r, queryIDs), Name: core.Pick(r, []string{"", "q1", "q2"}), Service: structs.ServiceQuery{Service: g.svcPlain()}}
	if r.Chance(40) || (g.SharedQuerySessions && r.Chance(50)) {
		q.Session = g.sessionRef()
		if g.SharedQuerySessions && g.lastQuerySession != "" && r.Chance(50) {
			q.Session = g.lastQuerySession // several queries bound to one session
		}
		g.lastQuerySession = q.Session
	}
	if r.Chance(15) {
		q.Template = structs.QueryTemplateOptions{Type: structs.QueryTemplateTypeNamePrefixMatch}
	}
	req := structs.PreparedQueryRequest{Datacenter: "dc1", Op: op, Query: q}
	return mk(structs.PreparedQueryRequestType, "query:"+string(op), &req)
}

func (g *G) Coord() Cmd {
	r := g.R
	n := 1 + r.Intn(3)
	var cs structs.Coordinates
	for i := 0; i < n; i++ {
		c := coordinate.NewCoordinate(coordinate.DefaultConfig())
		c.Vec[0] = float64(r.Intn(100)) / 10
		c.Height = float64(1+r.Intn(9)) / 1000
		cs = append(cs, &structs.Coordinate{Node: g.node(), Segment: core.Pick(r, []string{"", "", "seg1"}), Coord: c})
	}
	return mk(structs.CoordinateBatchUpdateType, "coordinate", cs)
}

func (g *G) Autopilot(s *state.Store, idx uint64) Cmd {
	r := g.R
	cfg := structs.AutopilotConfig{CleanupDeadServers: r.Bool(), MaxTrailingLogs: uint64(100 + r.Intn(3)), LastContactThreshold: 200 * time.Millisecond}
	req := structs.AutopilotSetConfigRequest{Datacenter: "dc1", Config: cfg, CAS: r.Chance(50)}
	if req.CAS {
		req.Config.ModifyIndex = g.someIndex(s, idx, func() uint64 {
			if s != nil {
				if _, c, _ := s.AutopilotConfig(); c != nil {
					return c.ModifyIndex
				}
			}
			return 0
		})
	}
	return mk(structs.AutopilotRequestType, "autopilot", &req)
}

func (g *G) SysMeta() Cmd {
	r := g.R
	key := core.Pick(r, []string{structs.SystemMetadataVirtualIPsEnabled, structs.SystemMetadataTermGatewayVirtualIPsEnabled, structs.SystemMetadataIntentionFormatKey, "custom"})
	val := "true"
	if key == structs.SystemMetadataIntentionFormatKey {
		val = core.Pick(r, []string{structs.SystemMetadataIntentionFormatConfigValue, structs.SystemMetadataIntentionFormatLegacyValue})
	}
	op := structs.SystemMetadataUpsert
	if r.Chance(12) {
		op = structs.SystemMetadataDelete
	}
	req := structs.SystemMetadataRequest{Datacenter: "dc1", Op: op, Entry: &structs.SystemMetadataEntry{Key: key, Value: val}}
	return mk(structs.SystemMetadataRequestType, "sysmeta:"+string(op)+":"+key, &req)
}

func (g *G) Fed() Cmd {
	r := g.R
	dc := core.Pick(r, DCs)
	if r.Chance(30) {
		req := structs.FederationStateRequest{Datacenter: "dc1", Op: structs.FederationStateDelete, State: &structs.FederationState{Datacenter: dc}}
		return mk(structs.FederationStateRequestType, "fedstate:delete", &req)
	}
	fs := &structs.FederationState{Datacenter: dc, UpdatedAt: time.Unix(1_600_000_000+int64(r.Intn(50)), 0).UTC(),
		MeshGateways: structs.CheckServiceNodes{{Node: &structs.Node{Node: "gw", Address: "9.9.9.9"}, Service: &structs.NodeService{Kind: structs.ServiceKindMeshGateway, ID: "mgw", Service: "mgw", Port: 443}}}}
	if r.Chance(25) {
		// optional fields left unset: the value every replica stores must still come from the command
		fs.UpdatedAt = time.Time{}
	}
	req := structs.FederationStateRequest{Datacenter: "dc1", Op: structs.FederationStateUpsert, State: fs}
	return mk(structs.FederationStateRequestType, "fedstate:upsert", &req)
}

func (g *G) VIP() Cmd {
	r := g.R
	n := r.Intn(3)
	var ips []string
	for i := 0; i < n; i++ {
		ips = append(ips, core.Pick(r, []string{"7.7.7.1", "7.7.7.2", "7.7.7.3"}))
	}
	req := state.ServiceVirtualIP{Service: structs.PeeredServiceName{ServiceName: structs.NewServiceName(g.svcPlain(), nil), Peer: core.Pick(r, []string{"", "", "peerA"})}, ManualIPs: ips}
	return mk(structs.UpdateVirtualIPRequestType, "manual-vips", &req)
}

func (g *G) Reap(idx uint64) Cmd {
	req := structs.TombstoneRequest{Datacenter: "dc1", Op: structs.TombstoneReap, ReapIndex: uint64(g.R.Intn(int(idx) + 3))}
	return mk(structs.TombstoneRequestType, "tombstone-reap", &req)
}

func (g *G) Feature(s *state.Store, idx uint64) (Cmd, bool) {
	return Cmd{}, false // feature-gate requests need endpoint-built payloads; covered by C10 directly
}

// Next generates the next command for log index idx; s (may be nil) is peeked for current indexes.
func (g *G) Next(s *state.Store, idx uint64) Cmd {
	g.peek = s
	w := g.W
	type fam struct {
		w int
		f func() (Cmd, bool)
	}
	ok := func(c Cmd) (Cmd, bool) { return c, true }
	fams := []fam{
		{w.Catalog, func() (Cmd, bool) {
			if g.R.Chance(72) {
				return ok(g.Register())
			}
			return ok(g.Deregister())
		}},
		{w.KV, func() (Cmd, bool) { return ok(g.KV(s, idx)) }},
		{w.Session, func() (Cmd, bool) {
			pc := 60
			if g.Focus {
				pc = 85
			}
			if g.R.Chance(pc) {
				return ok(g.SessionCreate())
			}
			return ok(g.SessionDestroy())
		}},
		{w.Txn, func() (Cmd, bool) { return ok(g.Txn(s, idx)) }},
		{w.ACL, func() (Cmd, bool) { return ok(g.ACL(s, idx)) }},
		{w.Config, func() (Cmd, bool) { return g.Config(s, idx) }},
		{w.Intention, func() (Cmd, bool) { return ok(g.Intention()) }},
		{w.CA, func() (Cmd, bool) { return ok(g.CA(s, idx)) }},
		{w.Peering, func() (Cmd, bool) { return ok(g.Peering()) }},
		{w.Query, func() (Cmd, bool) { return ok(g.Query()) }},
		{w.Coord, func() (Cmd, bool) { return ok(g.Coord()) }},
		{w.Autopilot, func() (Cmd, bool) { return ok(g.Autopilot(s, idx)) }},
		{w.SysMeta, func() (Cmd, bool) { return ok(g.SysMeta()) }},
		{w.Fed, func() (Cmd, bool) { return ok(g.Fed()) }},
		{w.VIP, func() (Cmd, bool) { return ok(g.VIP()) }},
		{w.Reap, func() (Cmd, bool) { return ok(g.Reap(idx)) }},
	}
	total := 0
	for _, f := range fams {
		total += f.w
	}
	for tries := 0; tries < 50; tries++ {
		k := g.R.Intn(total)
		for _, f := range fams {
			if k < f.w {
				if c, good := f.f(); good {
					return c
				}
				break
			}
			k -= f.w
		}
	}
	return g.Register()
}

// VIPPrelude returns the system-metadata writes that switch on virtual-IP allocation (what a
// leader does once all servers support it).
func VIPPrelude() []Cmd {
	var out []Cmd
	for _, k := range []string{structs.SystemMetadataVirtualIPsEnabled, structs.SystemMetadataTermGatewayVirtualIPsEnabled} {
		req := structs.SystemMetadataRequest{Datacenter: "dc1", Op: structs.SystemMetadataUpsert, Entry: &structs.SystemMetadataEntry{Key: k, Value: "true"}}
		out = append(out, mk(structs.SystemMetadataRequestType, "sysmeta:upsert:"+k, &req))
	}
	return out
}

// GatewayPrelude: virtual-IP flags, a terminating-gateway config entry linking two services and a
// registered instance of that gateway - the situation in which the gateway advertises one virtual IP
// per linked service.
func GatewayPrelude() []Cmd {
	out := VIPPrelude()
	e := &structs.TerminatingGatewayConfigEntry{Kind: structs.TerminatingGateway, Name: "tgw", Services: []structs.LinkedService{{Name: "web"}, {Name: "db"}}}
	e.Normalize()
	creq := structs.ConfigEntryRequest{Datacenter: "dc1", Op: structs.ConfigEntryUpsert, Entry: e}
	out = append(out, Cmd{Type: structs.ConfigEntryRequestType, Class: "config:upsert:terminating-gateway", Desc: "config:upsert terminating-gateway/tgw " + core.JSON(e), Bytes: enc(structs.ConfigEntryRequestType, &creq)})
	reg := structs.RegisterRequest{Datacenter: "dc1", Node: "n2", Address: "10.0.0.2", Service: &structs.NodeService{Kind: structs.ServiceKindTerminatingGateway, ID: "tgw", Service: "tgw", Port: 8443}}
	out = append(out, mk(structs.RegisterRequestType, "register", &reg))
	return out
}

// LockDelayScenario: a session with a very short lock-delay holds a key and is destroyed; another live
// session then tries to take the lock directly and inside a transaction. Whether those commands are
// accepted must not depend on how long ago THIS replica applied the destroy (the lock-delay map is
// deliberately un-replicated and is consulted by the leader's endpoint only, never by the FSM).
func LockDelayScenario() []Cmd {
	s1, s2 := uuid(9101), uuid(9102)
	reg := structs.RegisterRequest{Datacenter: "dc1", Node: "n1", Address: "10.0.0.1"}
	mkSess := func(id string) Cmd {
		return mk(structs.SessionRequestType, "session:create", &structs.SessionRequest{Datacenter: "dc1", Op: structs.SessionCreate,
			Session: structs.Session{ID: id, Node: "n1", LockDelay: 5 * time.Millisecond, Behavior: structs.SessionKeysRelease}})
	}
	lock := func(id string) Cmd {
		return mk(structs.KVSRequestType, "kvs:lock", &structs.KVSRequest{Datacenter: "dc1", Op: api.KVLock, DirEnt: structs.DirEntry{Key: "a", Value: []byte("x"), Session: id}})
	}
	destroy := mk(structs.SessionRequestType, "session:destroy", &structs.SessionRequest{Datacenter: "dc1", Op: structs.SessionDestroy, Session: structs.Session{ID: s1}})
	txn := mk(structs.TxnRequestType, "txn", &structs.TxnRequest{Datacenter: "dc1", Ops: structs.TxnOps{{KV: &structs.TxnKVOp{Verb: api.KVLock, DirEnt: structs.DirEntry{Key: "a", Value: []byte("y"), Session: s2}}}}})
	unlock := mk(structs.KVSRequestType, "kvs:unlock", &structs.KVSRequest{Datacenter: "dc1", Op: api.KVUnlock, DirEnt: structs.DirEntry{Key: "a", Session: s2}})
	return []Cmd{mk(structs.RegisterRequestType, "register", &reg), mkSess(s1), mkSess(s2), lock(s1), destroy, txn, unlock, lock(s2)}
}

// GatewayShrinkScenario: a terminating gateway links several services that have nothing else in the
// catalog (their virtual IP hangs on the gateway alone); the entry is then rewritten several times so
// that two or more services drop out in ONE write and new ones come in (each needing a virtual IP from
// the free list or the counter). Which addresses end up free / assigned must not depend on any
// iteration order inside one replica.
func GatewayShrinkScenario(r *core.Rand) []Cmd {
	out := VIPPrelude()
	write := func(names []string) {
		e := &structs.TerminatingGatewayConfigEntry{Kind: structs.TerminatingGateway, Name: "tgw"}
		for _, n := range names {
			e.Services = append(e.Services, structs.LinkedService{Name: n})
		}
		e.Normalize()
		creq := structs.ConfigEntryRequest{Datacenter: "dc1", Op: structs.ConfigEntryUpsert, Entry: e}
		out = append(out, Cmd{Type: structs.ConfigEntryRequestType, Class: "config:upsert:terminating-gateway", Desc: "config:upsert terminating-gateway/tgw " + core.JSON(e), Bytes: enc(structs.ConfigEntryRequestType, &creq)})
	}
	n := 0
	fresh := func(k int) []string {
		var s []string
		for i := 0; i < k; i++ {
			n++
			s = append(s, fmt.Sprintf("ext%d", n))
		}
		return s
	}
	cur := fresh(5)
	write(cur)
	for round := 0; round < 4; round++ {
		keep := cur[:1+r.Intn(2)] // drops 3 or more at once
		write(keep)
		cur = append(append([]string{}, keep...), fresh(5-len(keep))...)
		write(cur)
	}
	return out
}

// PeeringSecretsScenario: the life cycle of the secrets of an accepting-side peering, as the peering
// endpoints drive it: token generated (establishment secret E1), exchanged for a pending stream secret
// S1, S1 promoted to active, then a ROTATION: a new token (E2), exchanged for pending S2 while S1 is
// still active - at that point (returned as `mid`) the peering holds a pending AND an active stream
// secret - then S2 promoted, and finally the peering marked for deletion and deleted.
func PeeringSecretsScenario() (cmds []Cmd, mid int) {
	id := peerIDs["peerA"]
	e1, s1, e2, s2 := uuid(9201), uuid(9202), uuid(9203), uuid(9204)
	sec := func(class string, req *pbpeering.SecretsWriteRequest) Cmd {
		return Cmd{Type: structs.PeeringSecretsWriteType, Class: "peering:secrets:" + class, Desc: "peering:secrets:" + class + " " + core.JSON(req), Bytes: encPB(structs.PeeringSecretsWriteType, req)}
	}
	gen := func(e string) *pbpeering.SecretsWriteRequest {
		return &pbpeering.SecretsWriteRequest{PeerID: id, Request: &pbpeering.SecretsWriteRequest_GenerateToken{GenerateToken: &pbpeering.SecretsWriteRequest_GenerateTokenRequest{EstablishmentSecret: e}}}
	}
	exch := func(e, s string) *pbpeering.SecretsWriteRequest {
		return &pbpeering.SecretsWriteRequest{PeerID: id, Request: &pbpeering.SecretsWriteRequest_ExchangeSecret{ExchangeSecret: &pbpeering.SecretsWriteRequest_ExchangeSecretRequest{EstablishmentSecret: e, PendingStreamSecret: s}}}
	}
	promote := func(s string) *pbpeering.SecretsWriteRequest {
		return &pbpeering.SecretsWriteRequest{PeerID: id, Request: &pbpeering.SecretsWriteRequest_PromotePending{PromotePending: &pbpeering.SecretsWriteRequest_PromotePendingRequest{ActiveStreamSecret: s}}}
	}
	pw := func(state pbpeering.PeeringState, secrets *pbpeering.SecretsWriteRequest) Cmd {
		req := &pbpeering.PeeringWriteRequest{Peering: &pbpeering.Peering{ID: id, Name: "peerA", State: state}, SecretsRequest: secrets}
		if state == pbpeering.PeeringState_DELETING {
			req.Peering.DeletedAt = timestamppb.New(time.Unix(1600000000, 0))
		}
		return Cmd{Type: structs.PeeringWriteType, Class: "peering:write", Desc: "peering:write " + core.JSON(req), Bytes: encPB(structs.PeeringWriteType, req)}
	}
	cmds = []Cmd{
		pw(pbpeering.PeeringState_PENDING, gen(e1)),
		sec("exchange", exch(e1, s1)),
		sec("promote", promote(s1)),
		sec("generate", gen(e2)),
		sec("exchange", exch(e2, s2)),
	}
	mid = len(cmds)
	del := &pbpeering.PeeringDeleteRequest{Name: "peerA"}
	cmds = append(cmds,
		sec("promote", promote(s2)),
		pw(pbpeering.PeeringState_DELETING, nil),
		Cmd{Type: structs.PeeringDeleteType, Class: "peering:delete", Desc: "peering:delete peerA", Bytes: encPB(structs.PeeringDeleteType, del)},
	)
	return cmds, mid
}

// TokenExpiryScenario: a token whose expiration time lies `in` from NOW (wall clock of the moment the
// log is generated) is created and then updated several times. The replica that generates the log
// applies it at once (before the expiry); replicas that apply the same bytes later do so after the
// token has expired. What an already committed command does must not depend on that.
// (The only wall-clock dependent INPUT of a generated log; no verdict depends on the clock.)
func TokenExpiryScenario(in time.Duration) []Cmd {
	exp := time.Now().Add(in).UTC()
	mkTok := func(desc string, pol bool) Cmd {
		t := &structs.ACLToken{AccessorID: uuid(9301), SecretID: uuid(9302), Description: desc, ExpirationTime: &exp, CreateTime: time.Unix(1_600_000_000, 0).UTC()}
		if pol {
			t.ServiceIdentities = []*structs.ACLServiceIdentity{{ServiceName: "web"}}
		}
		t.SetHash(true)
		req := structs.ACLTokenBatchSetRequest{Tokens: structs.ACLTokens{t}}
		return mk(structs.ACLTokenSetRequestType, "acl:token-set", &req)
	}
	del := structs.ACLTokenBatchDeleteRequest{TokenIDs: []string{uuid(9301)}}
	return []Cmd{mkTok("created", false), mkTok("updated before expiry", false), mkTok("identity added", true), mk(structs.ACLTokenDeleteRequestType, "acl:token-delete", &del), mkTok("re-created", false)}
}

// GatewayOrderScenario: a short PRNG sequence over a tiny universe that varies the ORDER of the writes
// the gateway-services table is derived from: service-defaults (with / without a destination) before or
// after the gateway entry, gateway entries that list a service on its own (with TLS / hosts settings)
// before or after a wildcard in the same entry, instances (plain / connect-native / sidecar) registered
// before or after, and removals of each. The derived table must not depend on that order.
func GatewayOrderScenario(r *core.Rand) []Cmd {
	out := VIPPrelude()
	names := []string{"web", "ext", "Web2"}
	cfg := func(op structs.ConfigEntryOp, e structs.ConfigEntry) {
		if err := e.Normalize(); err != nil {
			return
		}
		if err := e.Validate(); err != nil {
			return
		}
		req := structs.ConfigEntryRequest{Datacenter: "dc1", Op: op, Entry: e}
		out = append(out, Cmd{Type: structs.ConfigEntryRequestType, Class: "config:" + string(op) + ":" + e.GetKind(), Desc: fmt.Sprintf("config:%s %s/%s %s", op, e.GetKind(), e.GetName(), core.JSON(e)), Bytes: enc(structs.ConfigEntryRequestType, &req)})
	}
	n := 10 + r.Intn(8)
	for i := 0; i < n; i++ {
		x := core.Pick(r, names)
		switch r.Intn(9) {
		case 0, 1:
			e := &structs.ServiceConfigEntry{Kind: structs.ServiceDefaults, Name: x, Protocol: "tcp"}
			if r.Chance(65) {
				e.Destination = &structs.DestinationConfig{Addresses: []string{"example.com"}, Port: 443}
			}
			cfg(structs.ConfigEntryUpsert, e)
		case 2:
			cfg(structs.ConfigEntryDelete, &structs.ServiceConfigEntry{Kind: structs.ServiceDefaults, Name: x})
		case 3, 4:
			own := structs.LinkedService{Name: x, CAFile: "/etc/" + x + "/ca.pem", SNI: x + ".example.com"}
			wild := structs.LinkedService{Name: "*"}
			if r.Chance(30) {
				wild.CAFile = "/etc/wild/ca.pem"
			}
			e := &structs.TerminatingGatewayConfigEntry{Kind: structs.TerminatingGateway, Name: "tgw"}
			switch r.Intn(5) {
			case 0:
				e.Services = []structs.LinkedService{own}
			case 1:
				e.Services = []structs.LinkedService{wild}
			case 2:
				e.Services = []structs.LinkedService{own, wild}
			case 3:
				e.Services = []structs.LinkedService{wild, own}
			default:
				e.Services = []structs.LinkedService{{Name: names[0], SNI: "a.example.com"}, wild, {Name: names[1]}}
			}
			cfg(structs.ConfigEntryUpsert, e)
		case 5:
			own := structs.IngressService{Name: x, Hosts: []string{x + ".ingress.example"}}
			wild := structs.IngressService{Name: "*"}
			l := structs.IngressListener{Port: 8080, Protocol: "http"}
			switch r.Intn(4) {
			case 0:
				l.Services = []structs.IngressService{own}
			case 1:
				l.Services = []structs.IngressService{wild}
			case 2:
				l.Services = []structs.IngressService{own, wild}
			default:
				l.Services = []structs.IngressService{wild, own}
			}
			cfg(structs.ConfigEntryUpsert, &structs.ProxyConfigEntry{Kind: structs.ProxyDefaults, Name: structs.ProxyConfigGlobal, Config: map[string]interface{}{"protocol": "http"}})
			cfg(structs.ConfigEntryUpsert, &structs.IngressGatewayConfigEntry{Kind: structs.IngressGateway, Name: "igw", Listeners: []structs.IngressListener{l}})
		case 6, 7:
			ns := &structs.NodeService{ID: x, Service: x, Port: 8000}
			switch r.Intn(3) {
			case 0:
				ns.Connect.Native = true
			case 1:
				ns = &structs.NodeService{Kind: structs.ServiceKindConnectProxy, ID: x + "-sidecar-proxy", Service: x + "-sidecar-proxy", Port: 8001, Proxy: structs.ConnectProxyConfig{DestinationServiceName: x, DestinationServiceID: x}}
			}
			reg := structs.RegisterRequest{Datacenter: "dc1", Node: "n1", Address: "10.0.0.1", Service: ns}
			out = append(out, mk(structs.RegisterRequestType, "register", &reg))
		default:
			id := x
			if r.Chance(40) {
				id = x + "-sidecar-proxy"
			}
			dr := structs.DeregisterRequest{Datacenter: "dc1", Node: "n1", ServiceID: id}
			out = append(out, mk(structs.DeregisterRequestType, "deregister:service", &dr))
		}
	}
	return out
}
