// Package dump renders a *state.Store (all memdb tables incl. the index table) into a canonical,
// deterministic, diffable form. Written independently of consul's own persisters.
package dump

import (
	"crypto/sha256"
	"encoding/hex"
	"fmt"
	"reflect"
	"sort"
	"strconv"
	"strings"
	"time"
	"unsafe"

	"github.com/hashicorp/consul/agent/consul/state"
)

type Dump struct {
	Tables map[string][]string // table -> rows in primary index order, rendered
}

// Render renders any value canonically (maps sorted, pointers followed, times as UnixNano).
func Render(v any) string {
	var sb strings.Builder
	render(&sb, reflect.ValueOf(v), 0)
	return sb.String()
}

var timeType = reflect.TypeOf(time.Time{})

func addressable(v reflect.Value) reflect.Value {
	if v.CanAddr() {
		return v
	}
	n := reflect.New(v.Type()).Elem()
	if v.CanInterface() {
		n.Set(v)
		return n
	}
	return v
}

func render(sb *strings.Builder, v reflect.Value, depth int) {
	if depth > 40 {
		sb.WriteString("<deep>")
		return
	}
	if !v.IsValid() {
		sb.WriteString("nil")
		return
	}
	switch v.Kind() {
	case reflect.Ptr:
		if v.IsNil() {
			sb.WriteString("nil")
			return
		}
		sb.WriteByte('&')
		render(sb, v.Elem(), depth+1)
	case reflect.Interface:
		if v.IsNil() {
			sb.WriteString("nil")
			return
		}
		e := v.Elem()
		sb.WriteString("(" + e.Type().String() + ")")
		render(sb, e, depth+1)
	case reflect.Struct:
		if v.Type() == timeType {
			var t time.Time
			if v.CanInterface() {
				t = v.Interface().(time.Time)
			} else if v.CanAddr() {
				t = *(*time.Time)(unsafe.Pointer(v.UnsafeAddr()))
			} else {
				sb.WriteString("time(?)")
				return
			}
			if t.IsZero() {
				sb.WriteString("time(0)")
			} else {
				sb.WriteString("time(" + strconv.FormatInt(t.UnixNano(), 10) + ")")
			}
			return
		}
		v = addressable(v)
		sb.WriteByte('{')
		t := v.Type()
		first := true
		for i := 0; i < t.NumField(); i++ {
			f := t.Field(i)
			// protobuf runtime bookkeeping is not data
			if f.PkgPath != "" && (f.Name == "state" || f.Name == "sizeCache" || f.Name == "unknownFields") {
				continue
			}
			fv := v.Field(i)
			if isZeroish(fv) {
				continue
			}
			if !first {
				sb.WriteByte(' ')
			}
			first = false
			sb.WriteString(f.Name)
			sb.WriteByte(':')
			render(sb, fv, depth+1)
		}
		sb.WriteByte('}')
	case reflect.Map:
		if v.IsNil() {
			sb.WriteString("nil")
			return
		}
		type kv struct{ k, v string }
		var kvs []kv
		it := v.MapRange()
		for it.Next() {
			var kb, vb strings.Builder
			render(&kb, it.Key(), depth+1)
			render(&vb, it.Value(), depth+1)
			kvs = append(kvs, kv{kb.String(), vb.String()})
		}
		sort.Slice(kvs, func(i, j int) bool { return kvs[i].k < kvs[j].k })
		sb.WriteString("map[")
		for i, e := range kvs {
			if i > 0 {
				sb.WriteByte(' ')
			}
			sb.WriteString(e.k + ":" + e.v)
		}
		sb.WriteByte(']')
	case reflect.Slice, reflect.Array:
		if v.Kind() == reflect.Slice && v.IsNil() {
			sb.WriteString("nil")
			return
		}
		if v.Type().Elem().Kind() == reflect.Uint8 {
			b := make([]byte, v.Len())
			for i := range b {
				b[i] = byte(v.Index(i).Uint())
			}
			sb.WriteString(strconv.Quote(string(b)))
			return
		}
		sb.WriteByte('[')
		for i := 0; i < v.Len(); i++ {
			if i > 0 {
				sb.WriteByte(' ')
			}
			render(sb, v.Index(i), depth+1)
		}
		sb.WriteByte(']')
	case reflect.String:
		sb.WriteString(strconv.Quote(v.String()))
	case reflect.Bool:
		sb.WriteString(strconv.FormatBool(v.Bool()))
	case reflect.Int, reflect.Int8, reflect.Int16, reflect.Int32, reflect.Int64:
		sb.WriteString(strconv.FormatInt(v.Int(), 10))
	case reflect.Uint, reflect.Uint8, reflect.Uint16, reflect.Uint32, reflect.Uint64, reflect.Uintptr:
		sb.WriteString(strconv.FormatUint(v.Uint(), 10))
	case reflect.Float32, reflect.Float64:
		sb.WriteString(strconv.FormatFloat(v.Float(), 'g', -1, 64))
	case reflect.Func, reflect.Chan, reflect.UnsafePointer:
		sb.WriteString("<" + v.Kind().String() + ">")
	default:
		sb.WriteString(fmt.Sprintf("<%s>", v.Kind()))
	}
}

// isZeroish: zero values, nil and EMPTY maps/slices are all omitted: a msgpack round trip may turn
// nil into empty and vice versa, which no client can observe.
func isZeroish(v reflect.Value) bool {
	switch v.Kind() {
	case reflect.Map, reflect.Slice:
		return v.Len() == 0
	case reflect.Ptr, reflect.Interface:
		return v.IsNil()
	case reflect.Func, reflect.Chan:
		return true
	case reflect.Struct:
		if v.Type() == timeType {
			return false
		}
		for i := 0; i < v.NumField(); i++ {
			if !isZeroish(v.Field(i)) {
				return false
			}
		}
		return true
	}
	return v.IsZero()
}

// Of dumps every table of the store.
func Of(s *state.Store) *Dump {
	d := &Dump{Tables: map[string][]string{}}
	err := s.WalkAllTables(func(table string, item interface{}) bool {
		d.Tables[table] = append(d.Tables[table], Render(item))
		return true
	})
	if err != nil {
		panic(err)
	}
	return d
}

func (d *Dump) TableNames() []string {
	var n []string
	for k := range d.Tables {
		n = append(n, k)
	}
	sort.Strings(n)
	return n
}

func (d *Dump) Hash() string {
	h := sha256.New()
	for _, t := range d.TableNames() {
		h.Write([]byte("#" + t + "\n"))
		for _, r := range d.Tables[t] {
			h.Write([]byte(r))
			h.Write([]byte{'\n'})
		}
	}
	return hex.EncodeToString(h.Sum(nil))[:16]
}

func (d *Dump) Rows() int {
	n := 0
	for _, r := range d.Tables {
		n += len(r)
	}
	return n
}

// NonEmptyTables lists the tables that hold at least one row.
func (d *Dump) NonEmptyTables() []string {
	var n []string
	for _, t := range d.TableNames() {
		if len(d.Tables[t]) > 0 {
			n = append(n, t)
		}
	}
	return n
}

type Diff struct {
	Table string `json:"table"`
	A     string `json:"a"`
	B     string `json:"b"`
}

// Compare returns up to max row-level differences. skip filters tables to ignore.
func Compare(a, b *Dump, max int, skip func(table string) bool) []Diff {
	var out []Diff
	seen := map[string]bool{}
	var names []string
	for _, t := range append(a.TableNames(), b.TableNames()...) {
		if !seen[t] {
			seen[t] = true
			names = append(names, t)
		}
	}
	sort.Strings(names)
	for _, t := range names {
		if skip != nil && skip(t) {
			continue
		}
		ra, rb := a.Tables[t], b.Tables[t]
		// multiset difference, keeps order of first occurrence
		cnt := map[string]int{}
		for _, r := range rb {
			cnt[r]++
		}
		var onlyA []string
		for _, r := range ra {
			if cnt[r] > 0 {
				cnt[r]--
			} else {
				onlyA = append(onlyA, r)
			}
		}
		cnt = map[string]int{}
		for _, r := range ra {
			cnt[r]++
		}
		var onlyB []string
		for _, r := range rb {
			if cnt[r] > 0 {
				cnt[r]--
			} else {
				onlyB = append(onlyB, r)
			}
		}
		if len(onlyA) == 0 && len(onlyB) == 0 {
			// same multiset; order must also agree
			for i := range ra {
				if ra[i] != rb[i] {
					out = append(out, Diff{t, "order@" + strconv.Itoa(i) + ": " + ra[i], rb[i]})
					break
				}
			}
			continue
		}
		n := len(onlyA)
		if len(onlyB) > n {
			n = len(onlyB)
		}
		for i := 0; i < n && len(out) < max; i++ {
			d := Diff{Table: t}
			if i < len(onlyA) {
				d.A = onlyA[i]
			}
			if i < len(onlyB) {
				d.B = onlyB[i]
			}
			out = append(out, d)
		}
		if len(out) >= max {
			break
		}
	}
	return out
}

// FieldDiff narrows two rendered rows to the first differing region (for fingerprints/witnesses).
func FieldDiff(a, b string) string {
	i := 0
	for i < len(a) && i < len(b) && a[i] == b[i] {
		i++
	}
	// walk back to the field name
	j := i
	for j > 0 && a[j-1] != ' ' && a[j-1] != '{' {
		j--
	}
	ea, eb := i+40, i+40
	if ea > len(a) {
		ea = len(a)
	}
	if eb > len(b) {
		eb = len(b)
	}
	if j > len(b) {
		j = 0
	}
	return a[j:ea] + " <> " + b[j:eb]
}

// FieldName extracts the name of the first differing field path element (coarse, for keys).
func FieldName(a, b string) string {
	i := 0
	for i < len(a) && i < len(b) && a[i] == b[i] {
		i++
	}
	if i > len(a) {
		i = len(a)
	}
	j := i
	for j > 0 && a[j-1] != ' ' && a[j-1] != '{' && a[j-1] != '[' {
		j--
	}
	k := j
	for k < len(a) && a[k] != ':' && a[k] != ' ' && a[k] != '}' {
		k++
	}
	return a[j:k]
}

// ---- row pairing and structural field diff (for specific violation keys) ----

// splitTop splits a rendered struct "&{A:x B:{..} C:[..]}" into its top-level "Name:value" parts.
func splitTop(s string) []string {
	s = strings.TrimPrefix(s, "&")
	if len(s) < 2 || s[0] != '{' || s[len(s)-1] != '}' {
		return []string{s}
	}
	s = s[1 : len(s)-1]
	var parts []string
	depth, start, inq := 0, 0, false
	for i := 0; i < len(s); i++ {
		c := s[i]
		if inq {
			if c == '\\' {
				i++
			} else if c == '"' {
				inq = false
			}
			continue
		}
		switch c {
		case '"':
			inq = true
		case '{', '[', '(':
			depth++
		case '}', ']', ')':
			depth--
		case ' ':
			if depth == 0 {
				parts = append(parts, s[start:i])
				start = i + 1
			}
		}
	}
	if start < len(s) {
		parts = append(parts, s[start:])
	}
	return parts
}

// TopFields returns the names of the top-level fields whose values differ between two rendered rows.
func TopFields(a, b string) []string {
	fa, fb := map[string]string{}, map[string]string{}
	var order []string
	for _, p := range splitTop(a) {
		if i := strings.IndexByte(p, ':'); i > 0 {
			fa[p[:i]] = p[i+1:]
			order = append(order, p[:i])
		}
	}
	for _, p := range splitTop(b) {
		if i := strings.IndexByte(p, ':'); i > 0 {
			if _, ok := fa[p[:i]]; !ok {
				order = append(order, p[:i])
			}
			fb[p[:i]] = p[i+1:]
		}
	}
	var out []string
	for _, k := range order {
		if fa[k] != fb[k] {
			out = append(out, k)
		}
	}
	return out
}

func common(a, b string) int {
	n := 0
	for n < len(a) && n < len(b) && a[n] == b[n] {
		n++
	}
	return n
}

type RowDiff struct {
	Table  string   `json:"table"`
	Kind   string   `json:"kind"` // changed | missing | extra | order
	Fields []string `json:"fields,omitempty"`
	A      string   `json:"a,omitempty"`
	B      string   `json:"b,omitempty"`
}

// Key is a specific, stable fingerprint of the difference class: table + kind + differing top-level fields.
func (d RowDiff) Key() string {
	if d.Kind == "changed" {
		return d.Table + ":" + strings.Join(d.Fields, "+")
	}
	return d.Table + ":" + d.Kind + "-row"
}

// RowDiffs pairs the rows that differ between a and b (same table) by greatest common prefix
// (rows are rendered identity-fields-first) and classifies each as changed / missing in b / extra in b.
func RowDiffs(a, b *Dump, max int, skip func(table string) bool) []RowDiff {
	var out []RowDiff
	for _, d := range Compare(a, b, 1<<30, skip) {
		_ = d
	}
	seen := map[string]bool{}
	var names []string
	for _, t := range append(a.TableNames(), b.TableNames()...) {
		if !seen[t] {
			seen[t] = true
			names = append(names, t)
		}
	}
	sort.Strings(names)
	for _, t := range names {
		if skip != nil && skip(t) {
			continue
		}
		ra, rb := a.Tables[t], b.Tables[t]
		cnt := map[string]int{}
		for _, r := range rb {
			cnt[r]++
		}
		var onlyA, onlyB []string
		for _, r := range ra {
			if cnt[r] > 0 {
				cnt[r]--
			} else {
				onlyA = append(onlyA, r)
			}
		}
		cnt = map[string]int{}
		for _, r := range ra {
			cnt[r]++
		}
		for _, r := range rb {
			if cnt[r] > 0 {
				cnt[r]--
			} else {
				onlyB = append(onlyB, r)
			}
		}
		if len(onlyA) == 0 && len(onlyB) == 0 {
			for i := range ra {
				if ra[i] != rb[i] {
					out = append(out, RowDiff{Table: t, Kind: "order", A: ra[i], B: rb[i]})
					break
				}
			}
			continue
		}
		usedB := make([]bool, len(onlyB))
		for _, x := range onlyA {
			best, bi := -1, -1
			for j, y := range onlyB {
				if usedB[j] {
					continue
				}
				if c := common(x, y); c > best {
					best, bi = c, j
				}
			}
			// same identity = the first top-level field(s) agree: require the common prefix to cover
			// at least the first field of x
			first := splitTop(x)
			need := 3
			if len(first) > 0 {
				need = len(first[0]) + 2
			}
			if bi >= 0 && best >= need {
				usedB[bi] = true
				out = append(out, RowDiff{Table: t, Kind: "changed", Fields: TopFields(x, onlyB[bi]), A: x, B: onlyB[bi]})
			} else {
				out = append(out, RowDiff{Table: t, Kind: "missing", A: x})
			}
			if len(out) >= max {
				return out
			}
		}
		for j, y := range onlyB {
			if !usedB[j] {
				out = append(out, RowDiff{Table: t, Kind: "extra", B: y})
				if len(out) >= max {
					return out
				}
			}
		}
	}
	return out
}

// Fold returns a copy of the dump with every row lower-cased (used to tell case-variant-name
// differences from real ones).
func (d *Dump) Fold() *Dump {
	n := &Dump{Tables: map[string][]string{}}
	for t, rows := range d.Tables {
		out := make([]string, len(rows))
		for i, r := range rows {
			out[i] = strings.ToLower(r)
		}
		n.Tables[t] = out
	}
	return n
}
