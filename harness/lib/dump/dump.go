// Package dump renders a *state.Store (all memdb tables incl. the index table) into a canonical,
// deterministic, diffable form. Written independently of consul's own persisters.
package dump

import (
	"crypto/sha256"
	"encoding/hex"
	"fmt"
	"reflect"
	"sort"
	"strconv"
	"strings"
	"time"
	"unsafe"

	"github.com/hashicorp/consul/agent/consul/state"
)

type Dump struct {
	Tables map[string][]string // table -> rows in primary index order, rendered
}

// Render renders any value canonically (maps sorted, pointers followed, times as UnixNano).
func Render(v any) string {
	var sb strings.Builder
	render(&sb, reflect.ValueOf(v), 0)
	return sb.String()
}

var timeType = reflect.TypeOf(time.Time{})

func addressable(v reflect.Value) reflect.Value {
	if v.CanAddr() {
		return v
	}
	n := reflect.New(v.Type()).Elem()
	if v.CanInterface() {
		n.Set(v)
		return n
	}
	return v
}

func render(sb *strings.Builder, v reflect.Value, depth int) {
	if depth > 40 {
		sb.WriteString("<deep>")
		return
	}
	if !v.IsValid() {
		sb.WriteString("nil")
		return
	}
	switch v.Kind() {
	case reflect.Ptr:
		if v.IsNil() {
			sb.WriteString("nil")
			return
		}
		sb.WriteByte('&')
		render(sb, v.Elem(), depth+1)
	case reflect.Interface:
		if v.IsNil() {
			sb.WriteString("nil")
			return
		}
		e := v.Elem()
		sb.WriteString("(" + e.Type().String() + ")")
		render(sb, e, depth+1)
	case reflect.Struct:
		if v.Type() == timeType {
			var t time.Time
			if v.CanInterface() {
				t = v.Interface().(time.Time)
			} else if v.CanAddr() {
				t = *(*time.Time)(unsafe.Pointer(v.UnsafeAddr()))
			} else {
				sb.WriteString("time(?)")
				return
			}
			if t.IsZero() {
				sb.WriteString("time(0)")
			} else {
				sb.WriteString("time(" + strconv.FormatInt(t.UnixNano(), 10) + ")")
			}
			return
		}
		v = addressable(v)
		sb.WriteByte('{')
		t := v.Type()
		first := true
		for i := 0; i < t.NumField(); i++ {
			f := t.Field(i)
			// protobuf runtime bookkeeping is not data
			if f.PkgPath != "" && (f.Name == "state" || f.Name == "sizeCache" || f.Name == "unknownFields") {
				continue
			}
			fv := v.Field(i)
			if isZeroish(fv) {
				continue
			}
			if !first {
				sb.WriteByte(' ')
			}
			first = false
			sb.WriteString(f.Name)
			sb.WriteByte(':')
			render(sb, fv, depth+1)
		}
		sb.WriteByte('}')
	case reflect.Map:
		if v.IsNil() {
			sb.WriteString("nil")
			return
		}
		type kv struct{ k, v string }
		var kvs []kv
		it := v.MapRange()
		for it.Next() {
			var kb, vb strings.Builder
			render(&kb, it.Key(), depth+1)
			render(&vb, it.Value(), depth+1)
			kvs = append(kvs, kv{kb.String(), vb.String()})
		}
		sort.Slice(kvs, func(i, j int) bool { return kvs[i].k < kvs[j].k })
		sb.WriteString("map[")
		for i, e := range kvs {
			if i > 0 {
				sb.WriteByte(' ')
			}
			sb.WriteString(e.k + ":" + e.v)
		}
		sb.WriteByte(']')
	case reflect.Slice, reflect.Array:
		if v.Kind() == reflect.Slice && v.IsNil() {
			sb.WriteString("nil")
			return
		}
		if v.Type().Elem().Kind() == reflect.Uint8 {
			b := make([]byte, v.Len())
			for i := range b {
				b[i] = byte(v.Index(i).Uint())
			}
			sb.WriteString(strconv.Quote(string(b)))
			return
		}
		sb.WriteByte('[')
		for i := 0; i < v.Len(); i++ {
			if i > 0 {
				sb.WriteByte(' ')
			}
			render(sb, v.Index(i), depth+1)
		}
		sb.WriteByte(']')
	case reflect.String:
		sb.WriteString(strconv.Quote(v.String()))
	case reflect.Bool:
		sb.WriteString(strconv.FormatBool(v.Bool()))
	case reflect.Int, reflect.Int8, reflect.Int16, reflect.Int32, reflect.Int64:
		sb.WriteString(strconv.FormatInt(v.Int(), 10))
	case reflect.Uint, reflect.Uint8, reflect.Uint16, reflect.Uint32, reflect.Uint64, reflect.Uintptr:
		sb.WriteString(strconv.FormatUint(v.Uint(), 10))
	case reflect.Float32, reflect.Float64:
		sb.WriteString(strconv.FormatFloat(v.Float(), 'g', -1, 64))
	case reflect.Func, reflect.Chan, reflect.UnsafePointer:
		sb.WriteString("<" + v.Kind().String() + ">")
	default:
		sb.WriteString(fmt.Sprintf("<%s>", v.Kind()))
	}
}

// isZeroish: zero values, nil and EMPTY maps/slices are all omitted: a msgpack round trip may turn
// nil into empty and vice versa, which no client can observe.
func isZeroish(v reflect.Value) bool {
	switch v.Kind() {
	case reflect.Map, reflect.Slice:
		return v.Len() == 0
	case reflect.Ptr, reflect.Interface:
		return v.IsNil()
	case reflect.Func, reflect.Chan:
		return true
	case reflect.Struct:
		if v.Type() == timeType {
			return false
		}
		for i := 0; i < v.NumField(); i++ {
			if !isZeroish(v.Field(i)) {
				return false
			}
		}
		return true
	}
	return v.IsZero()
}

// Of dumps every table of the store.
func Of(s *state.Store) *Dump {
	d := &Dump{Tables: map[string][]string{}}
	err := s.WalkAllTables(func(table string, item interface{}) bool {
		d.Tables[table] = append(d.Tables[table], Render(item))
		return true
	})
	if err != nil {
		panic(err)
	}
	return d
}

func (d *Dump) TableNames() []string {
	var n []string
	for k := range d.Tables {
		n = append(n, k)
	}
	sort.Strings(n)
	return n
}

func (d *Dump) Hash() string {
	h := sha256.New()
	for _, t := range d.TableNames() {
		h.Write([]byte("#" + t + "\n"))
		for _, r := range d.Tables[t] {
			h.Write([]byte(r))
			h.Write([]byte{'\n'})
		}
	}
	return hex.EncodeToString(h.Sum(nil))[:16]
}

func (d *Dump) Rows() int {
	n := 0
	for _, r := range d.Tables {
		n += len(r)
	}
	return n
}

// NonEmptyTables lists the tables that hold at least one row.
func (d *Dump) NonEmptyTables() []string {
	var n []string
	for _, t := range d.TableNames() {
		if len(d.Tables[t]) > 0 {
			n = append(n, t)
		}
	}
	return n
}

type Diff struct {
	Table string `json:"table"`
	A     string `json:"a"`
	B     string `json:"b"`
}

// Compare returns up to max row-level differences. skip filters tables to ignore.
func Compare(a, b *Dump, max int, skip func(table string) bool) []Diff {
	var out []Diff
	seen := map[string]bool{}
	var names []string
	for _, t := range append(a.TableNames(), b.TableNames()...) {
		if !seen[t] {
			seen[t] = true
			names = append(names, t)
		}
	}
	sort.Strings(names)
	for _, t := range names {
		if skip != nil && skip(t) {
			continue
		}
		ra, rb := a.Tables[t], b.Tables[t]
		// multiset difference, keeps order of first occurrence
		cnt := map[string]int{}
		for _, r := range rb {
			cnt[r]++
		}
		var onlyA []string
		for _, r := range ra {
			if cnt[r] > 0 {
				cnt[r]--
			} else {
				onlyA = append(onlyA, r)
			}
		}
		cnt = map[string]int{}
		for _, r := range ra {
			cnt[r]++
		}
		var onlyB []string
		for _, r := range rb {
			if cnt[r] > 0 {
				cnt[r]--
			} else {
				onlyB = append(onlyB, r)
			}
		}
		if len(onlyA) == 0 && len(onlyB) == 0 {
			// same multiset; order must also agree
			for i := range ra {
				if ra[i] != rb[i] {
					out = append(out, Diff{t, "order@" + strconv.Itoa(i) + ": " + ra[i], rb[i]})
					break
				}
			}
			continue
		}
		n := len(onlyA)
		if len(onlyB) > n {
			n = len(onlyB)
		}
		for i := 0; i < n && len(out) < max; i++ {
			d := Diff{Table: t}
			if i < len(onlyA) {
				d.A = onlyA[i]
			}
			if i < len(onlyB) {
				d.B = onlyB[i]
			}
			out = append(out, d)
		}
		if len(out) >= max {
			break
		}
	}
	return out
}

// FieldDiff narrows two rendered rows to the first differing region (for fingerprints/witnesses).
func FieldDiff(a, b string) string {
	i := 0
	for i < len(a) && i < len(b) && a[i] == b[i] {
		i++
	}
	// walk back to the field name
	j := i
	for j > 0 && a[j-1] != ' ' && a[j-1] != '{' {
		j--
	}
	ea, eb := i+40, i+40
	if ea > len(a) {
		ea = len(a)
	}
	if eb > len(b) {
		eb = len(b)
	}
	if j > len(b) {
		j = 0
	}
	return a[j:ea] + " <> " + b[j:eb]
}

// FieldName extracts the name of the first differing field path element (coarse, for keys).
func FieldName(a, b string) string {
	i := 0
	for i < len(a) && i < len(b) && a[i] == b[i] {
		i++
	}
	if i > len(a) {
		i = len(a)
	}
	j := i
	for j > 0 && a[j-1] != ' ' && a[j-1] != '{' && a[j-1] != '[' {
		j--
	}
	k := j
	for k < len(a) && a[k] != ':' && a[k] != ' ' && a[k] != '}' {
		k++
	}
	return a[j:k]
}
