// Package fsmkit builds real consul FSM replicas for the monitors and drives them the way raft does.
package fsmkit

import (
	"bytes"
	"context"
	"errors"
	"fmt"
	"io"

	"github.com/hashicorp/go-hclog"
	"github.com/hashicorp/raft"
	"google.golang.org/grpc"

	"github.com/hashicorp/consul/agent/consul/fsm"
	"github.com/hashicorp/consul/agent/consul/state"
	"github.com/hashicorp/consul/agent/consul/stream"
	"github.com/hashicorp/consul/agent/netutil"
	"github.com/hashicorp/consul/agent/structs"
	raftstorage "github.com/hashicorp/consul/internal/storage/raft"
)

// The state store asks the LOCAL AGENT (HTTP /v1/agent/self) for its bind address to choose between
// IPv4 and IPv6 virtual IPs (netutil.IsDualStack in state/catalog.go addIPOffset). In the sandbox no
// agent listens, so every virtual-IP assignment would fail. consul's own tests replace the lookup
// with netutil.GetAgentBindAddrFunc; the monitors do the same: every replica is "an agent bound to
// an IPv4 address" (identically configured servers, as the properties require).
func init() {
	netutil.GetAgentBindAddrFunc = netutil.GetMockGetAgentBindAddrFunc("0.0.0.0")
}

type handle struct {
	apply func(msg []byte) (any, error)
}

func (h *handle) Apply(msg []byte) (any, error)                  { return h.apply(msg) }
func (*handle) IsLeader() bool                                   { return true }
func (*handle) EnsureStrongConsistency(context.Context) error    { return nil }
func (*handle) DialLeader() (*grpc.ClientConn, error)            { return nil, errors.New("no leader dial") }

// Replica is one FSM with its own state store and resource storage backend.
type Replica struct {
	FSM     *fsm.FSM
	Storage *raftstorage.Backend
	Pub     *stream.EventPublisher
	cancel  context.CancelFunc
	Index   uint64 // last applied index
}

type Opts struct {
	Publisher bool // attach a real (not running) event publisher
	GC        *state.TombstoneGC
}

func New(o Opts) *Replica {
	logger := hclog.New(&hclog.LoggerOptions{Output: io.Discard, Level: hclog.Off})
	h := &handle{}
	be, err := raftstorage.NewBackend(h, logger)
	if err != nil {
		panic(err)
	}
	ctx, cancel := context.WithCancel(context.Background())
	go be.Run(ctx)
	r := &Replica{Storage: be, cancel: cancel}
	var pub *stream.EventPublisher
	if o.Publisher {
		pub = stream.NewEventPublisher(0)
		r.Pub = pub
	}
	r.FSM = fsm.NewFromDeps(fsm.Deps{
		Logger: logger,
		NewStateStore: func() *state.Store {
			if pub != nil {
				return state.NewStateStoreWithEventPublisher(o.GC, pub)
			}
			return state.NewStateStore(o.GC)
		},
		Publisher:      pub,
		StorageBackend: be,
	})
	h.apply = func(buf []byte) (any, error) {
		r.Index++
		return be.Apply(buf, r.Index), nil
	}
	return r
}

func (r *Replica) Close() { r.cancel() }

func (r *Replica) State() *state.Store { return r.FSM.State() }

// Encode renders a request as raft log bytes.
func Encode(t structs.MessageType, req any) []byte {
	b, err := structs.Encode(t, req)
	if err != nil {
		panic(fmt.Sprintf("encode %v: %v", t, err))
	}
	return b
}

// ApplyBytes applies pre-encoded log bytes at the given index (bytes are copied: handlers may
// mutate what they decode, never the caller's buffer).
func (r *Replica) ApplyBytes(idx uint64, data []byte) (resp any) {
	buf := make([]byte, len(data))
	copy(buf, data)
	r.Index = idx
	return r.FSM.Apply(&raft.Log{Index: idx, Term: 1, Type: raft.LogCommand, Data: buf})
}

func (r *Replica) Apply(idx uint64, t structs.MessageType, req any) any {
	return r.ApplyBytes(idx, Encode(t, req))
}

// sink is an in-memory raft.SnapshotSink
type sink struct {
	bytes.Buffer
	cancelled bool
}

func (s *sink) ID() string    { return "verif" }
func (s *sink) Cancel() error { s.cancelled = true; return nil }
func (s *sink) Close() error  { return nil }

// SnapshotBytes persists a snapshot of the replica through the production persisters.
func (r *Replica) SnapshotBytes() ([]byte, error) {
	snap, err := r.FSM.Snapshot()
	if err != nil {
		return nil, err
	}
	defer snap.Release()
	s := &sink{}
	if err := snap.Persist(s); err != nil {
		return nil, err
	}
	if s.cancelled {
		return nil, errors.New("sink cancelled")
	}
	return s.Bytes(), nil
}

// RestoreBytes restores the replica from snapshot bytes through the production restorers.
func (r *Replica) RestoreBytes(b []byte) error {
	return r.FSM.Restore(io.NopCloser(bytes.NewReader(b)))
}

// RenderResult renders an FSM.Apply result canonically (errors by message).
func RenderResult(v any, render func(any) string) string {
	switch x := v.(type) {
	case nil:
		return "nil"
	case error:
		return "error(" + x.Error() + ")"
	default:
		return fmt.Sprintf("%T:", v) + render(x)
	}
}

// SnapshotHandle takes a point-in-time snapshot handle (what raft does first); PersistHandle writes it
// out later (raft persists in the background while further commands are applied).
func (r *Replica) SnapshotHandle() (raft.FSMSnapshot, error) { return r.FSM.Snapshot() }

func PersistHandle(snap raft.FSMSnapshot) ([]byte, error) {
	defer snap.Release()
	s := &sink{}
	if err := snap.Persist(s); err != nil {
		return nil, err
	}
	if s.cancelled {
		return nil, errors.New("sink cancelled")
	}
	return s.Bytes(), nil
}
