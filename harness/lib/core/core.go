// Package core is the shared runtime of the /verif monitors: deterministic PRNG, evidence
// writer, violation / known-finding bookkeeping and replay files.
package core

import (
	"crypto/sha256"
	"encoding/hex"
	"encoding/json"
	"fmt"
	"os"
	"path/filepath"
	"sort"
	"strconv"
	"strings"
	"sync"
	"time"
)

// ---------- PRNG (splitmix64) ----------

type Rand struct{ s uint64 }

func NewRand(seed uint64) *Rand { return &Rand{s: seed*0x9E3779B97F4A7C15 + 0x1234567} }

func (r *Rand) U64() uint64 {
	r.s += 0x9E3779B97F4A7C15
	z := r.s
	z = (z ^ (z >> 30)) * 0xBF58476D1CE4E5B9
	z = (z ^ (z >> 27)) * 0x94D049BB133111EB
	return z ^ (z >> 31)
}
func (r *Rand) Intn(n int) int {
	if n <= 0 {
		return 0
	}
	return int(r.U64() % uint64(n))
}
func (r *Rand) Bool() bool        { return r.U64()&1 == 1 }
func (r *Rand) Chance(p int) bool { return r.Intn(100) < p } // p percent
func (r *Rand) Fork(tag uint64) *Rand {
	return NewRand(r.U64() ^ (tag * 0xD6E8FEB86659FD93))
}
func Pick[T any](r *Rand, xs []T) T { return xs[r.Intn(len(xs))] }
func (r *Rand) Perm(n int) []int {
	p := make([]int, n)
	for i := range p {
		p[i] = i
	}
	for i := n - 1; i > 0; i-- {
		j := r.Intn(i + 1)
		p[i], p[j] = p[j], p[i]
	}
	return p
}
func (r *Rand) Bytes(n int) []byte {
	b := make([]byte, n)
	for i := range b {
		b[i] = byte(r.U64())
	}
	return b
}

// ---------- environment ----------

func Seed() uint64 {
	if v := os.Getenv("VERIF_SEED"); v != "" {
		if n, err := strconv.ParseInt(v, 10, 64); err == nil {
			return uint64(n)
		}
	}
	return 1
}
func SeedInt() int64 {
	if v := os.Getenv("VERIF_SEED"); v != "" {
		if n, err := strconv.ParseInt(v, 10, 64); err == nil {
			return n
		}
	}
	return 1
}
func Tier() string {
	if os.Getenv("VERIF_TIER") == "thorough" {
		return "thorough"
	}
	return "quick"
}
func Thorough() bool { return Tier() == "thorough" }

// N picks a case count by tier.
func N(quick, thorough int) int {
	if Thorough() {
		return thorough
	}
	return quick
}

func Root() string {
	if v := os.Getenv("VERIF_ROOT"); v != "" {
		return v
	}
	return "/verif"
}

// Hash returns a short stable fingerprint of any strings.
func Hash(parts ...string) string {
	h := sha256.New()
	for _, p := range parts {
		h.Write([]byte(p))
		h.Write([]byte{0})
	}
	return hex.EncodeToString(h.Sum(nil))[:16]
}

// ---------- known findings ----------

type Finding struct {
	Property string `json:"property"`
	Key      string `json:"key"`
	What     string `json:"what"`
	Status   string `json:"status"` // "known" | "fixed"
	Commit   string `json:"commit,omitempty"`
}

func loadFindings() []Finding {
	b, err := os.ReadFile(filepath.Join(Root(), "known_findings.json"))
	if err != nil {
		return nil
	}
	var f struct {
		Findings []Finding `json:"findings"`
	}
	if json.Unmarshal(b, &f) != nil {
		return nil
	}
	return f.Findings
}

// ---------- run bookkeeping ----------

type Run struct {
	mu        sync.Mutex
	ID        string
	Level     string
	Rule      string
	start     time.Time
	evals     int
	nontriv   map[string]struct{}
	samples   []any
	maxSample int
	counters  map[string]int
	sets      map[string]map[string]struct{}
	viol      map[string]*violation // by key
	violOrder []string
	known     map[string]string // key -> what (hit this run)
	inconcl   []string
	floors    []floor
	assump    []string
	findings  []Finding
	extra     map[string]any
}

type violation struct {
	Key     string `json:"key"`
	What    string `json:"what"`
	Witness any    `json:"witness"`
	Count   int    `json:"count"`
	path    string
}

type floor struct {
	name string
	min  int
	get  func() int
}

func NewRun(id, level, rule string) *Run {
	return &Run{ID: id, Level: level, Rule: rule, start: time.Now(),
		nontriv: map[string]struct{}{}, maxSample: 4, counters: map[string]int{},
		sets: map[string]map[string]struct{}{}, viol: map[string]*violation{}, known: map[string]string{},
		findings: loadFindings(), extra: map[string]any{}}
}

func (r *Run) Assume(s ...string) { r.assump = append(r.assump, s...) }

// Eval counts one executed case.
func (r *Run) Eval() { r.mu.Lock(); r.evals++; r.mu.Unlock() }
func (r *Run) EvalN(n int) {
	r.mu.Lock()
	r.evals += n
	r.mu.Unlock()
}

// NonTrivial records the fingerprint of a case that is non-trivial by the run's rule.
func (r *Run) NonTrivial(fp string) {
	r.mu.Lock()
	r.nontriv[fp] = struct{}{}
	r.mu.Unlock()
}

// Sample keeps the first few cases verbatim.
func (r *Run) Sample(v any) {
	r.mu.Lock()
	if len(r.samples) < r.maxSample {
		r.samples = append(r.samples, v)
	}
	r.mu.Unlock()
}
func (r *Run) WantSample() bool {
	r.mu.Lock()
	defer r.mu.Unlock()
	return len(r.samples) < r.maxSample
}

// Count increments a named observation counter (reported in evidence.coverage.observed).
func (r *Run) Count(name string) { r.CountN(name, 1) }
func (r *Run) CountN(name string, n int) {
	r.mu.Lock()
	r.counters[name] += n
	r.mu.Unlock()
}
func (r *Run) Counter(name string) int {
	r.mu.Lock()
	defer r.mu.Unlock()
	return r.counters[name]
}

// Distinct adds a member to a named set (reported as its size).
func (r *Run) Distinct(set, member string) {
	r.mu.Lock()
	m := r.sets[set]
	if m == nil {
		m = map[string]struct{}{}
		r.sets[set] = m
	}
	m[member] = struct{}{}
	r.mu.Unlock()
}
func (r *Run) DistinctN(set string) int {
	r.mu.Lock()
	defer r.mu.Unlock()
	return len(r.sets[set])
}
func (r *Run) Extra(k string, v any) { r.mu.Lock(); r.extra[k] = v; r.mu.Unlock() }

// Floor registers a mandatory coverage floor; unmet => run is INCONCLUSIVE (exit 2).
func (r *Run) Floor(counter string, min int) {
	r.floors = append(r.floors, floor{counter, min, func() int { return r.Counter(counter) }})
}
func (r *Run) FloorDistinct(set string, min int) {
	r.floors = append(r.floors, floor{"distinct:" + set, min, func() int { return r.DistinctN(set) }})
}

// Inconclusive records a case that could not be decided (watchdog etc.).
func (r *Run) Inconclusive(what string) {
	r.mu.Lock()
	if len(r.inconcl) < 50 {
		r.inconcl = append(r.inconcl, what)
	}
	r.counters["inconclusive_cases"]++
	r.mu.Unlock()
}

// Violation records a violation with a specific fingerprint key. If the key is listed as a
// known finding it is reported as KNOWN-FINDING instead. Returns true when it is a new (unlisted)
// violation.
func (r *Run) Violation(key, what string, witness any) bool {
	r.mu.Lock()
	defer r.mu.Unlock()
	for _, f := range r.findings {
		if f.Property == r.ID && f.Status == "known" && f.Key == key {
			if _, ok := r.known[key]; !ok {
				r.known[key] = f.What
			}
			r.counters["known_finding_hits"]++
			return false
		}
	}
	v := r.viol[key]
	if v == nil {
		v = &violation{Key: key, What: what, Witness: witness}
		r.viol[key] = v
		r.violOrder = append(r.violOrder, key)
	}
	v.Count++
	return true
}

func (r *Run) Violations() int {
	r.mu.Lock()
	defer r.mu.Unlock()
	return len(r.viol)
}

// Finish writes evidence and replay files, prints VIOLATION / KNOWN-FINDING / INCONCLUSIVE lines,
// writes the status file and returns the exit code (0 held, 1 violation, 2 inconclusive).
func (r *Run) Finish() int {
	// floors use the locking getters: evaluate them before taking the lock
	var unmet []string
	for _, f := range r.floors {
		if got := f.get(); got < f.min {
			unmet = append(unmet, fmt.Sprintf("%s=%d<%d", f.name, got, f.min))
		}
	}
	r.mu.Lock()
	defer r.mu.Unlock()
	root := Root()
	os.MkdirAll(filepath.Join(root, "replay"), 0o755)
	os.MkdirAll(filepath.Join(root, "evidence"), 0o755)

	code := 0
	// known findings
	kk := make([]string, 0, len(r.known))
	for k := range r.known {
		kk = append(kk, k)
	}
	sort.Strings(kk)
	for _, k := range kk {
		fmt.Printf("KNOWN-FINDING: property=%s %s [%s]\n", r.ID, r.known[k], k)
	}
	// violations
	var vlist []any
	for i, k := range r.violOrder {
		v := r.viol[k]
		if i < 20 {
			p := filepath.Join(root, "replay", fmt.Sprintf("%s-%s-%d.json", r.ID, Tier(), i))
			b, _ := json.MarshalIndent(map[string]any{"property": r.ID, "seed": SeedInt(), "tier": Tier(),
				"key": v.Key, "what": v.What, "count": v.Count, "witness": v.Witness}, "", " ")
			os.WriteFile(p, b, 0o644)
			v.path = p
			fmt.Printf("VIOLATION property=%s replay=%s\n", r.ID, p)
			fmt.Printf("  key=%s count=%d: %s\n", v.Key, v.Count, trunc(v.What, 600))
		}
		if i < 5 {
			vlist = append(vlist, map[string]any{"key": v.Key, "what": trunc(v.What, 400), "count": v.Count})
		}
		code = 1
	}
	// floors
	if len(r.nontriv) < 2 {
		unmet = append(unmet, fmt.Sprintf("distinct_nontrivial=%d<2", len(r.nontriv)))
	}
	if len(unmet) > 0 && code == 0 {
		code = 2
		fmt.Printf("INCONCLUSIVE property=%s coverage floors unmet: %s\n", r.ID, strings.Join(unmet, " "))
	}
	observed := map[string]int{}
	for k, v := range r.counters {
		observed[k] = v
	}
	for k, v := range r.sets {
		observed["distinct:"+k] = len(v)
	}
	cov := map[string]any{
		"evaluations":         r.evals,
		"distinct_nontrivial": len(r.nontriv),
		"rule":                r.Rule,
		"samples":             r.samples,
		"observed":            observed,
		"explanation":         r.Rule,
	}
	osets := map[string][]string{}
	for k, v := range r.sets {
		if len(v) <= 160 {
			var m []string
			for x := range v {
				if len(x) <= 80 {
					m = append(m, x)
				}
			}
			sort.Strings(m)
			if len(m) == len(v) {
				osets[k] = m
			}
		}
	}
	cov["observed_sets"] = osets
	if len(r.samples) == 0 {
		cov["samples"] = []any{"(no sample recorded)"}
	}
	if len(r.inconcl) > 0 {
		cov["inconclusive_cases"] = r.inconcl
	}
	if len(unmet) > 0 {
		cov["floors_unmet"] = unmet
	}
	if len(kk) > 0 {
		cov["known_findings_hit"] = kk
	}
	if len(vlist) > 0 {
		cov["violations"] = vlist
	}
	for k, v := range r.extra {
		cov[k] = v
	}
	ev := map[string]any{
		"property_id": r.ID,
		"tier":        Tier(),
		"seed":        SeedInt(),
		"level":       r.Level,
		"coverage":    cov,
		"assumptions": r.assump,
		"wall_s":      float64(int(time.Since(r.start).Seconds()*100)) / 100,
		"violations":  len(r.viol),
		"verdict":     []string{"held_on_observed", "violated", "inconclusive"}[code],
	}
	if r.assump == nil {
		ev["assumptions"] = []string{}
	}
	b, _ := json.MarshalIndent(ev, "", " ")
	evp := os.Getenv("VERIF_EVIDENCE")
	if evp == "" {
		evp = filepath.Join(root, "evidence", r.ID+".json")
	}
	os.WriteFile(evp, b, 0o644)
	if sp := os.Getenv("VERIF_STATUS"); sp != "" {
		os.WriteFile(sp, []byte(strconv.Itoa(code)), 0o644)
	}
	fmt.Printf("SUMMARY property=%s tier=%s seed=%d evaluations=%d distinct_nontrivial=%d violations=%d known=%d verdict=%v wall=%.1fs\n",
		r.ID, Tier(), SeedInt(), r.evals, len(r.nontriv), len(r.viol), len(kk), ev["verdict"], time.Since(r.start).Seconds())
	ks := make([]string, 0, len(observed))
	for k := range observed {
		ks = append(ks, k)
	}
	sort.Strings(ks)
	for _, k := range ks {
		fmt.Printf("  observed %s=%d\n", k, observed[k])
	}
	return code
}

func trunc(s string, n int) string {
	if len(s) > n {
		return s[:n] + "…"
	}
	return s
}

// JSON renders v compactly for fingerprints / witnesses.
func JSON(v any) string {
	b, err := json.Marshal(v)
	if err != nil {
		return fmt.Sprintf("%+v", v)
	}
	return string(b)
}

// Progress logs the case about to be executed so a crash can be attributed.
var progMu sync.Mutex
var progF *os.File

func Progress(id string, v string) {
	progMu.Lock()
	defer progMu.Unlock()
	if progF == nil {
		os.MkdirAll(filepath.Join(Root(), "replay"), 0o755)
		progF, _ = os.Create(filepath.Join(Root(), "replay", id+".progress"))
	}
	if progF != nil {
		progF.Truncate(0)
		progF.Seek(0, 0)
		progF.WriteString(v)
	}
}
