//go:build verif

package c15

// Oracles that judge a CompiledDiscoveryChain without using the compiler:
//   walk      structural graph walker (closedness, reachability, acyclicity, leaves, exact node/target sets)
//   refResolve a reference of the documented redirect / default-subset semantics (service-resolver docs:
//             "Redirect: ... substituted for the supplied redirect EXCEPT when the redirect has already been
//             applied", "DefaultSubset: the subset to use when no explicit subset is requested")

import (
	"fmt"
	"sort"

	"github.com/hashicorp/consul/agent/structs"
)

type finding struct {
	class string // goes into the violation key
	what  string
}

func walk(ch *structs.CompiledDiscoveryChain) []finding {
	var out []finding
	add := func(class, f string, a ...any) { out = append(out, finding{class, fmt.Sprintf(f, a...)}) }
	if ch == nil {
		add("nil-chain", "nil chain returned without error")
		return out
	}
	for k, n := range ch.Nodes {
		if n == nil {
			add("nil-node", "Nodes[%q] is nil", k)
			continue
		}
		if n.MapKey() != k {
			add("node-key-mismatch", "Nodes[%q] has MapKey %q", k, n.MapKey())
		}
	}
	for k, t := range ch.Targets {
		if t == nil {
			add("nil-target", "Targets[%q] is nil", k)
			continue
		}
		if t.ID != k {
			add("target-key-mismatch", "Targets[%q] has ID %q", k, t.ID)
		}
	}
	if ch.StartNode == "" {
		add("start-missing", "StartNode is empty")
		return out
	}
	if ch.Nodes[ch.StartNode] == nil {
		add("start-missing", "StartNode %q is not in Nodes", ch.StartNode)
		return out
	}
	const (
		white = 0
		grey  = 1
		black = 2
	)
	colour := map[string]int{}
	refTargets := map[string]bool{}
	var visit func(k string, path []string)
	visit = func(k string, path []string) {
		n := ch.Nodes[k]
		colour[k] = grey
		path = append(path, k)
		var next []string
		switch n.Type {
		case structs.DiscoveryGraphNodeTypeRouter:
			if len(n.Routes) == 0 {
				add("dead-end", "router node %q has no routes: a path from the start does not end at a resolver", k)
			}
			for i, r := range n.Routes {
				if r == nil {
					add("nil-edge", "router %q route %d is nil", k, i)
					continue
				}
				next = append(next, r.NextNode)
			}
		case structs.DiscoveryGraphNodeTypeSplitter:
			if len(n.Splits) == 0 {
				add("dead-end", "splitter node %q has no splits: a path from the start does not end at a resolver", k)
			}
			for i, s := range n.Splits {
				if s == nil {
					add("nil-edge", "splitter %q split %d is nil", k, i)
					continue
				}
				next = append(next, s.NextNode)
			}
		case structs.DiscoveryGraphNodeTypeResolver:
			if n.Resolver == nil {
				add("resolver-without-target", "resolver node %q has no Resolver", k)
				break
			}
			if n.Resolver.Target == "" || ch.Targets[n.Resolver.Target] == nil {
				add("dangling-target", "resolver node %q references target %q which is not in Targets", k, n.Resolver.Target)
			}
			refTargets[n.Resolver.Target] = true
			if f := n.Resolver.Failover; f != nil {
				for _, t := range f.Targets {
					if ch.Targets[t] == nil {
						add("dangling-failover-target", "resolver node %q fails over to target %q which is not in Targets", k, t)
					}
					refTargets[t] = true
				}
			}
		default:
			add("unknown-node-type", "node %q has type %q", k, n.Type)
		}
		for _, nx := range next {
			if ch.Nodes[nx] == nil {
				add("dangling-node", "node %q references NextNode %q which is not in Nodes", k, nx)
				continue
			}
			switch colour[nx] {
			case grey:
				add("node-cycle", "cycle among nodes: %v -> %q", path, nx)
			case white:
				visit(nx, path)
			}
		}
		colour[k] = black
	}
	visit(ch.StartNode, nil)
	var unreach, unref []string
	for k := range ch.Nodes {
		if colour[k] == white {
			unreach = append(unreach, k)
		}
	}
	for k := range ch.Targets {
		if !refTargets[k] {
			unref = append(unref, k)
		}
	}
	sort.Strings(unreach)
	sort.Strings(unref)
	if len(unreach) > 0 {
		add("unreachable-node", "Nodes holds nodes not reachable from StartNode %q: %v", ch.StartNode, unreach)
	}
	if len(unref) > 0 {
		add("unreferenced-target", "Targets holds targets no reachable resolver references: %v", unref)
	}
	return out
}

// ---------- reference redirect semantics ----------

type tgt struct{ svc, subset, dc string }

func (t tgt) String() string { return fmt.Sprintf("%s/%s@%s", t.svc, t.subset, t.dc) }

// refStep applies the resolver of t.svc once. moved=false: t is final. ok=false: outside the reference's scope.
func refStep(res map[string]*structs.ServiceResolverConfigEntry, t tgt) (n tgt, moved, ok bool) {
	r := res[t.svc]
	if r == nil {
		return t, false, true
	}
	if rd := r.Redirect; rd != nil {
		if rd.Peer != "" || rd.SamenessGroup != "" || rd.Namespace != "" || rd.Partition != "" {
			return t, false, false
		}
		n = t
		if rd.Service != "" && rd.Service != t.svc {
			n.svc = rd.Service
			n.subset = ""
		}
		if rd.ServiceSubset != "" {
			n.subset = rd.ServiceSubset
		}
		if rd.Datacenter != "" {
			n.dc = rd.Datacenter
		}
		if n != t {
			return n, true, true
		}
	}
	if t.subset == "" && r.DefaultSubset != "" {
		n = t
		n.subset = r.DefaultSubset
		return n, true, true
	}
	return t, false, true
}

// refResolve follows redirects from start. cycle=true if a target repeats.
func refResolve(res map[string]*structs.ServiceResolverConfigEntry, start tgt) (final tgt, cycle, ok bool, hops int) {
	seen := map[tgt]bool{start: true}
	cur := start
	for {
		n, moved, k := refStep(res, cur)
		if !k {
			return cur, false, false, hops
		}
		if !moved {
			return cur, false, true, hops
		}
		hops++
		if seen[n] {
			return n, true, true, hops
		}
		seen[n] = true
		cur = n
	}
}

func targetOf(t *structs.DiscoveryTarget) tgt {
	return tgt{t.Service, t.ServiceSubset, t.Datacenter}
}

// fixedPoints: every target a reachable resolver uses (primary or failover) must be final under the
// reference (a redirect that was not followed to its end would show up here).
func fixedPoints(ch *structs.CompiledDiscoveryChain, res map[string]*structs.ServiceResolverConfigEntry) []finding {
	var out []finding
	chk := func(node, id, role string) {
		t := ch.Targets[id]
		if t == nil || t.Peer != "" {
			return
		}
		n, moved, ok := refStep(res, targetOf(t))
		if ok && moved {
			out = append(out, finding{"target-not-final:" + role, fmt.Sprintf("resolver node %q uses %s target %s although the resolver of %q sends it on to %s (redirect/default subset not applied)", node, role, targetOf(t), t.Service, n)})
		}
	}
	keys := make([]string, 0, len(ch.Nodes))
	for k := range ch.Nodes {
		keys = append(keys, k)
	}
	sort.Strings(keys)
	for _, k := range keys {
		n := ch.Nodes[k]
		if n == nil || n.Type != structs.DiscoveryGraphNodeTypeResolver || n.Resolver == nil {
			continue
		}
		chk(k, n.Resolver.Target, "primary")
		if n.Resolver.Failover != nil {
			for _, t := range n.Resolver.Failover.Targets {
				chk(k, t, "failover")
			}
		}
	}
	return out
}

// shape classifies a chain for coverage counters.
func shape(ch *structs.CompiledDiscoveryChain) (routers, splitters, resolvers, failovers int, depth int) {
	var d func(k string, seen map[string]bool) int
	d = func(k string, seen map[string]bool) int {
		n := ch.Nodes[k]
		if n == nil || seen[k] {
			return 0
		}
		seen[k] = true
		defer delete(seen, k)
		m := 0
		for _, r := range n.Routes {
			if r != nil {
				if x := d(r.NextNode, seen); x > m {
					m = x
				}
			}
		}
		for _, s := range n.Splits {
			if s != nil {
				if x := d(s.NextNode, seen); x > m {
					m = x
				}
			}
		}
		return m + 1
	}
	for _, n := range ch.Nodes {
		if n == nil {
			continue
		}
		switch n.Type {
		case structs.DiscoveryGraphNodeTypeRouter:
			routers++
		case structs.DiscoveryGraphNodeTypeSplitter:
			splitters++
		case structs.DiscoveryGraphNodeTypeResolver:
			resolvers++
			if n.Resolver != nil && n.Resolver.Failover != nil {
				failovers++
			}
		}
	}
	depth = d(ch.StartNode, map[string]bool{})
	return
}
