//go:build verif

package c15

// Generator of config entry sets over the services {a,b,c}, subsets {v1,v2}, datacenters {dc1,dc2,dc3}.
// Everything is a pure function of the *core.Rand handed in: calling a generator twice with equal
// PRNG state yields two deep-independent, equal sets (that is how fresh copies are obtained).

import (
	"fmt"
	"time"

	"github.com/hashicorp/consul/agent/structs"
	"github.com/hashicorp/consul/zzverif/core"
)

var svcs = []string{"a", "b", "c"}
var subsetNames = []string{"v1", "v2"}
var dcs = []string{"dc1", "dc2", "dc3"}

// weights are generated in integer hundredths so that the intended sum is exact
func w32(h int) float32 { return float32(h) / 100 }

var pairs = [][]int{{3333, 6667}, {100, 9900}, {5000, 5000}, {1, 9999}, {9950, 50}, {1234, 8766}, {6667, 3333}, {9900, 100}, {3334, 6666}, {1667, 8333}}
var triples = [][]int{{3333, 3333, 3334}, {100, 100, 9800}, {50, 4975, 4975}, {1, 3333, 6666}, {1667, 1667, 6666}, {9998, 1, 1}}

func awkwardWeights(r *core.Rand, k int) []float32 {
	var hs []int
	switch k {
	case 1:
		hs = []int{10000}
	case 2:
		if r.Chance(70) {
			hs = core.Pick(r, pairs)
		} else {
			x := 1 + r.Intn(9999)
			hs = []int{x, 10000 - x}
		}
	default:
		if r.Chance(60) {
			hs = core.Pick(r, triples)
		} else {
			x := 1 + r.Intn(9998)
			y := 1 + r.Intn(9999-x)
			hs = []int{x, y, 10000 - x - y}
		}
	}
	if r.Chance(3) { // invalid sum: must be refused by Validate
		hs = append([]int{}, hs...)
		hs[0] -= 1
	}
	out := make([]float32, len(hs))
	for i, h := range hs {
		out[i] = w32(h)
	}
	return out
}

func genHeaders(r *core.Rand) *structs.HTTPHeaderModifiers {
	if !r.Chance(30) {
		return nil
	}
	m := &structs.HTTPHeaderModifiers{}
	names := []string{"x-a", "x-b", "x-c"}
	if r.Chance(50) {
		m.Add = map[string]string{core.Pick(r, names): core.Pick(r, []string{"1", "2"})}
	}
	if r.Chance(50) {
		m.Set = map[string]string{core.Pick(r, names): core.Pick(r, []string{"1", "2"})}
	}
	if r.Chance(40) {
		m.Remove = []string{core.Pick(r, names)}
		if r.Chance(30) {
			m.Remove = append(m.Remove, core.Pick(r, names))
		}
	}
	return m
}

func genServiceDefaults(r *core.Rand, name, proto string) *structs.ServiceConfigEntry {
	e := &structs.ServiceConfigEntry{Kind: structs.ServiceDefaults, Name: name, Protocol: proto}
	if r.Chance(6) {
		e.ExternalSNI = name + ".external.example"
	}
	if r.Chance(20) {
		e.MeshGateway.Mode = core.Pick(r, []structs.MeshGatewayMode{structs.MeshGatewayModeLocal, structs.MeshGatewayModeRemote, structs.MeshGatewayModeNone})
	}
	if r.Chance(15) {
		e.Meta = map[string]string{"team": core.Pick(r, []string{"x", "y"})}
	}
	if r.Chance(10) {
		e.TransparentProxy.DialedDirectly = true
	}
	return e
}

func genProxyDefaults(r *core.Rand, proto string) *structs.ProxyConfigEntry {
	e := &structs.ProxyConfigEntry{Kind: structs.ProxyDefaults, Name: structs.ProxyConfigGlobal}
	if proto != "" {
		e.Config = map[string]interface{}{"protocol": proto}
	}
	if r.Chance(25) {
		e.MeshGateway.Mode = core.Pick(r, []structs.MeshGatewayMode{structs.MeshGatewayModeLocal, structs.MeshGatewayModeRemote, structs.MeshGatewayModeNone})
	}
	if r.Chance(10) {
		e.TransparentProxy.DialedDirectly = true
	}
	if r.Chance(10) {
		e.FailoverPolicy = &structs.ServiceResolverFailoverPolicy{Regions: []string{"us-east-1"}}
	}
	return e
}

func genRouter(r *core.Rand, name string) *structs.ServiceRouterConfigEntry {
	e := &structs.ServiceRouterConfigEntry{Kind: structs.ServiceRouter, Name: name}
	n := r.Intn(4) // 0..3 routes (a router without routes is legal: only the catch-all)
	for i := 0; i < n; i++ {
		var rt structs.ServiceRoute
		hasPath := false
		if !r.Chance(15) {
			hm := &structs.ServiceRouteHTTPMatch{}
			switch r.Intn(5) {
			case 0:
				hm.PathPrefix = core.Pick(r, []string{"/", "/p", "/p/q"})
				hasPath = true
			case 1:
				hm.PathExact = core.Pick(r, []string{"/x", "/p"})
				hasPath = true
			case 2:
				hm.PathRegex = "/r.*"
			case 3:
				hm.Header = []structs.ServiceRouteHTTPMatchHeader{{Name: "x-debug", Present: true}}
			case 4:
				hm.Methods = []string{core.Pick(r, []string{"get", "POST", "put"})}
			}
			if r.Chance(3) {
				hm.PathExact, hm.PathPrefix = "/x", "/y" // invalid
			}
			rt.Match = &structs.ServiceRouteMatch{HTTP: hm}
		}
		if !r.Chance(12) {
			d := &structs.ServiceRouteDestination{}
			if !r.Chance(25) {
				d.Service = core.Pick(r, svcs)
			}
			if r.Chance(35) {
				d.ServiceSubset = core.Pick(r, subsetNames)
			}
			if hasPath && r.Chance(20) {
				d.PrefixRewrite = "/z"
			}
			if !hasPath && r.Chance(3) {
				d.PrefixRewrite = "/z" // invalid
			}
			if r.Chance(15) {
				d.RequestTimeout = time.Duration(1+r.Intn(9)) * time.Second
			}
			if r.Chance(10) {
				d.NumRetries = uint32(1 + r.Intn(3))
				d.RetryOn = []string{"5xx"}
			}
			d.RequestHeaders = genHeaders(r)
			rt.Destination = d
		}
		e.Routes = append(e.Routes, rt)
	}
	return e
}

type dest struct{ svc, subset string }

func genSplitterTo(r *core.Rand, name string, ds []dest) *structs.ServiceSplitterConfigEntry {
	e := &structs.ServiceSplitterConfigEntry{Kind: structs.ServiceSplitter, Name: name}
	ws := awkwardWeights(r, len(ds))
	for i, d := range ds {
		e.Splits = append(e.Splits, structs.ServiceSplit{Weight: ws[i], Service: d.svc, ServiceSubset: d.subset,
			RequestHeaders: genHeaders(r), ResponseHeaders: genHeaders(r)})
	}
	return e
}

func genSplitter(r *core.Rand, name string) *structs.ServiceSplitterConfigEntry {
	k := 1 + r.Intn(3)
	var ds []dest
	seen := map[dest]bool{}
	for len(ds) < k {
		d := dest{}
		if !r.Chance(25) {
			d.svc = core.Pick(r, svcs)
		}
		if r.Chance(30) {
			d.subset = core.Pick(r, subsetNames)
		}
		key := d
		if key.svc == "" {
			key.svc = name
		}
		if seen[key] && !r.Chance(3) { // 3%: duplicate destination (invalid)
			continue
		}
		seen[key] = true
		ds = append(ds, d)
	}
	return genSplitterTo(r, name, ds)
}

func genResolver(r *core.Rand, name string, forceSubsets bool) *structs.ServiceResolverConfigEntry {
	e := &structs.ServiceResolverConfigEntry{Kind: structs.ServiceResolver, Name: name}
	hasSubsets := forceSubsets || r.Chance(55)
	if hasSubsets {
		e.Subsets = map[string]structs.ServiceResolverSubset{
			"v1": {Filter: "Service.Meta.version == v1"},
			"v2": {OnlyPassing: true},
		}
	}
	if r.Chance(25) {
		if hasSubsets && !r.Chance(5) {
			e.DefaultSubset = core.Pick(r, subsetNames)
		} else {
			e.DefaultSubset = "v3" // invalid unless refused
		}
	}
	mode := r.Intn(100)
	if mode < 28 || (mode >= 97) {
		rd := &structs.ServiceResolverRedirect{}
		switch r.Intn(6) {
		case 0, 1, 2:
			rd.Service = core.Pick(r, svcs)
		case 3:
			rd.Service = core.Pick(r, svcs)
			rd.ServiceSubset = core.Pick(r, subsetNames)
		case 4:
			rd.Datacenter = core.Pick(r, dcs)
		case 5:
			rd.Service = core.Pick(r, svcs)
			rd.Datacenter = core.Pick(r, dcs)
		}
		e.Redirect = rd
	}
	if mode >= 28 && mode < 62 || mode >= 97 { // >=97: redirect AND failover (invalid)
		e.Failover = map[string]structs.ServiceResolverFailover{}
		keys := []string{"*"}
		if hasSubsets {
			keys = append(keys, "v1", "v2")
		}
		nk := 1 + r.Intn(2)
		for i := 0; i < nk; i++ {
			k := core.Pick(r, keys)
			if r.Chance(3) {
				k = "v9" // invalid key
			}
			var f structs.ServiceResolverFailover
			switch r.Intn(5) {
			case 0:
				f.Service = core.Pick(r, svcs)
			case 1:
				f.ServiceSubset = core.Pick(r, subsetNames)
			case 2:
				f.Datacenters = []string{core.Pick(r, dcs), core.Pick(r, dcs)}
			case 3:
				nt := 1 + r.Intn(3)
				for j := 0; j < nt; j++ {
					t := structs.ServiceResolverFailoverTarget{}
					switch r.Intn(4) {
					case 0:
						t.Service = core.Pick(r, svcs)
					case 1:
						t.Service = core.Pick(r, svcs)
						t.ServiceSubset = core.Pick(r, subsetNames)
					case 2:
						t.Datacenter = core.Pick(r, dcs)
					case 3:
						t.Service = core.Pick(r, svcs)
						t.Datacenter = core.Pick(r, dcs)
					}
					f.Targets = append(f.Targets, t)
				}
			case 4:
				f.Service = core.Pick(r, svcs)
				f.ServiceSubset = core.Pick(r, subsetNames)
			}
			if r.Chance(10) {
				f.Policy = &structs.ServiceResolverFailoverPolicy{Regions: []string{"us-west-2"}}
			}
			e.Failover[k] = f
		}
	}
	if r.Chance(20) {
		e.ConnectTimeout = time.Duration(1+r.Intn(20)) * time.Second
	}
	if r.Chance(10) {
		e.RequestTimeout = time.Duration(1+r.Intn(20)) * time.Second
	}
	if r.Chance(15) {
		if r.Bool() {
			e.LoadBalancer = &structs.LoadBalancer{Policy: structs.LBPolicyRingHash,
				RingHashConfig: &structs.RingHashConfig{MinimumRingSize: 16},
				HashPolicies:   []structs.HashPolicy{{Field: structs.HashPolicyHeader, FieldValue: "x-user-" + name}}}
		} else {
			e.LoadBalancer = &structs.LoadBalancer{Policy: structs.LBPolicyLeastRequest,
				LeastRequestConfig: &structs.LeastRequestConfig{ChoiceCount: 3}}
		}
	}
	return e
}

// genSet generates one set (at most one entry per kind/name).
func genSet(r *core.Rand) []structs.ConfigEntry {
	var out []structs.ConfigEntry
	theme := r.Intn(100)
	l7 := false
	switch {
	case theme < 30: // http through proxy-defaults
		out = append(out, genProxyDefaults(r, "http"))
		l7 = true
		if r.Chance(25) {
			out = append(out, genServiceDefaults(r, core.Pick(r, svcs), core.Pick(r, []string{"", "http", "HTTP", "tcp", "grpc"})))
		}
	case theme < 58: // http through service-defaults of each service
		for _, s := range svcs {
			out = append(out, genServiceDefaults(r, s, "http"))
		}
		l7 = true
		if r.Chance(20) {
			out = append(out, genProxyDefaults(r, core.Pick(r, []string{"", "tcp", "http"})))
		}
	case theme < 66: // grpc
		out = append(out, genProxyDefaults(r, "grpc"))
		l7 = true
	case theme < 80: // random per-service protocols
		for _, s := range svcs {
			if r.Chance(70) {
				out = append(out, genServiceDefaults(r, s, core.Pick(r, []string{"", "tcp", "http", "http", "http2", "grpc"})))
			}
		}
		if r.Chance(40) {
			out = append(out, genProxyDefaults(r, core.Pick(r, []string{"", "tcp", "http", "http2"})))
		}
		l7 = r.Bool()
	case theme < 90: // a,b http; c random
		out = append(out, genServiceDefaults(r, "a", "http"), genServiceDefaults(r, "b", "http"))
		if r.Chance(70) {
			out = append(out, genServiceDefaults(r, "c", core.Pick(r, []string{"tcp", "http", "http", "grpc"})))
		}
		l7 = true
	default: // nothing: everything tcp
	}

	forceSubsets := r.Chance(65)
	ring := r.Chance(9) // redirect ring a -> b -> c -> (a | b | c@other dc): cycles and long redirect walks
	for i, s := range svcs {
		p := 55
		if forceSubsets {
			p = 90
		}
		if ring {
			e := genResolver(r, s, forceSubsets)
			e.Failover = nil
			e.Redirect = &structs.ServiceResolverRedirect{Service: svcs[(i+1)%3]}
			if i == 2 {
				switch r.Intn(4) {
				case 0:
					e.Redirect.Service = "b"
				case 1:
					e.Redirect = &structs.ServiceResolverRedirect{Datacenter: core.Pick(r, dcs)}
				case 2:
					e.Redirect = nil
				}
			} else if r.Chance(25) {
				e.Redirect.Datacenter = core.Pick(r, dcs)
			}
			out = append(out, e)
			continue
		}
		if r.Chance(p) {
			out = append(out, genResolver(r, s, forceSubsets))
		}
	}

	nested := l7 && r.Chance(40)
	if nested {
		// a -> b -> c -> leaves: three levels of splitters whose weights do not divide evenly
		x, y, z := "a", "b", "c"
		if r.Chance(30) {
			p := r.Perm(3)
			x, y, z = svcs[p[0]], svcs[p[1]], svcs[p[2]]
		}
		second := func(self string, other string) dest {
			switch r.Intn(3) {
			case 0:
				return dest{"", ""} // self: goes to the own resolver
			case 1:
				return dest{self, core.Pick(r, subsetNames)}
			default:
				return dest{other, core.Pick(r, subsetNames)}
			}
		}
		dx := []dest{{y, ""}, second(x, z)}
		if r.Chance(25) {
			dx = append(dx, dest{z, ""})
		}
		dy := []dest{{z, ""}, second(y, x)}
		dz := []dest{{"", ""}, {z, core.Pick(r, subsetNames)}}
		if r.Chance(30) {
			dz = append(dz, dest{x, core.Pick(r, subsetNames)})
		}
		if r.Chance(8) {
			dz[0] = dest{x, ""} // splitter cycle x -> y -> z -> x
		}
		if r.Chance(50) {
			dx[0], dx[1] = dx[1], dx[0]
		}
		if r.Chance(50) {
			dy[0], dy[1] = dy[1], dy[0]
		}
		out = append(out, genSplitterTo(r, x, dx), genSplitterTo(r, y, dy), genSplitterTo(r, z, dz))
	} else {
		p := 12
		if l7 {
			p = 40
		}
		for _, s := range svcs {
			if r.Chance(p) {
				out = append(out, genSplitter(r, s))
			}
		}
	}
	p := 10
	if l7 {
		p = 35
	}
	for _, s := range svcs {
		if r.Chance(p) {
			out = append(out, genRouter(r, s))
		}
	}
	return out
}

// ---------- reduced alphabet for the enumerated part ----------

type mkEntry func() structs.ConfigEntry

func sd(name, proto string) mkEntry {
	return func() structs.ConfigEntry {
		return &structs.ServiceConfigEntry{Kind: structs.ServiceDefaults, Name: name, Protocol: proto}
	}
}
func spl(name string, ws []int, ds ...dest) mkEntry {
	return func() structs.ConfigEntry {
		e := &structs.ServiceSplitterConfigEntry{Kind: structs.ServiceSplitter, Name: name}
		for i, d := range ds {
			e.Splits = append(e.Splits, structs.ServiceSplit{Weight: w32(ws[i]), Service: d.svc, ServiceSubset: d.subset})
		}
		return e
	}
}
func subsetsV() map[string]structs.ServiceResolverSubset {
	return map[string]structs.ServiceResolverSubset{"v1": {Filter: "Service.Meta.version == v1"}, "v2": {OnlyPassing: true}}
}

var alphabet = []struct {
	label string
	mk    mkEntry
}{
	{"sd-c-tcp", sd("c", "tcp")},
	{"sd-b-grpc", sd("b", "grpc")},
	{"router-a-to-b", func() structs.ConfigEntry {
		return &structs.ServiceRouterConfigEntry{Kind: structs.ServiceRouter, Name: "a", Routes: []structs.ServiceRoute{
			{Match: &structs.ServiceRouteMatch{HTTP: &structs.ServiceRouteHTTPMatch{PathPrefix: "/b"}}, Destination: &structs.ServiceRouteDestination{Service: "b"}}}}
	}},
	{"router-a-to-c-v1", func() structs.ConfigEntry {
		return &structs.ServiceRouterConfigEntry{Kind: structs.ServiceRouter, Name: "a", Routes: []structs.ServiceRoute{
			{Match: &structs.ServiceRouteMatch{HTTP: &structs.ServiceRouteHTTPMatch{PathPrefix: "/c"}}, Destination: &structs.ServiceRouteDestination{Service: "c", ServiceSubset: "v1"}}}}
	}},
	{"split-a-b33-a67", spl("a", []int{3333, 6667}, dest{"b", ""}, dest{"", ""})},
	{"split-a-b50-c50", spl("a", []int{5000, 5000}, dest{"b", ""}, dest{"c", ""})},
	{"split-b-c1-b99", spl("b", []int{100, 9900}, dest{"c", ""}, dest{"", ""})},
	{"split-b-a50-b50", spl("b", []int{5000, 5000}, dest{"a", ""}, dest{"", ""})},
	{"split-c-c3333-cv1-6667", spl("c", []int{3333, 6667}, dest{"", ""}, dest{"", "v1"})},
	{"split-c-a-v2-100", spl("c", []int{10000}, dest{"a", "v2"})},
	{"res-a-redirect-b", func() structs.ConfigEntry {
		return &structs.ServiceResolverConfigEntry{Kind: structs.ServiceResolver, Name: "a", Redirect: &structs.ServiceResolverRedirect{Service: "b"}}
	}},
	{"res-b-redirect-c-dc2", func() structs.ConfigEntry {
		return &structs.ServiceResolverConfigEntry{Kind: structs.ServiceResolver, Name: "b", Redirect: &structs.ServiceResolverRedirect{Service: "c", Datacenter: "dc2"}}
	}},
	{"res-c-redirect-a", func() structs.ConfigEntry {
		return &structs.ServiceResolverConfigEntry{Kind: structs.ServiceResolver, Name: "c", Redirect: &structs.ServiceResolverRedirect{Service: "a"}}
	}},
	{"res-c-subsets-default-v1", func() structs.ConfigEntry {
		return &structs.ServiceResolverConfigEntry{Kind: structs.ServiceResolver, Name: "c", Subsets: subsetsV(), DefaultSubset: "v1"}
	}},
	{"res-a-subsets-failover-star-b", func() structs.ConfigEntry {
		return &structs.ServiceResolverConfigEntry{Kind: structs.ServiceResolver, Name: "a", Subsets: subsetsV(),
			Failover: map[string]structs.ServiceResolverFailover{"*": {Service: "b"}}}
	}},
	{"res-b-failover-dcs", func() structs.ConfigEntry {
		return &structs.ServiceResolverConfigEntry{Kind: structs.ServiceResolver, Name: "b",
			Failover: map[string]structs.ServiceResolverFailover{"*": {Datacenters: []string{"dc2", "dc1", "dc3"}}}}
	}},
	{"res-b-failover-targets", func() structs.ConfigEntry {
		return &structs.ServiceResolverConfigEntry{Kind: structs.ServiceResolver, Name: "b",
			Failover: map[string]structs.ServiceResolverFailover{"*": {Targets: []structs.ServiceResolverFailoverTarget{{Service: "a"}, {Service: "c", ServiceSubset: "v2"}, {Datacenter: "dc3"}}}}}
	}},
	{"res-c-subsets-failover-v1-v2", func() structs.ConfigEntry {
		return &structs.ServiceResolverConfigEntry{Kind: structs.ServiceResolver, Name: "c", Subsets: subsetsV(),
			Failover: map[string]structs.ServiceResolverFailover{"v1": {ServiceSubset: "v2"}, "*": {Service: "a"}}}
	}},
}

// bases of the enumeration: the protocol context every enumerated set is combined with
var bases = []struct {
	label string
	mk    []mkEntry
}{
	{"tcp", nil},
	{"pd-http", []mkEntry{func() structs.ConfigEntry {
		return &structs.ProxyConfigEntry{Kind: structs.ProxyDefaults, Name: structs.ProxyConfigGlobal, Config: map[string]interface{}{"protocol": "http"}}
	}}},
	{"sd-abc-http", []mkEntry{sd("a", "http"), sd("b", "http"), sd("c", "http")}},
}

func kindName(e structs.ConfigEntry) string { return e.GetKind() + "/" + e.GetName() }

// enumSets lists all sets of <= 3 alphabet entries with distinct kind/name, for every base.
func enumSets() []caseDef {
	var out []caseDef
	n := len(alphabet)
	kn := make([]string, n)
	for i := range alphabet {
		kn[i] = kindName(alphabet[i].mk())
	}
	add := func(b int, idx []int) {
		seen := map[string]bool{}
		for _, m := range bases[b].mk {
			seen[kindName(m())] = true
		}
		for _, i := range idx {
			if seen[kn[i]] {
				return
			}
			seen[kn[i]] = true
		}
		label := "enum:" + bases[b].label
		for _, i := range idx {
			label += "+" + alphabet[i].label
		}
		ii := append([]int{}, idx...)
		out = append(out, caseDef{ID: label, Enumerated: true, mk: func() []structs.ConfigEntry {
			var es []structs.ConfigEntry
			for _, m := range bases[b].mk {
				es = append(es, m())
			}
			for _, i := range ii {
				es = append(es, alphabet[i].mk())
			}
			return es
		}})
	}
	for b := range bases {
		for i := 0; i < n; i++ {
			add(b, []int{i})
			for j := i + 1; j < n; j++ {
				add(b, []int{i, j})
				for k := j + 1; k < n; k++ {
					add(b, []int{i, j, k})
				}
			}
		}
	}
	return out
}

type caseDef struct {
	ID         string
	Enumerated bool
	Seed       uint64
	mk         func() []structs.ConfigEntry // raw (not yet normalized) fresh entries
}

func randomCase(i int, seed uint64) caseDef {
	return caseDef{ID: fmt.Sprintf("rand-%d", i), Seed: seed, mk: func() []structs.ConfigEntry {
		return genSet(core.NewRand(seed))
	}}
}
