//go:build verif

package c15

// Part C: enumerated two-hop dependency histories. Over a base (proxy-defaults http, resolvers with
// subsets v1,v2 for a,b,c) a link x -> y and a link y -> z are written (every kind of reference the
// config entries offer), optionally a splitter on y that keeps y's own resolver out of y's chain, then
// one modification of z that can break a chain reaching z through y. Every step goes through
// FSM.Apply and is followed by the full post-write check (every mentioned chain must compile).

import (
	"fmt"
	"strings"

	"github.com/hashicorp/consul/agent/structs"
	"github.com/hashicorp/consul/zzverif/core"
	"github.com/hashicorp/consul/zzverif/dump"
)

type linkKind struct {
	label string
	mk    func(from, to string) structs.ConfigEntry
}

func resolverWith(name string, f func(e *structs.ServiceResolverConfigEntry)) structs.ConfigEntry {
	e := &structs.ServiceResolverConfigEntry{Kind: structs.ServiceResolver, Name: name, Subsets: subsetsV()}
	if f != nil {
		f(e)
	}
	return e
}

func routeTo(from, to, subset string) structs.ConfigEntry {
	return &structs.ServiceRouterConfigEntry{Kind: structs.ServiceRouter, Name: from, Routes: []structs.ServiceRoute{
		{Match: &structs.ServiceRouteMatch{HTTP: &structs.ServiceRouteHTTPMatch{PathPrefix: "/" + to}},
			Destination: &structs.ServiceRouteDestination{Service: to, ServiceSubset: subset}}}}
}

func splitTo(from string, ws []int, ds ...dest) structs.ConfigEntry { return spl(from, ws, ds...)() }

var upLinks = []linkKind{ // x -> y
	{"route", func(x, y string) structs.ConfigEntry { return routeTo(x, y, "") }},
	{"route-subset", func(x, y string) structs.ConfigEntry { return routeTo(x, y, "v2") }},
	{"split", func(x, y string) structs.ConfigEntry {
		return splitTo(x, []int{3333, 6667}, dest{y, ""}, dest{"", ""})
	}},
	{"split-subset", func(x, y string) structs.ConfigEntry {
		return splitTo(x, []int{100, 9900}, dest{y, "v2"}, dest{"", ""})
	}},
	{"redirect", func(x, y string) structs.ConfigEntry {
		return resolverWith(x, func(e *structs.ServiceResolverConfigEntry) {
			e.Redirect = &structs.ServiceResolverRedirect{Service: y}
		})
	}},
	{"redirect-subset", func(x, y string) structs.ConfigEntry {
		return resolverWith(x, func(e *structs.ServiceResolverConfigEntry) {
			e.Redirect = &structs.ServiceResolverRedirect{Service: y, ServiceSubset: "v2"}
		})
	}},
	{"failover-service", func(x, y string) structs.ConfigEntry {
		return resolverWith(x, func(e *structs.ServiceResolverConfigEntry) {
			e.Failover = map[string]structs.ServiceResolverFailover{"*": {Service: y}}
		})
	}},
	{"failover-target-subset", func(x, y string) structs.ConfigEntry {
		return resolverWith(x, func(e *structs.ServiceResolverConfigEntry) {
			e.Failover = map[string]structs.ServiceResolverFailover{"*": {Targets: []structs.ServiceResolverFailoverTarget{{Service: y, ServiceSubset: "v2"}}}}
		})
	}},
}

var downLinks = []linkKind{ // y -> z ; the first five are resolver entries of y
	{"redirect", func(y, z string) structs.ConfigEntry {
		return resolverWith(y, func(e *structs.ServiceResolverConfigEntry) {
			e.Redirect = &structs.ServiceResolverRedirect{Service: z}
		})
	}},
	{"redirect-subset", func(y, z string) structs.ConfigEntry {
		return resolverWith(y, func(e *structs.ServiceResolverConfigEntry) {
			e.Redirect = &structs.ServiceResolverRedirect{Service: z, ServiceSubset: "v1"}
		})
	}},
	{"failover-service", func(y, z string) structs.ConfigEntry {
		return resolverWith(y, func(e *structs.ServiceResolverConfigEntry) {
			e.Failover = map[string]structs.ServiceResolverFailover{"*": {Service: z}}
		})
	}},
	{"failover-v2-target-subset", func(y, z string) structs.ConfigEntry {
		return resolverWith(y, func(e *structs.ServiceResolverConfigEntry) {
			e.Failover = map[string]structs.ServiceResolverFailover{"v2": {Targets: []structs.ServiceResolverFailoverTarget{{Service: z, ServiceSubset: "v1"}}}}
		})
	}},
	{"failover-target-subset", func(y, z string) structs.ConfigEntry {
		return resolverWith(y, func(e *structs.ServiceResolverConfigEntry) {
			e.Failover = map[string]structs.ServiceResolverFailover{"*": {Targets: []structs.ServiceResolverFailoverTarget{{Service: z, ServiceSubset: "v1"}}}}
		})
	}},
	{"split", func(y, z string) structs.ConfigEntry {
		return splitTo(y, []int{5000, 5000}, dest{z, ""}, dest{"", ""})
	}},
	{"split-subset", func(y, z string) structs.ConfigEntry { return splitTo(y, []int{10000}, dest{z, "v1"}) }},
	{"route-subset", func(y, z string) structs.ConfigEntry { return routeTo(y, z, "v1") }},
}

const resolverDownLinks = 5

type modKind struct {
	label string
	del   bool
	mk    func(x, y, z string) structs.ConfigEntry
}

var mods = []modKind{
	{"resolver-z-drops-subsets", false, func(x, y, z string) structs.ConfigEntry {
		return &structs.ServiceResolverConfigEntry{Kind: structs.ServiceResolver, Name: z}
	}},
	{"delete-resolver-z", true, func(x, y, z string) structs.ConfigEntry {
		return &structs.ServiceResolverConfigEntry{Kind: structs.ServiceResolver, Name: z}
	}},
	{"service-defaults-z-tcp", false, func(x, y, z string) structs.ConfigEntry { return sd(z, "tcp")() }},
	{"service-defaults-z-grpc", false, func(x, y, z string) structs.ConfigEntry { return sd(z, "grpc")() }},
	{"service-defaults-z-external-sni", false, func(x, y, z string) structs.ConfigEntry {
		return &structs.ServiceConfigEntry{Kind: structs.ServiceDefaults, Name: z, ExternalSNI: z + ".external.example"}
	}},
	{"resolver-z-redirect-x", false, func(x, y, z string) structs.ConfigEntry {
		return resolverWith(z, func(e *structs.ServiceResolverConfigEntry) {
			e.Redirect = &structs.ServiceResolverRedirect{Service: x}
		})
	}},
	{"resolver-z-redirect-y-subset", false, func(x, y, z string) structs.ConfigEntry {
		return resolverWith(z, func(e *structs.ServiceResolverConfigEntry) {
			e.Redirect = &structs.ServiceResolverRedirect{Service: y, ServiceSubset: "v2"}
		})
	}},
	{"splitter-z-to-x", false, func(x, y, z string) structs.ConfigEntry { return splitTo(z, []int{10000}, dest{x, ""}) }},
	{"resolver-z-default-subset-and-failover", false, func(x, y, z string) structs.ConfigEntry {
		return resolverWith(z, func(e *structs.ServiceResolverConfigEntry) {
			e.DefaultSubset = "v2"
			e.Failover = map[string]structs.ServiceResolverFailover{"v1": {Service: y}}
		})
	}},
}

type scenario struct {
	ID            string
	x, y, z       string
	up, down, mod int
	shadow        bool
}

func scenarios() []scenario {
	var out []scenario
	for _, p := range allPerms(3) {
		x, y, z := svcs[p[0]], svcs[p[1]], svcs[p[2]]
		for u := range upLinks {
			for d := range downLinks {
				for sh := 0; sh < 2; sh++ {
					if sh == 1 && d >= resolverDownLinks {
						continue // the shadowing splitter would replace the link itself
					}
					for mi := range mods {
						out = append(out, scenario{
							ID: fmt.Sprintf("scen:%s%s%s:%s>%s>%s:shadow%d", x, y, z, upLinks[u].label, downLinks[d].label, mods[mi].label, sh),
							x:  x, y: y, z: z, up: u, down: d, mod: mi, shadow: sh == 1})
					}
				}
			}
		}
	}
	return out
}

func (m *mon) partC(sc scenario) {
	run := m.run
	run.Eval()
	r := newReplica()
	defer r.Close()
	type step struct {
		del bool
		e   structs.ConfigEntry
	}
	var steps []step
	steps = append(steps, step{false, &structs.ProxyConfigEntry{Kind: structs.ProxyDefaults, Name: structs.ProxyConfigGlobal, Config: map[string]interface{}{"protocol": "http"}}})
	for _, s := range svcs {
		steps = append(steps, step{false, resolverWith(s, nil)})
	}
	steps = append(steps, step{false, downLinks[sc.down].mk(sc.y, sc.z)})
	if sc.shadow {
		// y's chain is splitter y -> z: y's own resolver (and its link to z) is not part of it
		steps = append(steps, step{false, splitTo(sc.y, []int{10000}, dest{sc.z, ""})})
	}
	steps = append(steps, step{false, upLinks[sc.up].mk(sc.x, sc.y)})
	steps = append(steps, step{mods[sc.mod].del, mods[sc.mod].mk(sc.x, sc.y, sc.z)})

	var hist []wstep
	var cur *dump.Dump
	idx := uint64(10)
	extra := evalCtx{DC: "dc1", OvProto: "tcp"}
	acc, rej := 0, 0
	for i, st := range steps {
		if m.stop() {
			return
		}
		if err := st.e.Normalize(); err != nil {
			panic(err)
		}
		if !st.del {
			if err := st.e.Validate(); err != nil {
				panic(fmt.Sprintf("scenario %s step %d: %v", sc.ID, i, err))
			}
		}
		idx++
		ok, dead := m.applyOp(r, &cur, idx, st.del, st.e, &hist, sc.ID)
		if dead {
			return
		}
		if ok {
			acc++
			// the base is checked once per run elsewhere; check from the first link on
			if i >= 4 && m.checkStore(r.State(), extra, hist, sc.ID, hist[len(hist)-1]) {
				return
			}
		} else {
			rej++
		}
	}
	run.Count("dependency_scenarios_completed")
	last := hist[len(hist)-1]
	if strings.HasPrefix(last.Result, "accepted") {
		run.Count("dependency_scenarios_modification_accepted")
	} else {
		run.Count("dependency_scenarios_modification_rejected")
		run.NonTrivial(core.Hash("scen", sc.ID))
	}
	if acc >= 6 {
		run.Count("dependency_scenarios_both_links_stored")
	}
}
