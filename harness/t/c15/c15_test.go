//go:build verif

// C15 — discovery-chain compilation is closed, terminating and deterministic; write-time validation
// agrees with the compiler.
//
// Part A drives discoverychain.Compile directly with generated entry sets (Normalize()d/Validate()d as
// the endpoint does) for every chain name and several evaluation contexts:
//   - termination: every call runs under a 20 s bound (typical < 1 ms)
//   - closedness: structural graph walker over the result (oracle_test.go)
//   - redirects: reference of the documented redirect/default-subset semantics; a reference cycle
//     must be an error, every target used must be final
//   - determinism: >= 6 compilations in-process (same set object, fresh sets built in permuted
//     orders) and one in a child process must render byte-equal
// Part B writes the same sets through FSM.Apply (ConfigEntryRequestType) into fresh replicas in
// several orders, followed by deletes/updates:
//   - after every accepted write/delete every chain name mentioned in the store compiles through
//     Store.ServiceDiscoveryChain (dc1, dc2, one override context), passes the walker, twice equal
//   - after every rejected write/delete the full dump of the store is unchanged
//   - orders that end with the same accepted set compile to identical chains
package c15

import (
	"bufio"
	"fmt"
	"hash/fnv"
	"os"
	"os/exec"
	"regexp"
	"runtime"
	"sort"
	"strings"
	"sync"
	"sync/atomic"
	"testing"
	"time"

	"github.com/hashicorp/consul/agent/configentry"
	"github.com/hashicorp/consul/agent/consul/discoverychain"
	"github.com/hashicorp/consul/agent/consul/state"
	"github.com/hashicorp/consul/agent/structs"
	"github.com/hashicorp/consul/zzverif/core"
	"github.com/hashicorp/consul/zzverif/dump"
	"github.com/hashicorp/consul/zzverif/fsmkit"
)

// ---------------- bounded execution (termination oracle) ----------------

const bound = 20 * time.Second

// a run whose own median call time exceeds bound/10^4 is on a machine too loaded to blame the code
const abnormalMedian = 2 * time.Millisecond

var (
	durMu   sync.Mutex
	durHist [64]int64
	durN    int64
	durMax  time.Duration
)

func noteDur(d time.Duration) {
	b := 0
	for x := d.Nanoseconds(); x > 0; x >>= 1 {
		b++
	}
	durMu.Lock()
	durHist[b]++
	durN++
	if d > durMax {
		durMax = d
	}
	durMu.Unlock()
}

// medianDur returns an upper bound of the median duration of all completed bounded calls.
func medianDur() time.Duration {
	durMu.Lock()
	defer durMu.Unlock()
	var acc int64
	for b, n := range durHist {
		acc += n
		if acc*2 >= durN && durN > 0 {
			return time.Duration(int64(1) << uint(b))
		}
	}
	return 0
}

type callRes struct {
	timedOut bool
	panicMsg string
}

func bounded(f func()) callRes {
	done := make(chan string, 1)
	start := time.Now()
	go func() {
		defer func() {
			if p := recover(); p != nil {
				buf := make([]byte, 4096)
				buf = buf[:runtime.Stack(buf, false)]
				done <- fmt.Sprintf("%v\n%s", p, buf)
				return
			}
			done <- ""
		}()
		f()
	}()
	t := time.NewTimer(bound)
	defer t.Stop()
	select {
	case p := <-done:
		noteDur(time.Since(start))
		return callRes{panicMsg: p}
	case <-t.C:
		return callRes{timedOut: true}
	}
}

// ---------------- monitor state ----------------

type mon struct {
	run   *core.Run
	hangs int32
	child bool
	nsA   int64
	nsB   int64
	nsC   int64

	mu     sync.Mutex
	hashes map[string]string // eval key -> hash of first compilation outcome (compared with the child process)
	order  []string
}

func (m *mon) stop() bool { return atomic.LoadInt32(&m.hangs) >= 3 || m.run.Violations() > 30 }

func (m *mon) hang(site, what string, witness any) {
	atomic.AddInt32(&m.hangs, 1)
	if m.child {
		return
	}
	if med := medianDur(); med > abnormalMedian {
		m.run.Inconclusive(fmt.Sprintf("%s exceeded %s but the run's median call time is %s (loaded machine): %s", site, bound, med, what))
		return
	}
	m.run.Violation("C15:termination:"+site, fmt.Sprintf("%s did not return within %s (median of this run: <= %s): %s", site, bound, medianDur(), what), witness)
}

// ---------------- entries ----------------

// prep does what ConfigEntry.Apply does before the raft apply: Normalize then Validate; entries
// the endpoint would refuse never reach the compiler.
func prep(raw []structs.ConfigEntry) (valid []structs.ConfigEntry, refused int) {
	for _, e := range raw {
		if err := e.Normalize(); err != nil {
			refused++
			continue
		}
		if err := e.Validate(); err != nil {
			refused++
			continue
		}
		valid = append(valid, e)
	}
	return
}

func buildSet(es []structs.ConfigEntry, order []int) *configentry.DiscoveryChainSet {
	set := configentry.NewDiscoveryChainSet()
	if order == nil {
		set.AddEntries(es...)
		return set
	}
	for _, i := range order {
		set.AddEntries(es[i])
	}
	return set
}

func entriesWitness(es []structs.ConfigEntry) []any {
	var out []any
	for _, e := range es {
		out = append(out, map[string]any{"kind": e.GetKind(), "name": e.GetName(), "entry": e})
	}
	return out
}

func resolversOf(es []structs.ConfigEntry) map[string]*structs.ServiceResolverConfigEntry {
	m := map[string]*structs.ServiceResolverConfigEntry{}
	for _, e := range es {
		if r, ok := e.(*structs.ServiceResolverConfigEntry); ok {
			m[r.Name] = r
		}
	}
	return m
}

// splitDepth: how many splitter levels are stacked below the splitter of s in the INPUT.
func splitDepth(es []structs.ConfigEntry, s string) int {
	sp := map[string]*structs.ServiceSplitterConfigEntry{}
	for _, e := range es {
		if x, ok := e.(*structs.ServiceSplitterConfigEntry); ok {
			sp[x.Name] = x
		}
	}
	var d func(s string, seen map[string]bool) int
	d = func(s string, seen map[string]bool) int {
		x := sp[s]
		if x == nil || seen[s] {
			return 0
		}
		seen[s] = true
		defer delete(seen, s)
		m := 0
		for _, l := range x.Splits {
			if l.ServiceSubset == "" && l.Service != "" && l.Service != s {
				if v := d(l.Service, seen); v > m {
					m = v
				}
			}
		}
		return m + 1
	}
	return d(s, map[string]bool{})
}

// mentioned: every chain name the entries mention (names of entries and services they reference).
func mentioned(es []structs.ConfigEntry) []string {
	set := map[string]bool{}
	add := func(s string) {
		if s != "" {
			set[s] = true
		}
	}
	for _, e := range es {
		switch x := e.(type) {
		case *structs.ServiceConfigEntry:
			add(x.Name)
		case *structs.ServiceRouterConfigEntry:
			add(x.Name)
			for _, r := range x.Routes {
				if r.Destination != nil {
					add(r.Destination.Service)
				}
			}
		case *structs.ServiceSplitterConfigEntry:
			add(x.Name)
			for _, s := range x.Splits {
				add(s.Service)
			}
		case *structs.ServiceResolverConfigEntry:
			add(x.Name)
			if x.Redirect != nil {
				add(x.Redirect.Service)
			}
			for _, f := range x.Failover {
				add(f.Service)
				for _, t := range f.Targets {
					add(t.Service)
				}
			}
		}
	}
	var out []string
	for s := range set {
		out = append(out, s)
	}
	sort.Strings(out)
	return out
}

// ---------------- evaluation contexts ----------------

type evalCtx struct {
	DC        string        `json:"dc"`
	TD        string        `json:"trust_domain"`
	OvProto   string        `json:"override_protocol,omitempty"`
	OvMGW     string        `json:"override_mesh_gateway,omitempty"`
	OvTimeout time.Duration `json:"override_connect_timeout,omitempty"`
}

const td1 = "11111111-2222-3333-4444-555555555555.consul"
const td2 = "trust.example"

func randCtx(r *core.Rand) evalCtx {
	c := evalCtx{DC: core.Pick(r, dcs), TD: core.Pick(r, []string{td1, td2})}
	if r.Chance(45) {
		c.OvProto = core.Pick(r, []string{"tcp", "http", "http2", "grpc"})
	}
	if r.Chance(30) {
		c.OvMGW = core.Pick(r, []string{"local", "remote", "none"})
	}
	if r.Chance(30) {
		c.OvTimeout = time.Duration(1+r.Intn(30)) * time.Second
	}
	return c
}

func (c evalCtx) req(svc string, set *configentry.DiscoveryChainSet) discoverychain.CompileRequest {
	return discoverychain.CompileRequest{
		ServiceName:            svc,
		EvaluateInNamespace:    "default",
		EvaluateInPartition:    "default",
		EvaluateInDatacenter:   c.DC,
		EvaluateInTrustDomain:  c.TD,
		OverrideMeshGateway:    structs.MeshGatewayConfig{Mode: structs.MeshGatewayMode(c.OvMGW)},
		OverrideProtocol:       c.OvProto,
		OverrideConnectTimeout: c.OvTimeout,
		Entries:                set,
	}
}

// ---------------- one compilation ----------------

type outcome struct {
	kind  string // ok | graph-error | other-error | panic | timeout
	chain *structs.CompiledDiscoveryChain
	err   error
	text  string
	stack string
}

func renderChain(ch *structs.CompiledDiscoveryChain) string {
	return "OK " + dump.Render(ch)
}

func classify(ch *structs.CompiledDiscoveryChain, err error, cr callRes) outcome {
	switch {
	case cr.timedOut:
		return outcome{kind: "timeout", text: "TIMEOUT"}
	case cr.panicMsg != "":
		// the stack (goroutine ids, addresses) is not part of the outcome
		return outcome{kind: "panic", text: "PANIC " + firstLine(cr.panicMsg) + " in " + panicSite(cr.panicMsg), stack: cr.panicMsg}
	case err != nil:
		o := outcome{kind: "other-error", err: err, text: fmt.Sprintf("ERR %T: %s", err, err.Error())}
		if _, ok := err.(*structs.ConfigEntryGraphError); ok {
			o.kind = "graph-error"
		}
		return o
	}
	return outcome{kind: "ok", chain: ch, text: renderChain(ch)}
}

func compileOnce(req discoverychain.CompileRequest) outcome {
	var ch *structs.CompiledDiscoveryChain
	var err error
	cr := bounded(func() { ch, err = discoverychain.Compile(req) })
	return classify(ch, err, cr)
}

func errClass(msg string) string {
	for _, p := range []string{"circular resolver redirect", "circular reference", "inconsistent protocols", "does not have a subset", "external SNI", "does not permit advanced routing"} {
		if strings.Contains(msg, p) {
			return strings.ReplaceAll(p, " ", "-")
		}
	}
	return "other"
}

var weightRe = regexp.MustCompile(`Weight:[-+0-9.e]+ ?`)

// stripWeights removes every split weight from a rendered chain (a weight of 0 is not rendered at
// all, so removal - not blanking - makes "0" and "0.01" comparable).
func stripWeights(text string) string { return weightRe.ReplaceAllString(text, "") }

// diffClass names WHAT differs between two outcomes of the same input (-> violation key).
func diffClass(a, b outcome) string {
	switch {
	case a.kind == "ok" && b.kind == "ok":
		if stripWeights(a.text) == stripWeights(b.text) {
			return "flattenAdjacentSplitterNodes:split-weights-depend-on-map-order"
		}
		return "compile:nondeterministic:chain-differs"
	case a.kind == "panic":
		// whether the panicking statement is reached can itself depend on the iteration order; the
		// defect is the panic
		return "panic:" + panicSite(a.stack)
	case b.kind == "panic":
		return "panic:" + panicSite(b.stack)
	case a.kind != b.kind:
		return "compile:nondeterministic:" + a.kind + "-vs-" + b.kind
	default:
		return "compile:nondeterministic:" + a.kind + "-text"
	}
}

func firstDiff(a, b string) string {
	i := 0
	for i < len(a) && i < len(b) && a[i] == b[i] {
		i++
	}
	lo := i - 120
	if lo < 0 {
		lo = 0
	}
	cut := func(s string) string {
		hi := i + 120
		if hi > len(s) {
			hi = len(s)
		}
		if lo > len(s) {
			return ""
		}
		return s[lo:hi]
	}
	return fmt.Sprintf("at byte %d: …%s… / …%s…", i, cut(a), cut(b))
}

// ---------------- Part A ----------------

const repeats = 6

func caseSeed(cd caseDef) uint64 {
	if !cd.Enumerated {
		return cd.Seed ^ 0xC15C15C15
	}
	h := fnv.New64a()
	h.Write([]byte(cd.ID))
	return h.Sum64()
}

func (m *mon) record(key string, o outcome) {
	text := o.text
	kind := o.kind
	if kind == "panic" {
		kind = "panic:" + panicSite(o.stack)
	}
	m.mu.Lock()
	m.hashes[key] = core.Hash(text) + "\t" + core.Hash(stripWeights(text)) + "\t" + kind
	m.order = append(m.order, key)
	m.mu.Unlock()
}

func (m *mon) partA(cd caseDef) {
	run := m.run
	es, refused := prep(cd.mk())
	cr := core.NewRand(caseSeed(cd))
	ctxs := []evalCtx{{DC: "dc1", TD: td1}, randCtx(cr)}
	res := resolversOf(es)
	hasRouter, hasSplitter := map[string]bool{}, map[string]bool{}
	for _, e := range es {
		switch e.(type) {
		case *structs.ServiceRouterConfigEntry:
			hasRouter[e.GetName()] = true
		case *structs.ServiceSplitterConfigEntry:
			hasSplitter[e.GetName()] = true
		}
	}
	if !m.child {
		run.CountN("entries_refused_by_validate", refused)
		run.CountN("entries_valid", len(es))
	}
	set0 := buildSet(es, nil)
	sets := []*configentry.DiscoveryChainSet{set0, set0}
	if !m.child {
		for k := 2; k < repeats; k++ {
			fes, _ := prep(cd.mk())
			sets = append(sets, buildSet(fes, cr.Perm(len(fes))))
		}
	}
	for _, svc := range svcs {
		for ci, ctx := range ctxs {
			if m.stop() {
				return
			}
			key := fmt.Sprintf("%s|%s|%d", cd.ID, svc, ci)
			witness := func() map[string]any {
				return map[string]any{"case": cd.ID, "case_seed": cd.Seed, "service": svc, "context": ctx, "entries": entriesWitness(es)}
			}
			first := compileOnce(ctx.req(svc, set0))
			m.record(key, first)
			if first.kind == "timeout" {
				m.hang("Compile", fmt.Sprintf("chain %q in %s of case %s", svc, core.JSON(ctx), cd.ID), witness())
			}
			if m.child {
				continue
			}
			run.Eval()
			run.Distinct("compile-outcome", first.kind)
			if first.kind == "timeout" {
				continue
			}
			inputDesc := fmt.Sprintf("chain %q, context %s, case %s (%d entries)", svc, core.JSON(ctx), cd.ID, len(es))

			// ---- determinism: same set object again, then fresh sets built in permuted orders
			outs := []outcome{first}
			for k := 1; k < repeats; k++ {
				o := compileOnce(ctx.req(svc, sets[k]))
				if o.kind == "timeout" {
					m.hang("Compile", inputDesc+fmt.Sprintf(" (repetition %d; an earlier one returned)", k), witness())
					break
				}
				outs = append(outs, o)
			}
			run.CountN("compilations", len(outs))

			// ---- class of result
			switch first.kind {
			case "panic":
				run.Violation("C15:panic:"+panicSite(first.stack), "Compile panicked for "+inputDesc+": "+first.text, withText(witness(), first.stack))
			case "other-error":
				run.Violation("C15:compile:internal-error", "Compile returned a non-graph error for "+inputDesc+": "+first.text, witness())
			case "graph-error":
				run.Distinct("graph-error-class", errClass(first.err.Error()))
				run.Count("graph_errors")
			case "ok":
				for _, f := range walk(first.chain) {
					run.Violation("C15:graph:"+f.class, f.what+" — "+inputDesc, withText(witness(), first.text))
				}
				for _, f := range fixedPoints(first.chain, res) {
					run.Violation("C15:redirect:"+f.class, f.what+" — "+inputDesc, withText(witness(), first.text))
				}
				ro, sp, rs, fo, _ := shape(first.chain)
				if ro > 0 {
					run.Count("chains_with_router")
				}
				if sp > 0 {
					run.Count("chains_with_splitter")
				}
				if fo > 0 {
					run.Count("chains_with_failover")
				}
				if rs > 1 {
					run.Count("chains_with_several_resolvers")
				}
				if first.chain.Default {
					run.Count("chains_default")
				}
			}

			// ---- reference redirect semantics for chains that start at a resolver
			advDisabled := ctx.OvProto != "" && !structs.IsProtocolHTTPLike(ctx.OvProto)
			if (!hasRouter[svc] && !hasSplitter[svc]) || advDisabled {
				final, cycle, ok, hops := refResolve(res, tgt{svc, "", ctx.DC})
				if ok {
					if hops > 0 {
						run.Count("redirect_or_default_subset_followed")
					}
					if cycle {
						run.Count("redirect_cycles_in_input")
						if first.kind == "ok" {
							run.Violation("C15:redirect:cycle-not-reported", fmt.Sprintf("resolver redirects from %q form a cycle (back at %s after %d hops) but Compile returned a chain — %s", svc, final, hops, inputDesc), withText(witness(), first.text))
						}
					} else if first.kind == "ok" {
						st := first.chain.Nodes[first.chain.StartNode]
						if st != nil && st.Type == structs.DiscoveryGraphNodeTypeResolver && st.Resolver != nil && first.chain.Targets[st.Resolver.Target] != nil {
							if got := targetOf(first.chain.Targets[st.Resolver.Target]); got != final {
								run.Violation("C15:redirect:wrong-final-target", fmt.Sprintf("chain %q resolves to %s but following the stored redirects/default subsets ends at %s — %s", svc, got, final, inputDesc), withText(witness(), first.text))
							}
						} else if st != nil && st.Type != structs.DiscoveryGraphNodeTypeResolver {
							run.Violation("C15:redirect:start-not-resolver", fmt.Sprintf("chain %q has neither router nor splitter (or they are disabled) but starts at a %s node — %s", svc, st.Type, inputDesc), withText(witness(), first.text))
						}
					} else if first.kind == "graph-error" && strings.Contains(first.err.Error(), "circular resolver redirect") {
						run.Count("reference_sees_no_cycle_but_compile_reports_one")
					}
				}
			}

			// ---- compare the repetitions
			depth := splitDepth(es, svc)
			if first.kind == "ok" && depth >= 3 {
				run.Count("compiled_ok_splitter_nesting>=3")
			}
			for k := 1; k < len(outs); k++ {
				if outs[k].text != first.text {
					how := "fresh set, permuted insertion order"
					if k == 1 {
						how = "same set object"
					}
					d := firstDiff(first.text, outs[k].text)
					cls := diffClass(first, outs[k])
					w := witness()
					w["splitter_nesting_depth"] = depth
					w["compilation_0"] = first.text
					w[fmt.Sprintf("compilation_%d", k)] = outs[k].text
					run.Violation("C15:"+cls, fmt.Sprintf("compilation %d (%s) of %s differs from compilation 0 (input splitter nesting depth %d): %s", k, how, inputDesc, depth, d), w)
					break
				}
			}

			// ---- bookkeeping
			nt := first.kind == "graph-error" || (first.kind == "ok" && !first.chain.Default)
			if nt {
				run.NonTrivial(core.Hash(core.JSON(entriesWitness(es)), svc, core.JSON(ctx)))
				if run.WantSample() && !cd.Enumerated {
					run.Sample(map[string]any{"case": cd.ID, "service": svc, "context": ctx, "entries": entriesWitness(es), "outcome": trunc(first.text, 600)})
				}
			}
		}
	}
}

func trunc(s string, n int) string {
	if len(s) > n {
		return s[:n] + "…"
	}
	return s
}
func firstLine(s string) string {
	if i := strings.IndexByte(s, '\n'); i > 0 {
		return s[:i]
	}
	return s
}
func withText(w map[string]any, text string) map[string]any {
	w["result"] = text
	return w
}

// panicSite picks the first consul function of a recovered stack as part of the violation key.
func panicSite(text string) string {
	for _, l := range strings.Split(text, "\n") {
		if strings.HasPrefix(l, "github.com/hashicorp/consul/") && !strings.Contains(l, "zzverif") {
			l = strings.TrimPrefix(l, "github.com/hashicorp/consul/")
			if i := strings.IndexByte(l, '('); i > 0 {
				// keep "(*T).method" forms intact: cut at the argument list (last '(')
				if j := strings.LastIndexByte(l, '('); j > 0 {
					l = l[:j]
				}
			}
			return l
		}
	}
	return "unknown"
}

// ---------------- Part B: writes through the FSM ----------------

const clusterID = "11111111-2222-3333-4444-555555555555"

func newReplica() *fsmkit.Replica {
	r := fsmkit.New(fsmkit.Opts{})
	if err := r.State().CASetConfig(1, &structs.CAConfiguration{ClusterID: clusterID, Provider: "consul"}); err != nil {
		panic(err)
	}
	return r
}

type wstep struct {
	Op     string `json:"op"`
	Kind   string `json:"kind"`
	Name   string `json:"name"`
	Entry  any    `json:"entry,omitempty"`
	Result string `json:"result"`
}

// applyOp applies one upsert/delete; accepted=false means the FSM returned an error. dead=true: the
// replica must not be used any more (hang or panic inside the apply).
func (m *mon) applyOp(r *fsmkit.Replica, cur **dump.Dump, idx uint64, del bool, e structs.ConfigEntry, hist *[]wstep, caseID string) (accepted, dead bool) {
	op := structs.ConfigEntryUpsert
	name := "upsert"
	if del {
		op = structs.ConfigEntryDelete
		name = "delete"
	}
	st := wstep{Op: name, Kind: e.GetKind(), Name: e.GetName()}
	if !del {
		st.Entry = e
	}
	// *cur caches the dump of the store as of the last accepted step (a rejected step must leave it valid)
	if *cur == nil {
		*cur = dump.Of(r.State())
	}
	before := *cur
	var cr callRes
	var v any
	req := &structs.ConfigEntryRequest{Op: op, Entry: e}
	cr = bounded(func() { v = r.Apply(idx, structs.ConfigEntryRequestType, req) })
	if cr.timedOut {
		st.Result = "TIMEOUT"
		*hist = append(*hist, st)
		m.hang("config-entry-write-validation", fmt.Sprintf("FSM apply of %s %s/%s in case %s", name, st.Kind, st.Name, caseID), map[string]any{"case": caseID, "history": *hist})
		return false, true
	}
	if cr.panicMsg != "" {
		st.Result = "PANIC " + firstLine(cr.panicMsg)
		*hist = append(*hist, st)
		m.run.Violation("C15:panic:"+panicSite(cr.panicMsg), fmt.Sprintf("FSM apply of %s %s/%s panicked (a server would crash): %s — case %s", name, st.Kind, st.Name, firstLine(cr.panicMsg), caseID),
			map[string]any{"case": caseID, "history": *hist, "stack": cr.panicMsg})
		return false, true
	}
	if err, isErr := v.(error); isErr {
		st.Result = "rejected: " + err.Error()
		*hist = append(*hist, st)
		m.run.Count(name + "s_rejected")
		m.run.Distinct("rejection-class", name+":"+errClass(err.Error()))
		after := dump.Of(r.State())
		if after.Hash() != before.Hash() {
			diffs := dump.Compare(before, after, 5, nil)
			m.run.Violation("C15:write:rejected-but-changed:"+name+":"+st.Kind, fmt.Sprintf("%s of %s/%s was rejected (%v) but the store changed: %s — case %s", name, st.Kind, st.Name, err, core.JSON(diffs), caseID),
				map[string]any{"case": caseID, "history": *hist, "diffs": diffs})
		}
		return false, false
	}
	st.Result = fmt.Sprintf("accepted (%v)", v)
	*cur = nil
	*hist = append(*hist, st)
	m.run.Count(name + "s_accepted")
	return true, false
}

func stored(s *state.Store) []structs.ConfigEntry {
	_, es, err := s.ConfigEntries(nil, structs.WildcardEnterpriseMetaInDefaultPartition())
	if err != nil {
		panic(err)
	}
	return es
}

func storeCompile(s *state.Store, svc string, ctx evalCtx) outcome {
	req := ctx.req(svc, nil)
	req.EvaluateInTrustDomain = ""
	var ch *structs.CompiledDiscoveryChain
	var err error
	cr := bounded(func() {
		_, ch, _, err = s.ServiceDiscoveryChain(nil, svc, structs.DefaultEnterpriseMetaInDefaultPartition(), req)
	})
	if ch != nil {
		// virtual IPs are per-store allocations, not part of the compiled graph
		ch.AutoVirtualIPs, ch.ManualVirtualIPs, ch.AutoPortVirtualIPs = nil, nil, nil
	}
	return classify(ch, err, cr)
}

var storeCtxs = []evalCtx{{DC: "dc1"}, {DC: "dc2"}}

// checkStore: every mentioned chain must compile through the production path.
func (m *mon) checkStore(s *state.Store, extra evalCtx, hist []wstep, caseID string, last wstep) (dead bool) {
	run := m.run
	es := stored(s)
	res := resolversOf(es)
	names := mentioned(es)
	ctxs := append(append([]evalCtx{}, storeCtxs...), extra)
	for _, svc := range names {
		for ci, ctx := range ctxs {
			o := storeCompile(s, svc, ctx)
			run.Count("post_write_compilations")
			desc := fmt.Sprintf("after accepted %s of %s/%s chain %q (context %s) — case %s, step %d", last.Op, last.Kind, last.Name, svc, core.JSON(ctx), caseID, len(hist))
			w := func() map[string]any {
				return map[string]any{"case": caseID, "history": hist, "chain": svc, "context": ctx, "result": o.text}
			}
			failed := false
			switch o.kind {
			case "timeout":
				m.hang("ServiceDiscoveryChain", desc, w())
				return true
			case "panic":
				ww := w()
				ww["stack"] = o.stack
				run.Violation("C15:panic:"+panicSite(o.stack), "ServiceDiscoveryChain panicked "+desc+": "+o.text, ww)
				failed = true
			case "graph-error", "other-error":
				failed = true
				cls := errClass(o.err.Error())
				switch {
				case ci == 0 && last.Kind != structs.ProxyDefaults && svc != last.Name && !linksTo(es, svc, last.Name):
					// the chain depends on the written entry only through another service's entries
					cls = "indirectly-affected-chain-not-validated"
				case ci == 0:
				case ci == 1:
					cls = "only-in-other-dc:" + cls
				case ctx.OvProto != "" && !structs.IsProtocolHTTPLike(ctx.OvProto) && shadowed(es, svc):
					// the override switches the router/splitter of this service off, which exposes its
					// resolver: an entry the write-time validation never compiled
					cls = "protocol-override-exposes-shadowed-resolver"
				default:
					cls = "with-overrides:" + cls
				}
				run.Violation("C15:write:accepted-but-uncompilable:"+cls,
					fmt.Sprintf("write was accepted but a mentioned chain no longer compiles: %s: %v", desc, o.err), w())
			}
			if failed {
				// the store is now in a state the property excludes: later steps of this history
				// could only report consequences of this one
				return true
			}
			for _, f := range walk(o.chain) {
				run.Violation("C15:graph:"+f.class, f.what+" — "+desc, w())
			}
			for _, f := range fixedPoints(o.chain, res) {
				run.Violation("C15:redirect:"+f.class, f.what+" — "+desc, w())
			}
			if ci != 0 {
				continue // the repeated compilation is done for the plain dc1 context
			}
			o2 := storeCompile(s, svc, ctx)
			if o2.kind == "timeout" {
				m.hang("ServiceDiscoveryChain", desc, w())
				return true
			}
			if o2.text != o.text {
				d := firstDiff(o.text, o2.text)
				ww := w()
				ww["second_result"] = o2.text
				run.Violation("C15:"+diffClass(o, o2), fmt.Sprintf("two compilations from the same store differ %s: %s", desc, d), ww)
			}
		}
	}
	return false
}

// linksTo: some router/splitter/resolver entry of svc names target directly.
func linksTo(es []structs.ConfigEntry, svc, target string) bool {
	for _, e := range es {
		if e.GetName() != svc || e.GetKind() == structs.ServiceDefaults {
			continue
		}
		for _, x := range mentioned([]structs.ConfigEntry{e}) {
			if x == target {
				return true
			}
		}
	}
	return false
}

// shadowed: the service has a router or splitter (so its own resolver is not the start of its chain)
func shadowed(es []structs.ConfigEntry, svc string) bool {
	for _, e := range es {
		if e.GetName() == svc && (e.GetKind() == structs.ServiceRouter || e.GetKind() == structs.ServiceSplitter) {
			return true
		}
	}
	return false
}

func allPerms(n int) [][]int {
	var out [][]int
	p := make([]int, n)
	for i := range p {
		p[i] = i
	}
	var rec func(k int)
	rec = func(k int) {
		if k == n {
			out = append(out, append([]int{}, p...))
			return
		}
		for i := k; i < n; i++ {
			p[k], p[i] = p[i], p[k]
			rec(k + 1)
			p[k], p[i] = p[i], p[k]
		}
	}
	rec(0)
	return out
}

func (m *mon) partB(cd caseDef) {
	run := m.run
	cr := core.NewRand(caseSeed(cd) ^ 0xB)
	es0, _ := prep(cd.mk())
	n := len(es0)
	if n == 0 {
		return
	}
	// the FSM decodes its own copy of every request: the monitor's entry objects are never retained by
	// a store, so one prepared set serves all orders
	extra := randCtx(cr)
	extra.TD = ""

	var perms [][]int
	switch {
	case n <= 3 || (n == 4 && core.Thorough()):
		perms = allPerms(n)
	default:
		id := make([]int, n)
		for i := range id {
			id[i] = i
		}
		perms = append(perms, id)
		for i := 0; i < core.N(2, 7); i++ {
			perms = append(perms, cr.Perm(n))
		}
	}

	type final struct {
		perm   []int
		labels []string
		outs   []outcome
	}
	groups := map[string]final{}
	var first *fsmkit.Replica
	var firstHist []wstep
	idx := uint64(10)
	for pi, perm := range perms {
		if m.stop() {
			break
		}
		r := newReplica()
		es := es0
		var hist []wstep
		var cur *dump.Dump
		dead := false
		acc := make([]byte, n)
		for i := range acc {
			acc[i] = '0'
		}
		idx = 10
		for _, i := range perm {
			idx++
			ok, d := m.applyOp(r, &cur, idx, false, es[i], &hist, cd.ID)
			if d {
				dead = true
				break
			}
			if ok {
				acc[i] = '1'
				if pi == 0 {
					if m.checkStore(r.State(), extra, hist, cd.ID, hist[len(hist)-1]) {
						dead = true
						break
					}
				}
			}
		}
		run.Count("insertion_orders_run")
		if dead {
			r.Close()
			continue
		}
		if !strings.Contains(string(acc), "0") {
			run.Count("insertion_orders_fully_accepted")
		}
		// final chains of this order
		var labels []string
		var fouts []outcome
		for _, svc := range svcs {
			for _, ctx := range storeCtxs {
				o := storeCompile(r.State(), svc, ctx)
				if o.kind == "timeout" {
					m.hang("ServiceDiscoveryChain", fmt.Sprintf("chain %q after insertion order %v of case %s", svc, perm, cd.ID), map[string]any{"case": cd.ID, "history": hist})
					dead = true
					break
				}
				labels = append(labels, svc+"@"+ctx.DC)
				fouts = append(fouts, o)
			}
			if dead {
				break
			}
		}
		if !dead {
			g, seen := groups[string(acc)]
			if !seen {
				groups[string(acc)] = final{perm, labels, fouts}
			} else {
				run.Count("insertion_order_pairs_compared")
				for k := range fouts {
					if g.outs[k].text != fouts[k].text {
						run.Violation("C15:"+diffClass(g.outs[k], fouts[k]), fmt.Sprintf("the same accepted entries (mask %s) written into fresh stores in order %v and in order %v compile differently for chain %s: %s — case %s", acc, g.perm, perm, labels[k], firstDiff(g.outs[k].text, fouts[k].text), cd.ID),
							map[string]any{"case": cd.ID, "entries": entriesWitness(es0), "order_a": g.perm, "order_b": perm, "chain": labels[k], "result_a": g.outs[k].text, "result_b": fouts[k].text})
						break
					}
				}
			}
		}
		if pi == 0 && !dead {
			first, firstHist = r, hist
		} else {
			r.Close()
		}
	}

	// ---- continue the first order with deletes / updates / re-creations
	if first != nil && !m.stop() {
		poolSeed := cr.U64()
		variants, _ := prep(genSet(core.NewRand(poolSeed)))
		thePool := append(append([]structs.ConfigEntry{}, es0...), variants...)
		pool := func() []structs.ConfigEntry { return thePool }
		np := len(thePool)
		steps := core.N(6, 10)
		hist := firstHist
		var firstCur *dump.Dump
		for sIdx := 0; sIdx < steps && !m.stop(); sIdx++ {
			idx++
			p := pool()
			e := p[cr.Intn(np)]
			del := cr.Chance(45)
			if del {
				// prefer deleting something that exists
				cur := stored(first.State())
				if len(cur) > 0 && cr.Chance(85) {
					c := cur[cr.Intn(len(cur))]
					for _, x := range p {
						if x.GetKind() == c.GetKind() && x.GetName() == c.GetName() {
							e = x
							break
						}
					}
				}
			}
			ok, dead := m.applyOp(first, &firstCur, idx, del, e, &hist, cd.ID)
			if dead {
				break
			}
			if ok && m.checkStore(first.State(), extra, hist, cd.ID, hist[len(hist)-1]) {
				break
			}
		}
		run.Eval()
		acc, rej := 0, 0
		for _, h := range hist {
			if strings.HasPrefix(h.Result, "accepted") {
				acc++
			} else {
				rej++
			}
		}
		if acc > 0 && rej > 0 {
			run.NonTrivial(core.Hash("hist", core.JSON(hist)))
		}
		first.Close()
	}
}

// ---------------- child process (one compilation of every Part A evaluation in another process) ----------------

const childEnv = "ZV_C15_CHILD_OUT"

func runChild(cases []caseDef, path string) {
	m := &mon{run: core.NewRun("C15-child", "exploration", "child"), child: true, hashes: map[string]string{}}
	for _, cd := range cases {
		if m.stop() {
			break
		}
		m.partA(cd)
	}
	f, err := os.Create(path + ".tmp")
	if err != nil {
		panic(err)
	}
	w := bufio.NewWriter(f)
	for _, k := range m.order {
		fmt.Fprintf(w, "%s\t%s\n", k, m.hashes[k])
	}
	w.Flush()
	f.Close()
	os.Rename(path+".tmp", path)
}

// ---------------- main ----------------

func buildCases(rng *core.Rand) []caseDef {
	var cases []caseDef
	en := enumSets()
	stride := 1
	if !core.Thorough() {
		stride = 6
	}
	off := 0
	if stride > 1 {
		off = rng.Intn(stride)
	}
	for i := off; i < len(en); i += stride {
		cases = append(cases, en[i])
	}
	nr := core.N(2000, 30000)
	for i := 0; i < nr; i++ {
		cases = append(cases, randomCase(i, rng.Fork(uint64(i)).U64()))
	}
	return cases
}

func TestZZVerifC15(t *testing.T) {
	rng := core.NewRand(core.Seed())
	cases := buildCases(rng)
	if out := os.Getenv(childEnv); out != "" {
		runChild(cases, out)
		return
	}

	run := core.NewRun("C15", "exploration",
		"entry sets over services {a,b,c} x subsets {v1,v2} x datacenters {dc1,dc2,dc3}: PRNG sets (protocol themes, resolvers with redirects/default subsets/failover by service|subset|datacenters|targets|'*', 3-deep and mutual splitters with weights in hundredths that do not divide evenly, routers, service-/proxy-defaults; every entry Normalize()d+Validate()d, refused ones dropped) plus all sets of <=3 entries of an 18-entry alphabet under 3 protocol bases (quick: every 6th). Part A: one evaluation = (set, chain name in {a,b,c}, context in {dc1 plain, random dc/trust-domain/override}) compiled 6x in process (same set object, fresh sets in permuted insertion order) under a 20 s bound + once in a child process, judged by graph walker, redirect reference and byte-equality. Part B: one evaluation = write history of the set through FSM.Apply in several orders (all orders for <=3 entries) followed by deletes/updates, with store dump comparison on every rejection and recompilation of every mentioned chain (dc1, dc2, override context) after every accepted step. non-trivial = evaluation whose chain is not the default chain or is a graph error (A), history with both accepted and rejected steps (B); distinct by entries+chain+context / by history")
	run.Assume("CE build: namespace/partition are always 'default'; peers and sameness groups (enterprise) are not generated",
		"entries the endpoint's Normalize/Validate refuses are not fed to the compiler",
		"a redirect cycle must be an error; a failover cycle only must not be followed (failover is documented as non-recursive)",
		"virtual IPs of a chain are ignored when comparing chains of different stores")
	m := &mon{run: run, hashes: map[string]string{}}

	// child process: same case list, one compilation per evaluation
	var childCmd *exec.Cmd
	childOut := ""
	if f, err := os.CreateTemp("", "c15-child-*.tsv"); err == nil {
		childOut = f.Name()
		f.Close()
		os.Remove(childOut)
		exe, _ := os.Executable()
		childCmd = exec.Command(exe, "-test.run", "^TestZZVerifC15$", "-test.timeout", "3000s")
		childCmd.Env = append(os.Environ(), childEnv+"="+childOut, "VERIF_STATUS=", "VERIF_EVIDENCE="+childOut+".evidence")
		if err := childCmd.Start(); err != nil {
			childCmd = nil
		}
	}

	// first cases sequentially (deterministic samples), the rest on a worker pool
	pre := 48
	if pre > len(cases) {
		pre = len(cases)
	}
	// random cases first in the sequential prefix so that samples are PRNG sets
	firstRand := 0
	for i, c := range cases {
		if !c.Enumerated {
			firstRand = i
			break
		}
	}
	doCase := func(cd caseDef) {
		if m.stop() {
			return
		}
		core.Progress("C15", cd.ID)
		t0 := time.Now()
		m.partA(cd)
		t1 := time.Now()
		if !m.stop() {
			m.partB(cd)
		}
		atomic.AddInt64(&m.nsA, int64(t1.Sub(t0)))
		atomic.AddInt64(&m.nsB, int64(time.Since(t1)))
	}
	for i := firstRand; i < firstRand+pre && i < len(cases); i++ {
		doCase(cases[i])
	}
	// Part C scenarios (quick: every 8th, offset from the seed)
	scs := scenarios()
	sstride, soff := 1, 0
	if !core.Thorough() {
		sstride = 8
		soff = rng.Fork(0xC).Intn(sstride)
	}
	var jobs []func()
	for i := range cases {
		if i >= firstRand && i < firstRand+pre {
			continue
		}
		cd := cases[i]
		jobs = append(jobs, func() { doCase(cd) })
	}
	nsc := 0
	for i := soff; i < len(scs); i += sstride {
		sc := scs[i]
		nsc++
		jobs = append(jobs, func() {
			if m.stop() {
				return
			}
			core.Progress("C15", sc.ID)
			t0 := time.Now()
			m.partC(sc)
			atomic.AddInt64(&m.nsC, int64(time.Since(t0)))
		})
	}
	run.Extra("dependency_scenario_space", len(scs))
	workers := core.N(4, 14)
	var wg sync.WaitGroup
	var next int64 = -1
	for w := 0; w < workers; w++ {
		wg.Add(1)
		go func() {
			defer wg.Done()
			for {
				i := int(atomic.AddInt64(&next, 1))
				if i >= len(jobs) {
					return
				}
				jobs[i]()
			}
		}()
	}
	wg.Wait()

	// ---- compare with the child process
	if childCmd != nil {
		done := make(chan error, 1)
		go func() { done <- childCmd.Wait() }()
		select {
		case <-done:
		case <-time.After(time.Duration(core.N(240, 1500)) * time.Second):
			childCmd.Process.Kill()
			<-done
		}
		b, err := os.ReadFile(childOut)
		os.Remove(childOut)
		os.Remove(childOut + ".evidence")
		os.Remove(childOut + ".tmp")
		if err != nil {
			if atomic.LoadInt32(&m.hangs) == 0 {
				run.Inconclusive("child process produced no result: " + err.Error())
			}
		} else {
			cmp := 0
			for _, l := range strings.Split(strings.TrimSpace(string(b)), "\n") {
				kv := strings.SplitN(l, "\t", 2)
				if len(kv) != 2 {
					continue
				}
				m.mu.Lock()
				mine, ok := m.hashes[kv[0]]
				m.mu.Unlock()
				if !ok {
					continue
				}
				cmp++
				if mine != kv[1] {
					// hash of the outcome <tab> hash of the outcome without split weights
					key := "C15:compile:nondeterministic:across-processes"
					a, b := strings.Split(mine, "\t"), strings.Split(kv[1], "\t")
					if len(a) == 3 && len(b) == 3 {
						switch {
						case strings.HasPrefix(a[2], "panic:"):
							key = "C15:" + a[2]
						case strings.HasPrefix(b[2], "panic:"):
							key = "C15:" + b[2]
						case a[1] == b[1]:
							key = "C15:flattenAdjacentSplitterNodes:split-weights-depend-on-map-order"
						}
					}
					run.Violation(key, "evaluation "+kv[0]+" (case|chain|context#) compiled differently in a child process (same seed, same generator); rerun with the same VERIF_SEED to reproduce",
						map[string]any{"evaluation": kv[0], "parent_hash": mine, "child_hash": kv[1]})
				}
			}
			run.CountN("evaluations_compared_with_child_process", cmp)
		}
	} else {
		run.Inconclusive("could not start the child process")
	}

	run.CountN("cases", len(cases))
	run.Extra("bounded_calls", durN)
	run.Extra("median_call_upper_bound", medianDur().String())
	run.Extra("max_call", durMax.String())
	run.Extra("bound", bound.String())
	run.Extra("cpu_part_a", time.Duration(m.nsA).String())
	run.Extra("cpu_part_b", time.Duration(m.nsB).String())
	run.Extra("cpu_part_c", time.Duration(m.nsC).String())

	run.FloorDistinct("compile-outcome", 2)
	run.FloorDistinct("graph-error-class", 5)
	run.Floor("redirect_cycles_in_input", 50)
	run.Floor("redirect_or_default_subset_followed", 300)
	run.Floor("compiled_ok_splitter_nesting>=3", 100)
	run.Floor("chains_with_router", 200)
	run.Floor("chains_with_failover", 200)
	run.Floor("upserts_accepted", 2000)
	run.Floor("upserts_rejected", 300)
	run.Floor("deletes_accepted", 200)
	run.Floor("deletes_rejected", 30)
	run.Floor("insertion_order_pairs_compared", 300)
	run.Floor("evaluations_compared_with_child_process", 5000)
	run.Floor("dependency_scenarios_both_links_stored", 300)
	run.Floor("dependency_scenarios_modification_rejected", 100)
	if run.Finish() == 1 {
		t.Fail()
	}
}
