//go:build verif

// C06 (server tier) — the RPC-level clauses of the blocking-query contract, on a REAL single-node
// server (real raft, real RPC dispatch, real blocking-query loop):
//   * the index reported with every read reply is never zero (also on empty tables);
//   * if the reply of a read endpoint changes after a write, its index grew; indexes do not go back;
//   * a read RPC blocked on the old index is released by the write that changes its result and
//     returns a larger index.
package consul

import (
	"context"
	"fmt"
	"reflect"
	"sort"
	"strings"
	"testing"
	"time"

	"github.com/hashicorp/consul/agent/structs"
	"github.com/hashicorp/consul/api"
	"github.com/hashicorp/consul/types"
	"github.com/hashicorp/consul/zzverif/core"
	"github.com/hashicorp/consul/zzverif/dump"
)

type zvQ6 struct {
	name  string
	args  func(min uint64, wait time.Duration) any
	reply func() any
	meth  string
}

func zv6qo(min uint64, wait time.Duration) structs.QueryOptions {
	return structs.QueryOptions{MinQueryIndex: min, MaxQueryTime: wait}
}

func zv6Universe() []zvQ6 {
	var qs []zvQ6
	for _, k := range []string{"a", "a/b", "ab", "zz"} {
		k := k
		qs = append(qs, zvQ6{"KVS.Get:" + k, func(m uint64, w time.Duration) any {
			return &structs.KeyRequest{Datacenter: "dc1", Key: k, QueryOptions: zv6qo(m, w)}
		}, func() any { return &structs.IndexedDirEntries{} }, "KVS.Get"})
	}
	for _, p := range []string{"", "a", "a/", "zz"} {
		p := p
		qs = append(qs, zvQ6{"KVS.List:" + p, func(m uint64, w time.Duration) any {
			return &structs.KeyRequest{Datacenter: "dc1", Key: p, QueryOptions: zv6qo(m, w)}
		}, func() any { return &structs.IndexedDirEntries{} }, "KVS.List"})
		qs = append(qs, zvQ6{"KVS.ListKeys:" + p, func(m uint64, w time.Duration) any {
			return &structs.KeyListRequest{Datacenter: "dc1", Prefix: p, QueryOptions: zv6qo(m, w)}
		}, func() any { return &structs.IndexedKeyList{} }, "KVS.ListKeys"})
	}
	dc := func(m uint64, w time.Duration) any { return &structs.DCSpecificRequest{Datacenter: "dc1", QueryOptions: zv6qo(m, w)} }
	qs = append(qs,
		zvQ6{"Catalog.ListNodes", dc, func() any { return &structs.IndexedNodes{} }, "Catalog.ListNodes"},
		zvQ6{"Catalog.ListServices", dc, func() any { return &structs.IndexedServices{} }, "Catalog.ListServices"},
		zvQ6{"Session.List", func(m uint64, w time.Duration) any {
			return &structs.SessionSpecificRequest{Datacenter: "dc1", QueryOptions: zv6qo(m, w)}
		}, func() any { return &structs.IndexedSessions{} }, "Session.List"},
		zvQ6{"Coordinate.ListNodes", dc, func() any { return &structs.IndexedCoordinates{} }, "Coordinate.ListNodes"},
		zvQ6{"Internal.NodeDump", dc, func() any { return &structs.IndexedNodeDump{} }, "Internal.NodeDump"},
		zvQ6{"PreparedQuery.List", dc, func() any { return &structs.IndexedPreparedQueries{} }, "PreparedQuery.List"},
		zvQ6{"ConnectCA.Roots", dc, func() any { return &structs.IndexedCARoots{} }, "ConnectCA.Roots"},
	)
	for _, sv := range []string{"web", "db", "ghost"} {
		sv := sv
		ss := func(m uint64, w time.Duration) any {
			return &structs.ServiceSpecificRequest{Datacenter: "dc1", ServiceName: sv, QueryOptions: zv6qo(m, w)}
		}
		qs = append(qs,
			zvQ6{"Catalog.ServiceNodes:" + sv, ss, func() any { return &structs.IndexedServiceNodes{} }, "Catalog.ServiceNodes"},
			zvQ6{"Health.ServiceNodes:" + sv, ss, func() any { return &structs.IndexedCheckServiceNodes{} }, "Health.ServiceNodes"},
			zvQ6{"Health.ServiceChecks:" + sv, ss, func() any { return &structs.IndexedHealthChecks{} }, "Health.ServiceChecks"},
		)
		qs = append(qs, zvQ6{"ConfigEntry.Get:service-defaults/" + sv, func(m uint64, w time.Duration) any {
			return &structs.ConfigEntryQuery{Datacenter: "dc1", Kind: structs.ServiceDefaults, Name: sv, QueryOptions: zv6qo(m, w)}
		}, func() any { return &structs.ConfigEntryResponse{} }, "ConfigEntry.Get"})
	}
	for _, n := range []string{"n1", "n2", "ghost"} {
		n := n
		ns := func(m uint64, w time.Duration) any {
			return &structs.NodeSpecificRequest{Datacenter: "dc1", Node: n, QueryOptions: zv6qo(m, w)}
		}
		qs = append(qs,
			zvQ6{"Catalog.NodeServices:" + n, ns, func() any { return &structs.IndexedNodeServices{} }, "Catalog.NodeServices"},
			zvQ6{"Health.NodeChecks:" + n, ns, func() any { return &structs.IndexedHealthChecks{} }, "Health.NodeChecks"},
			zvQ6{"Session.NodeSessions:" + n, ns, func() any { return &structs.IndexedSessions{} }, "Session.NodeSessions"},
		)
	}
	qs = append(qs, zvQ6{"Health.ChecksInState:any", func(m uint64, w time.Duration) any {
		return &structs.ChecksInStateRequest{Datacenter: "dc1", State: api.HealthAny, QueryOptions: zv6qo(m, w)}
	}, func() any { return &structs.IndexedHealthChecks{} }, "Health.ChecksInState"})
	qs = append(qs, zvQ6{"ConfigEntry.List:service-defaults", func(m uint64, w time.Duration) any {
		return &structs.ConfigEntryQuery{Datacenter: "dc1", Kind: structs.ServiceDefaults, QueryOptions: zv6qo(m, w)}
	}, func() any { return &structs.IndexedConfigEntries{} }, "ConfigEntry.List"})
	return qs
}

// zv6Meta extracts QueryMeta.Index and a fingerprint of the reply without its QueryMeta
func zv6Meta(reply any) (uint64, string) {
	v := reflect.ValueOf(reply).Elem()
	var idx uint64
	cp := reflect.New(v.Type()).Elem()
	cp.Set(v)
	if f := cp.FieldByName("QueryMeta"); f.IsValid() {
		idx = f.Addr().Interface().(*structs.QueryMeta).Index
		f.Set(reflect.Zero(f.Type()))
	}
	// listings built from Go maps: the order of a tag list is not data
	if sv, ok := cp.Interface().(structs.IndexedServices); ok {
		norm := map[string][]string{}
		for name, tags := range sv.Services {
			t := append([]string(nil), tags...)
			sort.Strings(t)
			norm[name] = t
		}
		return idx, dump.Render(norm)
	}
	s := dump.Render(cp.Interface())
	return idx, s
}

type zv6Obs struct {
	idx uint64
	fp  string
	err string
}

func zv6Eval(srv *Server, q zvQ6) zv6Obs {
	r := q.reply()
	if err := srv.RPC(context.Background(), q.meth, q.args(0, 0), r); err != nil {
		return zv6Obs{err: err.Error()}
	}
	i, fp := zv6Meta(r)
	return zv6Obs{idx: i, fp: fp}
}

func TestZZVerifC06Server(t *testing.T) {
	run := core.NewRun("C06", "exploration",
		"server tier: a real single-node server (real raft / RPC / blocking-query loop); PRNG histories of write RPCs (KVS.Apply set/delete/delete-tree/cas, Catalog.Register/Deregister of nodes, services, checks, Session.Apply, ConfigEntry.Apply); before any write and after EVERY write ~55 read RPCs (KVS.Get/List/ListKeys, Catalog.*, Health.*, Session.*, ConfigEntry.Get/List, Coordinate, NodeDump, PreparedQuery.List, ConnectCA.Roots; existing and never-existing subjects) are issued: every reply must carry Index >= 1; changed reply => larger index; no index goes back. For sampled (endpoint, write) pairs a real blocking RPC (MinQueryIndex = old index) is issued before the write and must return with a larger index. non-trivial = (endpoint, write) pair with a changed reply; distinct by (endpoint, write kind)")
	rng := core.NewRand(core.Seed())
	qs := zv6Universe()
	run.Extra("server_tier_queries", len(qs))
	nh := core.N(6, 40)
	ln := core.N(60, 90)
	for h := 0; h < nh && run.Violations() < 30; h++ {
		hr := rng.Fork(uint64(9000 + h))
		_, srv := testServer(t)
		waitForLeaderEstablishment(t, srv)
		prev := make([]zv6Obs, len(qs))
		for i, q := range qs {
			prev[i] = zv6Eval(srv, q)
			run.Count("server-replies")
			if prev[i].err == "" && prev[i].idx == 0 {
				run.Violation("C06:server:zero-index:"+q.meth, fmt.Sprintf("%s on a fresh server replied with Index 0", q.name), map[string]any{"endpoint": q.name})
			}
		}
		var log []string
		sessions := []string{}
		for step := 0; step < ln; step++ {
			// ---- choose a write
			var kind, desc string
			var do func() error
			target := "" // the point read of the subject this write touches
			switch hr.Intn(10) {
			case 0, 1, 2:
				op := core.Pick(hr, []api.KVOp{api.KVSet, api.KVSet, api.KVDelete, api.KVDeleteTree, api.KVCAS})
				key := core.Pick(hr, []string{"a", "a/b", "ab", "a/b/c"})
				if op == api.KVDeleteTree {
					key = core.Pick(hr, []string{"a", "a/", ""})
				}
				kind, desc = "kv:"+string(op), fmt.Sprintf("KVS.Apply %s %q", op, key)
				target = "KVS.Get:" + key
				do = func() error {
					var ok bool
					return srv.RPC(context.Background(), "KVS.Apply", &structs.KVSRequest{Datacenter: "dc1", Op: op, DirEnt: structs.DirEntry{Key: key, Value: []byte(fmt.Sprint("v", step))}}, &ok)
				}
			case 3, 4, 5:
				node := core.Pick(hr, []string{"n1", "n2"})
				req := &structs.RegisterRequest{Datacenter: "dc1", Node: node, Address: "10.3.0." + fmt.Sprint(1+hr.Intn(2))}
				if hr.Chance(70) {
					sv := core.Pick(hr, []string{"web", "db"})
					req.Service = &structs.NodeService{ID: sv, Service: sv, Port: 80 + hr.Intn(2), Tags: []string{core.Pick(hr, []string{"v1", "v2"})}}
				}
				if hr.Chance(50) {
					req.Check = &structs.HealthCheck{Node: node, CheckID: types.CheckID(core.Pick(hr, []string{"c1", "c2"})), Name: "chk", Status: core.Pick(hr, []string{api.HealthPassing, api.HealthWarning, api.HealthCritical})}
					if req.Service != nil && hr.Chance(50) {
						req.Check.ServiceID = req.Service.ID
						req.Check.CheckID = types.CheckID("svc:" + req.Service.ID)
					}
				}
				kind, desc = "register", "Catalog.Register "+core.JSON(req)
				do = func() error { var out struct{}; return srv.RPC(context.Background(), "Catalog.Register", req, &out) }
			case 6:
				req := &structs.DeregisterRequest{Datacenter: "dc1", Node: core.Pick(hr, []string{"n1", "n2"})}
				switch hr.Intn(3) {
				case 0:
					req.ServiceID = core.Pick(hr, []string{"web", "db"})
				case 1:
					req.CheckID = types.CheckID(core.Pick(hr, []string{"c1", "c2", "svc:web"}))
				}
				kind, desc = "deregister", "Catalog.Deregister "+core.JSON(req)
				do = func() error { var out struct{}; return srv.RPC(context.Background(), "Catalog.Deregister", req, &out) }
			case 7:
				if len(sessions) > 0 && hr.Chance(50) {
					id := sessions[hr.Intn(len(sessions))]
					kind, desc = "session:destroy", "Session.Apply destroy "+id
					do = func() error {
						var out string
						return srv.RPC(context.Background(), "Session.Apply", &structs.SessionRequest{Datacenter: "dc1", Op: structs.SessionDestroy, Session: structs.Session{ID: id}}, &out)
					}
				} else {
					node := core.Pick(hr, []string{"n1", "n2"})
					kind, desc = "session:create", "Session.Apply create on "+node
					do = func() error {
						var out string
						err := srv.RPC(context.Background(), "Session.Apply", &structs.SessionRequest{Datacenter: "dc1", Op: structs.SessionCreate, Session: structs.Session{Node: node, NodeChecks: []string{}}}, &out)
						if err == nil {
							sessions = append(sessions, out)
						}
						return err
					}
				}
			default:
				sv := core.Pick(hr, []string{"web", "db"})
				del := hr.Chance(30)
				e := &structs.ServiceConfigEntry{Kind: structs.ServiceDefaults, Name: sv, Protocol: core.Pick(hr, []string{"tcp", "http"})}
				op := structs.ConfigEntryUpsert
				if del {
					op = structs.ConfigEntryDelete
				}
				kind, desc = "config:"+string(op), fmt.Sprintf("ConfigEntry.%s service-defaults/%s %s", op, sv, e.Protocol)
				target = "ConfigEntry.Get:service-defaults/" + sv
				do = func() error {
					if del {
						var out structs.ConfigEntryDeleteResponse
						return srv.RPC(context.Background(), "ConfigEntry.Delete", &structs.ConfigEntryRequest{Datacenter: "dc1", Op: op, Entry: e}, &out)
					}
					var out bool
					return srv.RPC(context.Background(), "ConfigEntry.Apply", &structs.ConfigEntryRequest{Datacenter: "dc1", Op: op, Entry: e}, &out)
				}
			}
			log = append(log, desc)
			// ---- park blocking RPCs
			type parked struct {
				qi   int
				min  uint64
				done chan uint64
				fp   chan string
			}
			var parks []parked
			park := func(qi int) {
				if prev[qi].err != "" || prev[qi].idx == 0 {
					return
				}
				p := parked{qi, prev[qi].idx, make(chan uint64, 1), make(chan string, 1)}
				q := qs[qi]
				go func() {
					r := q.reply()
					// its own timeout is far beyond the bound used below: a parked call that comes back
					// was woken by the write, not by MaxQueryTime
					if err := srv.RPC(context.Background(), q.meth, q.args(p.min, 90*time.Second), r); err != nil {
						p.fp <- ""
						p.done <- 0
						return
					}
					i, fp := zv6Meta(r)
					p.fp <- fp
					p.done <- i
				}()
				parks = append(parks, p)
			}
			if hr.Chance(35) {
				for k := 0; k < 5; k++ {
					park(hr.Intn(len(qs)))
				}
			}
			if target != "" && hr.Chance(70) {
				// the point read of the very subject that is about to be written / deleted
				for qi, q := range qs {
					if q.name == target {
						park(qi)
						run.Count("server-blocking-rpcs-parked-on-written-subject")
					}
				}
			}
			if len(parks) > 0 {
				time.Sleep(30 * time.Millisecond) // let them reach the blocking loop (not a verdict)
			}
			werr := do()
			run.Eval()
			run.Distinct("server-write-kind", kind)
			_ = werr
			changed := map[int]bool{}
			for i, q := range qs {
				cur := zv6Eval(srv, q)
				run.Count("server-replies")
				p := prev[i]
				if cur.err != "" || p.err != "" {
					prev[i] = cur
					continue
				}
				if cur.idx == 0 {
					run.Violation("C06:server:zero-index:"+q.meth, fmt.Sprintf("%s replied with Index 0 after %s", q.name, desc), map[string]any{"log": log, "endpoint": q.name})
				}
				if cur.fp != p.fp {
					changed[i] = true
					run.Count("server-reply-changes")
					run.NonTrivial(core.Hash("srv", q.name, kind))
					run.Distinct("server-endpoint-with-change", q.meth)
					if cur.idx <= p.idx {
						run.Violation("C06:server:changed-without-index-growth:"+q.meth+":"+zv6group(kind), fmt.Sprintf("the reply of %s changed after %s but its index went %d -> %d", q.name, desc, p.idx, cur.idx),
							map[string]any{"log": log, "endpoint": q.name, "before": trunc6(p.fp, 1200), "after": trunc6(cur.fp, 1200)})
					}
				}
				if cur.idx < p.idx {
					run.Violation("C06:server:index-decreased:"+q.meth+":"+zv6group(kind), fmt.Sprintf("the index of %s went backwards %d -> %d after %s", q.name, p.idx, cur.idx, desc), map[string]any{"log": log, "endpoint": q.name})
				}
				prev[i] = cur
			}
			for _, p := range parks {
				if !changed[p.qi] {
					continue
				}
				select {
				case got := <-p.done:
					run.Count("server-blocking-rpcs-released")
					// the reply a woken call carries is the result at the index it reports: a fresh read that
					// reports the same index must have the same content
					if wfp := <-p.fp; got == prev[p.qi].idx && got > p.min {
						run.Count("server-woken-replies-compared-with-fresh-read")
						if wfp != prev[p.qi].fp {
							run.Violation("C06:server:blocking-rpc:woken-reply-differs-from-fresh-read:"+qs[p.qi].meth, fmt.Sprintf("%s blocked at index %d was woken by %s and returned index %d with a reply that differs from a fresh read reporting the same index", qs[p.qi].name, p.min, desc, got),
								map[string]any{"log": log, "woken_reply": trunc6(wfp, 1200), "fresh_read": trunc6(prev[p.qi].fp, 1200)})
						}
					}
					if got <= p.min {
						run.Violation("C06:server:blocking-rpc:returned-without-larger-index:"+qs[p.qi].meth, fmt.Sprintf("%s blocked at index %d returned index %d after %s changed its result", qs[p.qi].name, p.min, got, desc), map[string]any{"log": log})
					}
				case <-time.After(15 * time.Second):
					// Decided in logical steps first: the write committed and every endpoint of the universe
					// (~55 fresh RPCs, one of them the same read) has answered since, with the new result and a
					// larger index, while this call - whose own timeout is 90 s - is still parked.
					run.Violation("C06:server:blocking-rpc:not-woken-by-change:"+qs[p.qi].meth, fmt.Sprintf("%s blocked at index %d was not woken by %s although its result changed (still parked after every endpoint was read again and 15 s passed; its own MaxQueryTime is 90 s)", qs[p.qi].name, p.min, desc), map[string]any{"log": log})
				}
			}
		}
		srv.Shutdown()
	}
	run.Floor("server-reply-changes", 400)
	run.FloorDistinct("server-endpoint-with-change", 10)
	run.Floor("server-blocking-rpcs-released", 5)
	run.Floor("server-woken-replies-compared-with-fresh-read", 5)
	run.Floor("server-blocking-rpcs-parked-on-written-subject", 20)
	if run.Finish() == 1 {
		t.Fail()
	}
}

func zv6group(k string) string {
	if i := strings.Index(k, ":"); i > 0 {
		return k[:i]
	}
	return k
}

func trunc6(s string, n int) string {
	if len(s) > n {
		return s[:n] + "…"
	}
	return s
}

var _ = sort.Strings
