//go:build verif

// C16 — check-output DEFERRAL family (local.Config.CheckUpdateInterval > 0), decided in VIRTUAL time.
//
// agent/local/state.go: an output-only UpdateCheck arms a time.AfterFunc for interval/2+random(0,interval);
// while the timer is pending full syncs ignore Output differences; when it fires the check is marked out
// of sync so that the new output is pushed. Every scenario of this family runs inside a
// testing/synctest bubble (fake clock; timers fire only when the scenario sleeps), against the same
// controllable catalog as the rest of C16, with no injected faults.
//
// Oracle (independent of the agent's DeferCheck bookkeeping): after a successful full sync at virtual
// time t the catalog's copy of every check equals the agent's local copy in every compared field; the
// Output alone is not demanded for a check that received an output-only update less than 1.5 x interval
// before t (the only situation in which the documented rate limit can be holding the output back: timers
// are armed only by output-only updates and fire strictly before 1.5 x interval). Nothing is flagged
// inside that window. Every scenario ends with a sleep beyond the maximum window, a partial and a full
// sync, after which the Output of every check is demanded.
package c16

import (
	"fmt"
	"io"
	"sort"
	"strings"
	"sync/atomic"
	"testing"
	"testing/synctest"
	"time"

	"github.com/hashicorp/go-hclog"

	"github.com/hashicorp/consul/agent/local"
	"github.com/hashicorp/consul/agent/structs"
	"github.com/hashicorp/consul/agent/token"
	"github.com/hashicorp/consul/api"
	"github.com/hashicorp/consul/types"
	"github.com/hashicorp/consul/zzverif/core"
)

// ---------------- scenario ----------------

type dstep struct {
	Op     string `json:"op"` // upd | sleep | sync | drift | rm | readd
	ID     string `json:"id,omitempty"`
	Status string `json:"status,omitempty"`
	Output string `json:"output"`
	Frac   int    `json:"sleep_permille_of_interval,omitempty"`
	Full   bool   `json:"full,omitempty"`
	Field  string `json:"field,omitempty"`
}

type dscenario struct {
	Name     string   `json:"name"`
	Shape    string   `json:"shape"`
	Interval string   `json:"check_update_interval"`
	Wire     bool     `json:"wire"`
	Leader   bool     `json:"leader_registered"`
	Svcs     []svcDef `json:"services"`
	Chks     []chkDef `json:"checks"` // all checks (service-bound ones are registered with their service)
	Steps    []dstep  `json:"steps"`
}

type dhist struct {
	At      string   `json:"virtual_time"`
	Step    dstep    `json:"step"`
	Kind    string   `json:"update_kind,omitempty"`
	Calls   []call   `json:"calls,omitempty"`
	SyncErr string   `json:"sync_error,omitempty"`
	Pending []string `json:"checks_with_defer_timer_after_step,omitempty"`
	Fired   int64    `json:"timer_callbacks_during_sleep,omitempty"`
}

const (
	deferMaxPermille = 1500 // the timer fires strictly before 1.5 x interval
	deferMinPermille = 500  // and not before 0.5 x interval
	deferExpireSleep = 1600 // the closing sleep: maximum window + margin
)

// ---------------- one execution (inside a bubble) ----------------

type dworld struct {
	run *core.Run
	sc  *dscenario
	cat *catalog
	st  *local.State
	trg atomic.Int64
	d   time.Duration
	t0  time.Time

	svcs    map[string]svcDef
	want    map[string]chkDef // the agent's registrations as the monitor applied them
	lastOO  map[string]time.Time // time of the latest output-only update of the check
	armAt   map[string]time.Time // start of a window that is certain (no timer could have been pending)
	certain map[string]bool
	winN    map[string]int
	feats   map[string]map[string]bool
	drifted map[string]bool // altered behind the agent's back since the agent last read the catalog
	hist    []dhist
	dead    bool

	nOO, nInside, nMulti int
}

func (w *dworld) now() string { return time.Since(w.t0).String() }

func (w *dworld) feat(id, f string) {
	m := w.feats[id]
	if m == nil {
		m = map[string]bool{}
		w.feats[id] = m
	}
	m[f] = true
}

// class: what happened to the check since its output was last verified in the catalog.
func (w *dworld) class(id string) string {
	m := w.feats[id]
	base := "no-output-update"
	switch {
	case m["multi"]:
		base = "two-or-more-updates-in-one-window"
	case m["uncertain"]:
		base = "updates-around-window-end"
	case m["single"]:
		base = "one-update-per-window"
	}
	var extra []string
	for _, f := range []string{"status-change", "drift", "readd"} {
		if m[f] {
			extra = append(extra, f)
		}
	}
	if len(extra) > 0 {
		base += "+" + strings.Join(extra, "+")
	}
	return base
}

func (w *dworld) violation(key, what string) {
	w.run.Violation(key, fmt.Sprintf("defer scenario %s (%s, CheckUpdateInterval=%s): %s", w.sc.Name, w.sc.Shape, w.sc.Interval, what),
		map[string]any{"scenario": w.sc, "history": w.hist,
			"how_to_read": "virtual time (testing/synctest): a fresh local.State with CheckUpdateInterval as given registers services+checks and full-syncs against an empty catalog; steps are applied in order; sleep = time.Sleep(interval*permille/1000) followed by synctest.Wait(); the scenario ends with sleep 1.6 x interval, SyncChanges, SyncFull"})
}

func (w *dworld) pending() []string {
	var out []string
	for cid, cs := range w.st.AllCheckStates() {
		if cs.DeferCheck != nil {
			out = append(out, string(cid.ID))
		}
	}
	sort.Strings(out)
	return out
}

func (w *dworld) svcOf(id string) *svcDef {
	if d, ok := w.svcs[id]; ok {
		return &d
	}
	return nil
}

func (w *dworld) panicked(at string, s dstep, pan *panicInfo) {
	w.run.Count("panics")
	w.violation("C16:defer:panic:"+at+":"+pan.site, fmt.Sprintf("%s panicked at step %s: %s\n%s", at, core.JSON(s), pan.val, pan.stack))
	w.dead = true
}

func (w *dworld) sleep(s dstep) {
	before := map[string]bool{}
	now := time.Now()
	for id, t := range w.lastOO {
		if now.Sub(t) < w.d*deferMaxPermille/1000 {
			before[id] = true
		}
	}
	t0 := w.trg.Load()
	time.Sleep(w.d * time.Duration(s.Frac) / 1000)
	synctest.Wait() // timer callbacks that became due have run to completion
	now = time.Now()
	for id := range before {
		if now.Sub(w.lastOO[id]) >= w.d*deferMaxPermille/1000 {
			w.run.Count("defer:windows-expired")
		}
	}
	fired := w.trg.Load() - t0
	w.run.CountN("defer:timer-callbacks-observed", int(fired))
	w.hist = append(w.hist, dhist{At: w.now(), Step: s, Pending: w.pending(), Fired: fired})
}

func (w *dworld) update(s dstep) {
	cur, ok := w.want[s.ID]
	if !ok {
		return // the check is not registered at the moment: UpdateCheck ignores it
	}
	kind := "idempotent"
	switch {
	case cur.Status != s.Status:
		kind = "status-change"
	case cur.Output != s.Output:
		kind = "output-only"
	}
	_, pan := safely(func() error { w.st.UpdateCheck(structs.NewCheckID(types.CheckID(s.ID), nil), s.Status, s.Output); return nil })
	if pan != nil {
		w.panicked("UpdateCheck", s, pan)
		return
	}
	cur.Status, cur.Output = s.Status, s.Output
	w.want[s.ID] = cur
	w.run.Count("defer:updates:" + kind)
	now := time.Now()
	switch kind {
	case "status-change":
		w.feat(s.ID, "status-change")
	case "output-only":
		w.nOO++
		last, had := w.lastOO[s.ID]
		switch {
		case !had || now.Sub(last) >= w.d*deferMaxPermille/1000:
			// no timer can be pending: this update opens a window
			w.armAt[s.ID], w.certain[s.ID], w.winN[s.ID] = now, true, 1
			w.run.Count("defer:windows-opened")
			if !w.feats[s.ID]["multi"] {
				w.feat(s.ID, "single")
			}
		case w.certain[s.ID] && now.Sub(w.armAt[s.ID]) < w.d*deferMinPermille/1000:
			// the window opened by armAt cannot have ended yet
			w.winN[s.ID]++
			w.nInside++
			w.run.Count("defer:updates-inside-window")
			if w.winN[s.ID] == 2 {
				w.nMulti++
				w.run.Count("defer:two-or-more-updates-in-one-window")
			}
			w.feat(s.ID, "multi")
		default:
			w.certain[s.ID] = false
			w.run.Count("defer:updates-around-window-end")
			w.feat(s.ID, "uncertain")
		}
		w.lastOO[s.ID] = now
	}
	w.hist = append(w.hist, dhist{At: w.now(), Step: s, Kind: kind, Pending: w.pending()})
}

func (w *dworld) drift(s dstep) {
	def, ok := w.want[s.ID]
	v := w.cat.view()
	if !ok || v.Chks[s.ID] == nil {
		return
	}
	switch s.Field {
	case "output":
		def.Output = v.Chks[s.ID].Output + " drifted"
	case "status":
		if def.Status == api.HealthCritical {
			def.Status = api.HealthPassing
		} else {
			def.Status = api.HealthCritical
		}
		def.Output = v.Chks[s.ID].Output
	case "notes":
		def.Notes = "drift"
		def.Output = v.Chks[s.ID].Output
	case "removed":
		w.cat.dropCheck(s.ID)
	default:
		panic("defer drift field " + s.Field)
	}
	if s.Field != "removed" {
		must(w.cat.put(&structs.RegisterRequest{Check: def.hc(w.svcOf(def.Svc))}))
	}
	w.drifted[s.ID] = true
	w.feat(s.ID, "drift")
	w.run.Count("defer:drift:" + s.Field)
	w.hist = append(w.hist, dhist{At: w.now(), Step: s})
}

func (w *dworld) remove(s dstep) {
	if _, ok := w.want[s.ID]; !ok {
		return
	}
	err, pan := safely(func() error { return w.st.RemoveCheck(structs.NewCheckID(types.CheckID(s.ID), nil)) })
	if pan != nil {
		w.panicked("RemoveCheck", s, pan)
		return
	}
	if err != nil {
		w.run.Inconclusive(fmt.Sprintf("defer %s: RemoveCheck(%s) refused: %v", w.sc.Name, s.ID, err))
		w.dead = true
		return
	}
	delete(w.want, s.ID)
	w.feat(s.ID, "readd")
	w.run.Count("defer:check-removed")
	w.hist = append(w.hist, dhist{At: w.now(), Step: s, Pending: w.pending()})
}

func (w *dworld) readd(s dstep) {
	def := universeChk(s.ID)
	def.Output = s.Output
	if s.Status != "" {
		def.Status = s.Status
	}
	err, pan := safely(func() error { return w.st.AddCheck(def.hc(w.svcOf(def.Svc)), def.Token, false) })
	if pan != nil {
		w.panicked("AddCheck", s, pan)
		return
	}
	if err != nil {
		w.run.Inconclusive(fmt.Sprintf("defer %s: AddCheck(%s) refused: %v", w.sc.Name, s.ID, err))
		w.dead = true
		return
	}
	w.want[s.ID] = def
	w.feat(s.ID, "readd")
	w.run.Count("defer:check-re-registered")
	w.hist = append(w.hist, dhist{At: w.now(), Step: s, Pending: w.pending()})
}

// sync runs one sync attempt (no faults) and the oracle. final: every output must be demanded.
func (w *dworld) sync(s dstep, final bool) {
	w.cat.beginAttempt(nil)
	var err error
	var pan *panicInfo
	if s.Full {
		err, pan = safely(w.st.SyncFull)
	} else {
		err, pan = safely(w.st.SyncChanges)
	}
	h := dhist{At: w.now(), Step: s, Calls: w.cat.calls}
	if err != nil {
		h.SyncErr = err.Error()
	}
	if pan != nil {
		w.hist = append(w.hist, h)
		w.panicked("sync", s, pan)
		return
	}
	h.Pending = w.pending()
	w.hist = append(w.hist, h)
	kind := "partial"
	if s.Full {
		kind = "full"
	}
	w.run.Count("defer:sync:" + kind)
	if err != nil {
		// no fault is injected in this family: a failing sync is not a "successful full sync"
		w.run.Count("defer:sync-errors")
		w.run.Inconclusive(fmt.Sprintf("defer %s: fault-free %s sync returned %v", w.sc.Name, kind, err))
		w.dead = true
		return
	}
	now := time.Now()
	v := w.cat.view()
	locC := w.st.AllChecks()
	if !s.Full {
		// observed only: the property speaks about full syncs. (After the timer fired a partial sync
		// pushes the output, unless the entry was altered behind the agent's back.)
		for id, d := range w.want {
			last, had := w.lastOO[id]
			if w.drifted[id] || !had || now.Sub(last) < w.d*deferMaxPermille/1000 {
				continue
			}
			if cc := v.Chks[id]; cc != nil && cc.Output == d.Output {
				w.run.Count("defer:partial-sync-after-expiry:output-current")
			} else {
				w.run.Count("defer:partial-sync-after-expiry:output-not-current")
			}
		}
		return
	}
	w.drifted = map[string]bool{}
	bad := false
	for _, id := range keys(w.want) {
		d := w.want[id]
		last, had := w.lastOO[id]
		exempt := had && now.Sub(last) < w.d*deferMaxPermille/1000
		if final && exempt {
			panic("defer harness: final sync inside a window")
		}
		cls := w.class(id)
		want := d.hc(w.svcOf(d.Svc))
		lc := locC[structs.NewCheckID(types.CheckID(id), nil)]
		if lc == nil {
			bad = true
			w.violation("C16:defer:check-lost-locally:"+cls, fmt.Sprintf("check %q is registered with the agent but the agent no longer lists it", id))
			continue
		}
		if projChk(lc, false) != projChk(want, false) {
			bad = true
			w.violation("C16:defer:local-check-differs-from-updates:"+cls, fmt.Sprintf("check %q: the agent lists %s, registered/updated to %s", id, projChk(lc, false), projChk(want, false)))
			continue
		}
		cc := v.Chks[id]
		switch {
		case cc == nil:
			bad = true
			w.violation("C16:defer:check-missing-after-full-sync:"+cls, fmt.Sprintf("check %q is registered locally but missing from the catalog after a successful full sync", id))
		case projChk(cc, true) != projChk(lc, true):
			bad = true
			w.violation("C16:defer:check-not-converged-after-full-sync:"+cls, fmt.Sprintf("check %q after a successful full sync: catalog %s, local %s", id, projChk(cc, false), projChk(lc, false)))
		case cc.Output != lc.Output && exempt:
			// the documented deferral: the output is held back while the window is open
			w.run.Count("defer:output-held-back-inside-window-at-full-sync")
		case cc.Output != lc.Output:
			bad = true
			w.violation("C16:defer:stale-output-after-window:"+cls,
				fmt.Sprintf("check %q: %s after its last output-only update (window is at most 1.5 x %s) a successful full sync leaves catalog Output %q, local Output is %q (defer timer still set on the local check state: %v)",
					id, now.Sub(last), w.sc.Interval, cc.Output, lc.Output, contains(w.pending(), id)))
		default:
			if !exempt {
				w.run.Count("defer:output-verified-after-window")
				delete(w.feats, id)
			} else {
				w.run.Count("defer:output-current-inside-window")
			}
		}
	}
	for _, id := range keys(v.Chks) {
		if _, ok := w.want[id]; !ok && id != string(structs.SerfCheckID) {
			bad = true
			w.violation("C16:defer:removed-check-kept-after-full-sync:"+w.class(id), fmt.Sprintf("check %q is not registered locally but the catalog holds it after a successful full sync", id))
		}
	}
	locS := w.st.AllServices()
	for _, id := range keys(w.svcs) {
		d := w.svcs[id]
		ls, cs := locS[structs.NewServiceID(id, nil)], v.Svcs[id]
		if ls == nil || cs == nil || projSvc(ls) != projSvc(d.ns()) || projSvc(cs) != projSvc(ls) {
			bad = true
			w.violation("C16:defer:service-not-converged-after-full-sync", fmt.Sprintf("service %q after a successful full sync: local %v catalog %v", id, ls != nil, cs != nil))
		}
	}
	if !bad {
		w.run.Count("defer:convergence-checks-passed")
	}
	if final {
		// every window has expired (or its timer was stopped by a push) and no update followed: the agent
		// holds no defer timer any more; one that stays set makes every later full sync ignore the output
		for _, id := range w.pending() {
			if _, ok := w.want[id]; ok {
				w.violation("C16:defer:defer-timer-still-set-after-window:"+w.class(id),
					fmt.Sprintf("check %q: more than 1.5 x %s after the last update and after a successful full sync the local check state still carries a defer timer (DeferCheck != nil): full syncs keep ignoring its Output", id, w.sc.Interval))
			}
		}
	}
}

func contains(l []string, s string) bool {
	for _, x := range l {
		if x == s {
			return true
		}
	}
	return false
}

func parseInterval(s string) time.Duration {
	d, err := time.ParseDuration(s)
	if err != nil {
		panic(err)
	}
	return d
}

// executeDefer runs inside a synctest bubble.
func executeDefer(run *core.Run, sc *dscenario) *dworld {
	w := &dworld{run: run, sc: sc, svcs: map[string]svcDef{}, want: map[string]chkDef{}, lastOO: map[string]time.Time{}, armAt: map[string]time.Time{},
		certain: map[string]bool{}, winN: map[string]int{}, feats: map[string]map[string]bool{}, drifted: map[string]bool{}}
	w.d = parseInterval(sc.Interval)
	w.t0 = time.Now()
	w.cat = newCatalog(sc.Wire)
	cfg := local.Config{AdvertiseAddr: nodeAddr, CheckUpdateInterval: w.d, Datacenter: dcName, NodeID: nodeID, NodeName: nodeName}
	w.st = local.NewState(cfg, hclog.New(&hclog.LoggerOptions{Output: io.Discard, Level: hclog.Off}), new(token.Store))
	w.st.Delegate = w.cat
	w.st.TriggerSyncChanges = func() { w.trg.Add(1) }
	w.st.LoadMetadata(map[string]string{"rack": "r1"})
	if sc.Leader {
		must(w.cat.put(&structs.RegisterRequest{ID: nodeID, Address: nodeAddr,
			Check: &structs.HealthCheck{Node: nodeName, CheckID: structs.SerfCheckID, Name: structs.SerfCheckName, Status: api.HealthPassing, Output: structs.SerfCheckAliveOutput}}))
	}
	// registration + first full sync: the converged starting point
	for _, sd := range sc.Svcs {
		sd := sd
		var hcs []*structs.HealthCheck
		for _, c := range sc.Chks {
			if c.Svc == sd.ID {
				hcs = append(hcs, c.hc(&sd))
			}
		}
		must(w.st.AddServiceWithChecks(sd.ns(), hcs, sd.Token, false))
		w.svcs[sd.ID] = sd
	}
	for _, c := range sc.Chks {
		if c.Svc == "" {
			must(w.st.AddCheck(c.hc(nil), c.Token, false))
		}
		w.want[c.ID] = c
	}
	w.sync(dstep{Op: "sync", Full: true}, false)
	for _, s := range sc.Steps {
		if w.dead {
			break
		}
		switch s.Op {
		case "upd":
			w.update(s)
		case "sleep":
			w.sleep(s)
		case "sync":
			w.sync(s, false)
		case "drift":
			w.drift(s)
		case "rm":
			w.remove(s)
		case "readd":
			w.readd(s)
		default:
			panic("defer op " + s.Op)
		}
	}
	if !w.dead {
		// beyond the maximum window of every timer that can be pending
		w.sleep(dstep{Op: "sleep", Frac: deferExpireSleep})
		if len(w.pending()) == 0 {
			w.run.Count("defer:no-timer-pending-after-closing-sleep")
		}
		w.sync(dstep{Op: "sync"}, false)
	}
	if !w.dead {
		w.sync(dstep{Op: "sync", Full: true}, true)
	}
	if !w.dead {
		// a second full sync of a converged agent has nothing to write (observed only)
		w.cat.beginAttempt(nil)
		if err, pan := safely(w.st.SyncFull); err == nil && pan == nil {
			writes := 0
			for _, c := range w.cat.calls {
				if !strings.HasPrefix(c.Class, "read-") {
					writes++
				}
			}
			if writes == 0 {
				w.run.Count("defer:second-full-sync-wrote-nothing")
			} else {
				w.run.Count("defer:second-full-sync-wrote-something")
			}
		}
	}
	// leave no armed timer behind
	for _, cs := range w.st.AllCheckStates() {
		if cs.DeferCheck != nil {
			cs.DeferCheck.Stop()
		}
	}
	return w
}

// ---------------- generator ----------------

var deferShapes = []string{"single", "multi", "multi-status", "two-windows", "multi-drift", "remove-readd", "window-end", "mixed"}

var deferOutputs = []string{"", "ok", "boom", "87%", "timeout after 10s", "o1", "o2", "o3", "o4"}

type dgen struct {
	rng   *core.Rand
	sc    *dscenario
	cur   map[string]chkDef // live checks as the steps leave them
	gone  map[string]bool
	spent int // permille slept since the current burst began
}

func (g *dgen) add(s dstep) { g.sc.Steps = append(g.sc.Steps, s) }

func (g *dgen) live() []string { return keys(g.cur) }

func (g *dgen) newOutput(id string) string {
	c := g.cur[id]
	for {
		o := core.Pick(g.rng, deferOutputs)
		if o != c.Output {
			return o
		}
	}
}

func (g *dgen) outputUpdate(id string) {
	c, ok := g.cur[id]
	if !ok {
		return
	}
	c.Output = g.newOutput(id)
	g.cur[id] = c
	g.add(dstep{Op: "upd", ID: id, Status: c.Status, Output: c.Output})
}

func (g *dgen) statusUpdate(id string) {
	c, ok := g.cur[id]
	if !ok {
		return
	}
	var cand []string
	for _, s := range []string{api.HealthPassing, api.HealthWarning, api.HealthCritical} {
		if s != c.Status {
			cand = append(cand, s)
		}
	}
	c.Status = core.Pick(g.rng, cand)
	if g.rng.Bool() {
		c.Output = core.Pick(g.rng, deferOutputs)
	}
	g.cur[id] = c
	g.add(dstep{Op: "upd", ID: id, Status: c.Status, Output: c.Output})
}

// shortSleep keeps a burst inside the first half of the interval (where the timer cannot have fired)
func (g *dgen) shortSleep() {
	f := core.Pick(g.rng, []int{20, 50, 100})
	if g.spent+f >= deferMinPermille-50 {
		return
	}
	g.spent += f
	g.add(dstep{Op: "sleep", Frac: f})
}

func (g *dgen) expire() {
	g.add(dstep{Op: "sleep", Frac: core.Pick(g.rng, []int{1500, 1600, 2000, 3000})})
	g.spent = 0
}

func (g *dgen) syncs() {
	switch g.rng.Intn(4) {
	case 0:
		g.add(dstep{Op: "sync"})
		g.add(dstep{Op: "sync", Full: true})
	case 1:
		g.add(dstep{Op: "sync", Full: true})
	case 2:
		g.add(dstep{Op: "sync"})
	}
}

func (g *dgen) removeReadd(id string, syncBetween bool) {
	if _, ok := g.cur[id]; !ok {
		return
	}
	delete(g.cur, id)
	g.add(dstep{Op: "rm", ID: id})
	if syncBetween {
		g.add(dstep{Op: "sync", Full: g.rng.Chance(30)})
	}
	if g.rng.Chance(40) {
		g.shortSleep()
	}
	def := universeChk(id)
	def.Output = core.Pick(g.rng, deferOutputs)
	g.cur[id] = def
	g.add(dstep{Op: "readd", ID: id, Output: def.Output})
}

// burst: n output-only updates of one check inside one window, with one optional extra in between
func (g *dgen) burst(id string, n int, extra string) {
	at := -1
	if extra != "" {
		at = g.rng.Intn(n)
	}
	for k := 0; k < n; k++ {
		g.outputUpdate(id)
		if k == at {
			if g.rng.Bool() {
				g.shortSleep()
			}
			switch extra {
			case "status":
				g.statusUpdate(id)
			case "drift":
				g.add(dstep{Op: "drift", ID: id, Field: core.Pick(g.rng, []string{"output", "output", "status", "notes", "removed"})})
			case "readd":
				g.removeReadd(id, g.rng.Chance(35))
			case "sync":
				g.add(dstep{Op: "sync", Full: g.rng.Chance(70)})
			case "other":
				if ids := g.live(); len(ids) > 0 {
					g.outputUpdate(core.Pick(g.rng, ids))
				}
			}
			if g.rng.Chance(35) {
				g.add(dstep{Op: "sync", Full: g.rng.Chance(70)})
			}
		}
		if k < n-1 {
			g.shortSleep()
		}
	}
}

func genDeferScenario(rng *core.Rand, i int) *dscenario {
	sc := &dscenario{Name: fmt.Sprintf("d%d", i), Shape: deferShapes[i%len(deferShapes)]}
	sc.Interval = core.Pick(rng, []string{"10s", "10s", "2s", "1m0s"})
	sc.Wire = rng.Bool()
	sc.Leader = rng.Chance(70)
	g := &dgen{rng: rng, sc: sc, cur: map[string]chkDef{}, gone: map[string]bool{}}
	p := rng.Perm(len(svcUniverse))
	for _, x := range p[:1+rng.Intn(2)] {
		d := svcUniverse[x]
		sc.Svcs = append(sc.Svcs, d)
		for _, c := range svcChecks(d) {
			sc.Chks = append(sc.Chks, c)
			g.cur[c.ID] = c
		}
	}
	for _, x := range rng.Perm(len(nodeChecks))[:1+rng.Intn(2)] {
		c := nodeChecks[x]
		sc.Chks = append(sc.Chks, c)
		g.cur[c.ID] = c
	}
	ids := g.live()
	id := core.Pick(rng, ids)
	switch sc.Shape {
	case "single":
		g.burst(id, 1, core.Pick(rng, []string{"", "", "sync"}))
		if rng.Chance(30) {
			g.expire()
			g.syncs()
		}
	case "multi":
		g.burst(id, 2+rng.Intn(3), core.Pick(rng, []string{"", "", "sync", "other"}))
	case "multi-status":
		g.burst(id, 2+rng.Intn(3), "status")
	case "two-windows":
		g.burst(id, 1+rng.Intn(3), core.Pick(rng, []string{"", "sync"}))
		g.expire()
		g.syncs()
		g.burst(id, 1+rng.Intn(3), core.Pick(rng, []string{"", "sync", "status"}))
	case "multi-drift":
		g.burst(id, 2+rng.Intn(3), "drift")
	case "remove-readd":
		g.burst(id, 1+rng.Intn(3), "readd")
		if rng.Bool() {
			g.shortSleep()
			g.outputUpdate(id)
		}
	case "window-end":
		// updates around the moment the timer may or may not have fired
		for n := 2 + rng.Intn(3); n > 0; n-- {
			g.outputUpdate(id)
			if rng.Chance(30) {
				g.add(dstep{Op: "sync", Full: rng.Bool()})
			}
			g.add(dstep{Op: "sleep", Frac: core.Pick(rng, []int{450, 500, 700, 1000, 1400, 1499})})
		}
		g.outputUpdate(id)
	case "mixed":
		for n := 6 + rng.Intn(8); n > 0; n-- {
			id := core.Pick(rng, ids)
			switch x := rng.Intn(100); {
			case x < 40:
				g.outputUpdate(id)
			case x < 50:
				g.statusUpdate(id)
			case x < 65:
				g.add(dstep{Op: "sleep", Frac: core.Pick(rng, []int{20, 50, 100, 200})})
			case x < 70:
				g.add(dstep{Op: "sleep", Frac: core.Pick(rng, []int{500, 900, 1500, 1700})})
			case x < 80:
				g.add(dstep{Op: "sync", Full: rng.Chance(60)})
			case x < 90:
				g.add(dstep{Op: "drift", ID: id, Field: core.Pick(rng, []string{"output", "status", "notes", "removed"})})
			default:
				g.removeReadd(id, rng.Chance(40))
			}
		}
	}
	return sc
}

// ---------------- driver ----------------

func runDeferFamily(t *testing.T, run *core.Run, rng *core.Rand) {
	n := core.N(1000, 24000)
	start := time.Now()
	for i := 0; i < n; i++ {
		if run.Violations() > 30 {
			break
		}
		sc := genDeferScenario(rng.Fork(uint64(i)), i)
		core.Progress("C16", "defer "+sc.Name)
		var w *dworld
		synctest.Test(t, func(*testing.T) {
			w = executeDefer(run, sc)
		})
		run.Eval()
		run.Count("defer:scenarios")
		run.Distinct("defer-shape", sc.Shape)
		if w == nil {
			continue
		}
		if w.nOO > 0 {
			// non-trivial: at least one output-only update (a deferral window was opened)
			run.NonTrivial(core.Hash("defer", core.JSON(sc)))
		}
		if w.nMulti > 0 {
			run.Count("defer:scenarios-with-two-or-more-updates-in-one-window")
		}
		if i == 1 && !w.dead {
			run.Extra("defer_sample", map[string]any{"scenario": sc, "history": w.hist})
		}
	}
	run.Extra("defer_family_wall_seconds", time.Since(start).Seconds())
	run.Floor("defer:scenarios", n)
	run.Floor("defer:updates-inside-window", n*4/10)
	run.Floor("defer:two-or-more-updates-in-one-window", n/4)
	run.Floor("defer:windows-expired", n/2)
	run.Floor("defer:timer-callbacks-observed", n/2)
	run.Floor("defer:output-verified-after-window", n*2)
	run.Floor("defer:output-held-back-inside-window-at-full-sync", n/10)
	run.Floor("defer:drift:output", n/50)
	run.Floor("defer:check-re-registered", n/20)
	run.FloorDistinct("defer-shape", len(deferShapes))
}
