//go:build verif

// C16 — anti-entropy makes the catalog converge to the agent's local state.
//
// The REAL agent/local.State is driven through its exported API exactly as the agent does it
// (AddServiceWithChecks, RemoveServiceWithChecks, AddCheck, RemoveCheck, UpdateCheck, SyncFull,
// SyncChanges) against a controllable catalog (cat_test.go: a real state.Store behind the four RPCs,
// with a fault plan). Fault positions are ENUMERATED per scenario. Oracles (independent of the code
// under test: an own projection of the operator-visible fields, an own model of what was registered):
//   (a) convergence after every fault-free sync whose view of the catalog is current,
//   (b) flag oracle after every sync attempt: InSync => the catalog holds the identical entry
//       (except entries refused by ACLs, which the next full sync must retry),
//   (c) local deregistrations / detected foreign entries are removed by the next fault-free sync of
//       any kind (they must not vanish from the bookkeeping while the catalog holds the entry).
package c16

import (
	"encoding/json"
	"fmt"
	"io"
	"reflect"
	"runtime"
	"runtime/debug"
	"sort"
	"strings"
	"sync"
	"sync/atomic"
	"testing"
	"time"

	"github.com/hashicorp/go-hclog"

	"github.com/hashicorp/consul/agent/local"
	"github.com/hashicorp/consul/agent/structs"
	"github.com/hashicorp/consul/agent/token"
	"github.com/hashicorp/consul/api"
	"github.com/hashicorp/consul/types"
	"github.com/hashicorp/consul/zzverif/core"
)

// ---------------- definitions (what the user of the agent registers) ----------------

type svcDef struct {
	ID     string            `json:"id"`
	Name   string            `json:"name"`
	Tags   []string          `json:"tags,omitempty"`
	Addr   string            `json:"addr,omitempty"`
	Port   int               `json:"port,omitempty"`
	Meta   map[string]string `json:"meta,omitempty"`
	Pass   int               `json:"pass"`
	Warn   int               `json:"warn"`
	ETO    bool              `json:"eto,omitempty"`
	Native bool              `json:"native,omitempty"`
	TAddr  string            `json:"taddr,omitempty"`
	Token  string            `json:"token,omitempty"`
}

func (d svcDef) ns() *structs.NodeService {
	ns := &structs.NodeService{Kind: structs.ServiceKindTypical, ID: d.ID, Service: d.Name, Address: d.Addr, Port: d.Port,
		Weights: &structs.Weights{Passing: d.Pass, Warning: d.Warn}, EnableTagOverride: d.ETO,
		EnterpriseMeta: *structs.DefaultEnterpriseMetaInDefaultPartition()}
	if len(d.Tags) > 0 {
		ns.Tags = append([]string(nil), d.Tags...)
	}
	if len(d.Meta) > 0 {
		ns.Meta = map[string]string{}
		for k, v := range d.Meta {
			ns.Meta[k] = v
		}
	}
	ns.Connect.Native = d.Native
	if d.TAddr != "" {
		ns.TaggedAddresses = map[string]structs.ServiceAddress{"lan": {Address: d.TAddr, Port: d.Port}}
	}
	return ns
}

type chkDef struct {
	ID     string `json:"id"`
	Name   string `json:"name"`
	Status string `json:"status"`
	Output string `json:"output,omitempty"`
	Notes  string `json:"notes,omitempty"`
	Svc    string `json:"svc,omitempty"`
	TTL    int    `json:"ttl,omitempty"`
	HTTP   string `json:"http,omitempty"`
	Token  string `json:"token,omitempty"`
}

// hc builds the record the way the agent does: node-bound, and for service checks with the
// service's name and tags copied at registration time.
func (d chkDef) hc(svc *svcDef) *structs.HealthCheck {
	hc := &structs.HealthCheck{Node: nodeName, CheckID: types.CheckID(d.ID), Name: d.Name, Status: d.Status, Output: d.Output,
		Notes: d.Notes, ServiceID: d.Svc, Type: "ttl", EnterpriseMeta: *structs.DefaultEnterpriseMetaInDefaultPartition()}
	if d.TTL > 0 {
		hc.Definition.TTL = time.Duration(d.TTL) * time.Second
	}
	if d.HTTP != "" {
		hc.Definition.HTTP = d.HTTP
		hc.Type = "http"
	}
	if svc != nil {
		hc.ServiceName = svc.Name
		if len(svc.Tags) > 0 {
			hc.ServiceTags = append([]string(nil), svc.Tags...)
		}
	}
	return hc
}

// ---------------- projections: the operator-visible fields the agent is responsible for ----------------

type svcProj struct {
	ID, Name  string
	Tags      []string
	Addr      string
	Port      int
	Meta      map[string]string
	Pass      int
	Warn      int
	ETO       bool
	Native    bool
	Kind      string
	TA        map[string]string
}

// projSvc drops the server-owned parts: raft indexes, consul-prefixed tagged addresses, and the tags
// when the service allows tag override.
func projSvc(s *structs.NodeService) string {
	p := svcProj{ID: s.ID, Name: s.Service, Addr: s.Address, Port: s.Port, ETO: s.EnableTagOverride, Native: s.Connect.Native,
		Kind: string(s.Kind), Pass: -1, Warn: -1}
	if !s.EnableTagOverride && len(s.Tags) > 0 {
		p.Tags = s.Tags
	}
	if len(s.Meta) > 0 {
		p.Meta = s.Meta
	}
	if s.Weights != nil {
		p.Pass, p.Warn = s.Weights.Passing, s.Weights.Warning
	}
	for k, v := range s.TaggedAddresses {
		if strings.HasPrefix(k, structs.MetaKeyReservedPrefix) {
			continue
		}
		if p.TA == nil {
			p.TA = map[string]string{}
		}
		p.TA[k] = fmt.Sprintf("%s:%d", v.Address, v.Port)
	}
	return core.JSON(p)
}

// diffSvcProj names the first projected field in which two service projections differ.
func diffSvcProj(a, b string) string {
	var ma, mb map[string]any
	if json.Unmarshal([]byte(a), &ma) != nil || json.Unmarshal([]byte(b), &mb) != nil {
		return "unknown"
	}
	for _, f := range [][2]string{{"Tags", "tags"}, {"ETO", "enable-tag-override"}, {"Name", "name"}, {"Addr", "address"}, {"Port", "port"}, {"Meta", "meta"},
		{"Pass", "weights"}, {"Warn", "weights"}, {"Native", "connect-native"}, {"Kind", "kind"}, {"TA", "tagged-addresses"}, {"ID", "id"}} {
		if !reflect.DeepEqual(ma[f[0]], mb[f[0]]) {
			return f[1]
		}
	}
	return "unknown"
}

type chkProj struct {
	ID, Name, Status, Notes, Output, Svc, SvcName, Def string
}

// projChk: Type/Interval/Timeout are never compared by the agent (DESIGN C16 L) and the service tags
// of a check row are derived by the store from its own service row, so neither is demanded.
func projChk(c *structs.HealthCheck, noOutput bool) string {
	p := chkProj{ID: string(c.CheckID), Name: c.Name, Status: c.Status, Notes: c.Notes, Output: c.Output, Svc: c.ServiceID,
		SvcName: c.ServiceName, Def: core.JSON(c.Definition)}
	if noOutput {
		p.Output = "*"
	}
	return core.JSON(p)
}

// ---------------- scenario ----------------

type driftOp struct {
	Kind  string `json:"kind"`
	ID    string `json:"id,omitempty"`
	Field string `json:"field,omitempty"`
}

type step struct {
	Op     string   `json:"op"`
	Svc    *svcDef  `json:"svc,omitempty"`
	Chks   []chkDef `json:"chks,omitempty"`
	Chk    *chkDef  `json:"chk,omitempty"`
	ID     string   `json:"id,omitempty"`
	Status string   `json:"status,omitempty"`
	Output string   `json:"output,omitempty"`
	Drift  *driftOp `json:"drift,omitempty"`
	Full   bool     `json:"full,omitempty"`
}

type scenario struct {
	Name     string `json:"name"`
	Interval string `json:"check_update_interval"` // "0" | "long" | "short"
	Wire     bool   `json:"wire"`
	Leader   bool   `json:"leader_registered"`
	TAddrs   bool   `json:"node_tagged_addresses"`
	CaseVar  bool   `json:"case_variant_ids,omitempty"`
	Pre      []step `json:"pre"`
	T        step   `json:"target_sync"`
	Post     []step `json:"post"`
}

type variant struct {
	Faults  []faultSpec `json:"faults"`
	Persist bool        `json:"persist,omitempty"` // the same faults hit every later sync before the final one
	Retry   bool        `json:"retry,omitempty"`   // a partial sync directly after the target sync
}

// ---------------- one execution ----------------

type histEntry struct {
	Step    step   `json:"step"`
	Phase   string `json:"phase"`
	Calls   []call `json:"calls,omitempty"`
	SyncErr string `json:"sync_error,omitempty"`
}

type world struct {
	run *core.Run
	sc  *scenario
	v   *variant
	cat *catalog
	st  *local.State
	trg atomic.Int64

	wantS      map[string]svcDef
	wantC      map[string]chkDef
	deferred   map[string]bool
	pendS      map[string]bool
	pendC      map[string]bool
	lastC      map[string]chkDef // last local definition of a check (kept after removal)
	driftDirty bool
	refused    map[string]bool
	everRef    map[string]bool // entries whose registration was refused by ACLs at some point
	suspect    map[string]string
	tainted    map[string]bool
	allFaults  []string // kind@class of every fault fired so far
	curFaults  []string // ... in the current attempt
	entFault   map[string]string // entry -> last fault on a call carrying it (since the last converged full sync)
	curEnt     map[string]string // ... in the current attempt
	hist       []histEntry
	dead       bool
	hadConsul  bool
	interval   time.Duration
	nodeMeta   map[string]string
	nodeTA     map[string]string
	tCalls     []call // calls of the target sync
	firedTotal int
}

var wildcard = structs.WildcardEnterpriseMetaInDefaultPartition()

func newWorld(run *core.Run, sc *scenario, v *variant) *world {
	w := &world{run: run, sc: sc, v: v, wantS: map[string]svcDef{}, wantC: map[string]chkDef{}, deferred: map[string]bool{},
		pendS: map[string]bool{}, pendC: map[string]bool{}, refused: map[string]bool{}, suspect: map[string]string{}, tainted: map[string]bool{},
		entFault: map[string]string{}, curEnt: map[string]string{}, lastC: map[string]chkDef{}, everRef: map[string]bool{}}
	w.cat = newCatalog(sc.Wire)
	switch sc.Interval {
	case "long":
		w.interval = time.Hour
	case "short":
		w.interval = 2 * time.Millisecond
	}
	cfg := local.Config{AdvertiseAddr: nodeAddr, CheckUpdateInterval: w.interval, Datacenter: dcName, NodeID: nodeID, NodeName: nodeName}
	if sc.TAddrs {
		w.nodeTA = map[string]string{"lan": nodeAddr, "wan": "198.51.100.7"}
		cfg.TaggedAddresses = w.nodeTA
	}
	logger := hclog.New(&hclog.LoggerOptions{Output: io.Discard, Level: hclog.Off})
	w.st = local.NewState(cfg, logger, new(token.Store))
	w.st.Delegate = w.cat
	w.st.TriggerSyncChanges = func() { w.trg.Add(1) }
	w.nodeMeta = map[string]string{"rack": "r1"}
	w.st.LoadMetadata(w.nodeMeta)
	w.cat.onCall = w.onCall
	w.cat.refine = w.refine
	w.cat.onRead = w.onReadPhase
	if sc.Leader {
		// what the leader's reconcile loop registers for a member: node, serf check, and (as this agent
		// could be a server) the consul service
		must(w.cat.put(&structs.RegisterRequest{ID: nodeID, Address: nodeAddr,
			Check: &structs.HealthCheck{Node: nodeName, CheckID: structs.SerfCheckID, Name: structs.SerfCheckName, Status: api.HealthPassing, Output: structs.SerfCheckAliveOutput}}))
		must(w.cat.put(&structs.RegisterRequest{ID: nodeID, Address: nodeAddr,
			Service: &structs.NodeService{ID: structs.ConsulServiceID, Service: structs.ConsulServiceName, Port: 8300, Weights: &structs.Weights{Passing: 1, Warning: 1}}}))
		w.hadConsul = true
	}
	return w
}

func must(err error) {
	if err != nil {
		panic(err)
	}
}

func (w *world) close() {
	// stop the pending defer timers so that finished executions do not stay reachable
	defer func() { recover() }()
	for _, cs := range w.st.AllCheckStates() {
		if cs.DeferCheck != nil {
			cs.DeferCheck.Stop()
		}
	}
}

// refine: syncCheck sends the check together with its service (for context) — the same shape as a
// service sync that piggybacks exactly one check. Piggybacking requires equal tokens, so a request
// made with a token other than the service's is a check sync.
func (w *world) refine(c *call) {
	if c.Class != "register-service" || len(c.Chks) != 1 {
		return
	}
	if d, ok := w.wantS[c.Svc]; ok && d.Token != c.Token {
		c.Desc, c.Class = "register:chk:"+c.Chks[0], "register-check"
		c.Svc = ""
	}
}

// onCall keeps the model's view of what the agent attempted (in call order).
func (w *world) onCall(c *call) {
	if c.Fault != "" {
		tag := c.Fault + "@" + c.Class
		w.allFaults = append(w.allFaults, tag)
		w.curFaults = append(w.curFaults, tag)
		w.firedTotal++
		w.run.Distinct("fault-position-class", tag)
		w.run.Count("faults_fired")
		if c.Svc != "" {
			w.entFault["s:"+c.Svc], w.curEnt["s:"+c.Svc] = tag, tag
		}
		for _, id := range c.Chks {
			w.entFault["c:"+id], w.curEnt["c:"+id] = tag, tag
		}
	}
	w.run.Count("rpc:" + c.Class)
	switch c.Class {
	case "register-service", "register-check":
		for _, id := range c.Chks {
			w.deferred[id] = false // a push of the check was attempted: a pending output deferral ends
		}
		if c.Fault == "denied" || c.Fault == "acl-not-found" {
			if c.Class == "register-service" {
				w.refused["s:"+c.Svc], w.everRef["s:"+c.Svc] = true, true
			}
			for _, id := range c.Chks {
				w.refused["c:"+id], w.everRef["c:"+id] = true, true
			}
			w.run.Count("acl_refused_registrations")
		}
	}
}

// onReadPhase: both read RPCs of a full sync succeeded — the agent now has a current view.
func (w *world) onReadPhase() {
	w.driftDirty = false
	w.refused = map[string]bool{}
	w.tainted = map[string]bool{}
	w.suspect = map[string]string{}
	v := w.cat.view()
	w.pendS, w.pendC = map[string]bool{}, map[string]bool{}
	for id := range v.Svcs {
		if _, ok := w.wantS[id]; !ok && id != structs.ConsulServiceID {
			w.pendS[id] = true
		}
	}
	for id := range v.Chks {
		if _, ok := w.wantC[id]; !ok && id != string(structs.SerfCheckID) {
			w.pendC[id] = true
		}
	}
}

// on: the fault (if any) that hit a call carrying the entry
func on(m map[string]string, key string) string {
	if t, ok := m[key]; ok {
		return t
	}
	return "no-fault-on-entry"
}

func (w *world) ctx(list []string) string {
	if len(list) == 0 {
		return "no-fault"
	}
	seen := map[string]bool{}
	var out []string
	for _, f := range list {
		if !seen[f] {
			seen[f] = true
			out = append(out, f)
		}
	}
	sort.Strings(out)
	if len(out) > 2 {
		out = append(out[:2], "more")
	}
	return strings.Join(out, "+")
}

func (w *world) violation(key, what string) {
	if w.sc.CaseVar {
		// one defect class: the agent tells ids apart by exact spelling, the catalog's id index folds case
		ent := "check"
		if strings.Contains(key, ":service") {
			ent = "service"
		}
		if strings.HasPrefix(key, "C16:panic:") {
			ent = "panic:" + ent
		}
		key = "C16:case-variant-ids:catalog-id-index-folds-case:" + ent
	}
	w.run.Violation(key, fmt.Sprintf("scenario %s variant %s: %s", w.sc.Name, core.JSON(w.v), what),
		map[string]any{"scenario": w.sc, "variant": w.v, "history": w.hist, "how_to_read": "steps are applied in order to a fresh local.State + catalog; calls lists the RPCs of a sync step with the injected fault"})
}

type panicInfo struct {
	val   string
	site  string
	stack string
}

func safely(f func() error) (err error, p *panicInfo) {
	defer func() {
		if r := recover(); r != nil {
			st := string(debug.Stack())
			site := "unknown"
			for _, ln := range strings.Split(st, "\n") {
				if strings.Contains(ln, "github.com/hashicorp/consul/agent/") && !strings.Contains(ln, "zzverif") && strings.Contains(ln, "(") && !strings.HasPrefix(ln, "\t") {
					site = ln
					if i := strings.LastIndex(site, "/"); i >= 0 {
						site = site[i+1:]
					}
					if i := strings.Index(site, "("); i > 0 && strings.HasSuffix(site, ")") {
						// drop the argument list, keep pkg.(*T).fn
						j := strings.LastIndex(site, "(")
						if j > 0 {
							site = site[:j]
						}
					}
					break
				}
			}
			if len(st) > 3000 {
				st = st[:3000]
			}
			p = &panicInfo{val: fmt.Sprint(r), site: site, stack: st}
		}
	}()
	return f(), nil
}

// ---- steps

func (w *world) svcOf(id string) *svcDef {
	if d, ok := w.wantS[id]; ok {
		return &d
	}
	return nil
}

func (w *world) doLocal(s step) {
	var opErr error
	var pan *panicInfo
	switch s.Op {
	case "add-svc", "readd-svc", "upd-svc":
		var hcs []*structs.HealthCheck
		for _, c := range s.Chks {
			hcs = append(hcs, c.hc(s.Svc))
		}
		opErr, pan = safely(func() error { return w.st.AddServiceWithChecks(s.Svc.ns(), hcs, s.Svc.Token, false) })
		if opErr == nil && pan == nil {
			w.wantS[s.Svc.ID] = *s.Svc
			delete(w.pendS, s.Svc.ID)
			for _, c := range s.Chks {
				w.wantC[c.ID] = c
				w.lastC[c.ID] = c
				delete(w.pendC, c.ID)
			}
		}
	case "rm-svc":
		var ids []structs.CheckID
		var names []string
		for id, c := range w.wantC {
			if c.Svc == s.ID {
				names = append(names, id)
			}
		}
		sort.Strings(names)
		for _, id := range names {
			ids = append(ids, structs.NewCheckID(types.CheckID(id), nil))
		}
		opErr, pan = safely(func() error { return w.st.RemoveServiceWithChecks(structs.NewServiceID(s.ID, nil), ids) })
		if opErr == nil && pan == nil {
			delete(w.wantS, s.ID)
			w.pendS[s.ID] = true
			for _, id := range names {
				delete(w.wantC, id)
				delete(w.deferred, id)
				w.pendC[id] = true
			}
		}
	case "add-chk", "readd-chk":
		opErr, pan = safely(func() error { return w.st.AddCheck(s.Chk.hc(w.svcOf(s.Chk.Svc)), s.Chk.Token, false) })
		if opErr == nil && pan == nil {
			w.wantC[s.Chk.ID] = *s.Chk
			w.lastC[s.Chk.ID] = *s.Chk
			delete(w.pendC, s.Chk.ID)
		}
	case "rm-chk":
		opErr, pan = safely(func() error { return w.st.RemoveCheck(structs.NewCheckID(types.CheckID(s.ID), nil)) })
		if opErr == nil && pan == nil {
			delete(w.wantC, s.ID)
			delete(w.deferred, s.ID)
			w.pendC[s.ID] = true
		}
	case "upd-chk":
		cur, ok := w.wantC[s.ID]
		if !ok {
			return
		}
		willDefer := w.interval > 0 && cur.Status == s.Status && cur.Output != s.Output
		t0 := w.trg.Load()
		_, pan = safely(func() error { w.st.UpdateCheck(structs.NewCheckID(types.CheckID(s.ID), nil), s.Status, s.Output); return nil })
		if pan == nil {
			cur.Status, cur.Output = s.Status, s.Output
			w.wantC[s.ID] = cur
			if willDefer {
				w.run.Count("output_updates_deferred")
				if w.sc.Interval == "short" {
					// wait for the defer timer to mark the check out of sync (it calls TriggerSyncChanges)
					deadline := time.Now().Add(5 * time.Second)
					for w.trg.Load() == t0 {
						if time.Now().After(deadline) {
							w.run.Inconclusive("defer timer did not fire within 5s: " + w.sc.Name)
							w.dead = true
							return
						}
						time.Sleep(200 * time.Microsecond)
					}
					w.run.Count("defer_timers_fired")
				} else {
					w.deferred[s.ID] = true
				}
			}
		}
	default:
		panic("unknown local op " + s.Op)
	}
	w.hist = append(w.hist, histEntry{Step: s, Phase: "local"})
	w.run.Distinct("local-op", s.Op)
	if pan != nil {
		w.run.Count("panics")
		op := s.Op
		switch op {
		case "add-svc", "readd-svc", "upd-svc", "add-chk", "readd-chk":
			op = "registration"
		}
		w.violation("C16:panic:local-"+op+":"+pan.site, fmt.Sprintf("local operation %s panicked: %s\n%s", core.JSON(s), pan.val, pan.stack))
		w.dead = true
		return
	}
	if opErr != nil {
		w.run.Inconclusive(fmt.Sprintf("local op %s refused unexpectedly: %v (%s)", core.JSON(s), opErr, w.sc.Name))
		w.dead = true
		return
	}
	w.checkFlags("local-"+s.Op, false)
}

func (w *world) doDrift(s step) {
	d := s.Drift
	v := w.cat.view()
	w.run.Distinct("drift", d.Kind+":"+d.Field)
	w.run.Count("drift_ops")
	w.driftDirty = true
	w.hist = append(w.hist, histEntry{Step: s, Phase: "drift"})
	switch d.Kind {
	case "svc-add-foreign":
		def := svcDef{ID: d.ID, Name: "ghost", Port: 1, Pass: 1, Warn: 1, Tags: []string{"x"}}
		must(w.cat.put(&structs.RegisterRequest{Service: def.ns(), Check: chkDef{ID: d.ID + "-chk", Name: "ghost check", Status: api.HealthPassing, Svc: d.ID}.hc(&def)}))
	case "chk-add-foreign":
		must(w.cat.put(&structs.RegisterRequest{Check: chkDef{ID: d.ID, Name: "stray", Status: api.HealthWarning, Output: "stray"}.hc(nil)}))
	case "chk-add-foreign-bound":
		// bound to a service the catalog holds for this node (a local one if possible)
		var ids []string
		for id := range v.Svcs {
			if id != structs.ConsulServiceID {
				ids = append(ids, id)
			}
		}
		if len(ids) == 0 {
			return
		}
		sort.Strings(ids)
		cs := v.Svcs[ids[0]]
		must(w.cat.put(&structs.RegisterRequest{Check: &structs.HealthCheck{Node: nodeName, CheckID: types.CheckID(d.ID), Name: "foreign bound", Status: api.HealthCritical, ServiceID: cs.ID, Type: "ttl"}}))
	case "svc-remove":
		w.cat.dropService(d.ID)
	case "chk-remove":
		w.cat.dropCheck(d.ID)
	case "svc-alter":
		def, ok := w.wantS[d.ID]
		if !ok {
			def = universeSvc(d.ID)
		}
		for _, f := range strings.Split(d.Field, "+") {
			switch f {
			case "name":
				def.Name += "-x"
			case "tags":
				def.Tags = append(append([]string(nil), def.Tags...), "drift")
			case "tags-replaced":
				def.Tags = []string{"other", "drift"}
			case "tags-cleared":
				def.Tags = nil
			case "address":
				def.Addr = "10.9.9.9"
			case "port":
				def.Port += 1000
			case "meta":
				def.Meta = map[string]string{"drift": "yes"}
			case "weights":
				def.Warn += 5
			case "eto":
				// the catalog's copy of the flag is flipped relative to the agent's own registration
				def.ETO = !def.ETO
				w.run.Count("drift:enable-tag-override-flag")
				if ok {
					if def.ETO {
						w.run.Count("drift:enable-tag-override-flag:local-false-catalog-true")
					} else {
						w.run.Count("drift:enable-tag-override-flag:local-true-catalog-false")
					}
				}
			case "tagged-address":
				def.TAddr = "172.16.0.1"
			case "connect-native":
				def.Native = !def.Native
			default:
				panic("drift field " + d.Field)
			}
		}
		if strings.HasPrefix(d.Field, "eto+tags") {
			w.run.Count("drift:flag+tags")
			if ok && v.Svcs[d.ID] != nil {
				if def.ETO {
					w.run.Count("drift:flag+tags:on-synced-service:local-false-catalog-true")
				} else {
					w.run.Count("drift:flag+tags:on-synced-service:local-true-catalog-false")
				}
			}
		}
		must(w.cat.put(&structs.RegisterRequest{Service: def.ns()}))
	case "chk-alter":
		def, ok := w.wantC[d.ID]
		if !ok {
			def = universeChk(d.ID)
		}
		if def.Svc != "" && v.Svcs[def.Svc] == nil {
			// the catalog cannot hold a check of a service it does not hold
			def.Svc = ""
		}
		switch d.Field {
		case "name":
			def.Name += " (drift)"
		case "status":
			if def.Status == api.HealthCritical {
				def.Status = api.HealthPassing
			} else {
				def.Status = api.HealthCritical
			}
		case "output":
			def.Output += " drifted"
		case "notes":
			def.Notes = "drift"
		case "definition":
			def.TTL += 7
		case "service-binding":
			other := ""
			var ids []string
			for id := range v.Svcs {
				if id != def.Svc && id != structs.ConsulServiceID {
					ids = append(ids, id)
				}
			}
			sort.Strings(ids)
			if len(ids) > 0 {
				other = ids[0]
			}
			def.Svc = other
		default:
			panic("drift field " + d.Field)
		}
		var sd *svcDef
		if def.Svc != "" {
			cs := v.Svcs[def.Svc]
			sd = &svcDef{Name: cs.Service, Tags: cs.Tags}
		}
		must(w.cat.put(&structs.RegisterRequest{Check: def.hc(sd)}))
	case "node-meta":
		must(w.cat.put(&structs.RegisterRequest{ID: nodeID, Address: nodeAddr, TaggedAddresses: w.nodeTA, NodeMeta: map[string]string{"rack": "moved", "extra": "1"}}))
	case "node-tagged-addresses":
		must(w.cat.put(&structs.RegisterRequest{ID: nodeID, Address: nodeAddr, TaggedAddresses: map[string]string{"lan": "10.0.0.99"}, NodeMeta: w.nodeMeta}))
	default:
		panic("drift kind " + d.Kind)
	}
}

func (w *world) doSync(s step, faults []faultSpec, phase string) {
	w.cat.beginAttempt(faults)
	w.curFaults = nil
	w.curEnt = map[string]string{}
	fired0 := w.firedTotal
	var err error
	var pan *panicInfo
	// the agent's own registrations as it lists them before the attempt
	preS := map[string]string{}
	for sid, ls := range w.st.AllServices() {
		if _, ok := w.wantS[sid.ID]; ok {
			preS[sid.ID] = projSvc(ls)
		}
	}
	if s.Full {
		err, pan = safely(w.st.SyncFull)
	} else {
		err, pan = safely(w.st.SyncChanges)
	}
	h := histEntry{Step: s, Phase: phase, Calls: w.cat.calls}
	if err != nil {
		h.SyncErr = err.Error()
	}
	w.hist = append(w.hist, h)
	kind := "partial"
	if s.Full {
		kind = "full"
	}
	w.run.Count("sync_attempts:" + kind)
	if phase == "target" {
		w.tCalls = w.cat.calls
	}
	if pan != nil {
		w.run.Count("panics")
		w.violation("C16:panic:sync-"+kind+":"+pan.site+":"+w.ctx(w.curFaults), fmt.Sprintf("%s sync panicked: %s\n%s", kind, pan.val, pan.stack))
		w.dead = true
		return
	}
	// a sync attempt (of any kind, with any outcome) never rewrites what was registered with the agent;
	// only the tags of a service the AGENT registered with EnableTagOverride and consul-prefixed tagged
	// addresses are server-owned, and both are outside the projection
	postS := w.st.AllServices()
	for _, id := range keys(preS) {
		ls := postS[structs.NewServiceID(id, nil)]
		if ls == nil || w.tainted["s:"+id] {
			continue
		}
		w.run.Count("local_registration_unchanged_by_sync_checks")
		if now := projSvc(ls); now != preS[id] {
			w.tainted["s:"+id] = true
			w.violation("C16:convergence:local-registration-changed-by-sync:"+diffSvcProj(preS[id], now),
				fmt.Sprintf("the agent's own registration of service %q was rewritten by a %s sync attempt: before %s, after %s (registered: %s)", id, kind, preS[id], now, projSvc(w.wantS[id].ns())))
		}
	}
	faultFree := w.firedTotal == fired0
	if !faultFree {
		w.run.Count("faulted_sync_attempts")
		if err == nil {
			w.run.Count("faulted_sync_attempts_returning_nil")
		}
	}
	// (b) flag oracle after EVERY sync attempt
	w.checkFlags("sync-"+kind, true)
	if !faultFree {
		return
	}
	if err != nil {
		w.run.Count("fault_free_sync_errors")
		w.run.Distinct("fault-free-sync-error", trimErr(err.Error()))
	}
	if err == nil {
		// a sync that made every call successfully leaves nothing marked out of sync
		for id, ss := range w.st.ServiceStates(wildcard) {
			if !ss.InSync {
				w.violation("C16:fault-free-sync:left-out-of-sync:service:"+kind, fmt.Sprintf("service %s still out of sync after a fault-free %s sync that returned nil", id.ID, kind))
			}
		}
		for id, cs := range w.st.CheckStates(wildcard) {
			if !cs.InSync {
				w.violation("C16:fault-free-sync:left-out-of-sync:check:"+kind, fmt.Sprintf("check %s still out of sync after a fault-free %s sync that returned nil", id.ID, kind))
			}
		}
	}
	if w.driftDirty {
		return // a partial sync cannot know about drift it was never shown
	}
	// (c) deregistrations (local ones and detected foreign entries) are carried out by the first
	// fault-free sync of any kind
	v := w.cat.view()
	for id := range w.pendS {
		if v.Svcs[id] != nil {
			w.violation("C16:deregistration-forgotten:service:"+kind+":after:"+on(w.entFault, "s:"+id),
				fmt.Sprintf("service %q was deregistered locally (or found foreign by a full sync) but the catalog still holds it after a fault-free %s sync (err=%v)", id, kind, err))
		} else {
			w.run.Count("deregistrations_carried_out")
		}
	}
	for id := range w.pendC {
		if cc := v.Chks[id]; cc != nil {
			if ld, ok := w.lastC[id]; ok && ld.Svc != "" && ld.Svc != cc.ServiceID {
				// one defect class of its own: the agent drops a deleted check from its bookkeeping when the
				// deregistration of "its" service succeeded, relying on the catalog's cascade — but the
				// catalog row is bound differently (drift), so nothing removed it
				w.tainted["c:"+id] = true
				w.violation("C16:deregistration-forgotten:check:pruned-with-service-but-bound-differently-in-catalog",
					fmt.Sprintf("check %q (locally bound to service %q, locally deregistered together with it) is bound to %q in the catalog; the agent forgot the deregistration when the service was deregistered and the catalog still holds the check after a fault-free %s sync", id, ld.Svc, cc.ServiceID, kind))
				continue
			}
			w.violation("C16:deregistration-forgotten:check:"+kind+":after:"+on(w.entFault, "c:"+id),
				fmt.Sprintf("check %q was deregistered locally (or found foreign by a full sync) but the catalog still holds it after a fault-free %s sync (err=%v)", id, kind, err))
		} else {
			w.run.Count("deregistrations_carried_out")
		}
	}
	w.pendS, w.pendC = map[string]bool{}, map[string]bool{}
	// (a) convergence
	if s.Full || len(w.refused) == 0 {
		w.checkConverged(kind, err)
	}
	if s.Full {
		// entries refused by ACLs earlier must have been retried by this full sync
		v2 := w.cat.view()
		for k := range w.everRef {
			_, wantS := w.wantS[k[2:]]
			_, wantC := w.wantC[k[2:]]
			if (k[0] == 's' && wantS && v2.Svcs[k[2:]] != nil) || (k[0] == 'c' && wantC && v2.Chks[k[2:]] != nil) {
				w.run.Count("acl_refused_entries_registered_by_next_fault_free_full_sync")
			}
		}
		w.everRef = map[string]bool{}
		w.allFaults = nil
		w.entFault = map[string]string{}
	}
}

func trimErr(s string) string {
	s = strings.Join(strings.Fields(s), " ")
	if len(s) > 70 {
		s = s[:70]
	}
	return s
}

// checkFlags: an entry marked InSync must be held by the catalog, identically (modulo server-owned
// fields), unless its registration was refused by ACLs since the agent last read the catalog.
// After local operations a wrong flag is only remembered (with the operation as its cause); it is a
// violation once a sync attempt has gone by without repairing it.
func (w *world) checkFlags(at string, isSync bool) {
	if w.driftDirty || w.dead {
		return
	}
	v := w.cat.view()
	report := func(key, kind, id, detail string) {
		if w.tainted[key] {
			return
		}
		if !isSync {
			if _, ok := w.suspect[key]; !ok {
				switch at {
				case "local-add-svc", "local-readd-svc", "local-upd-svc", "local-add-chk", "local-readd-chk":
					// every one of them replaces an existing bookkeeping entry by a new registration
					w.suspect[key] = "local-reregistration"
				default:
					w.suspect[key] = at
				}
			}
			return
		}
		cause, ok := w.suspect[key]
		ctx := ""
		if !ok {
			cause = at
			ctx = ":" + on(w.curEnt, key)
		}
		w.tainted[key] = true
		w.violation("C16:flag:insync-not-held:"+kind+":set-by-"+cause+ctx,
			fmt.Sprintf("%s %q is marked InSync after a %s attempt but %s (flag became wrong at: %s)", kind, id, at, detail, cause))
	}
	for sid, ss := range w.st.ServiceStates(wildcard) {
		key := "s:" + sid.ID
		w.run.Count("flag_checks")
		if !ss.InSync || w.refused[key] {
			if w.refused[key] && ss.InSync {
				w.run.Count("flag_exempt_acl_refused")
			}
			delete(w.suspect, key)
			continue
		}
		cs := v.Svcs[sid.ID]
		switch {
		case cs == nil:
			report(key, "service", sid.ID, "the catalog does not hold it")
		case projSvc(cs) != projSvc(ss.Service):
			report(key, "service", sid.ID, fmt.Sprintf("the catalog holds %s, local is %s", projSvc(cs), projSvc(ss.Service)))
		default:
			delete(w.suspect, key)
		}
	}
	for cid, cs := range w.st.CheckStates(wildcard) {
		id := string(cid.ID)
		key := "c:" + id
		w.run.Count("flag_checks")
		if !cs.InSync || w.refused[key] {
			if w.refused[key] && cs.InSync {
				w.run.Count("flag_exempt_acl_refused")
			}
			delete(w.suspect, key)
			continue
		}
		cc := v.Chks[id]
		// the agent documents that while a defer timer is pending for a check its output is not
		// synced (the timer will mark the check out of sync): output is then not demanded
		noOut := cs.DeferCheck != nil
		switch {
		case cc == nil:
			report(key, "check", id, "the catalog does not hold it")
		case projChk(cc, noOut) != projChk(cs.Check, noOut):
			report(key, "check", id, fmt.Sprintf("the catalog holds %s, local is %s", projChk(cc, noOut), projChk(cs.Check, noOut)))
		default:
			delete(w.suspect, key)
		}
	}
}

// checkConverged: catalog ≡ what was registered (≡ what the agent reports as its registrations).
func (w *world) checkConverged(kind string, syncErr error) {
	v := w.cat.view()
	bad := false
	cur := ""
	fail := func(ent, class, what string) {
		bad = true
		ctx := kind + ":after:" + on(w.entFault, ent[:1]+":"+cur)
		if syncErr != nil {
			ctx += ":sync-error"
		}
		w.violation("C16:convergence:"+ent+":"+class+":"+ctx, fmt.Sprintf("after a fault-free %s sync (err=%v; faults so far: %s): %s", kind, syncErr, w.ctx(w.allFaults), what))
	}
	locS := w.st.AllServices()
	for id, d := range w.wantS {
		if w.tainted["s:"+id] {
			continue
		}
		cur = id
		want := projSvc(d.ns())
		if ls := locS[structs.NewServiceID(id, nil)]; ls == nil {
			fail("service", "lost-locally", fmt.Sprintf("service %q was registered with the agent but the agent no longer lists it", id))
		} else if projSvc(ls) != want {
			fail("service", "altered-locally", fmt.Sprintf("service %q: the agent lists %s, registered was %s", id, projSvc(ls), want))
		}
		cs := v.Svcs[id]
		switch {
		case cs == nil:
			fail("service", "missing", fmt.Sprintf("service %q is registered locally but missing from the catalog; catalog holds %v", id, keys(v.Svcs)))
		case projSvc(cs) != want:
			fail("service", "drift-kept", fmt.Sprintf("service %q: catalog %s, local %s", id, projSvc(cs), want))
		}
	}
	for id := range v.Svcs {
		cur = id
		if _, ok := w.wantS[id]; !ok && id != structs.ConsulServiceID {
			fail("service", "foreign-kept", fmt.Sprintf("catalog service %q is not registered locally but was not removed", id))
		}
	}
	cur = ""
	if w.hadConsul && v.Svcs[structs.ConsulServiceID] == nil {
		fail("service", "server-owned-removed", "the consul service was removed from the catalog")
	}
	if len(locS) != len(w.wantS) {
		fail("service", "local-extra", fmt.Sprintf("the agent lists %d services, %d were registered", len(locS), len(w.wantS)))
	}
	locC := w.st.AllChecks()
	pendingTimer := map[string]bool{}
	for cid, cs := range w.st.AllCheckStates() {
		if cs.DeferCheck != nil {
			pendingTimer[string(cid.ID)] = true
		}
	}
	for id, d := range w.wantC {
		if w.tainted["c:"+id] {
			continue
		}
		cur = id
		noOut := pendingTimer[id]
		if noOut {
			w.run.Count("output_not_demanded_timer_pending")
		}
		want := projChk(d.hc(w.svcOf(d.Svc)), noOut)
		if lc := locC[structs.NewCheckID(types.CheckID(id), nil)]; lc == nil {
			fail("check", "lost-locally", fmt.Sprintf("check %q was registered with the agent but the agent no longer lists it", id))
		} else if projChk(lc, noOut) != want {
			fail("check", "altered-locally", fmt.Sprintf("check %q: the agent lists %s, registered was %s", id, projChk(lc, noOut), want))
		}
		cc := v.Chks[id]
		switch {
		case cc == nil:
			fail("check", "missing", fmt.Sprintf("check %q is registered locally but missing from the catalog; catalog holds %v", id, keys(v.Chks)))
		case projChk(cc, noOut) != want:
			fail("check", "drift-kept", fmt.Sprintf("check %q: catalog %s, local %s", id, projChk(cc, noOut), want))
		}
	}
	for id := range v.Chks {
		cur = id
		if _, ok := w.wantC[id]; !ok && id != string(structs.SerfCheckID) && !w.tainted["c:"+id] {
			fail("check", "foreign-kept", fmt.Sprintf("catalog check %q is not registered locally but was not removed", id))
		}
	}
	cur = ""
	if w.sc.Leader && v.Chks[string(structs.SerfCheckID)] == nil {
		fail("check", "server-owned-removed", "the serfHealth check was removed from the catalog")
	}
	if len(locC) != len(w.wantC) {
		fail("check", "local-extra", fmt.Sprintf("the agent lists %d checks, %d were registered", len(locC), len(w.wantC)))
	}
	if !bad {
		w.run.Count("convergence_checks_passed:" + kind)
	}
	if kind == "full" {
		// node level information is not part of the property; observed only
		ok := v.Node != nil && v.Node.ID == nodeID && eqMap(v.Node.Meta, w.nodeMeta) && eqMap(v.Node.TaggedAddresses, w.nodeTA)
		if ok {
			w.run.Count("node_info_converged")
		} else {
			w.run.Count("node_info_not_converged")
		}
	}
}

func eqMap(a, b map[string]string) bool {
	if len(a) != len(b) {
		return false
	}
	for k, v := range a {
		if b[k] != v {
			return false
		}
	}
	return true
}

func keys[T any](m map[string]T) []string {
	var out []string
	for k := range m {
		out = append(out, k)
	}
	sort.Strings(out)
	return out
}

// execute runs the scenario under one fault variant from scratch.
func execute(run *core.Run, sc *scenario, v *variant) *world {
	w := newWorld(run, sc, v)
	defer w.close()
	doSteps := func(steps []step, phase string) {
		for _, s := range steps {
			if w.dead {
				return
			}
			switch s.Op {
			case "sync":
				var f []faultSpec
				if phase == "post" && v.Persist {
					f = v.Faults
				}
				w.doSync(s, f, phase)
			case "drift":
				w.doDrift(s)
			default:
				w.doLocal(s)
			}
		}
	}
	doSteps(sc.Pre, "pre")
	if !w.dead {
		w.doSync(sc.T, v.Faults, "target")
	}
	if v.Retry && !w.dead {
		var f []faultSpec
		if v.Persist {
			f = v.Faults
		}
		w.doSync(step{Op: "sync"}, f, "retry")
	}
	doSteps(sc.Post, "post")
	if !w.dead {
		// "eventually": the first full sync with no injected fault after the faults stop
		w.doSync(step{Op: "sync", Full: true}, nil, "final")
	}
	return w
}

// ---------------- generator ----------------

var svcUniverse = []svcDef{
	{ID: "web", Name: "web", Tags: []string{"v1"}, Port: 8080, Pass: 1, Warn: 1},
	{ID: "web-1", Name: "web", Tags: []string{"v1", "canary"}, Port: 8081, Pass: 2, Warn: 1, ETO: true},
	{ID: "db", Name: "db", Port: 5432, Pass: 1, Warn: 1, Native: true, Meta: map[string]string{"role": "primary"}, Token: "tokA"},
	{ID: "api", Name: "api.v1", Tags: []string{"edge"}, Addr: "10.1.1.1", Port: 443, Pass: 1, Warn: 0, TAddr: "192.168.0.9", ETO: true},
}

func universeSvc(id string) svcDef {
	for _, d := range svcUniverse {
		if d.ID == id {
			return d
		}
	}
	return svcDef{ID: id, Name: id, Port: 9, Pass: 1, Warn: 1}
}

func svcChecks(d svcDef) []chkDef {
	return []chkDef{
		{ID: "service:" + d.ID, Name: "Service '" + d.Name + "' check", Status: api.HealthPassing, Svc: d.ID, TTL: 30, Token: d.Token},
		{ID: d.ID + "-ttl", Name: d.ID + " ttl", Status: api.HealthCritical, Output: "boom", Svc: d.ID, TTL: 10, Token: "tokB"},
	}
}

var nodeChecks = []chkDef{
	{ID: "mem", Name: "memory", Status: api.HealthWarning, Notes: "memory use", Output: "87%", HTTP: "http://127.0.0.1:1/mem"},
	{ID: "disk", Name: "disk", Status: api.HealthPassing, TTL: 60},
}

func universeChk(id string) chkDef {
	for _, d := range svcUniverse {
		for _, c := range svcChecks(d) {
			if c.ID == id {
				return c
			}
		}
	}
	for _, c := range nodeChecks {
		if c.ID == id {
			return c
		}
	}
	return chkDef{ID: id, Name: id, Status: api.HealthPassing}
}

var svcDriftFields = []string{"name", "tags", "tags-cleared", "address", "port", "meta", "weights", "eto", "tagged-address", "connect-native",
	"eto+tags", "eto+tags-replaced", "eto+tags+port", "eto+tags-cleared+meta", "eto+tags-replaced+port+meta"}
var chkDriftFields = []string{"name", "status", "output", "notes", "definition", "service-binding"}

type gen struct {
	rng  *core.Rand
	seq  int // cycles through the drifted fields so that every field is covered at every seed
	svcs map[string]svcDef
	chks map[string]chkDef
}

func (g *gen) sortedSvcs() []string { return keys(g.svcs) }
func (g *gen) sortedChks() []string { return keys(g.chks) }

func (g *gen) addSvc() *step {
	var cand []svcDef
	for _, d := range svcUniverse {
		if _, ok := g.svcs[d.ID]; !ok {
			cand = append(cand, d)
		}
	}
	if len(cand) == 0 {
		return nil
	}
	d := core.Pick(g.rng, cand)
	all := svcChecks(d)
	var cs []chkDef
	switch g.rng.Intn(4) {
	case 0:
	case 1:
		cs = all[:1]
	case 2:
		cs = all[1:]
	default:
		cs = all
	}
	g.svcs[d.ID] = d
	for _, c := range cs {
		g.chks[c.ID] = c
	}
	return &step{Op: "add-svc", Svc: &d, Chks: cs}
}

func (g *gen) checksOf(id string) []chkDef {
	var out []chkDef
	for _, cid := range g.sortedChks() {
		if g.chks[cid].Svc == id {
			out = append(out, g.chks[cid])
		}
	}
	return out
}

func (g *gen) localOp() *step {
	r := g.rng
	for try := 0; try < 8; try++ {
		switch r.Intn(9) {
		case 0:
			if s := g.addSvc(); s != nil {
				return s
			}
		case 1: // re-register an existing service unchanged, with its checks (an idempotent client)
			if ids := g.sortedSvcs(); len(ids) > 0 {
				d := g.svcs[core.Pick(r, ids)]
				return &step{Op: "readd-svc", Svc: &d, Chks: g.checksOf(d.ID)}
			}
		case 2: // update a service definition
			if ids := g.sortedSvcs(); len(ids) > 0 {
				d := g.svcs[core.Pick(r, ids)]
				switch r.Intn(5) {
				case 0:
					d.Tags = append(append([]string(nil), d.Tags...), "v2")
				case 1:
					d.Port++
				case 2:
					d.Meta = map[string]string{"ver": fmt.Sprint(r.Intn(3))}
				case 3:
					d.Warn++
				case 4:
					d.ETO = !d.ETO
				}
				g.svcs[d.ID] = d
				return &step{Op: "upd-svc", Svc: &d, Chks: g.checksOf(d.ID)}
			}
		case 3: // remove a service together with its checks
			if ids := g.sortedSvcs(); len(ids) > 0 {
				id := core.Pick(r, ids)
				delete(g.svcs, id)
				for _, c := range g.checksOf(id) {
					delete(g.chks, c.ID)
				}
				return &step{Op: "rm-svc", ID: id}
			}
		case 4: // add a check (node level, or for an existing service)
			var cand []chkDef
			for _, c := range nodeChecks {
				if _, ok := g.chks[c.ID]; !ok {
					cand = append(cand, c)
				}
			}
			for _, id := range g.sortedSvcs() {
				for _, c := range svcChecks(g.svcs[id]) {
					if _, ok := g.chks[c.ID]; !ok {
						cand = append(cand, c)
					}
				}
			}
			if len(cand) > 0 {
				c := core.Pick(r, cand)
				g.chks[c.ID] = c
				return &step{Op: "add-chk", Chk: &c}
			}
		case 5: // remove a check
			if ids := g.sortedChks(); len(ids) > 0 {
				id := core.Pick(r, ids)
				delete(g.chks, id)
				return &step{Op: "rm-chk", ID: id}
			}
		case 6, 7: // check result: status change or output churn
			if ids := g.sortedChks(); len(ids) > 0 {
				id := core.Pick(r, ids)
				c := g.chks[id]
				st := c.Status
				if r.Chance(40) {
					st = core.Pick(r, []string{api.HealthPassing, api.HealthWarning, api.HealthCritical})
				}
				out := core.Pick(r, []string{"", "ok", "boom", "87%", "timeout after 10s"})
				c.Status, c.Output = st, out
				g.chks[id] = c
				return &step{Op: "upd-chk", ID: id, Status: st, Output: out}
			}
		case 8: // re-register an existing check unchanged
			if ids := g.sortedChks(); len(ids) > 0 {
				c := g.chks[core.Pick(r, ids)]
				return &step{Op: "readd-chk", Chk: &c}
			}
		}
	}
	return nil
}

func (g *gen) driftOp() *step {
	r := g.rng
	d := &driftOp{}
	switch r.Intn(10) {
	case 0:
		// an id the agent does not have now but may register later
		cand := []string{"ghost"}
		for _, u := range svcUniverse {
			if _, ok := g.svcs[u.ID]; !ok {
				cand = append(cand, u.ID)
			}
		}
		d.Kind, d.ID = "svc-add-foreign", core.Pick(r, cand)
	case 1:
		cand := []string{"stray"}
		for _, u := range nodeChecks {
			if _, ok := g.chks[u.ID]; !ok {
				cand = append(cand, u.ID)
			}
		}
		d.Kind, d.ID = "chk-add-foreign", core.Pick(r, cand)
	case 2:
		d.Kind, d.ID = "chk-add-foreign-bound", "web-foreign"
	case 3:
		d.Kind = "svc-remove"
		d.ID = core.Pick(r, append(g.sortedSvcs(), "web"))
	case 4:
		d.Kind = "chk-remove"
		d.ID = core.Pick(r, append(g.sortedChks(), "mem"))
	case 5, 6:
		d.Kind = "svc-alter"
		d.ID = core.Pick(r, append(g.sortedSvcs(), "web"))
		d.Field = svcDriftFields[g.seq%len(svcDriftFields)]
		g.seq++
	case 7, 8:
		d.Kind = "chk-alter"
		d.ID = core.Pick(r, append(g.sortedChks(), "mem"))
		d.Field = chkDriftFields[g.seq%len(chkDriftFields)]
		g.seq++
	case 9:
		d.Kind = core.Pick(r, []string{"node-meta", "node-tagged-addresses"})
	}
	return &step{Op: "drift", Drift: d}
}

func genScenario(rng *core.Rand, i int) *scenario {
	g := &gen{rng: rng, seq: i, svcs: map[string]svcDef{}, chks: map[string]chkDef{}}
	sc := &scenario{Name: fmt.Sprintf("s%d", i)}
	switch x := rng.Intn(100); {
	case x < 45:
		sc.Interval = "0"
	case x < 85:
		sc.Interval = "long"
	default:
		sc.Interval = "short"
	}
	sc.Wire = rng.Bool()
	sc.Leader = rng.Chance(75)
	sc.TAddrs = rng.Bool()
	add := func(list *[]step, s *step) {
		if s != nil {
			*list = append(*list, *s)
		}
	}
	for n := 1 + rng.Intn(3); n > 0; n-- {
		add(&sc.Pre, g.addSvc())
	}
	if rng.Chance(40) {
		c := core.Pick(rng, nodeChecks)
		g.chks[c.ID] = c
		sc.Pre = append(sc.Pre, step{Op: "add-chk", Chk: &c})
	}
	established := rng.Chance(65)
	if established {
		sc.Pre = append(sc.Pre, step{Op: "sync", Full: true})
	}
	for n := rng.Intn(4); n > 0; n-- {
		if rng.Chance(45) {
			add(&sc.Pre, g.driftOp())
		} else {
			add(&sc.Pre, g.localOp())
		}
	}
	sc.T = step{Op: "sync", Full: rng.Chance(70)}
	// a foreign entry the catalog holds may be registered with the agent later under the same id
	for _, p := range sc.Pre {
		if p.Op != "drift" || !rng.Chance(60) {
			continue
		}
		switch p.Drift.Kind {
		case "svc-add-foreign":
			if _, ok := g.svcs[p.Drift.ID]; !ok && p.Drift.ID != "ghost" {
				d := universeSvc(p.Drift.ID)
				g.svcs[d.ID] = d
				sc.Post = append(sc.Post, step{Op: "add-svc", Svc: &d})
			}
		case "chk-add-foreign":
			if _, ok := g.chks[p.Drift.ID]; !ok && p.Drift.ID != "stray" {
				c := universeChk(p.Drift.ID)
				g.chks[c.ID] = c
				sc.Post = append(sc.Post, step{Op: "add-chk", Chk: &c})
			}
		}
	}
	for n := rng.Intn(3); n > 0; n-- {
		add(&sc.Post, g.localOp())
	}
	if rng.Chance(50) {
		sc.Post = append(sc.Post, step{Op: "sync"})
		if rng.Chance(40) {
			add(&sc.Post, g.localOp())
		}
	}
	return sc
}

// variantsFor enumerates the fault plans of one scenario from the calls of its fault-free target sync.
func variantsFor(rng *core.Rand, base []call, full bool) []variant {
	out := []variant{{}, {Retry: true}}
	var descs []string
	for _, c := range base {
		descs = append(descs, c.Desc)
	}
	sort.Strings(descs)
	thorough := core.Thorough()
	// single faults: every call position x every kind
	n := 0
	for _, d := range descs {
		for _, k := range kinds {
			f := []faultSpec{{Desc: d, Kind: k}}
			if thorough {
				out = append(out, variant{Faults: f}, variant{Faults: f, Retry: true})
			} else {
				out = append(out, variant{Faults: f, Retry: n%2 == 0})
			}
			n++
		}
		// the failure persists over the following syncs (an unreachable server, a token without rights)
		for _, k := range []string{"generic", "denied"} {
			out = append(out, variant{Faults: []faultSpec{{Desc: d, Kind: k}}, Persist: true, Retry: true})
		}
	}
	if full {
		// the fallback read is a position that exists only after a "can't find method" on the first read
		for _, k := range kinds {
			out = append(out, variant{Faults: []faultSpec{{Desc: "read:services", Kind: "no-method"}, {Desc: "read:services-old", Kind: k}}})
		}
		for _, d := range descs {
			if strings.HasPrefix(d, "read:") {
				continue
			}
			out = append(out, variant{Faults: []faultSpec{{Desc: "read:services", Kind: "no-method"}, {Desc: d, Kind: core.Pick(rng, kinds[:2])}}, Retry: true})
		}
	}
	// double faults
	var pairs []variant
	main := kinds[:4]
	for i := 0; i < len(descs); i++ {
		for j := i + 1; j < len(descs); j++ {
			for _, k1 := range main {
				for _, k2 := range main {
					pairs = append(pairs, variant{Faults: []faultSpec{{Desc: descs[i], Kind: k1}, {Desc: descs[j], Kind: k2}}, Retry: (i+j)%2 == 0})
				}
			}
		}
	}
	// mixed double faults inside one pass, always run: a write refused by ACLs next to a write that fails for
	// another reason (an entry's own failure must not be papered over by the refusal of a neighbour: a check
	// registered with its own token is sent together with its service's definition)
	var mixed []variant
	for _, d1 := range descs {
		for _, d2 := range descs {
			if d1 == d2 || !strings.HasPrefix(d1, "register:") || !strings.HasPrefix(d2, "register:") {
				continue
			}
			for _, k1 := range []string{"generic", "no-method"} {
				for _, k2 := range []string{"denied", "acl-not-found"} {
					mixed = append(mixed, variant{Faults: []faultSpec{{Desc: d1, Kind: k1}, {Desc: d2, Kind: k2}}, Retry: len(mixed)%2 == 0})
				}
			}
		}
	}
	if lim := core.N(24, 400); len(mixed) > lim {
		// always keep the pairs "service registration fails, registration of one of ITS checks is refused"
		// (check IDs of the generated fleets contain the ID of their service), fill up with a sample of the rest
		var sel, rest []variant
		for _, v := range mixed {
			a, b := v.Faults[0].Desc, v.Faults[1].Desc
			if strings.HasPrefix(a, "register:svc:") && strings.HasPrefix(b, "register:chk:") && strings.Contains(strings.TrimPrefix(b, "register:chk:"), strings.TrimPrefix(a, "register:svc:")) {
				sel = append(sel, v)
			} else {
				rest = append(rest, v)
			}
		}
		if len(sel) < lim && len(rest) > 0 {
			p := rng.Perm(len(rest))
			if len(p) > lim-len(sel) {
				p = p[:lim-len(sel)]
			}
			sort.Ints(p)
			for _, x := range p {
				sel = append(sel, rest[x])
			}
		}
		mixed = sel
	}
	out = append(out, mixed...)
	limit := core.N(16, 240)
	if len(pairs) > limit {
		p := rng.Perm(len(pairs))[:limit]
		sort.Ints(p)
		sel := make([]variant, 0, limit)
		for _, x := range p {
			sel = append(sel, pairs[x])
		}
		pairs = sel
	}
	return append(out, pairs...)
}

func runScenario(run *core.Run, sc *scenario, rng *core.Rand, sample bool) {
	base := execute(run, sc, &variant{})
	run.Eval()
	if base.dead {
		return
	}
	calls := base.tCalls
	run.CountN("target_sync_rpcs", len(calls))
	run.Distinct("target-sync-rpc-count", fmt.Sprint(len(calls)))
	vars := variantsFor(rng, calls, sc.T.Full)
	writes := 0
	for _, c := range calls {
		if !strings.HasPrefix(c.Class, "read-") {
			writes++
		}
	}
	scJSON := core.JSON(sc)
	for i := 1; i < len(vars); i++ {
		if run.Violations() > 30 {
			return
		}
		v := vars[i]
		w := execute(run, sc, &v)
		run.Eval()
		switch len(v.Faults) {
		case 0:
		case 1:
			run.Count("variants:single")
		default:
			run.Count("variants:double")
		}
		if v.Persist {
			run.Count("variants:persistent")
		}
		if w.firedTotal > 0 && writes > 0 {
			run.NonTrivial(core.Hash(scJSON, core.JSON(v)))
		}
		if w.firedTotal >= 2 {
			run.Count("executions_with_two_or_more_faults")
		}
		if sample && i == 3 && run.WantSample() {
			run.Sample(map[string]any{"scenario": sc, "variant": v, "history": w.hist})
		}
	}
}

// case-variant scenarios: the agent keeps "web" and "Web" apart, the catalog's id index does not.
func caseVariantScenarios() []*scenario {
	a := svcDef{ID: "web", Name: "web", Port: 8080, Pass: 1, Warn: 1}
	b := svcDef{ID: "Web", Name: "web", Port: 8081, Pass: 1, Warn: 1}
	c1 := chkDef{ID: "mem", Name: "memory", Status: api.HealthPassing}
	c2 := chkDef{ID: "MEM", Name: "memory upper", Status: api.HealthCritical}
	return []*scenario{
		{Name: "casevar-services", Interval: "0", Leader: true, CaseVar: true,
			Pre: []step{{Op: "add-svc", Svc: &a}, {Op: "add-svc", Svc: &b}}, T: step{Op: "sync", Full: true}},
		{Name: "casevar-checks", Interval: "0", Leader: true, CaseVar: true,
			Pre: []step{{Op: "add-chk", Chk: &c1}, {Op: "add-chk", Chk: &c2}}, T: step{Op: "sync", Full: true}},
	}
}

// tag-override scenarios: the catalog's copy of EnableTagOverride is flipped behind the agent's back,
// alone and together with tags (and port / meta), for a service registered with and without the flag.
func tagOverrideScenarios() []*scenario {
	var out []*scenario
	for _, eto := range []bool{false, true} {
		for _, field := range []string{"eto", "eto+tags", "eto+tags-replaced", "eto+tags+port", "eto+tags-cleared+meta", "tags"} {
			for _, wire := range []bool{false, true} {
				d := svcDef{ID: "web", Name: "web", Tags: []string{"v1", "blue"}, Port: 8080, Pass: 1, Warn: 1, ETO: eto}
				o := svcDef{ID: "db", Name: "db", Tags: []string{"primary"}, Port: 5432, Pass: 1, Warn: 1, ETO: !eto}
				out = append(out, &scenario{Name: fmt.Sprintf("tag-override-local-%v-drift-%s-wire-%v", eto, field, wire), Interval: "0", Leader: true, Wire: wire,
					Pre: []step{{Op: "add-svc", Svc: &d, Chks: svcChecks(d)[:1]}, {Op: "add-svc", Svc: &o}, {Op: "sync", Full: true},
						{Op: "drift", Drift: &driftOp{Kind: "svc-alter", ID: "web", Field: field}},
						{Op: "drift", Drift: &driftOp{Kind: "svc-alter", ID: "db", Field: field}}},
					T:    step{Op: "sync", Full: true},
					Post: []step{{Op: "drift", Drift: &driftOp{Kind: "svc-alter", ID: "web", Field: field}}, {Op: "sync", Full: true}}})
			}
		}
	}
	return out
}

func TestZZVerifC16(t *testing.T) {
	run := core.NewRun("C16", "fault_enumeration",
		"scenarios = PRNG-built sequences of agent-local operations (add/re-add/update/remove service with its checks, add/re-add/remove check, check status change and output churn with CheckUpdateInterval 0 | 1h (deferral) | 2ms (timer fires)), external catalog drift (foreign service/check added, entries removed, each IsSame-compared field altered — including the catalog's copy of EnableTagOverride flipped in both directions, alone and combined with tags / port / meta drift, also in 24 scripted tag-override scenarios —, node meta / tagged addresses changed) and full/partial syncs, executed on the real agent/local.State against a real state.Store behind the RPCs the agent uses. For each scenario the RPCs of its fault-free target sync are recorded and EVERY call position x 6 failure kinds is replayed from scratch (with and without an immediate partial retry, and as a failure persisting into the following syncs), plus the fallback-read position, plus double faults (quick: 16 sampled position/kind pairs per scenario; thorough: all position pairs x 4x4 kinds, capped at 240). After every local step and every sync attempt the flag oracle runs; after every fault-free sync the deregistration and convergence oracles run; each execution ends with the first fault-free full sync. An execution is non-trivial if at least one injected fault fired and the target sync contained a write RPC; distinct by (scenario, fault plan). DEFERRAL FAMILY (defer_test.go; quick 1000 / thorough 24000 PRNG scenarios in 8 shapes, each inside a testing/synctest bubble = virtual time, no faults): a state with CheckUpdateInterval 2s|10s|1m is registered and full-synced, then 1..4 output-only UpdateCheck calls of one check inside one deferral window (sleeps of 2-10% of the interval), optionally with a status change, catalog drift of the check (output/status/notes/removed), remove + re-register of the check, partial/full syncs inside the window, a second window after expiry, updates around the window end (0.45-1.5 x interval apart), or a mixed soup over several checks; the scenario closes with a sleep of 1.6 x interval, SyncChanges, SyncFull. After every successful full sync catalog == local for every check and service; Output alone is not demanded for a check whose last output-only update is younger than 1.5 x interval. A deferral scenario is non-trivial if it made at least one output-only update.")
	run.Assume(
		"the catalog side is the production state.Store driven by EnsureRegistration/DeleteService/DeleteCheck after the same msgpack round trip raft applies; the endpoint's ACL vetting is replaced by injected refusals",
		"call positions are identified by what the call carries (read:services, register:svc:<id>, deregister:chk:<id>, ...) because the agent walks Go maps: the k-th call differs between executions, the set of positions does not",
		"an injected \"Unknown service/check\" answer to a deregistration is made true (the entry is removed from the catalog first), as the server only says so when it does not hold the entry",
		"service tags of a check row and HealthCheck.Type/Interval/Timeout are not compared (derived by the store / never compared by the agent); tags of EnableTagOverride services and consul-prefixed tagged addresses are server-owned",
		"node-level information (meta, tagged addresses) is drifted but its convergence is only counted, not demanded",
		"check output is not demanded while the agent holds a pending defer timer for that check (CheckUpdateInterval > 0: the documented output rate limit; the timer marks the check out of sync when it fires). The 1h interval never fires during an execution; with 2ms the monitor waits for the timer to fire (watchdog 5s => inconclusive)",
		"deferral family: the agent draws the timer delay (interval/2 + random(0, interval)) from the global math/rand source, which the monitor cannot seed: verdicts hold for every delay in that range (Output is demanded only >= 1.5 x interval after the last output-only update; the counters updates-inside-window / two-or-more-updates-in-one-window count only updates < 0.5 x interval after an update that found no window possibly open), the observed timer-callback counts of the window-end and mixed shapes may differ between runs",
		"executions of the two case-variant scenarios depend on Go map iteration order inside the agent (which spelling reaches the catalog last); their counts may differ by a few between runs, the verdict does not")
	rng := core.NewRand(core.Seed())

	nsc := core.N(150, 3000)
	scs := make([]*scenario, nsc)
	rngs := make([]*core.Rand, nsc)
	for i := range scs {
		r := rng.Fork(uint64(i))
		scs[i] = genScenario(r, i)
		rngs[i] = r.Fork(7)
	}
	// the first scenarios run sequentially (samples), the rest on all cores
	seq := 4
	for i := 0; i < seq && i < nsc; i++ {
		runScenario(run, scs[i], rngs[i], true)
	}
	var wg sync.WaitGroup
	var next atomic.Int64
	next.Store(int64(seq))
	workers := runtime.GOMAXPROCS(0)
	if workers > 16 {
		workers = 16
	}
	for k := 0; k < workers; k++ {
		wg.Add(1)
		go func() {
			defer wg.Done()
			for {
				i := int(next.Add(1) - 1)
				if i >= nsc || run.Violations() > 30 {
					return
				}
				core.Progress("C16", scs[i].Name)
				runScenario(run, scs[i], rngs[i], false)
			}
		}()
	}
	wg.Wait()
	run.CountN("scenarios", nsc)
	for i, sc := range caseVariantScenarios() {
		runScenario(run, sc, rng.Fork(uint64(900000+i)), false)
		run.Count("case_variant_scenarios")
	}

	for i, sc := range tagOverrideScenarios() {
		runScenario(run, sc, rng.Fork(uint64(910000+i)), false)
		run.Count("tag_override_scenarios")
	}

	// check-output deferral family (CheckUpdateInterval > 0) in virtual time: defer_test.go
	runDeferFamily(t, run, rng.Fork(777000))

	run.Floor("faults_fired", core.N(3000, 60000))
	run.Floor("executions_with_two_or_more_faults", core.N(300, 6000))
	run.Floor("convergence_checks_passed:full", core.N(5000, 100000))
	run.Floor("convergence_checks_passed:partial", core.N(500, 10000))
	run.Floor("deregistrations_carried_out", core.N(500, 10000))
	run.Floor("flag_exempt_acl_refused", core.N(100, 2000))
	run.Floor("acl_refused_entries_registered_by_next_fault_free_full_sync", core.N(100, 2000))
	run.Floor("drift_ops", core.N(1000, 20000))
	run.Floor("drift:enable-tag-override-flag", core.N(300, 3000))
	run.Floor("drift:enable-tag-override-flag:local-false-catalog-true", core.N(100, 1000))
	run.Floor("drift:enable-tag-override-flag:local-true-catalog-false", core.N(100, 1000))
	run.Floor("drift:flag+tags", core.N(200, 2000))
	run.Floor("drift:flag+tags:on-synced-service:local-false-catalog-true", core.N(60, 600))
	run.Floor("drift:flag+tags:on-synced-service:local-true-catalog-false", core.N(60, 600))
	run.Floor("local_registration_unchanged_by_sync_checks", core.N(5000, 100000))
	run.Floor("output_updates_deferred", core.N(100, 2000))
	run.Floor("defer_timers_fired", core.N(10, 200))
	run.FloorDistinct("fault-position-class", 36)
	run.FloorDistinct("drift", 20)
	run.FloorDistinct("local-op", 8)
	if run.Finish() == 1 {
		t.Fail()
	}
}
