//go:build verif

// C16 — the controllable catalog: a real state.Store behind exactly the RPC methods the agent's
// local state uses, executed with the production store calls, plus a fault plan.
package c16

import (
	"context"
	"errors"
	"fmt"
	"sort"
	"strings"

	"github.com/hashicorp/consul/acl"
	"github.com/hashicorp/consul/acl/resolver"
	"github.com/hashicorp/consul/agent/consul/state"
	"github.com/hashicorp/consul/agent/netutil"
	"github.com/hashicorp/consul/agent/structs"
	"github.com/hashicorp/consul/types"
)

func init() {
	// the state store asks the local agent for its bind address when it assigns virtual IPs;
	// consul's own tests replace the lookup the same way.
	netutil.GetAgentBindAddrFunc = netutil.GetMockGetAgentBindAddrFunc("0.0.0.0")
}

const (
	nodeName = "Node-A"
	dcName   = "dc1"
	nodeAddr = "10.0.0.7"
)

var nodeID = types.NodeID("11111111-2222-3333-4444-555555555555")

// ---------------- fault plan ----------------

// fault kinds. The first four are the kinds of DESIGN C16; the last two are the siblings the agent
// code distinguishes in the same switch statements.
var kinds = []string{"generic", "denied", "unknown-service", "no-method", "acl-not-found", "unknown-check"}

type faultSpec struct {
	Desc string `json:"call"` // call descriptor (see describe)
	Kind string `json:"kind"`
}

// call is one RPC as seen by the catalog.
type call struct {
	Desc    string   `json:"call"`
	Class   string   `json:"-"`
	Method  string   `json:"-"`
	Svc     string   `json:"-"` // service carried / targeted
	Chks    []string `json:"-"` // checks carried / targeted
	Fault   string   `json:"fault,omitempty"`
	Err     string   `json:"err,omitempty"`
	SkipNod bool     `json:"-"`
	Token   string   `json:"-"`
}

// describe names a call by what it carries; within one sync attempt every call has a distinct
// descriptor, so a descriptor identifies a call POSITION independently of the (randomised) order in
// which the agent walks its maps.
func describe(method string, args any) call {
	c := call{Method: method}
	switch method {
	case "Catalog.NodeServiceList":
		c.Desc, c.Class = "read:services", "read-services"
	case "Catalog.NodeServices":
		c.Desc, c.Class = "read:services-old", "read-services-old"
	case "Health.NodeChecks":
		c.Desc, c.Class = "read:checks", "read-checks"
	case "Catalog.Register":
		req := args.(*structs.RegisterRequest)
		c.SkipNod = req.SkipNodeUpdate
		c.Token = req.Token
		if req.Check != nil {
			c.Chks = append(c.Chks, string(req.Check.CheckID))
		}
		for _, k := range req.Checks {
			c.Chks = append(c.Chks, string(k.CheckID))
		}
		sort.Strings(c.Chks)
		// a service registration carries piggybacked checks; a check registration carries its service
		// for context. The agent's two code paths are told apart by what is being synced: syncCheck
		// always sends exactly one check in Check and never uses Checks; syncService sends the
		// service and 0..n checks.
		switch {
		case req.Service == nil && len(c.Chks) == 0:
			c.Desc, c.Class = "register:node", "register-node"
		case req.Service != nil:
			c.Svc = req.Service.ID
			c.Desc, c.Class = "register:svc:"+req.Service.ID, "register-service"
			if len(c.Chks) > 0 {
				c.Desc += "+chk:" + strings.Join(c.Chks, ",")
			}
		default:
			c.Desc, c.Class = "register:chk:"+strings.Join(c.Chks, ","), "register-check"
		}
	case "Catalog.Deregister":
		req := args.(*structs.DeregisterRequest)
		switch {
		case req.ServiceID != "":
			c.Svc = req.ServiceID
			c.Desc, c.Class = "deregister:svc:"+req.ServiceID, "deregister-service"
		case req.CheckID != "":
			c.Chks = []string{string(req.CheckID)}
			c.Desc, c.Class = "deregister:chk:"+string(req.CheckID), "deregister-check"
		default:
			c.Desc, c.Class = "deregister:node", "deregister-node"
		}
	default:
		c.Desc, c.Class = "other:"+method, "other"
	}
	return c
}

// ---------------- catalog ----------------

type catalog struct {
	store *state.Store
	idx   uint64
	wire  bool // replies are serialised copies (client agent) instead of store pointers (server agent)

	// current sync attempt
	calls   []call
	faults  []faultSpec
	fired   map[int]bool // index into faults -> fired during this attempt
	nFired  int
	readOK  int // successful read RPCs in this attempt
	onRead  func()             // called when the read phase of a full sync completed
	onCall  func(c *call)      // observation hook (after the call was decided)
	refine  func(c *call)      // lets the model tell a check sync that carries its service from a service sync
}

func newCatalog(wire bool) *catalog {
	c := &catalog{store: state.NewStateStore(nil), idx: 10, wire: wire}
	c.idx++
	if err := c.store.SystemMetadataSet(c.idx, &structs.SystemMetadataEntry{Key: structs.SystemMetadataVirtualIPsEnabled, Value: "true"}); err != nil {
		panic(err)
	}
	return c
}

func (c *catalog) beginAttempt(faults []faultSpec) {
	c.calls = nil
	c.faults = faults
	c.fired = map[int]bool{}
	c.readOK = 0
}

// ResolveTokenAndDefaultMeta is only used by the agent to log an accessor id.
func (c *catalog) ResolveTokenAndDefaultMeta(string, *acl.EnterpriseMeta, *acl.AuthorizerContext) (resolver.Result, error) {
	return resolver.Result{}, nil
}

func wireErr(wire bool, err error) error {
	if wire {
		// what a client agent sees: the server's error flattened to text by net/rpc
		return errors.New("rpc error making call: " + err.Error())
	}
	return err
}

func (c *catalog) faultError(k string, cl *call) error {
	switch k {
	case "generic":
		return wireErr(c.wire, errors.New("injected failure: connection reset"))
	case "denied":
		return wireErr(c.wire, acl.ErrPermissionDenied)
	case "acl-not-found":
		return wireErr(c.wire, acl.ErrNotFound)
	case "no-method":
		return wireErr(c.wire, errors.New("rpc: can't find method "+cl.Method))
	case "unknown-service":
		id := cl.Svc
		if id == "" {
			id = "?"
		}
		if cl.Class == "deregister-service" {
			// the server says this only when it does not hold the service: make the statement true
			// (someone else removed the entry while the agent's request was in flight)
			c.dropService(cl.Svc)
			return wireErr(c.wire, fmt.Errorf("Unknown service ID '%s'", id))
		}
		if len(cl.Chks) > 0 {
			return wireErr(c.wire, fmt.Errorf("Unknown service ID '%s' for check ID '%s'", id, cl.Chks[0]))
		}
		return wireErr(c.wire, fmt.Errorf("Unknown service ID '%s'", id))
	case "unknown-check":
		id := "?"
		if len(cl.Chks) > 0 {
			id = cl.Chks[0]
		}
		if cl.Class == "deregister-check" {
			c.dropCheck(id)
		}
		return wireErr(c.wire, fmt.Errorf("Unknown check ID '%s'", id))
	}
	panic("unknown fault kind " + k)
}

func (c *catalog) RPC(_ context.Context, method string, args any, reply any) error {
	cl := describe(method, args)
	if c.refine != nil {
		c.refine(&cl)
	}
	for i, f := range c.faults {
		if c.fired[i] || f.Desc != cl.Desc {
			continue
		}
		c.fired[i] = true
		c.nFired++
		cl.Fault = f.Kind
		err := c.faultError(f.Kind, &cl)
		cl.Err = err.Error()
		c.calls = append(c.calls, cl)
		if c.onCall != nil {
			c.onCall(&cl)
		}
		return err
	}
	err := c.serve(method, args, reply)
	if err != nil {
		cl.Err = err.Error()
	}
	c.calls = append(c.calls, cl)
	if c.onCall != nil {
		c.onCall(&cl)
	}
	if err == nil && strings.HasPrefix(cl.Class, "read-") {
		c.readOK++
		if cl.Class == "read-checks" && c.readOK >= 2 && c.onRead != nil {
			c.onRead()
		}
	}
	return err
}

// roundTrip copies a value the way the wire does.
func roundTrip(in, out any) {
	b, err := structs.Encode(0, in)
	if err != nil {
		panic(err)
	}
	if err := structs.Decode(b[1:], out); err != nil {
		panic(err)
	}
}

func (c *catalog) serve(method string, args any, reply any) error {
	switch method {
	case "Catalog.NodeServiceList":
		req := args.(*structs.NodeSpecificRequest)
		out := reply.(*structs.IndexedNodeServiceList)
		if req.Node == "" {
			return errors.New("Must provide node")
		}
		idx, list, err := c.store.NodeServiceList(nil, req.Node, &req.EnterpriseMeta, "")
		if err != nil {
			return err
		}
		out.Index = idx
		if list != nil {
			if c.wire {
				var cp structs.NodeServiceList
				roundTrip(list, &cp)
				out.NodeServices = cp
			} else {
				out.NodeServices = *list
			}
		}
		return nil
	case "Catalog.NodeServices":
		req := args.(*structs.NodeSpecificRequest)
		out := reply.(*structs.IndexedNodeServices)
		idx, ns, err := c.store.NodeServices(nil, req.Node, &req.EnterpriseMeta, "")
		if err != nil {
			return err
		}
		out.Index = idx
		if ns != nil && c.wire {
			cp := &structs.NodeServices{}
			roundTrip(ns, cp)
			ns = cp
		}
		out.NodeServices = ns
		return nil
	case "Health.NodeChecks":
		req := args.(*structs.NodeSpecificRequest)
		out := reply.(*structs.IndexedHealthChecks)
		idx, checks, err := c.store.NodeChecks(nil, req.Node, &req.EnterpriseMeta, "")
		if err != nil {
			return err
		}
		out.Index = idx
		if c.wire {
			var cp structs.HealthChecks
			roundTrip(checks, &cp)
			checks = cp
		}
		out.HealthChecks = checks
		return nil
	case "Catalog.Register":
		req := args.(*structs.RegisterRequest)
		if c.wire {
			cp := &structs.RegisterRequest{}
			roundTrip(req, cp)
			req = cp
		}
		return c.register(req)
	case "Catalog.Deregister":
		req := args.(*structs.DeregisterRequest)
		return c.deregister(req)
	}
	return errors.New("rpc: can't find method " + method)
}

// register does what Catalog.Register does before and at the raft apply (pre-apply fix-ups of the
// endpoint, then the log entry is encoded, decoded by the FSM and handed to EnsureRegistration).
func (c *catalog) register(req *structs.RegisterRequest) error {
	if req.Node == "" {
		return errors.New("Must provide node")
	}
	if req.Address == "" && !req.SkipNodeUpdate {
		return errors.New("Must provide address if SkipNodeUpdate is not set")
	}
	if req.Service != nil {
		if err := req.Service.Validate(); err != nil {
			return err
		}
		if req.Service.ID == "" {
			req.Service.ID = req.Service.Service
		}
		if req.Service.Service == "" {
			return errors.New("Must provide service name (Service.Service) when service ID is provided")
		}
	}
	if req.Check != nil {
		req.Checks = append(req.Checks, req.Check)
		req.Check = nil
	}
	for _, check := range req.Checks {
		if check.Node == "" {
			check.Node = req.Node
		}
		if check.CheckID == "" && check.Name != "" {
			check.CheckID = types.CheckID(check.Name)
		}
		if check.Type == "" {
			check.Type = check.CheckType().Type()
		}
	}
	var applied structs.RegisterRequest
	roundTrip(req, &applied) // the raft log entry
	c.idx++
	return c.store.EnsureRegistration(c.idx, &applied)
}

func (c *catalog) deregister(req *structs.DeregisterRequest) error {
	if req.Node == "" {
		return errors.New("Must provide node")
	}
	var applied structs.DeregisterRequest
	roundTrip(req, &applied)
	c.idx++
	switch {
	case applied.ServiceID != "":
		return c.store.DeleteService(c.idx, applied.Node, applied.ServiceID, &applied.EnterpriseMeta, applied.PeerName)
	case applied.CheckID != "":
		return c.store.DeleteCheck(c.idx, applied.Node, applied.CheckID, &applied.EnterpriseMeta, applied.PeerName)
	}
	return c.store.DeleteNode(c.idx, applied.Node, &applied.EnterpriseMeta, applied.PeerName)
}

// ---- direct access for drift injection and for the oracle

func (c *catalog) dropService(id string) {
	c.idx++
	if err := c.store.DeleteService(c.idx, nodeName, id, nil, ""); err != nil {
		panic(err)
	}
}

func (c *catalog) dropCheck(id string) {
	c.idx++
	if err := c.store.DeleteCheck(c.idx, nodeName, types.CheckID(id), nil, ""); err != nil {
		panic(err)
	}
}

func (c *catalog) put(req *structs.RegisterRequest) error {
	req.Datacenter = dcName
	req.Node = nodeName
	if req.Address == "" {
		req.SkipNodeUpdate = true
	}
	return c.register(req)
}

type catView struct {
	Node *structs.Node
	Svcs map[string]*structs.NodeService
	Chks map[string]*structs.HealthCheck
}

func (c *catalog) view() catView {
	v := catView{Svcs: map[string]*structs.NodeService{}, Chks: map[string]*structs.HealthCheck{}}
	_, list, err := c.store.NodeServiceList(nil, nodeName, structs.WildcardEnterpriseMetaInDefaultPartition(), "")
	if err != nil {
		panic(err)
	}
	if list != nil {
		v.Node = list.Node
		for _, s := range list.Services {
			v.Svcs[s.ID] = s
		}
	}
	_, checks, err := c.store.NodeChecks(nil, nodeName, structs.WildcardEnterpriseMetaInDefaultPartition(), "")
	if err != nil {
		panic(err)
	}
	for _, k := range checks {
		v.Chks[string(k.CheckID)] = k
	}
	return v
}
