//go:build verif

// C04 (server tier) - sessions and locks through the RPC endpoints of a real single-node server, with the
// leader's real TTL timers in the loop (session_ttl.go, session_timers.go, session_endpoint.go,
// kvs_endpoint.go kvsPreApply, txn_endpoint.go). The store-level monitor (group c04) drives FSM commands and
// therefore models TTL expiry as the destroy command; here sessions really expire, timers are really reset
// by Renew, stopped by destroy and re-created by a leadership flap (clearAllSessionTimers +
// initializeSessionTimers, exactly what revokeLeadership / establishLeadership do).
//
// Part A (sequential client + asynchronous expiry): PRNG histories of write RPCs; an observer goroutine takes
// consistent memdb views of the server's store as fast as it can and runs the C04 invariant walker on every
// distinct commit index it sees; the client also checks after each RPC. Every predicate is a state predicate
// of one committed state (so skipped indexes cannot cause an alarm), or a before/after rule that is
// insensitive to further commits in between.
// Part B (concurrent clients): goroutines contend for 3 keys with lock / unlock / destroy / get through
// KVS.Apply, Session.Apply and KVS.Get; the history recorded at the RPC boundary is checked per key with
// porcupine against a sequential lock specification.
package consul

import (
	"context"
	"fmt"
	"os"
	"path/filepath"
	"sort"
	"strings"
	"sync"
	"sync/atomic"
	"testing"
	"time"

	"github.com/anishathalye/porcupine"

	"github.com/hashicorp/consul/agent/consul/state"
	"github.com/hashicorp/consul/agent/structs"
	"github.com/hashicorp/consul/api"
	"github.com/hashicorp/consul/types"
	"github.com/hashicorp/consul/zzverif/core"
)

type zv4Tables struct {
	index    uint64
	nodes    map[string]bool
	checks   map[string]*structs.HealthCheck
	sessions map[string]*structs.Session
	kvs      map[string]*structs.DirEntry
	links    []*state.VerifSessionCheck
	queries  []*structs.PreparedQuery
}

func zv4Load(s *state.Store) *zv4Tables {
	t := &zv4Tables{nodes: map[string]bool{}, checks: map[string]*structs.HealthCheck{}, sessions: map[string]*structs.Session{}, kvs: map[string]*structs.DirEntry{}}
	s.WalkAllTables(func(table string, item interface{}) bool {
		switch x := item.(type) {
		case *structs.Node:
			if x.PeerName == "" {
				t.nodes[strings.ToLower(x.Node)] = true
			}
		case *structs.HealthCheck:
			if x.PeerName == "" {
				t.checks[strings.ToLower(x.Node)+"|"+string(x.CheckID)] = x
			}
		case *structs.Session:
			t.sessions[x.ID] = x
		case *structs.DirEntry:
			t.kvs[x.Key] = x
		case *state.VerifSessionCheck:
			t.links = append(t.links, x)
		case *state.VerifQueryWrapper:
			t.queries = append(t.queries, x.PreparedQuery)
		case *state.IndexEntry:
			if x.Value > t.index {
				t.index = x.Value
			}
		}
		return true
	})
	return t
}

type zv4Finding struct{ key, what string }

// zv4Invariants: the same state predicates as the store-level monitor
func zv4Invariants(t *zv4Tables) []zv4Finding {
	var out []zv4Finding
	add := func(key, f string, a ...any) { out = append(out, zv4Finding{key, fmt.Sprintf(f, a...)}) }
	for _, e := range t.kvs {
		if e.Session != "" {
			if _, ok := t.sessions[e.Session]; !ok {
				add("C04:server:invariant:key-held-by-dead-session", "key %q is locked by session %s which does not exist", e.Key, e.Session)
			}
		}
	}
	for _, l := range t.links {
		if _, ok := t.sessions[l.Session]; !ok {
			add("C04:server:invariant:check-link-of-dead-session", "session_checks row (%s,%s) refers to session %s which does not exist", l.Node, l.CheckID.ID, l.Session)
		}
	}
	for _, q := range t.queries {
		if q.Session != "" {
			if _, ok := t.sessions[q.Session]; !ok {
				add("C04:server:invariant:query-of-dead-session", "prepared query %s is bound to session %s which does not exist", q.ID, q.Session)
			}
		}
	}
	for _, s := range t.sessions {
		if !t.nodes[strings.ToLower(s.Node)] {
			add("C04:server:invariant:session-without-node", "session %s exists although its node %q is not registered", s.ID, s.Node)
		}
		for _, cid := range s.CheckIDs() {
			c, ok := t.checks[strings.ToLower(s.Node)+"|"+string(cid)]
			if !ok {
				add("C04:server:invariant:session-with-missing-check", "session %s exists although its check %q on node %s is not registered", s.ID, cid, s.Node)
				continue
			}
			if c.Status == api.HealthCritical && c.Type != "session" {
				add("C04:server:invariant:session-with-critical-check", "session %s exists although its check %q on node %s is critical", s.ID, cid, s.Node)
			}
		}
	}
	return out
}

// zv4Ended: rules about sessions present in b and absent in a (any number of commits in between): a key
// the session held keeps its CreateIndex only while it exists, so "same CreateIndex" identifies the very
// key row the session held.
//
// Only "still held" is a rule over arbitrary windows. The two stricter rules (a delete-behaviour key must be
// gone, a released key keeps its lock counter) need that nothing else released / re-locked the key inside
// the window: they are applied (strict) only to client windows whose own RPC did not touch the key - the only
// other writer, the TTL timer, can only end sessions.
func zv4Ended(b, a *zv4Tables, strict bool, touched map[string]bool) ([]zv4Finding, []string) {
	var out []zv4Finding
	var ended []string
	for id, s := range b.sessions {
		if _, still := a.sessions[id]; still {
			continue
		}
		ended = append(ended, id)
		for _, e := range b.kvs {
			if e.Session != id {
				continue
			}
			n, exists := a.kvs[e.Key]
			if !exists || n.CreateIndex != e.CreateIndex {
				continue
			}
			if n.Session != id && (!strict || touched[e.Key]) {
				continue
			}
			if n.Session == id {
				out = append(out, zv4Finding{"C04:server:session-ended:key-still-held", fmt.Sprintf("session %s (behaviour %s) ended but key %q is still held by it", id, s.Behavior, e.Key)})
			} else if s.Behavior == structs.SessionKeysDelete {
				out = append(out, zv4Finding{"C04:server:session-ended:delete-behaviour:key-not-deleted", fmt.Sprintf("session %s (behaviour delete) ended but the key %q it held still exists (create index %d)", id, e.Key, e.CreateIndex)})
			} else if n.Session == "" && n.LockIndex != e.LockIndex {
				out = append(out, zv4Finding{"C04:server:session-ended:release-changed-lockindex", fmt.Sprintf("releasing key %q at the end of session %s changed its lock counter %d -> %d", e.Key, id, e.LockIndex, n.LockIndex)})
			}
		}
	}
	sort.Strings(ended)
	return out, ended
}

var zv4Nodes = []string{"n1", "n2", "Web-01"}
var zv4Keys = []string{"lk/a", "lk/b", "lk/a/sub", "lkx"}

func TestZZVerifC04Server(t *testing.T) {
	run := core.NewRun("C04", "exploration",
		"server tier. Part A: PRNG histories of write RPCs against a real single-node server with SessionTTLMin lowered to 10 ms: Catalog.Register / Deregister (nodes, services, node and service checks, status flips), Session.Apply create (with and without TTL 30-120 ms, both behaviours, NodeChecks / ServiceChecks / legacy Checks, lock-delay 0 or 25 ms) and destroy, Session.Renew, KVS.Apply lock / unlock / set / cas / delete / delete-tree, Txn.Apply mixing KV lock/unlock/set/delete with session deletes, PreparedQuery.Apply bound to sessions, pauses that let TTL sessions really expire through the leader's timers, and leadership flaps of the timer set (clearAllSessionTimers + initializeSessionTimers). An observer goroutine loads consistent views of the store continuously and the client after every RPC; on every view the invariant walker runs (lock holder exists, check links / prepared queries of live sessions only, session's node and checks registered and not critical) and between consecutive views the session-end rules (held key released, deleted for behaviour delete, lock counter kept). Lock / unlock results are judged against the holder before the call. After the last step every TTL session that was not renewed must be gone within 100x its expiry deadline. Part B: 6 client goroutines x 40 operations (lock / unlock / get / destroy+re-create session) over 3 keys through the RPC endpoints; the history recorded at the RPC boundary is checked per key with porcupine against a sequential lock specification. non-trivial = Part A history in which at least one session with a held key ended by real TTL expiry and one by another path, or a Part B history with >= 1 refused and >= 1 granted acquisition of the same key by different sessions; distinct by log hash")
	run.Assume("single-node cluster: the leader-only timer code runs, leader transfer between servers does not (the flap re-runs the timer initialisation a new leader performs)",
		"TTL expiry deadlines are real time: a verdict that a TTL session is never invalidated is only given after the last renewal was acknowledged, all other RPCs answered, and 100x the deadline (>= 20 s) passed")
	rng := core.NewRand(core.Seed())
	zv4PartA(t, run, rng)
	zv4PartB(t, run, rng)
	run.Floor("server-steps", 150)
	run.Floor("server-views-checked", 300)
	run.Floor("session-ended-by-ttl-expiry-with-held-key", 3)
	run.Floor("session-ended-by-ttl-expiry-after-timer-flap", 1)
	run.Floor("lock-results-checked", 40)
	run.Floor("porcupine-partitions-ok", 6)
	if run.Finish() == 1 {
		t.Fail()
	}
}

func zv4PartA(t *testing.T, run *core.Run, rng *core.Rand) {
	nh := core.N(6, 40)
	ln := core.N(110, 140)
	for h := 0; h < nh && run.Violations() < 30; h++ {
		hr := rng.Fork(uint64(4000 + h))
		_, srv := testServerWithConfig(t, func(c *Config) { c.SessionTTLMin = 10 * time.Millisecond })
		waitForLeaderEstablishment(t, srv)
		var mu sync.Mutex
		var log []string
		reported := map[string]bool{}
		report := func(f zv4Finding, where string) {
			mu.Lock()
			defer mu.Unlock()
			if reported[f.key] {
				return
			}
			reported[f.key] = true
			run.Violation(f.key, fmt.Sprintf("history %d %s: %s", h, where, f.what), map[string]any{"log": append([]string{}, log...), "finding": f.what})
		}
		// ---- observer
		stop := make(chan struct{})
		var obsDone sync.WaitGroup
		var lastDesc atomic.Value
		lastDesc.Store("start")
		obsDone.Add(1)
		go func() {
			defer obsDone.Done()
			var prev *zv4Tables
			for {
				select {
				case <-stop:
					return
				default:
				}
				cur := zv4Load(srv.fsm.State())
				if prev != nil && cur.index == prev.index {
					time.Sleep(200 * time.Microsecond)
					continue
				}
				run.Count("server-views-checked")
				for _, f := range zv4Invariants(cur) {
					report(f, fmt.Sprintf("observer view at index %d (around %s)", cur.index, lastDesc.Load()))
				}
				if prev != nil {
					fs, _ := zv4Ended(prev, cur, false, nil)
					for _, f := range fs {
						report(f, fmt.Sprintf("observer views %d -> %d (around %s)", prev.index, cur.index, lastDesc.Load()))
					}
				}
				prev = cur
			}
		}()
		rpc := func(method string, args, reply any) error { return srv.RPC(context.Background(), method, args, reply) }
		// ---- base catalog
		for _, n := range zv4Nodes {
			var out struct{}
			rpc("Catalog.Register", &structs.RegisterRequest{Datacenter: "dc1", Node: n, Address: "10.0.0.1",
				Service: &structs.NodeService{ID: "web", Service: "web", Port: 80},
				Checks: structs.HealthChecks{
					{Node: n, CheckID: "nchk", Name: "node check", Status: api.HealthPassing},
					{Node: n, CheckID: "svc:web", Name: "web", Status: api.HealthPassing, ServiceID: "web"},
				}}, &out)
		}
		type sessInfo struct {
			id        string
			ttl       time.Duration
			lockDelay bool
			renewedAt time.Time
			created   time.Time
			afterFlap bool
		}
		sess := map[string]*sessInfo{}
		var order []string
		delayed := map[string]bool{} // keys that may be under a lock-delay
		ttlEndedHeld, otherEndedHeld := 0, 0
		var lastView *zv4Tables
		flapped, forcePause := false, false
		lastCreated := ""
		pickSess := func() string {
			if len(order) == 0 || hr.Chance(5) {
				return "00000000-0000-0000-0000-00000000dead"
			}
			return order[hr.Intn(len(order))]
		}
		for step := 0; step < ln; step++ {
			before := zv4Load(srv.fsm.State())
			var desc string
			var lockKey, lockSess string
			var lockOK, isLock, isUnlock, haveRes, isTxn bool
			touched := map[string]bool{}
			explicitEnd := map[string]bool{} // sessions this RPC ends on purpose (or may end)
			anyEnd := false
			c := hr.Intn(100)
			if len(order) < 3 {
				c = 0 // keep a population of live sessions
			} else if forcePause {
				c = 99
			} else if lastCreated != "" && hr.Chance(70) {
				c = 40 // a fresh session takes a lock straight away (so that TTL sessions expire as holders)
			}
			forcePause = false
			switch {
			case c < 12: // session create
				n := core.Pick(hr, zv4Nodes)
				s := structs.Session{Node: n, Name: fmt.Sprintf("s%d", step)}
				if hr.Chance(55) {
					s.TTL = fmt.Sprintf("%dms", 30+10*hr.Intn(10))
				}
				if hr.Chance(35) {
					s.Behavior = structs.SessionKeysDelete
				}
				switch hr.Intn(4) {
				case 0:
					s.NodeChecks = []string{"nchk"}
				case 1:
					s.NodeChecks = []string{}
					s.ServiceChecks = []structs.ServiceCheck{{ID: "svc:web"}}
				case 2:
					s.NodeChecks = []string{}
				default:
					s.NodeChecks = []string{}
					s.Checks = []types.CheckID{"nchk"} // legacy field
				}
				if hr.Chance(20) {
					s.LockDelay = 25 * time.Millisecond
				}
				var id string
				err := rpc("Session.Apply", &structs.SessionRequest{Datacenter: "dc1", Op: structs.SessionCreate, Session: s}, &id)
				desc = fmt.Sprintf("Session.Apply create node=%s ttl=%q behaviour=%q nodechecks=%v svcchecks=%v lockdelay=%v -> %s err=%v", n, s.TTL, s.Behavior, s.NodeChecks, s.ServiceChecks, s.LockDelay, id, err)
				if err == nil && id != "" {
					d, _ := time.ParseDuration(s.TTL)
					sess[id] = &sessInfo{id: id, ttl: d, lockDelay: s.LockDelay > 0, created: time.Now(), renewedAt: time.Now(), afterFlap: false}
					order = append(order, id)
					lastCreated = id
				}
			case c < 16: // session destroy
				id := pickSess()
				explicitEnd[id] = true
				var out string
				err := rpc("Session.Apply", &structs.SessionRequest{Datacenter: "dc1", Op: structs.SessionDestroy, Session: structs.Session{ID: id}}, &out)
				desc = fmt.Sprintf("Session.Apply destroy %s err=%v", id, err)
			case c < 23: // renew
				id := pickSess()
				var out structs.IndexedSessions
				err := rpc("Session.Renew", &structs.SessionSpecificRequest{Datacenter: "dc1", SessionID: id}, &out)
				desc = fmt.Sprintf("Session.Renew %s -> %d sessions err=%v", id, len(out.Sessions), err)
				if si := sess[id]; si != nil && err == nil && len(out.Sessions) > 0 {
					si.renewedAt = time.Now()
					run.Count("renewals-acknowledged")
				}
			case c < 52: // lock
				lockKey, lockSess, isLock = core.Pick(hr, zv4Keys), pickSess(), true
				if lastCreated != "" {
					lockSess, lastCreated = lastCreated, ""
				}
				touched[lockKey] = true
				err := rpc("KVS.Apply", &structs.KVSRequest{Datacenter: "dc1", Op: api.KVLock, DirEnt: structs.DirEntry{Key: lockKey, Value: []byte(fmt.Sprint(step)), Session: lockSess}}, &lockOK)
				haveRes = err == nil
				desc = fmt.Sprintf("KVS.Apply lock %q session=%s -> %v err=%v", lockKey, lockSess, lockOK, err)
			case c < 60: // unlock
				lockKey, lockSess, isUnlock = core.Pick(hr, zv4Keys), pickSess(), true
				touched[lockKey] = true
				err := rpc("KVS.Apply", &structs.KVSRequest{Datacenter: "dc1", Op: api.KVUnlock, DirEnt: structs.DirEntry{Key: lockKey, Session: lockSess}}, &lockOK)
				haveRes = err == nil
				desc = fmt.Sprintf("KVS.Apply unlock %q session=%s -> %v err=%v", lockKey, lockSess, lockOK, err)
			case c < 66: // plain kv writes
				k := core.Pick(hr, zv4Keys)
				op := core.Pick(hr, []api.KVOp{api.KVSet, api.KVDelete, api.KVDeleteTree, api.KVCAS})
				de := structs.DirEntry{Key: k, Value: []byte("x")}
				if op == api.KVDeleteTree {
					de.Key = core.Pick(hr, []string{"lk/", "lk/a", "lk"})
				}
				if hr.Chance(30) {
					de.Session = pickSess() // must be ignored by plain writes
				}
				var ok bool
				for _, k2 := range zv4Keys {
					if k2 == de.Key || (op == api.KVDeleteTree && strings.HasPrefix(k2, de.Key)) {
						touched[k2] = true
					}
				}
				err := rpc("KVS.Apply", &structs.KVSRequest{Datacenter: "dc1", Op: op, DirEnt: de}, &ok)
				desc = fmt.Sprintf("KVS.Apply %s %q session-field=%q -> %v err=%v", op, de.Key, de.Session, ok, err)
			case c < 74: // transaction
				var ops structs.TxnOps
				var ds []string
				isTxn = true
				for i, n := 0, 1+hr.Intn(3); i < n; i++ {
					switch hr.Intn(5) {
					case 0:
						id := pickSess()
						explicitEnd[id] = true
						ops = append(ops, &structs.TxnOp{Session: &structs.TxnSessionOp{Verb: api.SessionDelete, Session: structs.Session{ID: id}}})
						ds = append(ds, "session-delete "+id)
					case 1:
						k, s := core.Pick(hr, zv4Keys), pickSess()
						ops = append(ops, &structs.TxnOp{KV: &structs.TxnKVOp{Verb: api.KVLock, DirEnt: structs.DirEntry{Key: k, Session: s}}})
						ds = append(ds, fmt.Sprintf("lock %q %s", k, s))
					case 2:
						k, s := core.Pick(hr, zv4Keys), pickSess()
						ops = append(ops, &structs.TxnOp{KV: &structs.TxnKVOp{Verb: api.KVUnlock, DirEnt: structs.DirEntry{Key: k, Session: s}}})
						ds = append(ds, fmt.Sprintf("unlock %q %s", k, s))
					case 3:
						k := core.Pick(hr, zv4Keys)
						ops = append(ops, &structs.TxnOp{KV: &structs.TxnKVOp{Verb: api.KVSet, DirEnt: structs.DirEntry{Key: k, Value: []byte("t")}}})
						ds = append(ds, fmt.Sprintf("set %q", k))
					default:
						k := core.Pick(hr, zv4Keys)
						ops = append(ops, &structs.TxnOp{KV: &structs.TxnKVOp{Verb: api.KVDelete, DirEnt: structs.DirEntry{Key: k}}})
						ds = append(ds, fmt.Sprintf("delete %q", k))
					}
				}
				var out structs.TxnResponse
				err := rpc("Txn.Apply", &structs.TxnRequest{Datacenter: "dc1", Ops: ops}, &out)
				desc = fmt.Sprintf("Txn.Apply %v -> %d results %d errors err=%v", ds, len(out.Results), len(out.Errors), err)
				// lock verbs of a transaction are subject to the lock-delay too; nothing to add to 'delayed'
			case c < 80: // catalog changes that end sessions
				n := core.Pick(hr, zv4Nodes)
				anyEnd = true
				var out struct{}
				switch hr.Intn(9) {
				case 0:
					err := rpc("Catalog.Deregister", &structs.DeregisterRequest{Datacenter: "dc1", Node: n}, &out)
					desc = fmt.Sprintf("Catalog.Deregister node %s err=%v", n, err)
				case 1:
					err := rpc("Catalog.Deregister", &structs.DeregisterRequest{Datacenter: "dc1", Node: n, CheckID: "nchk"}, &out)
					desc = fmt.Sprintf("Catalog.Deregister check %s/nchk err=%v", n, err)
				case 2:
					err := rpc("Catalog.Deregister", &structs.DeregisterRequest{Datacenter: "dc1", Node: n, ServiceID: "web"}, &out)
					desc = fmt.Sprintf("Catalog.Deregister service %s/web err=%v", n, err)
				case 3:
					cid := core.Pick(hr, []types.CheckID{"nchk", "svc:web"})
					sid := ""
					if cid == "svc:web" {
						sid = "web"
					}
					st := core.Pick(hr, []string{api.HealthCritical, api.HealthCritical, api.HealthWarning, ""})
					err := rpc("Catalog.Register", &structs.RegisterRequest{Datacenter: "dc1", Node: n, Address: "10.0.0.1", SkipNodeUpdate: true,
						Check: &structs.HealthCheck{Node: n, CheckID: cid, Name: "c", Status: st, ServiceID: sid}}, &out)
					desc = fmt.Sprintf("Catalog.Register check %s/%s status=%q err=%v", n, cid, st, err)
				default:
					err := rpc("Catalog.Register", &structs.RegisterRequest{Datacenter: "dc1", Node: n, Address: "10.0.0.1",
						Service: &structs.NodeService{ID: "web", Service: "web", Port: 80},
						Checks: structs.HealthChecks{
							{Node: n, CheckID: "nchk", Name: "node check", Status: api.HealthPassing},
							{Node: n, CheckID: "svc:web", Name: "web", Status: api.HealthPassing, ServiceID: "web"},
						}}, &out)
					desc = fmt.Sprintf("Catalog.Register node %s with passing checks err=%v", n, err)
				}
			case c < 84: // prepared query bound to a session
				id := pickSess()
				var qid string
				err := rpc("PreparedQuery.Apply", &structs.PreparedQueryRequest{Datacenter: "dc1", Op: structs.PreparedQueryCreate,
					Query: &structs.PreparedQuery{Name: fmt.Sprintf("q%d-%d", h, step), Session: id, Service: structs.ServiceQuery{Service: "web"}}}, &qid)
				desc = fmt.Sprintf("PreparedQuery.Apply create session=%s -> %s err=%v", id, qid, err)
			case c < 90: // leadership flap of the timer set
				srv.clearAllSessionTimers()
				err := srv.initializeSessionTimers()
				flapped = true
				now := time.Now()
				for _, si := range sess {
					si.renewedAt = now // a new leader re-arms every timer with a full TTL
					si.afterFlap = true
				}
				desc = fmt.Sprintf("leadership flap of session timers (clearAllSessionTimers + initializeSessionTimers) err=%v", err)
				run.Count("timer-flaps")
				forcePause = hr.Chance(60)
			default: // pause: let TTL sessions expire
				d := time.Duration(50+hr.Intn(220)) * time.Millisecond
				time.Sleep(d)
				desc = fmt.Sprintf("pause %v", d)
			}
			lastDesc.Store(desc)
			after := zv4Load(srv.fsm.State())
			mu.Lock()
			log = append(log, fmt.Sprintf("[%d] @%d %s", step, after.index, desc))
			mu.Unlock()
			core.Progress("C04", fmt.Sprintf("server history %d step %d %s", h, step, desc))
			run.Count("server-steps")
			for _, f := range zv4Invariants(after) {
				report(f, fmt.Sprintf("after step %d (%s)", step, desc))
			}
			// session ends are taken from the window since the view after the PREVIOUS step (a TTL expiry may
			// fall between two steps, where neither this step's before-view nor its after-view would show it)
			if lastView == nil {
				lastView = before
			}
			fs, ended := zv4Ended(lastView, after, !isTxn, touched)
			for _, f := range fs {
				report(f, fmt.Sprintf("after step %d (%s)", step, desc))
			}
			for _, id := range ended {
				si := sess[id]
				held := false
				for _, e := range lastView.kvs {
					if e.Session == id {
						held = true
						if bs := lastView.sessions[id]; bs != nil && bs.LockDelay > 0 {
							delayed[e.Key] = true
						}
					}
				}
				byTTL := si != nil && si.ttl > 0 && !explicitEnd[id] && !anyEnd
				switch {
				case byTTL:
					run.Count("session-ended-by-ttl-expiry")
					if held {
						run.Count("session-ended-by-ttl-expiry-with-held-key")
						ttlEndedHeld++
					}
					if si.afterFlap {
						run.Count("session-ended-by-ttl-expiry-after-timer-flap")
					}
				default:
					run.Count("session-ended-by-rpc")
					if held {
						run.Count("session-ended-by-rpc-with-held-key")
						otherEndedHeld++
					}
				}
				delete(sess, id)
				for i, o := range order {
					if o == id {
						order = append(order[:i], order[i+1:]...)
						break
					}
				}
			}
			lastView = after
			// ---- lock / unlock result vs the holder before the call. The only writer besides this client is the
			// TTL timer, which can only END sessions: rules are skipped when a session involved ended meanwhile.
			if (isLock || isUnlock) && haveRes {
				run.Count("lock-results-checked")
				holder := ""
				if be := before.kvs[lockKey]; be != nil {
					holder = be.Session
				}
				_, holderAliveAfter := after.sessions[holder]
				_, mineAliveBefore := before.sessions[lockSess]
				_, mineAliveAfter := after.sessions[lockSess]
				ae := after.kvs[lockKey]
				where := fmt.Sprintf("step %d (%s)", step, desc)
				if isLock {
					if lockOK && holder != "" && holder != lockSess && holderAliveAfter {
						report(zv4Finding{"C04:server:lock:acquired-while-held-by-other", fmt.Sprintf("lock of %q by %s succeeded although it was held by live session %s", lockKey, lockSess, holder)}, where)
					}
					if lockOK && !mineAliveBefore {
						report(zv4Finding{"C04:server:lock:acquired-by-dead-session", fmt.Sprintf("lock of %q by %s succeeded although that session did not exist", lockKey, lockSess)}, where)
					}
					if lockOK && mineAliveAfter && (ae == nil || ae.Session != lockSess) {
						report(zv4Finding{"C04:server:lock:reported-but-not-held", fmt.Sprintf("lock of %q by %s reported success but the key is not held by it", lockKey, lockSess)}, where)
					}
					if !lockOK && (holder == "" || holder == lockSess) && mineAliveBefore && mineAliveAfter && !delayed[lockKey] {
						report(zv4Finding{"C04:server:lock:refused-although-free", fmt.Sprintf("lock of %q by live session %s was refused although the holder was %q and no lock-delay can apply", lockKey, lockSess, holder)}, where)
					}
					if lockOK {
						run.Count("locks-granted")
					} else {
						run.Count("locks-refused")
					}
				} else {
					if lockOK && holder != lockSess {
						report(zv4Finding{"C04:server:unlock:by-non-holder", fmt.Sprintf("unlock of %q by %s succeeded although the holder was %q", lockKey, lockSess, holder)}, where)
					}
					if lockOK && ae != nil && ae.Session == lockSess && lockSess != "" {
						report(zv4Finding{"C04:server:unlock:reported-but-still-held", fmt.Sprintf("unlock of %q by %s reported success but the key is still held by it", lockKey, lockSess)}, where)
					}
					if !lockOK && holder == lockSess && mineAliveAfter && before.kvs[lockKey] != nil {
						report(zv4Finding{"C04:server:unlock:refused-to-holder", fmt.Sprintf("unlock of %q by its holder %s was refused", lockKey, lockSess)}, where)
					}
				}
			}
		}
		// ---- bounded progress: every TTL session not renewed any more must be invalidated
		var maxDeadline time.Duration
		for _, si := range sess {
			if si.ttl > 0 && si.ttl*structs.SessionTTLMultiplier > maxDeadline {
				maxDeadline = si.ttl * structs.SessionTTLMultiplier
			}
		}
		if maxDeadline > 0 {
			limit := 100 * maxDeadline
			if limit < 20*time.Second {
				limit = 20 * time.Second
			}
			start := time.Now()
			before := zv4Load(srv.fsm.State())
			for time.Since(start) < limit {
				cur := zv4Load(srv.fsm.State())
				left := 0
				for id, si := range sess {
					if _, ok := cur.sessions[id]; ok && si.ttl > 0 {
						left++
					}
				}
				if left == 0 {
					break
				}
				time.Sleep(10 * time.Millisecond)
			}
			after := zv4Load(srv.fsm.State())
			fs, ended := zv4Ended(before, after, true, nil)
			for _, f := range fs {
				report(f, "final drain of TTL sessions")
			}
			for _, id := range ended {
				si := sess[id]
				if si == nil {
					continue
				}
				run.Count("session-ended-by-ttl-expiry")
				for _, e := range before.kvs {
					if e.Session == id {
						run.Count("session-ended-by-ttl-expiry-with-held-key")
						ttlEndedHeld++
						break
					}
				}
				if si.afterFlap {
					run.Count("session-ended-by-ttl-expiry-after-timer-flap")
				}
			}
			for id, si := range sess {
				if _, ok := after.sessions[id]; ok && si.ttl > 0 {
					what := "ttl-session-never-invalidated"
					if si.afterFlap {
						what += ":after-timer-flap"
					}
					report(zv4Finding{"C04:server:" + what, fmt.Sprintf("session %s with TTL %v (deadline %v after its last renewal %v ago) still exists %v after the last RPC; flapped=%v", id, si.ttl, si.ttl*structs.SessionTTLMultiplier, time.Since(si.renewedAt).Round(time.Millisecond), time.Since(start).Round(time.Millisecond), flapped)}, "final drain of TTL sessions")
				}
			}
			for _, f := range zv4Invariants(after) {
				report(f, "after the final drain")
			}
		}
		close(stop)
		obsDone.Wait()
		if ttlEndedHeld > 0 && otherEndedHeld > 0 {
			run.NonTrivial(core.Hash(log...))
			if run.WantSample() {
				run.Sample(map[string]any{"part": "A", "history": h, "ended_by_ttl_with_held_key": ttlEndedHeld, "ended_by_rpc_with_held_key": otherEndedHeld, "log_prefix": log[:min(8, len(log))]})
			}
		}
		run.Eval()
		srv.Shutdown()
		os.MkdirAll(filepath.Join(core.Root(), "replay"), 0o755)
		os.WriteFile(filepath.Join(core.Root(), "replay", fmt.Sprintf("C04.c04s.history%d.txt", h)), []byte(strings.Join(log, "\n")+"\n"), 0o644)
	}
}

// ---------------------------------------------------------------------------------------------------
// Part B: concurrent clients, porcupine per key

type zv4In struct {
	op   string // lock unlock get end
	sess string
}
type zv4Out struct {
	ok     bool
	holder string // get
}
type zv4St struct {
	holder string
	dead   string // "|id|id|"
}

var zv4Model = porcupine.Model{
	Init: func() any { return zv4St{} },
	Step: func(st, in, out any) (bool, any) {
		s, i, o := st.(zv4St), in.(zv4In), out.(zv4Out)
		switch i.op {
		case "lock":
			want := (s.holder == "" || s.holder == i.sess) && !strings.Contains(s.dead, "|"+i.sess+"|")
			if o.ok != want {
				return false, s
			}
			if o.ok {
				s.holder = i.sess
			}
			return true, s
		case "unlock":
			want := s.holder == i.sess
			if o.ok != want {
				return false, s
			}
			if o.ok {
				s.holder = ""
			}
			return true, s
		case "end":
			if s.holder == i.sess {
				s.holder = ""
			}
			if s.dead == "" {
				s.dead = "|"
			}
			s.dead += i.sess + "|"
			return true, s
		case "get":
			return o.holder == s.holder, s
		}
		return false, s
	},
	Equal: func(a, b any) bool { return a.(zv4St) == b.(zv4St) },
	DescribeOperation: func(in, out any) string {
		i, o := in.(zv4In), out.(zv4Out)
		return fmt.Sprintf("%s(%s) -> ok=%v holder=%s", i.op, i.sess, o.ok, o.holder)
	},
}

func zv4PartB(t *testing.T, run *core.Run, rng *core.Rand) {
	nh := core.N(4, 30)
	keys := []string{"cl/a", "cl/b", "cl/a/x"}
	for h := 0; h < nh && run.Violations() < 30; h++ {
		hr := rng.Fork(uint64(4500 + h))
		_, srv := testServer(t)
		waitForLeaderEstablishment(t, srv)
		var out struct{}
		srv.RPC(context.Background(), "Catalog.Register", &structs.RegisterRequest{Datacenter: "dc1", Node: "n1", Address: "10.0.0.1"}, &out)
		t0 := time.Now()
		now := func() int64 { return int64(time.Since(t0)) }
		var mu sync.Mutex
		parts := map[string][]porcupine.Operation{}
		var hist []string
		rec := func(key string, cid int, in zv4In, o zv4Out, call, ret int64) {
			mu.Lock()
			parts[key] = append(parts[key], porcupine.Operation{ClientId: cid, Input: in, Output: o, Call: call, Return: ret})
			hist = append(hist, fmt.Sprintf("c%d %s %s(%s) -> ok=%v holder=%s [%d,%d]", cid, key, in.op, in.sess, o.ok, o.holder, call, ret))
			mu.Unlock()
		}
		nc := 6
		var wg sync.WaitGroup
		var errs atomic.Int64
		for c := 0; c < nc; c++ {
			wg.Add(1)
			cr := hr.Fork(uint64(c))
			go func(cid int) {
				defer wg.Done()
				newSess := func() string {
					var id string
					if err := srv.RPC(context.Background(), "Session.Apply", &structs.SessionRequest{Datacenter: "dc1", Op: structs.SessionCreate, Session: structs.Session{Node: "n1", NodeChecks: []string{}}}, &id); err != nil {
						errs.Add(1)
					}
					return id
				}
				me := newSess()
				for i := 0; i < 40; i++ {
					key := core.Pick(cr, keys)
					switch x := cr.Intn(100); {
					case x < 45:
						var ok bool
						call := now()
						err := srv.RPC(context.Background(), "KVS.Apply", &structs.KVSRequest{Datacenter: "dc1", Op: api.KVLock, DirEnt: structs.DirEntry{Key: key, Session: me}}, &ok)
						ret := now()
						if err != nil {
							errs.Add(1)
							continue
						}
						rec(key, cid, zv4In{"lock", me}, zv4Out{ok: ok}, call, ret)
					case x < 70:
						var ok bool
						call := now()
						err := srv.RPC(context.Background(), "KVS.Apply", &structs.KVSRequest{Datacenter: "dc1", Op: api.KVUnlock, DirEnt: structs.DirEntry{Key: key, Session: me}}, &ok)
						ret := now()
						if err != nil {
							errs.Add(1)
							continue
						}
						rec(key, cid, zv4In{"unlock", me}, zv4Out{ok: ok}, call, ret)
					case x < 90:
						var r structs.IndexedDirEntries
						call := now()
						err := srv.RPC(context.Background(), "KVS.Get", &structs.KeyRequest{Datacenter: "dc1", Key: key}, &r)
						ret := now()
						if err != nil {
							errs.Add(1)
							continue
						}
						holder := ""
						if len(r.Entries) > 0 {
							holder = r.Entries[0].Session
						}
						rec(key, cid, zv4In{"get", ""}, zv4Out{holder: holder}, call, ret)
					default:
						// destroy my session (releases whatever it holds), then use it once more (must be refused), then a new one
						var s string
						call := now()
						err := srv.RPC(context.Background(), "Session.Apply", &structs.SessionRequest{Datacenter: "dc1", Op: structs.SessionDestroy, Session: structs.Session{ID: me}}, &s)
						ret := now()
						if err != nil {
							errs.Add(1)
							continue
						}
						for _, k := range keys {
							rec(k, cid, zv4In{"end", me}, zv4Out{}, call, ret)
						}
						var ok bool
						call = now()
						err = srv.RPC(context.Background(), "KVS.Apply", &structs.KVSRequest{Datacenter: "dc1", Op: api.KVLock, DirEnt: structs.DirEntry{Key: key, Session: me}}, &ok)
						ret = now()
						if err == nil {
							rec(key, cid, zv4In{"lock", me}, zv4Out{ok: ok}, call, ret)
						}
						me = newSess()
					}
				}
			}(c)
		}
		wg.Wait()
		run.Eval()
		if errs.Load() > 0 {
			run.CountN("concurrent-rpc-errors", int(errs.Load()))
		}
		contended := false
		for _, k := range keys {
			ops := parts[k]
			run.CountN("porcupine-operations", len(ops))
			granted, refused := map[string]bool{}, false
			for _, o := range ops {
				if in := o.Input.(zv4In); in.op == "lock" {
					if o.Output.(zv4Out).ok {
						granted[in.sess] = true
					} else {
						refused = true
					}
				}
			}
			if len(granted) >= 2 && refused {
				contended = true
			}
			switch res, info := porcupine.CheckOperationsVerbose(zv4Model, ops, 60*time.Second); res {
			case porcupine.Ok:
				run.Count("porcupine-partitions-ok")
			case porcupine.Unknown:
				run.Inconclusive(fmt.Sprintf("history %d key %s: porcupine timed out on %d operations", h, k, len(ops)))
			default:
				_ = info
				var mine []string
				for _, l := range hist {
					if strings.Contains(l, " "+k+" ") {
						mine = append(mine, l)
					}
				}
				run.Violation("C04:server:concurrent:lock-history-not-linearizable", fmt.Sprintf("concurrent history %d: the lock / unlock / get / session-end operations on key %q recorded at the RPC boundary have no sequential explanation (%d operations)", h, k, len(ops)),
					map[string]any{"key": k, "operations": mine})
			}
		}
		if contended {
			run.NonTrivial(core.Hash(hist...))
			if run.WantSample() {
				run.Sample(map[string]any{"part": "B", "history": h, "operations": len(hist), "first": hist[:min(6, len(hist))]})
			}
		}
		srv.Shutdown()
	}
}
