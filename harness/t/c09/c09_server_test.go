//go:build verif

package consul

import (
	"context"
	"fmt"
	"sort"
	"testing"
	"time"

	"github.com/hashicorp/consul/acl"
	"github.com/hashicorp/consul/agent/structs"
	"github.com/hashicorp/consul/api"
	"github.com/hashicorp/consul/types"
	"github.com/hashicorp/consul/zzverif/core"
)

// Server tier: a REAL single-node server (raft, RPC dispatch, ACL resolver over the FSM, leader
// routines). Tokens with generated policies are created through ACL.PolicySet / ACL.TokenSet, data
// through the catalog / KV / session / prepared-query endpoints. Every read endpoint is then called
// with every token: the reply must be exactly the management token's reply reduced to the elements
// whose documented read predicate holds under an authorizer compiled INDEPENDENTLY from the same rule
// text; the flag must be exact, and masked for the anonymous token. Tokens whose ExpirationTime has
// passed (written through raft with a past / imminent ExpirationTime, no waiting for the reaper) must
// be refused on every endpoint.
// No verdict depends on timing: a server that does not come up makes the tier inconclusive.

type zvSrvReply struct {
	elems []string // rendered elements, in order
	flag  bool
}

type zvSrvEndpoint struct {
	name   string
	fetch  func(token string) (zvSrvReply, error)
	expect func(mgmt string, r zvRef) (zvSrvReply, error)
	// alt classifies a mismatch as a specific known defect class ("" = none)
	alt func(mgmt string, r zvRef, got zvSrvReply) string
}

// zvEP builds an endpoint whose reply is a list of elements of type E.
// view(r, e) returns the element as the caller may see it (possibly reduced), whether it is visible at
// all, and whether something inside it had to be removed.
func zvEP[R any, E any](srv *Server, name, method string, args func(token string) any, list func(*R) []E, flag func(*R) bool,
	view func(r zvRef, e E) (E, bool, bool)) zvSrvEndpoint {
	get := func(token string) (*R, error) {
		var reply R
		if err := srv.RPC(context.Background(), method, args(token), &reply); err != nil {
			return nil, err
		}
		return &reply, nil
	}
	return zvSrvEndpoint{name: name,
		fetch: func(token string) (zvSrvReply, error) {
			rep, err := get(token)
			if err != nil {
				return zvSrvReply{}, err
			}
			var out zvSrvReply
			for _, e := range list(rep) {
				out.elems = append(out.elems, zvRender(e))
			}
			out.flag = flag(rep)
			return out, nil
		},
		expect: func(mgmt string, r zvRef) (zvSrvReply, error) {
			rep, err := get(mgmt)
			if err != nil {
				return zvSrvReply{}, err
			}
			var out zvSrvReply
			for _, e := range list(rep) {
				v, keep, inner := view(r, e)
				if !keep {
					out.flag = true
					continue
				}
				if inner {
					out.flag = true
				}
				out.elems = append(out.elems, zvRender(v))
			}
			return out, nil
		}}
}

func zvQO(token string) structs.QueryOptions { return structs.QueryOptions{Token: token} }

type zvSrv struct {
	srv       *Server
	mgmt      string
	endpoints []zvSrvEndpoint
	rtSecret  string
	rtExpiry  time.Time
}

func zvSrvCall(srv *Server, method string, args, reply any) error {
	return srv.RPC(context.Background(), method, args, reply)
}

func zvServerSetup(t *testing.T, rng *core.Rand) *zvSrv {
	_, srv := testServerWithConfig(t, testServerACLConfig)
	waitForLeaderEstablishment(t, srv)
	z := &zvSrv{srv: srv, mgmt: TestDefaultInitialManagementToken}
	w := structs.WriteRequest{Token: z.mgmt}
	must := func(what string, err error) {
		if err != nil {
			t.Fatalf("server tier setup: %s: %v", what, err)
		}
	}
	type svc struct{ id, name string }
	nodes := []struct {
		name string
		svcs []svc
	}{
		{"n1", []svc{{"web-1", "web"}, {"db", "db"}, {"web", "db"}, {"wsp", "web-sidecar-proxy"}}},
		{"n2", []svc{{"web-1", "web"}, {"api-1", "api"}}},
		{"n1x", []svc{{"db-1", "db"}, {"api", "api"}}},
	}
	for i, n := range nodes {
		var out struct{}
		must("register node", zvSrvCall(srv, "Catalog.Register", &structs.RegisterRequest{Datacenter: "dc1", Node: n.name, Address: fmt.Sprintf("10.2.0.%d", i+1),
			Check: &structs.HealthCheck{Node: n.name, CheckID: "node-chk", Name: "node check", Status: api.HealthPassing}, WriteRequest: w}, &out))
		for _, s := range n.svcs {
			must("register service", zvSrvCall(srv, "Catalog.Register", &structs.RegisterRequest{Datacenter: "dc1", Node: n.name, Address: fmt.Sprintf("10.2.0.%d", i+1),
				Service: &structs.NodeService{ID: s.id, Service: s.name, Port: 80},
				Check:   &structs.HealthCheck{Node: n.name, CheckID: types.CheckID("chk-" + s.id), Name: "svc check", Status: api.HealthPassing, ServiceID: s.id}, WriteRequest: w}, &out))
		}
	}
	for _, k := range []string{"a", "a/", "a/b", "ab", "A"} {
		var ok bool
		must("kv", zvSrvCall(srv, "KVS.Apply", &structs.KVSRequest{Datacenter: "dc1", Op: api.KVSet, DirEnt: structs.DirEntry{Key: k, Value: []byte("v")}, WriteRequest: w}, &ok))
	}
	var sessID string
	for _, n := range []string{"n1", "n2", "n1x", "n1"} {
		must("session", zvSrvCall(srv, "Session.Apply", &structs.SessionRequest{Datacenter: "dc1", Op: structs.SessionCreate,
			Session: structs.Session{Node: n, NodeChecks: []string{"node-chk"}}, WriteRequest: w}, &sessID))
	}
	// (an unnamed query must be bound to a session)
	for _, q := range []structs.PreparedQuery{{Name: "q-web", Token: "captured"}, {Name: "q-db", Token: "captured"}, {Name: "q-web2"}, {Session: sessID}} {
		q := q
		q.Service.Service = "web"
		var id string
		must("prepared query", zvSrvCall(srv, "PreparedQuery.Apply", &structs.PreparedQueryRequest{Datacenter: "dc1", Op: structs.PreparedQueryCreate, Query: &q, WriteRequest: w}, &id))
	}

	// ---- endpoints
	dc := func(token string) any {
		return &structs.DCSpecificRequest{Datacenter: "dc1", QueryOptions: zvQO(token)}
	}
	hcView := func(r zvRef, c *structs.HealthCheck) (*structs.HealthCheck, bool, bool) {
		return c, r.node(c.Node, c.PeerName) && r.svcOrNone(c.ServiceName, c.PeerName), false
	}
	z.endpoints = append(z.endpoints,
		zvEP(srv, "Catalog.ListNodes", "Catalog.ListNodes", dc,
			func(r *structs.IndexedNodes) []*structs.Node { return r.Nodes }, func(r *structs.IndexedNodes) bool { return r.ResultsFilteredByACLs },
			func(r zvRef, n *structs.Node) (*structs.Node, bool, bool) {
				return n, r.node(n.Node, n.PeerName), false
			}),
		zvEP(srv, "Internal.NodeDump", "Internal.NodeDump", dc,
			func(r *structs.IndexedNodeDump) []*structs.NodeInfo { return r.Dump }, func(r *structs.IndexedNodeDump) bool { return r.ResultsFilteredByACLs },
			func(r zvRef, n *structs.NodeInfo) (*structs.NodeInfo, bool, bool) {
				if !r.node(n.Node, n.PeerName) {
					return nil, false, false
				}
				c := *n
				c.Services, c.Checks = nil, nil
				inner := false
				for _, s := range n.Services {
					if r.svc(s.Service, s.PeerName) {
						c.Services = append(c.Services, s)
					} else {
						inner = true
					}
				}
				for _, k := range n.Checks {
					if r.svcOrNone(k.ServiceName, k.PeerName) {
						c.Checks = append(c.Checks, k)
					} else {
						inner = true
					}
				}
				return &c, true, inner
			}),
		zvEP(srv, "Health.ChecksInState", "Health.ChecksInState",
			func(token string) any {
				return &structs.ChecksInStateRequest{Datacenter: "dc1", State: api.HealthAny, QueryOptions: zvQO(token)}
			},
			func(r *structs.IndexedHealthChecks) []*structs.HealthCheck { return r.HealthChecks },
			func(r *structs.IndexedHealthChecks) bool { return r.ResultsFilteredByACLs }, hcView),
		zvEP(srv, "KVS.List", "KVS.List", func(token string) any {
			return &structs.KeyRequest{Datacenter: "dc1", Key: "", QueryOptions: zvQO(token)}
		},
			func(r *structs.IndexedDirEntries) []*structs.DirEntry { return r.Entries }, func(r *structs.IndexedDirEntries) bool { return r.ResultsFilteredByACLs },
			func(r zvRef, d *structs.DirEntry) (*structs.DirEntry, bool, bool) { return d, r.key(d.Key), false }),
		zvEP(srv, "Session.List", "Session.List", func(token string) any {
			return &structs.SessionSpecificRequest{Datacenter: "dc1", QueryOptions: zvQO(token)}
		},
			func(r *structs.IndexedSessions) []*structs.Session { return r.Sessions }, func(r *structs.IndexedSessions) bool { return r.ResultsFilteredByACLs },
			func(r zvRef, s *structs.Session) (*structs.Session, bool, bool) { return s, r.session(s.Node), false }),
	)
	// service names: the endpoint filters service INSTANCES (node and service readable) and reports the
	// names that still have an instance; the flag tells that some instance was dropped
	{
		names := func(token string) ([]string, bool, error) {
			var rep structs.IndexedServices
			if err := zvSrvCall(srv, "Catalog.ListServices", dc(token), &rep); err != nil {
				return nil, false, err
			}
			var out []string
			for k := range rep.Services {
				out = append(out, k)
			}
			sort.Strings(out)
			return out, rep.ResultsFilteredByACLs, nil
		}
		z.endpoints = append(z.endpoints, zvSrvEndpoint{name: "Catalog.ListServices",
			fetch: func(token string) (zvSrvReply, error) {
				n, f, err := names(token)
				return zvSrvReply{elems: n, flag: f}, err
			},
			expect: func(mgmt string, r zvRef) (zvSrvReply, error) {
				all, _, err := names(mgmt)
				if err != nil {
					return zvSrvReply{}, err
				}
				var out zvSrvReply
				for _, name := range all {
					var rep structs.IndexedServiceNodes
					if err := zvSrvCall(srv, "Catalog.ServiceNodes", &structs.ServiceSpecificRequest{Datacenter: "dc1", ServiceName: name, QueryOptions: zvQO(mgmt)}, &rep); err != nil {
						return zvSrvReply{}, err
					}
					visible := false
					for _, sn := range rep.ServiceNodes {
						if r.node(sn.Node, sn.PeerName) && r.svc(sn.ServiceName, sn.PeerName) {
							visible = true
						} else {
							out.flag = true
						}
					}
					if visible {
						out.elems = append(out.elems, name)
					}
				}
				return out, nil
			}})
	}
	// prepared queries: whole-reply semantics (management sees everything; unnamed ones vanish silently)
	{
		get := func(token string) (*structs.IndexedPreparedQueries, error) {
			var reply structs.IndexedPreparedQueries
			err := zvSrvCall(srv, "PreparedQuery.List", dc(token), &reply)
			return &reply, err
		}
		z.endpoints = append(z.endpoints, zvSrvEndpoint{name: "PreparedQuery.List",
			fetch: func(token string) (zvSrvReply, error) {
				rep, err := get(token)
				if err != nil {
					return zvSrvReply{}, err
				}
				out := zvSrvReply{flag: rep.ResultsFilteredByACLs}
				for _, q := range rep.Queries {
					out.elems = append(out.elems, zvRender(q))
				}
				return out, nil
			},
			expect: func(mgmt string, r zvRef) (zvSrvReply, error) {
				rep, err := get(mgmt)
				if err != nil {
					return zvSrvReply{}, err
				}
				var out zvSrvReply
				for _, q := range rep.Queries {
					named := q.Name != "" || q.Template.Type != ""
					switch {
					case r.aclWrite():
						out.elems = append(out.elems, zvRender(q))
					case !named:
					case !r.query(q.Name):
						out.flag = true
					default:
						c := *q
						if c.Token != "" {
							c.Token = zvHidden
						}
						out.elems = append(out.elems, zvRender(&c))
					}
				}
				return out, nil
			}})
	}
	for _, name := range []string{"web", "db", "api"} {
		name := name
		ssr := func(token string) any {
			return &structs.ServiceSpecificRequest{Datacenter: "dc1", ServiceName: name, QueryOptions: zvQO(token)}
		}
		z.endpoints = append(z.endpoints,
			zvEP(srv, "Catalog.ServiceNodes:"+name, "Catalog.ServiceNodes", ssr,
				func(r *structs.IndexedServiceNodes) []*structs.ServiceNode { return r.ServiceNodes },
				func(r *structs.IndexedServiceNodes) bool { return r.ResultsFilteredByACLs },
				func(r zvRef, s *structs.ServiceNode) (*structs.ServiceNode, bool, bool) {
					return s, r.node(s.Node, s.PeerName) && r.svc(s.ServiceName, s.PeerName), false
				}),
			zvEP(srv, "Health.ServiceNodes:"+name, "Health.ServiceNodes", ssr,
				func(r *structs.IndexedCheckServiceNodes) []structs.CheckServiceNode { return r.Nodes },
				func(r *structs.IndexedCheckServiceNodes) bool { return r.ResultsFilteredByACLs },
				func(r zvRef, c structs.CheckServiceNode) (structs.CheckServiceNode, bool, bool) {
					return c, r.node(c.Node.Node, c.Service.PeerName) && r.svc(c.Service.Service, c.Service.PeerName), false
				}),
			zvEP(srv, "Health.ServiceChecks:"+name, "Health.ServiceChecks", ssr,
				func(r *structs.IndexedHealthChecks) []*structs.HealthCheck { return r.HealthChecks },
				func(r *structs.IndexedHealthChecks) bool { return r.ResultsFilteredByACLs }, hcView),
		)
	}
	for _, node := range []string{"n1", "n2"} {
		node := node
		nsr := func(token string) any {
			return &structs.NodeSpecificRequest{Datacenter: "dc1", Node: node, QueryOptions: zvQO(token)}
		}
		z.endpoints = append(z.endpoints,
			zvEP(srv, "Health.NodeChecks:"+node, "Health.NodeChecks", nsr,
				func(r *structs.IndexedHealthChecks) []*structs.HealthCheck { return r.HealthChecks },
				func(r *structs.IndexedHealthChecks) bool { return r.ResultsFilteredByACLs }, hcView),
		)
		// node + its services: the node gates everything
		nsl := func(byID bool) func(mgmt string, r zvRef) (zvSrvReply, error) {
			return func(mgmt string, r zvRef) (zvSrvReply, error) {
				var rep structs.IndexedNodeServiceList
				if err := zvSrvCall(srv, "Catalog.NodeServiceList", nsr(mgmt), &rep); err != nil {
					return zvSrvReply{}, err
				}
				var out zvSrvReply
				n := rep.NodeServices.Node
				if n == nil {
					return out, nil
				}
				if !r.node(n.Node, n.PeerName) {
					out.flag = true
					return out, nil
				}
				out.elems = append(out.elems, zvRender(n))
				svcs := rep.NodeServices.Services
				if byID {
					svcs = append([]*structs.NodeService(nil), svcs...)
					sort.Slice(svcs, func(i, j int) bool { return svcs[i].ID < svcs[j].ID })
				}
				for _, s := range svcs {
					name := s.Service
					if byID {
						name = s.ID
					}
					if r.svc(name, s.PeerName) {
						out.elems = append(out.elems, zvRender(s))
					} else {
						out.flag = true
					}
				}
				return out, nil
			}
		}
		z.endpoints = append(z.endpoints, zvSrvEndpoint{name: "Catalog.NodeServiceList:" + node,
			fetch: func(token string) (zvSrvReply, error) {
				var rep structs.IndexedNodeServiceList
				if err := zvSrvCall(srv, "Catalog.NodeServiceList", nsr(token), &rep); err != nil {
					return zvSrvReply{}, err
				}
				out := zvSrvReply{flag: rep.ResultsFilteredByACLs}
				if rep.NodeServices.Node != nil {
					out.elems = append(out.elems, zvRender(rep.NodeServices.Node))
				}
				for _, s := range rep.NodeServices.Services {
					out.elems = append(out.elems, zvRender(s))
				}
				return out, nil
			},
			expect: nsl(false)})
		// the same data through the map-shaped (service id keyed) endpoint; elements compared in id order
		z.endpoints = append(z.endpoints, zvSrvEndpoint{name: "Catalog.NodeServices:" + node,
			fetch: func(token string) (zvSrvReply, error) {
				var rep structs.IndexedNodeServices
				if err := zvSrvCall(srv, "Catalog.NodeServices", nsr(token), &rep); err != nil {
					return zvSrvReply{}, err
				}
				out := zvSrvReply{flag: rep.ResultsFilteredByACLs}
				if rep.NodeServices != nil {
					out.elems = append(out.elems, zvRender(rep.NodeServices.Node))
					var ids []string
					for id := range rep.NodeServices.Services {
						ids = append(ids, id)
					}
					sort.Strings(ids)
					for _, id := range ids {
						out.elems = append(out.elems, zvRender(rep.NodeServices.Services[id]))
					}
				}
				return out, nil
			},
			expect: func(mgmt string, r zvRef) (zvSrvReply, error) { return zvNodeServicesByID(srv, nsr(mgmt), r, false) },
			alt: func(mgmt string, r zvRef, got zvSrvReply) string {
				if e, err := zvNodeServicesByID(srv, nsr(mgmt), r, true); err == nil && core.JSON(e.elems) == core.JSON(got.elems) && e.flag == got.flag {
					return "service-id-authorized-instead-of-name"
				}
				return ""
			}})
	}
	return z
}

// zvNodeServicesByID: expected Catalog.NodeServices reply (node, then services in id order); useID
// evaluates service:read on the service ID instead of the name (the known defect class).
func zvNodeServicesByID(srv *Server, args any, r zvRef, useID bool) (zvSrvReply, error) {
	var rep structs.IndexedNodeServices
	if err := zvSrvCall(srv, "Catalog.NodeServices", args, &rep); err != nil {
		return zvSrvReply{}, err
	}
	var out zvSrvReply
	if rep.NodeServices == nil {
		return out, nil
	}
	n := rep.NodeServices.Node
	if !r.node(n.Node, n.PeerName) {
		out.flag = true
		return out, nil
	}
	out.elems = append(out.elems, zvRender(n))
	var ids []string
	for id := range rep.NodeServices.Services {
		ids = append(ids, id)
	}
	sort.Strings(ids)
	for _, id := range ids {
		s := rep.NodeServices.Services[id]
		name := s.Service
		if useID {
			name = id
		}
		if r.svc(name, s.PeerName) {
			out.elems = append(out.elems, zvRender(s))
		} else {
			out.flag = true
		}
	}
	return out, nil
}

type zvSrvToken struct {
	secret string
	rules  string
	az     acl.Authorizer
}

func (z *zvSrv) mkToken(t *testing.T, name, rules string, exp *time.Time) string {
	w := structs.WriteRequest{Token: z.mgmt}
	var pol structs.ACLPolicy
	if err := zvSrvCall(z.srv, "ACL.PolicySet", &structs.ACLPolicySetRequest{Datacenter: "dc1", Policy: structs.ACLPolicy{Name: name, Rules: rules}, WriteRequest: w}, &pol); err != nil {
		t.Fatalf("server tier setup: ACL.PolicySet %q: %v", rules, err)
	}
	if exp == nil {
		var tok structs.ACLToken
		if err := zvSrvCall(z.srv, "ACL.TokenSet", &structs.ACLTokenSetRequest{Datacenter: "dc1", Create: true,
			ACLToken: structs.ACLToken{Description: name, Policies: []structs.ACLTokenPolicyLink{{ID: pol.ID}}}, WriteRequest: w}, &tok); err != nil {
			t.Fatalf("server tier setup: ACL.TokenSet: %v", err)
		}
		return tok.SecretID
	}
	// a token with an arbitrary expiration time goes through raft directly (the endpoint enforces a
	// minimum TTL); this is what replication / an old snapshot would leave behind
	zvTokSeq++
	tok := &structs.ACLToken{AccessorID: fmt.Sprintf("7e000000-0000-0000-0000-%012d", zvTokSeq), SecretID: "zv-exp-" + name,
		Description: name, Policies: []structs.ACLTokenPolicyLink{{ID: pol.ID}}, ExpirationTime: exp, CreateTime: time.Now().Add(-2 * time.Hour)}
	tok.SetHash(true)
	if _, err := z.srv.raftApply(structs.ACLTokenSetRequestType, &structs.ACLTokenBatchSetRequest{Tokens: structs.ACLTokens{tok}}); err != nil {
		t.Fatalf("server tier setup: raft apply of expiring token: %v", err)
	}
	return tok.SecretID
}

var zvTokSeq int

const zvAllRules = `node_prefix "" { policy = "read" } service_prefix "" { policy = "read" } session_prefix "" { policy = "read" } key_prefix "" { policy = "read" } query_prefix "" { policy = "read" }`

// phase 1: filter equivalence for every endpoint x token; expired tokens refused; real-time token created
func (z *zvSrv) phase1(t *testing.T, run *core.Run, rng *core.Rand) {
	nTok := core.N(16, 120)
	var toks []zvSrvToken
	for i := 0; i < nTok; i++ {
		rules := zvRandomRules(rng)
		pol, err := acl.NewPolicyFromSource(rules, nil, nil)
		if err != nil {
			zvSanityFail(run, "policy generator: "+err.Error())
			continue
		}
		az, err := acl.NewPolicyAuthorizerWithDefaults(acl.DenyAll(), []*acl.Policy{pol}, nil)
		if err != nil {
			zvSanityFail(run, "policy generator: "+err.Error())
			continue
		}
		toks = append(toks, zvSrvToken{secret: z.mkToken(t, fmt.Sprintf("zv-pol-%d", i), rules, nil), rules: rules, az: az})
	}
	// the anonymous caller: no policies, default deny
	toks = append(toks, zvSrvToken{secret: "", rules: "(anonymous)", az: acl.DenyAll()})

	for _, ep := range z.endpoints {
		for _, tk := range toks {
			core.Progress("C09", "server "+ep.name+" rules "+tk.rules)
			exp, err := ep.expect(z.mgmt, zvRef{tk.az})
			if err != nil {
				zvSanityFail(run, "server tier: management call of "+ep.name+" failed: "+err.Error())
				break
			}
			if tk.secret == "" {
				exp.flag = false // masked: an unauthenticated caller must not learn that something exists
			}
			got, err := ep.fetch(tk.secret)
			run.Eval()
			run.Count("server_cases")
			run.Distinct("server-endpoints", ep.name)
			if err != nil {
				run.Violation("C09:server:"+ep.name+":valid-token-error", fmt.Sprintf("%s with a valid token (rules %q) failed: %v", ep.name, tk.rules, err),
					map[string]any{"endpoint": ep.name, "rules": tk.rules, "error": err.Error()})
				continue
			}
			if len(exp.elems) > 0 && exp.flag {
				run.NonTrivial(core.Hash("server", ep.name, tk.rules))
				run.Count("server_cases_mixed")
			}
			if tk.secret == "" {
				run.Count("server_anonymous_cases")
			}
			if core.JSON(got.elems) != core.JSON(exp.elems) || got.flag != exp.flag {
				class := "content"
				if core.JSON(got.elems) == core.JSON(exp.elems) {
					class = "flag"
					if tk.secret == "" {
						class = "flag-not-masked-for-anonymous"
					}
				}
				if ep.alt != nil {
					if c := ep.alt(z.mgmt, zvRef{tk.az}, got); c != "" {
						class = c
					}
				}
				base := ep.name
				for i := range base {
					if base[i] == ':' {
						base = base[:i]
						break
					}
				}
				key := "C09:server:" + base + ":" + class
				if class == "service-id-authorized-instead-of-name" {
					key = "C09:filter:*structs.IndexedNodeServices:" + class // same defect as seen by the filter monitor
				}
				run.Violation(key, fmt.Sprintf("%s reply for a token with rules %q differs from the reference-filtered management reply (%s): expected %v flag=%v, got %v flag=%v",
					ep.name, tk.rules, class, exp.elems, exp.flag, got.elems, got.flag),
					map[string]any{"endpoint": ep.name, "rules": tk.rules, "expected": exp.elems, "expected_flag": exp.flag, "got": got.elems, "got_flag": got.flag})
			}
		}
	}

	// ---- expired tokens: written with a past ExpirationTime, not yet reaped (or reaped: same answer)
	for i, d := range []time.Duration{-time.Hour, -2 * time.Second} {
		e := time.Now().Add(d)
		secret := z.mkToken(t, fmt.Sprintf("zv-expired-%d", i), zvAllRules, &e)
		z.checkRefused(run, secret, fmt.Sprintf("ExpirationTime=now%v", d), "expired")
	}
	// ---- a token that will expire while the server keeps running
	z.rtExpiry = time.Now().Add(3 * time.Second)
	e := z.rtExpiry
	z.rtSecret = z.mkToken(t, "zv-realtime", zvAllRules, &e)
	okBefore := 0
	for _, ep := range z.endpoints {
		if got, err := ep.fetch(z.rtSecret); err == nil && len(got.elems) > 0 {
			okBefore++
		}
	}
	if okBefore < len(z.endpoints)-2 || time.Now().After(z.rtExpiry.Add(-500*time.Millisecond)) {
		zvSanityFail(run, fmt.Sprintf("server tier: the soon-to-expire token was honoured on %d/%d endpoints only while still valid (or setup too slow)", okBefore, len(z.endpoints)))
		z.rtSecret = ""
	}
}

func (z *zvSrv) checkRefused(run *core.Run, secret, what, class string) {
	for _, ep := range z.endpoints {
		got, err := ep.fetch(secret)
		run.Eval()
		run.Count("server_expired_cases")
		if err != nil {
			if acl.IsErrNotFound(err) {
				run.Count("server_expired_refused_not_found")
			} else {
				run.Count("server_expired_refused_other_error")
			}
			continue
		}
		run.Violation("C09:server:"+class+"-token-honoured", fmt.Sprintf("%s answered a request carrying a token with %s (returned %d elements) instead of refusing it", ep.name, what, len(got.elems)),
			map[string]any{"endpoint": ep.name, "token": what, "got": got.elems})
	}
}

// phase 2 (after the expiration time of the real-time token has passed)
func (z *zvSrv) phase2(run *core.Run) {
	if z.rtSecret == "" {
		return
	}
	if d := time.Until(z.rtExpiry.Add(time.Second)); d > 0 {
		time.Sleep(d)
	}
	z.checkRefused(run, z.rtSecret, "an ExpirationTime that passed 1s ago (token was used successfully while valid)", "expired-while-running")
	run.NonTrivial(core.Hash("server", "realtime-expiry"))
}

// zvServerTier runs the server tier around body (the resolver-level expiry monitor runs while the
// real-time token ages). Returns false if the tier could not run.
func zvServerTier(t *testing.T, run *core.Run, rng *core.Rand, between func()) {
	ranBetween, done := false, false
	t.Run("server", func(st *testing.T) {
		z := zvServerSetup(st, rng)
		z.phase1(st, run, rng)
		ranBetween = true
		between()
		z.phase2(run)
		z.phaseBlocking(run)
		done = true
	})
	if !ranBetween {
		between()
	}
	if !done {
		zvSanityFail(run, "server tier: the in-process server could not be started or set up (see log); store-level checks are unaffected")
	}
}
