//go:build verif

// C09 — ACL enforcement: nothing unreadable returned, nothing readable dropped, the "filtered" flag is
// exact; expired tokens never authorize.
//
// Part 1 (filter monitor): for every case of aclfilter.Filter's type switch plus FilterDirEnt and
// FilterTxnResults, arrangements of elements are built twice (the copy handed to consul and a pristine
// copy), filtered by the REAL code, and compared (content, order, flag) with an independent reference
// that never mutates anything: it selects the elements whose documented read predicate holds under the
// given authorizer and builds the expected response from scratch.
// Part 1b (c09_store_test.go): aliasing — filtering a response assembled from state-store objects must
// not change what the store returns to the next reader.
// Part 4 (c09_stream_test.go): the streaming read path — one published event batch shared by several
// subscribers with different authorizers, through the real EventPublisher / Subscription.Next.
// Part 2 (expiry monitor, c09_expiry_test.go): a real ACLResolver over a fake backend.
// Part 3 (c09_server_test.go): the same two clauses end-to-end on a real in-process server.
package consul

import (
	"fmt"
	"go/ast"
	"go/parser"
	"go/token"
	"go/types"
	"os"
	"path/filepath"
	"sort"
	"strings"
	"testing"
	"time"

	"github.com/hashicorp/go-hclog"

	"github.com/hashicorp/consul/acl"
	"github.com/hashicorp/consul/agent/structs/aclfilter"
	"github.com/hashicorp/consul/zzverif/core"
	"github.com/hashicorp/consul/zzverif/dump"
)

// ---------------------------------------------------------------------------------------------
// authorizers
// ---------------------------------------------------------------------------------------------

// zvTable is a pure table authorizer: (resource kind, name, peer of the context) -> decision.
// Everything that is not in the table is denied (embedded DenyAll).
type zvTable struct {
	acl.Authorizer
	id string
	m  map[string]acl.EnforcementDecision
}

func zvKey(kind, name, peer string) string { return kind + "|" + name + "|" + peer }

func (t *zvTable) get(kind, name string, ctx *acl.AuthorizerContext) acl.EnforcementDecision {
	d, ok := t.m[zvKey(kind, name, ctx.PeerOrEmpty())]
	if !ok {
		return acl.Deny
	}
	return d
}
func (t *zvTable) NodeRead(n string, c *acl.AuthorizerContext) acl.EnforcementDecision {
	return t.get("node", n, c)
}
func (t *zvTable) ServiceRead(n string, c *acl.AuthorizerContext) acl.EnforcementDecision {
	return t.get("service", n, c)
}
func (t *zvTable) SessionRead(n string, c *acl.AuthorizerContext) acl.EnforcementDecision {
	return t.get("session", n, c)
}
func (t *zvTable) KeyRead(n string, c *acl.AuthorizerContext) acl.EnforcementDecision {
	return t.get("key", n, c)
}
func (t *zvTable) IntentionRead(n string, c *acl.AuthorizerContext) acl.EnforcementDecision {
	return t.get("intention", n, c)
}
func (t *zvTable) PreparedQueryRead(n string, c *acl.AuthorizerContext) acl.EnforcementDecision {
	return t.get("query", n, c)
}
func (t *zvTable) ACLRead(c *acl.AuthorizerContext) acl.EnforcementDecision {
	return t.get("aclread", "", c)
}
func (t *zvTable) ACLWrite(c *acl.AuthorizerContext) acl.EnforcementDecision {
	return t.get("aclwrite", "", c)
}
func (t *zvTable) ToAllowAuthorizer() acl.AllowAuthorizer {
	return acl.AllowAuthorizer{Authorizer: t, AccessorID: "zv-table"}
}

const (
	zvA = acl.Allow
	zvD = acl.Deny
	zvX = acl.Default // "no opinion": must be treated as not readable by every filter
)

var zvPeers = []string{"", "peerA"}

// the small adversarial name universe (prefix related, case variants, id-like names)
var zvKinds = []string{"node", "service", "session", "key", "intention", "query"}
var zvUniverse = map[string][]string{
	"node":      {"n1", "n2", "N1", "n1x"},
	"service":   {"web", "db", "api", "web-sidecar-proxy", "gw", "gw2"},
	"session":   {"n1", "n2", "N1", "n1x"},
	"key":       {"a", "a/", "a/b", "ab", "A"},
	"intention": {"web", "db", "api", "*"},
	"query":     {"q-web", "q-db", ""},
}

// zvBaseTable: the fixed designation readable/unreadable used by the exhaustive enumeration.
func zvBaseTable(aclRead, aclWrite acl.EnforcementDecision) *zvTable {
	t := &zvTable{Authorizer: acl.DenyAll(), m: map[string]acl.EnforcementDecision{}}
	set := func(kind, peer string, kv ...any) {
		for i := 0; i < len(kv); i += 2 {
			t.m[zvKey(kind, kv[i].(string), peer)] = kv[i+1].(acl.EnforcementDecision)
		}
	}
	set("node", "", "n1", zvA, "n2", zvD, "N1", zvX, "n1x", zvA)
	set("node", "peerA", "n1", zvD, "n2", zvA, "N1", zvA, "n1x", zvD)
	set("service", "", "web", zvA, "db", zvD, "api", zvA, "web-sidecar-proxy", zvX, "gw", zvA, "gw2", zvD)
	set("service", "peerA", "web", zvD, "db", zvA, "api", zvA, "web-sidecar-proxy", zvD, "gw", zvD, "gw2", zvA)
	set("session", "", "n1", zvA, "n2", zvD, "N1", zvA, "n1x", zvX)
	set("key", "", "a", zvA, "a/", zvX, "a/b", zvD, "ab", zvA, "A", zvD)
	set("intention", "", "web", zvA, "db", zvD, "api", zvX, "*", zvD)
	set("query", "", "q-web", zvA, "q-db", zvD, "", zvD)
	t.m[zvKey("aclread", "", "")] = aclRead
	t.m[zvKey("aclwrite", "", "")] = aclWrite
	t.id = fmt.Sprintf("base(acl=%s/%s)", aclRead, aclWrite)
	return t
}

func zvRandDecision(rng *core.Rand) acl.EnforcementDecision {
	switch n := rng.Intn(10); {
	case n < 5:
		return zvA
	case n < 8:
		return zvD
	}
	return zvX
}

func zvRandomTable(rng *core.Rand, tag string) *zvTable {
	t := &zvTable{Authorizer: acl.DenyAll(), m: map[string]acl.EnforcementDecision{}, id: "random(" + tag + ")"}
	for _, k := range zvKinds {
		for _, n := range zvUniverse[k] {
			for _, p := range zvPeers {
				t.m[zvKey(k, n, p)] = zvRandDecision(rng)
			}
		}
	}
	t.m[zvKey("aclread", "", "")] = zvRandDecision(rng)
	t.m[zvKey("aclwrite", "", "")] = zvRandDecision(rng)
	return t
}

// zvTableDump renders the table for witnesses.
func (t *zvTable) dump() []string {
	var out []string
	for k, v := range t.m {
		out = append(out, k+"="+v.String())
	}
	sort.Strings(out)
	return out
}

// zvPolicyAuthz: a REAL compiled policy authorizer from random rule text over the same universe.
type zvNamedAuthz struct {
	acl.Authorizer
	id    string
	rules string
}

func zvRandomPolicyAuthz(rng *core.Rand, tag string) (*zvNamedAuthz, error) {
	rules := zvRandomRules(rng)
	pol, err := acl.NewPolicyFromSource(rules, nil, nil)
	if err != nil {
		return nil, fmt.Errorf("policy %q: %w", rules, err)
	}
	var az acl.Authorizer
	mode := core.Pick(rng, []string{"deny", "deny", "allow", "manage", "bare"})
	switch mode {
	case "bare": // unchained: answers Default where no rule matches
		az, err = acl.NewPolicyAuthorizer([]*acl.Policy{pol}, nil)
	default:
		az, err = acl.NewPolicyAuthorizerWithDefaults(acl.RootAuthorizer(mode), []*acl.Policy{pol}, nil)
	}
	if err != nil {
		return nil, err
	}
	return &zvNamedAuthz{Authorizer: az, id: "policy(" + tag + "," + mode + ")", rules: rules}, nil
}

// zvRandomRules: random rule text over the name universe (exact and prefix rules, all access levels)
func zvRandomRules(rng *core.Rand) string {
	var sb strings.Builder
	hclKind := map[string]string{"node": "node", "service": "service", "session": "session", "key": "key", "query": "query"}
	seen := map[string]bool{}
	for _, k := range []string{"node", "service", "session", "key", "query"} {
		names := zvUniverse[k]
		nrules := 1 + rng.Intn(4)
		for i := 0; i < nrules; i++ {
			name := core.Pick(rng, names)
			prefix := rng.Chance(35)
			if prefix && name != "" && rng.Bool() {
				name = name[:1+rng.Intn(len(name))]
			}
			if prefix && rng.Chance(25) {
				name = ""
			}
			kw := hclKind[k]
			if prefix {
				kw += "_prefix"
			}
			if seen[kw+name] {
				continue
			}
			seen[kw+name] = true
			pol := core.Pick(rng, []string{"read", "read", "write", "deny"})
			extra := ""
			if k == "service" && rng.Chance(50) {
				extra = fmt.Sprintf(" intentions = %q", core.Pick(rng, []string{"read", "write", "deny"}))
			}
			fmt.Fprintf(&sb, "%s %q { policy = %q%s }\n", kw, name, pol, extra)
		}
	}
	if rng.Chance(50) {
		fmt.Fprintf(&sb, "acl = %q\n", core.Pick(rng, []string{"read", "write", "deny"}))
	}
	return sb.String()
}

func zvAuthzID(az acl.Authorizer) string {
	switch x := az.(type) {
	case *zvTable:
		return x.id
	case *zvNamedAuthz:
		return x.id
	}
	return fmt.Sprintf("%T", az)
}

func zvAuthzWitness(az acl.Authorizer) any {
	switch x := az.(type) {
	case *zvTable:
		return map[string]any{"table": x.dump(), "id": x.id}
	case *zvNamedAuthz:
		return map[string]any{"rules": x.rules, "id": x.id}
	}
	return fmt.Sprintf("%T", az)
}

// ---------------------------------------------------------------------------------------------
// reference predicates: written from the documented ACL requirements, evaluated against the
// authorizer that is an INPUT of the case (never against consul's filter code)
// ---------------------------------------------------------------------------------------------

type zvRef struct{ az acl.Authorizer }

func zvCtx(peer string) *acl.AuthorizerContext { return &acl.AuthorizerContext{Peer: peer} }

func (r zvRef) node(name, peer string) bool { return r.az.NodeRead(name, zvCtx(peer)) == acl.Allow }

// svc: read on the service NAME
func (r zvRef) svc(name, peer string) bool { return r.az.ServiceRead(name, zvCtx(peer)) == acl.Allow }

// svcOrNone: an empty service name denotes "no service" (node level check): nothing to require
func (r zvRef) svcOrNone(name, peer string) bool { return name == "" || r.svc(name, peer) }
func (r zvRef) session(node string) bool         { return r.az.SessionRead(node, zvCtx("")) == acl.Allow }
func (r zvRef) key(k string) bool                { return r.az.KeyRead(k, zvCtx("")) == acl.Allow }
func (r zvRef) intention(n string) bool          { return r.az.IntentionRead(n, zvCtx("")) == acl.Allow }
func (r zvRef) query(n string) bool              { return r.az.PreparedQueryRead(n, zvCtx("")) == acl.Allow }
func (r zvRef) aclRead() bool                    { return r.az.ACLRead(zvCtx("")) == acl.Allow }
func (r zvRef) aclWrite() bool                   { return r.az.ACLWrite(zvCtx("")) == acl.Allow }

// ---------------------------------------------------------------------------------------------
// cases
// ---------------------------------------------------------------------------------------------

// zvElem is one symbol of an arrangement. Which fields are meaningful depends on the type.
type zvElem struct {
	Slot    string   `json:"slot,omitempty"` // which list / map key of the response the element goes to
	Kind    string   `json:"kind,omitempty"` // txn results: kv|node|service|check
	Node    string   `json:"node,omitempty"`
	Svc     string   `json:"svc,omitempty"` // service NAME
	ID      string   `json:"id,omitempty"`  // service ID (defaults to the name)
	Peer    string   `json:"peer,omitempty"`
	Gw      string   `json:"gw,omitempty"`
	NoNode  bool     `json:"nonode,omitempty"`
	Key     string   `json:"key,omitempty"`
	Src     string   `json:"src,omitempty"`
	Dst     string   `json:"dst,omitempty"`
	SrcPeer string   `json:"srcpeer,omitempty"`
	Name    string   `json:"name,omitempty"`
	Tmpl    string   `json:"tmpl,omitempty"`
	Token   string   `json:"token,omitempty"`
	Nil     bool     `json:"nil,omitempty"`
	Subs    []zvElem `json:"services,omitempty"`
	Chks    []zvElem `json:"checks,omitempty"`
}

// zvPE: element with its ORIGINAL position (stamped into a pass-through field so that the oracle can
// tell duplicates apart and sees exactly which occurrences survived, in which order)
type zvPE struct {
	zvElem
	Pos int
}

type zvLeaves struct{ ptrs []any }

func (l *zvLeaves) add(p any) {
	if l != nil {
		l.ptrs = append(l.ptrs, p)
	}
}

// zvExpect is what the reference says must come out.
type zvExpect struct {
	subject any    // expected response, built from scratch
	mask    []bool // per top-level input element: kept? (nil when not applicable)
	changed bool   // reference removed or redacted something
	nested  bool   // an element was kept while something inside it was removed
}

type zvType struct {
	name    string // as written in the type switch (or FilterDirEnt / FilterTxnResults)
	usesACL bool   // decisions depend on acl:read / acl:write -> run under every acl combination
	alpha   []zvElem
	maxLen  int
	minLen  int
	extra   func(rng *core.Rand) [][]zvElem // additional generated arrangements (nested structures)
	// build builds the response from elements; lv (may be nil) collects pointers to objects that in
	// production are shared with the state store and therefore must not be modified by a filter.
	build  func(es []zvPE, lv *zvLeaves) any
	expect func(r zvRef, es []zvPE) zvExpect
	// apply runs consul's filter and returns the resulting response (nil => aclfilter.Filter in place)
	apply func(az acl.Authorizer, subject any) any
	// altKey: given a mismatch, may classify it as a specific known defect class (returns key suffix)
	alt func(r zvRef, es []zvPE, got string) string
}

func zvPos(es []zvElem) []zvPE {
	out := make([]zvPE, len(es))
	for i, e := range es {
		out[i] = zvPE{e, i}
	}
	return out
}

// zvSequences enumerates all sequences over alpha with minLen <= length <= maxLen.
func zvSequences(alpha []zvElem, minLen, maxLen int) [][]zvElem {
	var out [][]zvElem
	var rec func(cur []zvElem)
	rec = func(cur []zvElem) {
		if len(cur) >= minLen {
			out = append(out, append([]zvElem(nil), cur...))
		}
		if len(cur) == maxLen {
			return
		}
		for _, a := range alpha {
			rec(append(cur, a))
		}
	}
	rec(nil)
	return out
}

func zvFilterApply(az acl.Authorizer, subject any) any {
	aclfilter.New(az, hclog.NewNullLogger()).Filter(subject)
	return subject
}

// zvSwitchCases parses aclfilter/filter.go of the tree under test and returns the case types of the
// type switch in (*Filter).Filter.
func zvSwitchCases() ([]string, error) {
	repo := os.Getenv("VERIF_REPO")
	if repo == "" {
		repo = "/repo"
	}
	p := filepath.Join(repo, "agent/structs/aclfilter/filter.go")
	fset := token.NewFileSet()
	f, err := parser.ParseFile(fset, p, nil, 0)
	if err != nil {
		return nil, err
	}
	var out []string
	for _, d := range f.Decls {
		fd, ok := d.(*ast.FuncDecl)
		if !ok || fd.Name.Name != "Filter" || fd.Recv == nil {
			continue
		}
		ast.Inspect(fd.Body, func(n ast.Node) bool {
			ts, ok := n.(*ast.TypeSwitchStmt)
			if !ok {
				return true
			}
			for _, c := range ts.Body.List {
				for _, e := range c.(*ast.CaseClause).List {
					out = append(out, types.ExprString(e))
				}
			}
			return false
		})
	}
	if len(out) == 0 {
		return nil, fmt.Errorf("no type switch found in %s", p)
	}
	return out, nil
}

type zvCaseWitness struct {
	Type        string   `json:"type"`
	Arrangement []zvElem `json:"arrangement"`
	Authorizer  any      `json:"authorizer"`
	Input       string   `json:"input"`
	Expected    string   `json:"expected"`
	Got         string   `json:"got"`
}

// zvRunCase executes one (type, arrangement, authorizer) case.
// zvRender: canonical rendering; a nil and an empty top-level list are the same response
// zvSanityFail: something the monitor relies on did not work (not a statement about consul): the run
// must end INCONCLUSIVE, which the floor on "harness_sanity_ok" enforces.
var zvSanityBroken bool

func zvSanityFail(run *core.Run, why string) {
	zvSanityBroken = true
	run.Inconclusive(why)
}

func zvRender(v any) string {
	s := dump.Render(v)
	if s == "&[]" {
		return "&nil"
	}
	return s
}

func zvRunCase(run *core.Run, ty *zvType, emptyS string, es []zvElem, az acl.Authorizer) {
	pes := zvPos(es)
	r := zvRef{az}
	exp := ty.expect(r, pes)
	expS := zvRender(exp.subject)

	var lv zvLeaves
	subject := ty.build(pes, &lv)
	inputS := zvRender(subject)
	before := make([]string, len(lv.ptrs))
	for i, p := range lv.ptrs {
		before[i] = dump.Render(p)
	}

	apply := ty.apply
	if apply == nil {
		apply = zvFilterApply
	}
	var got any
	var panicked any
	func() {
		defer func() { panicked = recover() }()
		got = apply(az, subject)
	}()
	run.Eval()
	run.Count("filter_cases")
	run.Distinct("types-covered", ty.name)
	run.Distinct("authorizer-kinds", strings.SplitN(zvAuthzID(az), "(", 2)[0])

	wit := func(gotS string) zvCaseWitness {
		return zvCaseWitness{Type: ty.name, Arrangement: es, Authorizer: zvAuthzWitness(az), Input: inputS, Expected: expS, Got: gotS}
	}
	if panicked != nil {
		msg := fmt.Sprint(panicked)
		if strings.Contains(msg, "Unhandled type") {
			zvSanityFail(run, "type table lists "+ty.name+" but Filter does not handle it: "+msg)
			return
		}
		run.Violation("C09:filter:"+ty.name+":panic", fmt.Sprintf("filter of %s panicked (%s) for arrangement %s under %s", ty.name, msg, core.JSON(es), zvAuthzID(az)), wit("panic: "+msg))
		return
	}
	gotS := zvRender(got)
	if gotS != expS {
		class := "content"
		// the flag is part of the rendered response: tell flag-only disagreements apart
		if zvStripFlag(gotS) == zvStripFlag(expS) {
			class = "flag"
		}
		if ty.alt != nil {
			if c := ty.alt(r, pes, gotS); c != "" {
				class = c
			}
		}
		run.Violation("C09:filter:"+ty.name+":"+class,
			fmt.Sprintf("%s: filter result differs from reference (%s) for arrangement %s under authorizer %s: expected %s got %s",
				ty.name, class, core.JSON(es), zvAuthzID(az), expS, gotS), wit(gotS))
	}
	// objects that production shares with the state store must never be written to
	for i, p := range lv.ptrs {
		if after := dump.Render(p); after != before[i] {
			run.Violation("C09:filter:"+ty.name+":shared-object-mutated",
				fmt.Sprintf("%s: filter modified an element object in place (objects returned by the state store are shared between readers): before %s after %s; arrangement %s under %s",
					ty.name, before[i], after, core.JSON(es), zvAuthzID(az)), wit(gotS))
			break
		}
	}

	// ---- coverage classes
	if exp.changed {
		run.Count("cases_with_removal_or_redaction")
	} else {
		run.Count("cases_nothing_removed")
	}
	if m := exp.mask; m != nil && len(m) > 0 {
		kept := 0
		for _, k := range m {
			if k {
				kept++
			}
		}
		if !m[0] {
			run.Count("class_first_removed")
		}
		if !m[len(m)-1] {
			run.Count("class_last_removed")
		}
		for i := 1; i < len(m); i++ {
			if !m[i] && !m[i-1] {
				run.Count("class_adjacent_removals")
				break
			}
		}
		if kept == 0 {
			run.Count("class_all_removed")
		}
		if kept == len(m) {
			run.Count("class_none_removed")
		}
		seen := map[string]bool{}
		for _, e := range es {
			j := core.JSON(e)
			if seen[j] {
				run.Count("class_duplicates")
				break
			}
			seen[j] = true
		}
	}
	if exp.nested {
		run.Count("class_nested_partial")
	}
	if exp.changed && expS != emptyS {
		// non-trivial: something was removed/redacted AND something had to survive
		fp := core.Hash(ty.name, core.JSON(es), zvAuthzID(az))
		run.NonTrivial(fp)
		run.Distinct("types-nontrivial", ty.name)
		if run.WantSample() && len(es) >= 3 {
			run.Sample(wit(gotS))
		}
	}
}

// zvStripFlag removes the two "filtered" flags from a rendering so that content can be compared alone.
func zvStripFlag(s string) string {
	s = strings.ReplaceAll(s, " ResultsFilteredByACLs:true", "")
	s = strings.ReplaceAll(s, "ResultsFilteredByACLs:true", "")
	s = strings.ReplaceAll(s, " FilteredByACLs:true", "")
	s = strings.ReplaceAll(s, "FilteredByACLs:true", "")
	s = strings.ReplaceAll(s, "QueryMeta:{}", "")
	return strings.ReplaceAll(s, " ", "")
}

func TestZZVerifC09(t *testing.T) {
	run := core.NewRun("C09", "exploration",
		"filter: for each of the filterable response types (every case of aclfilter.Filter's type switch, FilterDirEnt, FilterTxnResults) ALL arrangements of up to 5 elements (4 for the multi-list types) over a per-type alphabet of readable/unreadable/peer/duplicate elements are enumerated under a fixed table authorizer (x all acl:read/acl:write combinations for ACL-dependent types), plus nested node/service/check structures; every arrangement is repeated under seed-derived random table authorizers (Allow/Deny/Default per (kind,name,peer)) and real compiled policy authorizers; the real filter output is compared (content, order, flag) with a from-scratch reference built from the documented read predicate; non-trivial = something removed or redacted and something kept, distinct by (type, arrangement, authorizer). expiry: real ACLResolver x {expired 1h, expired 1s, valid 1h, no expiry, expiring in real time while cached} x {policy, role, service identity} x {local, remote token} x {local, remote policies} x 4 down policies x 2 default policies x {cache TTL 0, 30s} x {RPC ok, token RPC failing, all RPC failing} x {cold, warm, stored token swapped for an expired copy}. aliasing: 32 state-store queries x 40 (thorough 400) authorizers: query, filter, re-query must return the unfiltered data again. stream: through a real stream.EventPublisher, every batch of 1..5 events (4 for two of the six kinds in quick) of 6 kinds (service health per subject / wildcard incl. a peer, service-resolver, service-defaults, service-intentions config entries, service-list updates) is published once and read through Subscription.Next by 2-3 subscribers (all / none / mixed table in all 6 orders, 3 random tables, policy+random), each filtering with HasReadPermission as the subscribe service does; the serialized events each subscriber gets must equal the reference selection in order; an observer subscription checks after every subscriber that the shared batch and its payload objects are unchanged. server tier: a real single-node server; 22 read endpoints x 17 (thorough 121) tokens created through the ACL endpoints from random rule text (plus the anonymous token): the reply must equal the management reply reduced by the documented predicate under an independently compiled authorizer, flag exact and masked for anonymous; tokens written through raft with a past or imminent ExpirationTime must be refused by every endpoint")
	run.Assume("CE build: namespaces/partitions play no role; the peer name of the element's own authorization context is the only context",
		"within one catalog node, the node, its services and its checks carry the same peer name (as the state store produces them)",
		"an authorizer decision other than Allow (Deny or Default) means not readable",
		"prepared-query lists: removal of UNNAMED queries is not reported in the flag (documented in filterPreparedQueries); IntentionQueryMatch is all-or-nothing; txn check results need service:read for service checks and node:read for node checks",
		"objects that the state store hands out (nodes, services, checks, sessions, intentions, queries, ACL objects, KV entries) are shared and must not be written by a filter; per-query wrapper structs may be")
	rng := core.NewRand(core.Seed())
	t0 := time.Now()

	tys := zvTypes()
	// ---- the table must cover the type switch of the tree under test
	cases, err := zvSwitchCases()
	if err != nil {
		zvSanityFail(run, "cannot read the type switch of aclfilter.Filter: "+err.Error())
	} else {
		have := map[string]bool{}
		for _, ty := range tys {
			have[ty.name] = true
		}
		for _, c := range cases {
			if !have[c] {
				zvSanityFail(run, "aclfilter.Filter handles "+c+" which the monitor's type table does not list")
			} else {
				run.Count("type_switch_cases_in_table")
			}
		}
		run.Extra("type_switch_cases", len(cases))
		run.Floor("type_switch_cases_in_table", len(cases))
	}
	run.Extra("types_in_table", len(tys))

	nRandom := core.N(2, 12) // random table authorizers per arrangement
	nPolicy := core.N(1, 8)  // compiled policy authorizers per arrangement
	// VERIF_C09_PART (sensitivity testing only; never set by ./check): restricts the run to some parts.
	// The coverage floors of the skipped parts then make the run INCONCLUSIVE, never a pass.
	part := func(name string) bool {
		p := os.Getenv("VERIF_C09_PART")
		return p == "" || strings.Contains(","+p+",", ","+name+",")
	}
	for ti := range tys {
		if !part("filter") {
			break
		}
		ty := &tys[ti]
		arr := zvSequences(ty.alpha, ty.minLen, ty.maxLen)
		if ty.extra != nil {
			arr = append(arr, ty.extra(rng.Fork(uint64(1000+ti)))...)
		}
		run.CountN("arrangements", len(arr))
		var fixed []acl.Authorizer
		if ty.usesACL {
			for _, rw := range [][2]acl.EnforcementDecision{{zvD, zvD}, {zvA, zvD}, {zvA, zvA}, {zvD, zvA}, {zvX, zvA}, {zvA, zvX}} {
				fixed = append(fixed, zvBaseTable(rw[0], rw[1]))
			}
		} else {
			fixed = append(fixed, zvBaseTable(zvD, zvD))
		}
		trng := rng.Fork(uint64(ti))
		emptyS := zvRender(ty.build(nil, nil))
		for ai, es := range arr {
			core.Progress("C09", fmt.Sprintf("filter %s arrangement %d %s", ty.name, ai, core.JSON(es)))
			for _, az := range fixed {
				zvRunCase(run, ty, emptyS, es, az)
			}
			for k := 0; k < nRandom; k++ {
				zvRunCase(run, ty, emptyS, es, zvRandomTable(trng, fmt.Sprintf("%d.%d.%d", ti, ai, k)))
			}
			for k := 0; k < nPolicy; k++ {
				az, err := zvRandomPolicyAuthz(trng, fmt.Sprintf("%d.%d.%d", ti, ai, k))
				if err != nil {
					zvSanityFail(run, "policy generator: "+err.Error())
					continue
				}
				zvRunCase(run, ty, emptyS, es, az)
			}
			if run.Violations() > 30 {
				break
			}
		}
	}
	run.FloorDistinct("types-covered", len(tys))
	// 9 types are all-or-nothing without redaction (single/list ACL policies, roles, binding rules, auth
	// methods; IntentionQueryMatch): they cannot produce a mixed result
	run.FloorDistinct("types-nontrivial", len(tys)-9)
	run.FloorDistinct("authorizer-kinds", 3)
	run.Floor("server_blocking_cases", 18)
	for _, c := range []string{"class_first_removed", "class_last_removed", "class_adjacent_removals", "class_all_removed", "class_none_removed", "class_duplicates", "class_nested_partial"} {
		run.Floor(c, 1000)
	}
	run.Floor("filter_cases", 50000)

	run.Extra("filter_part_wall_s", int(time.Since(t0).Seconds()))
	if arng := rng.Fork(555); part("store") {
		zvStoreAliasing(run, arng)
	}
	run.Floor("aliasing_cases", 1000)
	run.Floor("aliasing_cases_filtered", 500)
	run.FloorDistinct("aliasing-queries", 30)
	if strng := rng.Fork(666); part("stream") {
		zvStream(run, strng)
	}
	run.Floor("stream_cases", 30000)
	run.Floor("stream_subscriber_servings", 80000)
	run.Floor("stream_multi_event_batches", 20000)
	run.Floor("stream_mixed", 10000)
	run.Floor("stream_mixed_after_other_subscriber", 5000)
	run.Floor("stream_all_removed", 10000)
	run.Floor("stream_none_removed", 10000)
	run.Floor("stream_first_removed", 1000)
	run.Floor("stream_last_removed", 1000)
	run.Floor("stream_adjacent_removals", 1000)
	run.FloorDistinct("stream-kinds", 6)
	run.FloorDistinct("stream-subscriber-orders", 8)
	erng, srng := rng.Fork(777), rng.Fork(888)
	expiry := func() {
		if part("expiry") {
			zvExpiry(run, erng)
		}
	}
	if part("server") {
		zvServerTier(t, run, srng, expiry)
	} else {
		expiry()
	}
	run.Floor("server_cases", 300)
	run.Floor("server_cases_mixed", 50)
	run.Floor("server_anonymous_cases", 20)
	run.Floor("server_expired_cases", 60)
	run.FloorDistinct("server-endpoints", 20)
	run.Extra("total_wall_s", int(time.Since(t0).Seconds()))
	run.Floor("expiry_cases", 5000)
	run.Floor("expiry_realtime_cases", 500)
	run.Floor("expired_refused_not_found", 2000)
	run.Floor("expired_down_policy_applied", 100)
	run.Floor("valid_token_honoured", 1000)
	run.FloorDistinct("expiry-dimensions", 60)

	if !zvSanityBroken {
		run.Count("harness_sanity_ok")
	}
	run.Floor("harness_sanity_ok", 1)
	if run.Finish() == 1 {
		t.Fail()
	}
}
