//go:build verif

package consul

import (
	"fmt"

	"github.com/hashicorp/serf/coordinate"

	"github.com/hashicorp/consul/acl"
	"github.com/hashicorp/consul/agent/consul/state"
	"github.com/hashicorp/consul/agent/structs"
	"github.com/hashicorp/consul/types"
	"github.com/hashicorp/consul/zzverif/core"
	"github.com/hashicorp/consul/zzverif/fsmkit"
)

// Part 1b — aliasing monitor. Responses are assembled from objects that live in the state store and
// are shared with every other reader. For every store query that feeds a filterable response:
// render the query result, run the REAL filter on a second query result, query a third time: the
// third rendering must equal the first (filtering one caller's response must not change what the
// store returns to the next caller).

type zvStoreQuery struct {
	name string
	// run queries the store and returns the response object (pointer, as handed to the filter)
	run   func(s *state.Store) (any, error)
	apply func(az acl.Authorizer, subject any) any
}

func zvMust(err error) {
	if err != nil {
		panic(fmt.Sprintf("zv store setup: %v", err))
	}
}

func zvPopulate(s *state.Store) {
	idx := uint64(10)
	next := func() uint64 { idx++; return idx }
	type svc struct{ id, name string }
	nodes := []struct {
		name, peer string
		svcs       []svc
	}{
		{"n1", "", []svc{{"web-1", "web"}, {"db", "db"}, {"web", "db"}}},
		{"n2", "", []svc{{"web-1", "web"}, {"api-1", "api"}}},
		{"n1x", "", []svc{{"db-1", "db"}}},
		{"n2", "peerA", []svc{{"db-1", "db"}, {"web-1", "web"}}},
		{"n1", "peerA", []svc{{"db-1", "db"}}},
	}
	for i, n := range nodes {
		zvMust(s.EnsureNode(next(), &structs.Node{Node: n.name, PeerName: n.peer, Address: fmt.Sprintf("10.1.0.%d", i+1)}))
		zvMust(s.EnsureCheck(next(), &structs.HealthCheck{Node: n.name, PeerName: n.peer, CheckID: "serfHealth", Name: "serf", Status: "passing"}))
		for _, sv := range n.svcs {
			zvMust(s.EnsureService(next(), n.name, &structs.NodeService{ID: sv.id, Service: sv.name, PeerName: n.peer, Port: 80}))
			zvMust(s.EnsureCheck(next(), &structs.HealthCheck{Node: n.name, PeerName: n.peer, CheckID: types.CheckID("chk-" + sv.id), Name: "c",
				Status: "passing", ServiceID: sv.id}))
		}
	}
	for i, n := range []string{"n1", "n2", "n1x", "n1"} {
		zvMust(s.SessionCreate(next(), &structs.Session{ID: fmt.Sprintf("00000000-0000-0000-0000-00000000000%d", i+1), Node: n, Behavior: structs.SessionKeysRelease}))
	}
	for _, k := range []string{"a", "a/", "a/b", "ab", "A"} {
		zvMust(s.KVSSet(next(), &structs.DirEntry{Key: k, Value: []byte("v-" + k)}))
	}
	pqs := []*structs.PreparedQuery{
		{ID: "10000000-0000-0000-0000-000000000001", Name: "q-web", Token: "captured", Service: structs.ServiceQuery{Service: "web"}},
		{ID: "10000000-0000-0000-0000-000000000002", Name: "q-db", Token: "captured", Service: structs.ServiceQuery{Service: "db"}},
		{ID: "10000000-0000-0000-0000-000000000003", Service: structs.ServiceQuery{Service: "web"}},
		{ID: "10000000-0000-0000-0000-000000000004", Name: "q-web2", Service: structs.ServiceQuery{Service: "web"}},
	}
	for _, q := range pqs {
		zvMust(s.PreparedQuerySet(next(), q))
	}
	pol := &structs.ACLPolicy{ID: "20000000-0000-0000-0000-000000000001", Name: "zv-pol", Rules: `key "x" { policy = "read" }`}
	pol.SetHash(true)
	zvMust(s.ACLPolicySet(next(), pol))
	role := &structs.ACLRole{ID: "30000000-0000-0000-0000-000000000001", Name: "zv-role", Policies: []structs.ACLRolePolicyLink{{ID: pol.ID}}}
	role.SetHash(true)
	zvMust(s.ACLRoleSet(next(), role))
	for i := 1; i <= 3; i++ {
		tok := &structs.ACLToken{AccessorID: fmt.Sprintf("40000000-0000-0000-0000-00000000000%d", i), SecretID: fmt.Sprintf("50000000-0000-0000-0000-00000000000%d", i),
			Policies: []structs.ACLTokenPolicyLink{{ID: pol.ID}}}
		tok.SetHash(true)
		zvMust(s.ACLTokenSet(next(), tok))
	}
	zvMust(s.CoordinateBatchUpdate(next(), structs.Coordinates{
		{Node: "n1", Coord: coordinate.NewCoordinate(coordinate.DefaultConfig())},
		{Node: "n2", Coord: coordinate.NewCoordinate(coordinate.DefaultConfig())},
		{Node: "n1x", Coord: coordinate.NewCoordinate(coordinate.DefaultConfig())},
	}))
}

func zvStoreQueries() []zvStoreQuery {
	var qs []zvStoreQuery
	add := func(name string, run func(s *state.Store) (any, error)) {
		qs = append(qs, zvStoreQuery{name: name, run: run})
	}
	add("Nodes", func(s *state.Store) (any, error) {
		_, v, err := s.Nodes(nil, nil, "")
		return &structs.IndexedNodes{Nodes: v}, err
	})
	add("Nodes@peerA", func(s *state.Store) (any, error) {
		_, v, err := s.Nodes(nil, nil, "peerA")
		return &structs.IndexedNodes{Nodes: v}, err
	})
	for _, svc := range []string{"web", "db"} {
		for _, peer := range []string{"", "peerA"} {
			svc, peer := svc, peer
			add("ServiceNodes:"+svc+"@"+peer, func(s *state.Store) (any, error) {
				_, v, err := s.ServiceNodes(nil, svc, nil, peer)
				return &structs.IndexedServiceNodes{ServiceNodes: v}, err
			})
			add("CheckServiceNodes:"+svc+"@"+peer, func(s *state.Store) (any, error) {
				_, v, err := s.CheckServiceNodes(nil, svc, nil, peer)
				return &structs.IndexedCheckServiceNodes{Nodes: v}, err
			})
			add("ServiceChecks:"+svc+"@"+peer, func(s *state.Store) (any, error) {
				_, v, err := s.ServiceChecks(nil, svc, nil, peer)
				return &structs.IndexedHealthChecks{HealthChecks: v}, err
			})
		}
	}
	add("NodeDump", func(s *state.Store) (any, error) {
		_, v, err := s.NodeDump(nil, nil, "")
		if err != nil {
			return nil, err
		}
		_, w, err := s.NodeDump(nil, nil, "peerA")
		return &structs.IndexedNodeDump{Dump: v, ImportedDump: w}, err
	})
	add("ServiceDump", func(s *state.Store) (any, error) {
		_, v, err := s.ServiceDump(nil, "", false, nil, "")
		return &structs.IndexedNodesWithGateways{Nodes: v}, err
	})
	for _, n := range []string{"n1", "n2"} {
		n := n
		add("NodeServices:"+n, func(s *state.Store) (any, error) {
			_, v, err := s.NodeServices(nil, n, nil, "")
			return &structs.IndexedNodeServices{NodeServices: v}, err
		})
		add("NodeServiceList:"+n, func(s *state.Store) (any, error) {
			_, v, err := s.NodeServiceList(nil, n, nil, "")
			out := &structs.IndexedNodeServiceList{}
			if v != nil {
				out.NodeServices = *v
			}
			return out, err
		})
		add("NodeChecks:"+n, func(s *state.Store) (any, error) {
			_, v, err := s.NodeChecks(nil, n, nil, "")
			return &structs.IndexedHealthChecks{HealthChecks: v}, err
		})
	}
	add("ChecksInState", func(s *state.Store) (any, error) {
		_, v, err := s.ChecksInState(nil, "any", nil, "")
		return &structs.IndexedHealthChecks{HealthChecks: v}, err
	})
	// (ServiceList is not queried here: the store returns it in map order, and its elements are values)
	add("Sessions", func(s *state.Store) (any, error) {
		_, v, err := s.SessionList(nil, nil)
		return &structs.IndexedSessions{Sessions: v}, err
	})
	add("Coordinates", func(s *state.Store) (any, error) {
		_, v, err := s.Coordinates(nil, nil)
		return &structs.IndexedCoordinates{Coordinates: v}, err
	})
	add("PreparedQueries", func(s *state.Store) (any, error) {
		_, v, err := s.PreparedQueryList(nil)
		return &structs.IndexedPreparedQueries{Queries: v}, err
	})
	add("PreparedQueryGet", func(s *state.Store) (any, error) {
		_, v, err := s.PreparedQueryGet(nil, "10000000-0000-0000-0000-000000000001")
		return &v, err
	})
	add("ACLTokens", func(s *state.Store) (any, error) {
		_, v, err := s.ACLTokenList(nil, true, true, "", "", "", nil, nil)
		return &v, err
	})
	add("ACLTokenGet", func(s *state.Store) (any, error) {
		_, v, err := s.ACLTokenGetBySecret(nil, "50000000-0000-0000-0000-000000000001", nil)
		return &v, err
	})
	add("ACLPolicies", func(s *state.Store) (any, error) {
		_, v, err := s.ACLPolicyList(nil, nil)
		return &v, err
	})
	add("ACLRoles", func(s *state.Store) (any, error) {
		_, v, err := s.ACLRoleList(nil, "", nil)
		return &v, err
	})
	qs = append(qs, zvStoreQuery{name: "KVSList", run: func(s *state.Store) (any, error) {
		_, v, err := s.KVSList(nil, "", nil)
		return &v, err
	}, apply: func(az acl.Authorizer, subject any) any {
		out := FilterDirEnt(az, *subject.(*structs.DirEntries))
		return &out
	}})
	return qs
}

func zvStoreAliasing(run *core.Run, rng *core.Rand) {
	rep := fsmkit.New(fsmkit.Opts{})
	defer rep.Close()
	s := rep.State()
	func() {
		defer func() {
			if p := recover(); p != nil {
				zvSanityFail(run, fmt.Sprint("aliasing monitor: cannot populate the store: ", p))
				s = nil
			}
		}()
		zvPopulate(s)
	}()
	if s == nil {
		return
	}
	nAuthz := core.N(40, 400)
	for _, q := range zvStoreQueries() {
		first, err := q.run(s)
		if err != nil {
			zvSanityFail(run, "aliasing monitor: query "+q.name+": "+err.Error())
			continue
		}
		pristine := zvRender(first)
		if len(pristine) < 12 {
			zvSanityFail(run, "aliasing monitor: query "+q.name+" returned nothing: "+pristine)
			continue
		}
		for k := 0; k < nAuthz; k++ {
			var az acl.Authorizer
			switch k % 4 {
			case 0:
				az = zvBaseTable([]acl.EnforcementDecision{zvD, zvA, zvA}[k/4%3], []acl.EnforcementDecision{zvD, zvD, zvA}[k/4%3])
			case 3:
				p, err := zvRandomPolicyAuthz(rng, fmt.Sprintf("store.%s.%d", q.name, k))
				if err != nil {
					zvSanityFail(run, "policy generator: "+err.Error())
					continue
				}
				az = p
			default:
				az = zvRandomTable(rng, fmt.Sprintf("store.%s.%d", q.name, k))
			}
			subject, err := q.run(s)
			if err != nil {
				zvSanityFail(run, "aliasing monitor: query "+q.name+": "+err.Error())
				break
			}
			apply := q.apply
			if apply == nil {
				apply = zvFilterApply
			}
			var got any
			var panicked any
			func() {
				defer func() { panicked = recover() }()
				got = apply(az, subject)
			}()
			run.Eval()
			run.Count("aliasing_cases")
			run.Distinct("aliasing-queries", q.name)
			if panicked != nil {
				run.Violation("C09:filter:store:"+q.name+":panic", fmt.Sprintf("filter panicked on the result of store query %s under %s: %v", q.name, zvAuthzID(az), panicked),
					map[string]any{"query": q.name, "authorizer": zvAuthzWitness(az), "input": pristine})
				continue
			}
			gotS := zvRender(got)
			if gotS != pristine {
				run.Count("aliasing_cases_filtered")
				run.NonTrivial(core.Hash("aliasing", q.name, zvAuthzID(az)))
			}
			again, err := q.run(s)
			if err != nil {
				zvSanityFail(run, "aliasing monitor: query "+q.name+": "+err.Error())
				break
			}
			if a := zvRender(again); a != pristine {
				run.Violation("C09:filter:store:"+q.name+":store-objects-modified",
					fmt.Sprintf("after filtering one result of store query %s under %s the SAME query returns different data: before %s after %s", q.name, zvAuthzID(az), pristine, a),
					map[string]any{"query": q.name, "authorizer": zvAuthzWitness(az), "before": pristine, "after": a, "filtered": gotS})
				break
			}
		}
	}
}
