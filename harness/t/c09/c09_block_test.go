//go:build verif

// C09 server tier, blocking reads: endpoints that suppress spurious wake-ups by hashing their result
// (errNotChanged) evaluate their query function several times inside ONE blocking call and hand back
// whatever the reply holds when the call finally returns. What the caller gets must be filtered no matter
// how often and in which branch the function ran: a restricted token parks a blocking query, a noise write
// wakes it without changing its result, and the reply it returns at its deadline (or when woken) must equal
// a fresh non-blocking read with the same token and must not mention the service the token cannot read.
package consul

import (
	"encoding/json"
	"fmt"
	"reflect"
	"strings"
	"time"

	"github.com/hashicorp/consul/agent/structs"
	"github.com/hashicorp/consul/zzverif/core"
)

// zvBlkFP renders a reply without its QueryMeta and returns the index and the filtered flag it reports
func zvBlkFP(reply any) (uint64, bool, string) {
	v := reflect.ValueOf(reply).Elem()
	var idx uint64
	var flag bool
	if qm := v.FieldByName("QueryMeta"); qm.IsValid() {
		m := qm.Interface().(structs.QueryMeta)
		idx, flag = m.Index, m.ResultsFilteredByACLs
		qm.Set(reflect.Zero(qm.Type()))
	}
	b, _ := json.Marshal(reply)
	return idx, flag, string(b)
}

func (z *zvSrv) phaseBlocking(run *core.Run) {
	srv, w := z.srv, structs.WriteRequest{Token: z.mgmt}
	fail := func(what string, err error) bool {
		if err != nil {
			zvSanityFail(run, "server tier (blocking reads): "+what+": "+err.Error())
			return true
		}
		return false
	}
	var out struct{}
	for _, s := range []string{"zvweb", "zvweb2", "zvdb", "zvsecret-api"} {
		if fail("register "+s, zvSrvCall(srv, "Catalog.Register", &structs.RegisterRequest{Datacenter: "dc1", Node: "zvn1", Address: "10.9.0.1",
			Service: &structs.NodeService{ID: s, Service: s, Port: 80}, WriteRequest: w}, &out)) {
			return
		}
	}
	for _, dst := range []string{"zvdb", "zvsecret-api"} {
		var ok bool
		if fail("intention zvweb->"+dst, zvSrvCall(srv, "ConfigEntry.Apply", &structs.ConfigEntryRequest{Datacenter: "dc1", Op: structs.ConfigEntryUpsert, WriteRequest: w,
			Entry: &structs.ServiceIntentionsConfigEntry{Kind: structs.ServiceIntentions, Name: dst, Sources: zvBlkSources(dst)}}, &ok)) {
			return
		}
		if fail("service-defaults "+dst, zvSrvCall(srv, "ConfigEntry.Apply", &structs.ConfigEntryRequest{Datacenter: "dc1", Op: structs.ConfigEntryUpsert, WriteRequest: w,
			Entry: &structs.ServiceConfigEntry{Kind: structs.ServiceDefaults, Name: dst, Protocol: "tcp"}}, &ok)) {
			return
		}
	}
	secret := z.mkTokenQuiet("zv-blocking", `service "zvweb" { policy = "read" } service "zvweb2" { policy = "read" } service "zvdb" { policy = "read" } node_prefix "" { policy = "read" }`)
	if secret == "" {
		zvSanityFail(run, "server tier (blocking reads): could not create the restricted token")
		return
	}
	qo := func(token string, min uint64, wait time.Duration) structs.QueryOptions {
		return structs.QueryOptions{Token: token, MinQueryIndex: min, MaxQueryTime: wait}
	}
	type ep struct {
		name, meth string
		args       func(token string, min uint64, wait time.Duration) any
		reply      func() any
		noSecret   bool // the reply for the restricted token must not mention zvsecret at all
	}
	eps := []ep{
		{"Internal.IntentionUpstreams:zvweb", "Internal.IntentionUpstreams", func(t string, m uint64, wt time.Duration) any {
			return &structs.ServiceSpecificRequest{Datacenter: "dc1", ServiceName: "zvweb", QueryOptions: qo(t, m, wt)}
		}, func() any { return &structs.IndexedServiceList{} }, true},
		// a single upstream, and that one unreadable: the topology result of several upstreams comes out of a Go
		// map in varying order, which defeats the endpoint's hash comparison (and would hide a reply that is
		// left unfiltered on the unchanged-hash path)
		{"Internal.IntentionUpstreams:zvweb2", "Internal.IntentionUpstreams", func(t string, m uint64, wt time.Duration) any {
			return &structs.ServiceSpecificRequest{Datacenter: "dc1", ServiceName: "zvweb2", QueryOptions: qo(t, m, wt)}
		}, func() any { return &structs.IndexedServiceList{} }, true},
		{"Catalog.ServiceNodes:zvsecret-api", "Catalog.ServiceNodes", func(t string, m uint64, wt time.Duration) any {
			return &structs.ServiceSpecificRequest{Datacenter: "dc1", ServiceName: "zvsecret-api", QueryOptions: qo(t, m, wt)}
		}, func() any { return &structs.IndexedServiceNodes{} }, true},
		{"Health.ServiceNodes:zvsecret-api", "Health.ServiceNodes", func(t string, m uint64, wt time.Duration) any {
			return &structs.ServiceSpecificRequest{Datacenter: "dc1", ServiceName: "zvsecret-api", QueryOptions: qo(t, m, wt)}
		}, func() any { return &structs.IndexedCheckServiceNodes{} }, true},
		{"Health.ServiceNodes:zvdb", "Health.ServiceNodes", func(t string, m uint64, wt time.Duration) any {
			return &structs.ServiceSpecificRequest{Datacenter: "dc1", ServiceName: "zvdb", QueryOptions: qo(t, m, wt)}
		}, func() any { return &structs.IndexedCheckServiceNodes{} }, true},
		{"ConfigEntry.List:service-defaults", "ConfigEntry.List", func(t string, m uint64, wt time.Duration) any {
			return &structs.ConfigEntryQuery{Datacenter: "dc1", Kind: structs.ServiceDefaults, QueryOptions: qo(t, m, wt)}
		}, func() any { return &structs.IndexedConfigEntries{} }, true},
		{"Intention.Match:source=zvweb", "Intention.Match", func(t string, m uint64, wt time.Duration) any {
			return &structs.IntentionQueryRequest{Datacenter: "dc1", QueryOptions: qo(t, m, wt),
				Match: &structs.IntentionQueryMatch{Type: structs.IntentionMatchSource, Entries: []structs.IntentionMatchEntry{{Namespace: "default", Partition: "default", Name: "zvweb"}}}}
		}, func() any { return &structs.IndexedIntentionMatches{} }, false},
		{"Catalog.ListServices", "Catalog.ListServices", func(t string, m uint64, wt time.Duration) any {
			return &structs.DCSpecificRequest{Datacenter: "dc1", QueryOptions: qo(t, m, wt)}
		}, func() any { return &structs.IndexedServices{} }, true},
		{"Internal.ServiceDump", "Internal.ServiceDump", func(t string, m uint64, wt time.Duration) any {
			return &structs.ServiceDumpRequest{Datacenter: "dc1", QueryOptions: qo(t, m, wt)}
		}, func() any { return &structs.IndexedNodesWithGateways{} }, true},
	}
	noise := 0
	for _, e := range eps {
		for _, mode := range []string{"noise-then-deadline", "no-noise-deadline", "noise-twice"} {
			// where does the query stand for the restricted token and for the management token
			r0 := e.reply()
			if err := zvSrvCall(srv, e.meth, e.args(secret, 0, 0), r0); err != nil {
				run.Violation("C09:server:blocking:"+e.meth+":valid-token-error", fmt.Sprintf("%s with a valid restricted token failed: %v", e.name, err), map[string]any{"endpoint": e.name})
				break
			}
			idx0, _, _ := zvBlkFP(r0)
			rm := e.reply()
			zvSrvCall(srv, e.meth, e.args(z.mgmt, 0, 0), rm)
			_, _, fpMgmt := zvBlkFP(rm)
			type res struct {
				idx  uint64
				flag bool
				fp   string
				err  error
			}
			done := make(chan res, 1)
			go func() {
				r := e.reply()
				err := zvSrvCall(srv, e.meth, e.args(secret, idx0, 700*time.Millisecond), r)
				i, f, fp := zvBlkFP(r)
				done <- res{i, f, fp, err}
			}()
			writes := 0
			if mode != "no-noise-deadline" {
				n := 1
				if mode == "noise-twice" {
					n = 2
				}
				for k := 0; k < n; k++ {
					time.Sleep(120 * time.Millisecond) // let the call park (not a verdict)
					noise++
					// a write that touches the watched tables without changing any of the results for the restricted
					// token: an unrelated, NEW service name on another node (a further instance of a known name
					// does not move the indexes the topology queries report)
					zvSrvCall(srv, "Catalog.Register", &structs.RegisterRequest{Datacenter: "dc1", Node: "zvnoise", Address: "10.9.0.9",
						Service: &structs.NodeService{ID: fmt.Sprintf("zvnoise-%d", noise), Service: fmt.Sprintf("zvnoise-%d", noise), Port: 1}, WriteRequest: w}, &out)
					writes++
				}
			}
			var got res
			select {
			case got = <-done:
			case <-time.After(60 * time.Second):
				run.Inconclusive(fmt.Sprintf("%s: blocking call with MaxQueryTime 700ms did not return within 60 s", e.name))
				continue
			}
			if mode == "noise-then-deadline" {
				_, _, fp0 := zvBlkFP(r0)
				run.Extra("blocking:"+e.name, map[string]any{"restricted": trunc9(fp0, 300), "management": trunc9(fpMgmt, 300), "blocking_reply": trunc9(got.fp, 300), "reply_index": got.idx, "min_index": idx0})
			}
			run.Eval()
			run.Count("server_blocking_cases")
			run.Distinct("server-blocking-endpoints", e.name)
			if got.err != nil {
				run.Violation("C09:server:blocking:"+e.meth+":valid-token-error", fmt.Sprintf("%s (blocking, %s) with a valid restricted token failed: %v", e.name, mode, got.err), map[string]any{"endpoint": e.name})
				continue
			}
			// no write happens any more: a fresh read is the reference
			rf := e.reply()
			zvSrvCall(srv, e.meth, e.args(secret, 0, 0), rf)
			_, flagF, fpF := zvBlkFP(rf)
			wit := map[string]any{"endpoint": e.name, "mode": mode, "token_rules": "service zvweb read, service zvdb read, node_prefix \"\" read", "blocking_reply": got.fp, "blocking_flag": got.flag, "fresh_reply": fpF, "fresh_flag": flagF, "management_reply": fpMgmt, "noise_writes": writes}
			if strings.Contains(fpMgmt, "zvsecret") && e.noSecret {
				run.NonTrivial(core.Hash("server-blocking", e.name, mode))
			}
			if e.noSecret && strings.Contains(got.fp, "zvsecret") {
				run.Violation("C09:server:blocking:"+e.meth+":unreadable-returned", fmt.Sprintf("%s: a blocking query (%s) of a token that may not read service zvsecret-api returned it: %s", e.name, mode, trunc9(got.fp, 400)), wit)
				continue
			}
			if got.fp != fpF || got.flag != flagF {
				class := "content"
				if got.fp == fpF {
					class = "flag"
				}
				run.Violation("C09:server:blocking:"+e.meth+":differs-from-fresh-read:"+class, fmt.Sprintf("%s: the reply of a blocking query (%s, %d noise writes) differs from a fresh read with the same token: blocking %s flag=%v, fresh %s flag=%v", e.name, mode, writes, trunc9(got.fp, 300), got.flag, trunc9(fpF, 300), flagF), wit)
			}
		}
	}
}

func (z *zvSrv) mkTokenQuiet(name, rules string) string {
	w := structs.WriteRequest{Token: z.mgmt}
	var pol structs.ACLPolicy
	if err := zvSrvCall(z.srv, "ACL.PolicySet", &structs.ACLPolicySetRequest{Datacenter: "dc1", Policy: structs.ACLPolicy{Name: name, Rules: rules}, WriteRequest: w}, &pol); err != nil {
		return ""
	}
	var tok structs.ACLToken
	if err := zvSrvCall(z.srv, "ACL.TokenSet", &structs.ACLTokenSetRequest{Datacenter: "dc1", Create: true,
		ACLToken: structs.ACLToken{Description: name, Policies: []structs.ACLTokenPolicyLink{{ID: pol.ID}}}, WriteRequest: w}, &tok); err != nil {
		return ""
	}
	return tok.SecretID
}

func zvBlkSources(dst string) []*structs.SourceIntention {
	out := []*structs.SourceIntention{{Name: "zvweb", Action: structs.IntentionActionAllow}}
	if dst == "zvsecret-api" {
		out = append(out, &structs.SourceIntention{Name: "zvweb2", Action: structs.IntentionActionAllow})
	}
	return out
}

func trunc9(s string, n int) string {
	if len(s) > n {
		return s[:n] + "…"
	}
	return s
}
