//go:build verif

package consul

import (
	"context"
	"fmt"
	"strings"
	"time"

	"github.com/hashicorp/consul/acl"
	"github.com/hashicorp/consul/agent/consul/state"
	"github.com/hashicorp/consul/agent/consul/stream"
	"github.com/hashicorp/consul/agent/structs"
	"github.com/hashicorp/consul/proto/private/pbsubscribe"
	"github.com/hashicorp/consul/zzverif/core"
)

// Part 4 — the STREAMING read path. A batch of several events at one index is stored once in the
// topic buffer and handed to EVERY subscriber of the subject; each subscriber filters it with its own
// authorizer (event.Payload.HasReadPermission, exactly as the subscribe service does) and what remains
// is serialized (ToSubscriptionEvent). Driven through the real stream.EventPublisher / Subscribe /
// Subscription.Next with published batches:
//   * batches of 1..5 events (service health for several nodes / services / a peer, config entries
//     of three kinds, service-list updates) in every readable / unreadable / duplicate arrangement;
//   * 2-3 subscribers with different authorizers (everything, nothing, mixed) served one after the
//     other in every order, plus random table and compiled policy authorizers;
//   * oracle for EACH subscriber: the serialized events it receives are exactly the events of the
//     batch whose documented read predicate holds, in publication order;
//   * aliasing: an observer subscription holds the SAME shared batch (the PayloadEvents built by
//     Subscription.Next aliases the topic buffer item's Events); after every served subscriber the
//     shared batch and every payload object in it must render exactly as before.

type zvStreamKind struct {
	name    string
	topic   stream.Topic
	subject stream.Subject // what the subscribers ask for
	alpha   []zvElem
	maxLen  int
	payload func(e zvPE, lv *zvLeaves) stream.Payload
	keep    func(r zvRef, e zvElem) bool
}

const zvStreamIndex = 7

func zvStreamKinds() []zvStreamKind {
	health := func(e zvPE, lv *zvLeaves) stream.Payload {
		csn := zvCSN(e, lv)
		lv.add(&csn)
		return state.EventPayloadCheckServiceNode{Op: pbsubscribe.CatalogOp_Register, Value: &csn}
	}
	cfg := func(mk func(e zvPE) structs.ConfigEntry) func(e zvPE, lv *zvLeaves) stream.Payload {
		return func(e zvPE, lv *zvLeaves) stream.Payload {
			v := mk(e)
			lv.add(v)
			return state.EventPayloadConfigEntry{Op: pbsubscribe.ConfigEntryUpdate_Upsert, Value: v}
		}
	}
	meta := func(e zvPE) map[string]string { return map[string]string{"pos": fmt.Sprint(e.Pos)} }
	names := []zvElem{{Svc: "web"}, {Svc: "db"}, {Svc: "api"}, {Svc: "web-sidecar-proxy"}}
	return []zvStreamKind{
		{name: "service-health(subject web)", topic: state.EventTopicServiceHealth, subject: state.EventSubjectService{Key: "web"},
			alpha:  []zvElem{{Node: "n1", Svc: "web"}, {Node: "n2", Svc: "web"}, {Node: "n1x", Svc: "web"}, {Node: "N1", Svc: "web"}},
			maxLen: 5, payload: health, keep: func(r zvRef, e zvElem) bool { return r.csn(e) }},
		{name: "service-health(wildcard)", topic: state.EventTopicServiceHealth, subject: stream.SubjectWildcard,
			alpha:  []zvElem{{Node: "n1", Svc: "web"}, {Node: "n2", Svc: "web"}, {Node: "n1", Svc: "db"}, {Node: "n1x", Svc: "api"}, {Node: "n2", Svc: "db", Peer: "peerA"}},
			maxLen: core.N(4, 5), payload: health, keep: func(r zvRef, e zvElem) bool { return r.csn(e) }},
		{name: "service-resolver(wildcard)", topic: state.EventTopicServiceResolver, subject: stream.SubjectWildcard, alpha: names, maxLen: 5,
			payload: cfg(func(e zvPE) structs.ConfigEntry {
				return &structs.ServiceResolverConfigEntry{Kind: structs.ServiceResolver, Name: e.Svc, Meta: meta(e), RaftIndex: zvIdx(e.Pos)}
			}),
			keep: func(r zvRef, e zvElem) bool { return r.svc(e.Svc, "") }},
		{name: "service-defaults(wildcard)", topic: state.EventTopicServiceDefaults, subject: stream.SubjectWildcard, alpha: names, maxLen: core.N(4, 5),
			payload: cfg(func(e zvPE) structs.ConfigEntry {
				return &structs.ServiceConfigEntry{Kind: structs.ServiceDefaults, Name: e.Svc, Protocol: "http", Meta: meta(e), RaftIndex: zvIdx(e.Pos)}
			}),
			keep: func(r zvRef, e zvElem) bool { return r.svc(e.Svc, "") }},
		{name: "service-intentions(wildcard)", topic: state.EventTopicServiceIntentions, subject: stream.SubjectWildcard,
			alpha: []zvElem{{Svc: "web"}, {Svc: "db"}, {Svc: "api"}, {Svc: "*"}}, maxLen: 5,
			payload: cfg(func(e zvPE) structs.ConfigEntry {
				return &structs.ServiceIntentionsConfigEntry{Kind: structs.ServiceIntentions, Name: e.Svc, Meta: meta(e), RaftIndex: zvIdx(e.Pos),
					Sources: []*structs.SourceIntention{{Name: "src", Action: structs.IntentionActionAllow}}}
			}),
			// documented: intention:read on the destination
			keep: func(r zvRef, e zvElem) bool { return r.intention(e.Svc) }},
		{name: "service-list", topic: state.EventTopicServiceList, subject: stream.SubjectNone, alpha: names, maxLen: 5,
			payload: func(e zvPE, lv *zvLeaves) stream.Payload {
				op := pbsubscribe.CatalogOp_Register
				if e.Pos%2 == 1 {
					op = pbsubscribe.CatalogOp_Deregister
				}
				p := &state.EventPayloadServiceListUpdate{Op: op, Name: e.Svc}
				lv.add(p)
				return p
			},
			keep: func(r zvRef, e zvElem) bool { return r.svc(e.Svc, "") }},
	}
}

// zvWire renders what a subscriber is sent for one delivered stream event: the list of serialized
// inner events (a batch is flattened).
func zvWire(ev stream.Event) []string {
	pb := ev.Payload.ToSubscriptionEvent(ev.Index)
	if b := pb.GetEventBatch(); b != nil {
		out := make([]string, 0, len(b.Events))
		for _, e := range b.Events {
			out = append(out, zvRender(e))
		}
		return out
	}
	return []string{zvRender(pb)}
}

func zvStreamEvents(k *zvStreamKind, es []zvPE, lv *zvLeaves) []stream.Event {
	out := make([]stream.Event, 0, len(es))
	for _, e := range es {
		out = append(out, stream.Event{Topic: k.topic, Index: zvStreamIndex, Payload: k.payload(e, lv)})
	}
	return out
}

type zvStreamSub struct {
	label string
	az    acl.Authorizer
}

func zvNextEvent(sub *stream.Subscription) (stream.Event, error) {
	ctx, cancel := context.WithTimeout(context.Background(), 30*time.Second)
	defer cancel()
	return sub.Next(ctx)
}

// zvStreamCase: one batch, one sequence of subscribers. Returns false when the harness could not
// run the case (watchdog etc.).
func zvStreamCase(run *core.Run, pub *stream.EventPublisher, k *zvStreamKind, es []zvElem, subs []zvStreamSub) bool {
	pes := zvPos(es)
	var lv zvLeaves
	events := zvStreamEvents(k, pes, &lv)

	// all subscribers (and the observer) are attached BEFORE the batch is published: they all follow
	// the same topic buffer item
	all := make([]*stream.Subscription, 0, len(subs)+1)
	defer func() {
		for _, s := range all {
			s.Unsubscribe()
		}
	}()
	for i := 0; i <= len(subs); i++ {
		s, err := pub.Subscribe(&stream.SubscribeRequest{Topic: k.topic, Subject: k.subject, Token: fmt.Sprintf("zv-tok-%d", i)})
		if err != nil {
			zvSanityFail(run, "stream: Subscribe failed: "+err.Error())
			return false
		}
		all = append(all, s)
		ev, err := zvNextEvent(s)
		if err != nil || !ev.IsEndOfSnapshot() {
			zvSanityFail(run, fmt.Sprintf("stream: expected the end-of-snapshot marker of an empty snapshot, got %v %v", ev, err))
			return false
		}
	}
	pub.Publish(events)

	observer := all[len(subs)]
	shared, err := zvNextEvent(observer)
	if err != nil {
		zvSanityFail(run, "stream: observer did not receive the published batch: "+err.Error())
		return false
	}
	renderShared := func() string {
		// the observer never filters: it only looks at the batch object it was handed
		if pe, ok := shared.Payload.(*stream.PayloadEvents); ok {
			var sb strings.Builder
			fmt.Fprintf(&sb, "len=%d cap>=len:%v", len(pe.Items), cap(pe.Items) >= len(pe.Items))
			full := pe.Items[:len(pe.Items):len(pe.Items)]
			for _, it := range full {
				sb.WriteString(" | " + zvRender(it.Payload) + fmt.Sprintf("@%d/%v", it.Index, it.Topic))
			}
			return sb.String()
		}
		return zvRender(shared.Payload) + fmt.Sprintf("@%d/%v", shared.Index, shared.Topic)
	}
	sharedBefore := renderShared()
	leavesBefore := make([]string, len(lv.ptrs))
	for i, p := range lv.ptrs {
		leavesBefore[i] = zvRender(p)
	}
	wireAll := zvWire(shared)
	if len(wireAll) != len(es) {
		zvSanityFail(run, fmt.Sprintf("stream: the observer received %d of %d published events", len(wireAll), len(es)))
		return false
	}

	var order []string
	for _, s := range subs {
		order = append(order, s.label)
	}
	orderS := strings.Join(order, ">")
	wit := func(extra map[string]any) map[string]any {
		var ids []any
		for _, s := range subs {
			ids = append(ids, zvAuthzWitness(s.az))
		}
		w := map[string]any{"kind": k.name, "batch": es, "subscribers_in_order": ids, "published_wire_events": wireAll}
		for kk, v := range extra {
			w[kk] = v
		}
		return w
	}

	for si, s := range subs {
		r := zvRef{s.az}
		// reference: the events of the batch this subscriber may read, in publication order, built from scratch
		kept, mask, removed := zvSelect(pes, func(e zvElem) bool { return k.keep(r, e) })
		var expWire []string
		for _, ev := range zvStreamEvents(k, kept, nil) {
			expWire = append(expWire, zvWire(ev)...)
		}

		var gotWire []string
		var panicked any
		var nextErr error
		func() {
			defer func() { panicked = recover() }()
			ev, err := zvNextEvent(all[si])
			if err != nil {
				nextErr = err
				return
			}
			// exactly what the subscribe service does with every event it takes from Next
			if !ev.Payload.HasReadPermission(s.az) {
				return
			}
			gotWire = zvWire(ev)
		}()
		run.Eval()
		run.Count("stream_subscriber_servings")
		run.Distinct("stream-kinds", k.name)
		if nextErr != nil {
			zvSanityFail(run, "stream: subscriber did not receive the published batch: "+nextErr.Error())
			return false
		}
		desc := fmt.Sprintf("%s batch %s, subscriber %d of order %s (%s)", k.name, core.JSON(es), si+1, orderS, zvAuthzID(s.az))
		if panicked != nil {
			run.Violation("C09:stream:"+k.name+":panic", fmt.Sprintf("filtering / serializing the batch panicked (%v): %s", panicked, desc), wit(map[string]any{"subscriber": si, "panic": fmt.Sprint(panicked)}))
			return true
		}
		if core.JSON(gotWire) != core.JSON(expWire) {
			class := zvListDiffClass(expWire, gotWire)
			run.Violation("C09:stream:"+k.name+":"+class,
				fmt.Sprintf("%s: the subscriber was sent %d events, the reference says %d (%s): expected %v got %v", desc, len(gotWire), len(expWire), class, expWire, gotWire),
				wit(map[string]any{"subscriber": si, "expected": expWire, "got": gotWire}))
		}
		// aliasing: the shared batch after this subscriber was served
		if after := renderShared(); after != sharedBefore {
			run.Violation("C09:stream:"+k.name+":shared-batch-mutated",
				fmt.Sprintf("%s: serving this subscriber changed the batch that is shared with all other subscribers: before %s after %s", desc, sharedBefore, after),
				wit(map[string]any{"subscriber": si, "shared_before": sharedBefore, "shared_after": after}))
			return true
		}
		for i, p := range lv.ptrs {
			if after := zvRender(p); after != leavesBefore[i] {
				run.Violation("C09:stream:"+k.name+":shared-payload-mutated",
					fmt.Sprintf("%s: serving this subscriber changed a payload object of the shared batch: before %s after %s", desc, leavesBefore[i], after),
					wit(map[string]any{"subscriber": si, "before": leavesBefore[i], "after": after}))
				return true
			}
		}

		// ---- coverage classes
		keptN := len(kept)
		switch {
		case keptN == 0:
			run.Count("stream_all_removed")
		case !removed:
			run.Count("stream_none_removed")
		default:
			run.Count("stream_mixed")
			run.NonTrivial(core.Hash("stream", k.name, core.JSON(es), orderS, fmt.Sprint(si), zvAuthzID(s.az)))
			if si > 0 {
				run.Count("stream_mixed_after_other_subscriber")
			}
			if !mask[0] {
				run.Count("stream_first_removed")
			}
			if !mask[len(mask)-1] {
				run.Count("stream_last_removed")
			}
			for i := 1; i < len(mask); i++ {
				if !mask[i] && !mask[i-1] {
					run.Count("stream_adjacent_removals")
					break
				}
			}
		}
	}
	run.Count("stream_cases")
	run.Distinct("stream-subscriber-orders", orderS)
	if len(es) > 1 {
		run.Count("stream_multi_event_batches")
	}
	return true
}

// zvListDiffClass tells what kind of disagreement two lists of rendered events have.
func zvListDiffClass(exp, got []string) string {
	in := func(l []string, x string) bool {
		for _, y := range l {
			if x == y {
				return true
			}
		}
		return false
	}
	for _, g := range got {
		if !in(exp, g) {
			return "unreadable-event-delivered"
		}
	}
	if len(got) < len(exp) {
		return "readable-event-dropped"
	}
	if len(got) > len(exp) {
		return "event-duplicated"
	}
	return "order"
}

func zvStream(run *core.Run, rng *core.Rand) {
	pub := stream.NewEventPublisher(0)
	noSnapshot := func(stream.SubscribeRequest, stream.SnapshotAppender) (uint64, error) { return 1, nil }
	kinds := zvStreamKinds()
	seenTopic := map[string]bool{}
	for _, k := range kinds {
		if seenTopic[k.topic.String()] {
			continue
		}
		seenTopic[k.topic.String()] = true
		if err := pub.RegisterHandler(k.topic, noSnapshot, true); err != nil {
			zvSanityFail(run, "stream: RegisterHandler: "+err.Error())
			return
		}
	}
	ctx, cancel := context.WithCancel(context.Background())
	defer cancel()
	go pub.Run(ctx)

	allAz, noneAz := zvStreamSub{"all", acl.AllowAll()}, zvStreamSub{"none", acl.DenyAll()}
	perms := [][3]int{{0, 1, 2}, {0, 2, 1}, {1, 0, 2}, {1, 2, 0}, {2, 0, 1}, {2, 1, 0}}
	for ki := range kinds {
		k := &kinds[ki]
		krng := rng.Fork(uint64(ki))
		for ai, es := range zvSequences(k.alpha, 1, k.maxLen) {
			core.Progress("C09", fmt.Sprintf("stream %s batch %d %s", k.name, ai, core.JSON(es)))
			base := []zvStreamSub{allAz, noneAz, {"mixed", zvBaseTable(zvD, zvD)}}
			var seqs [][]zvStreamSub
			for _, p := range perms {
				seqs = append(seqs, []zvStreamSub{base[p[0]], base[p[1]], base[p[2]]})
			}
			tag := fmt.Sprintf("s%d.%d", ki, ai)
			seqs = append(seqs, []zvStreamSub{{"random", zvRandomTable(krng, tag+".0")}, {"random", zvRandomTable(krng, tag+".1")}, {"random", zvRandomTable(krng, tag+".2")}})
			if paz, err := zvRandomPolicyAuthz(krng, tag); err != nil {
				zvSanityFail(run, "policy generator: "+err.Error())
			} else {
				two := []zvStreamSub{{"policy", paz}, {"random", zvRandomTable(krng, tag+".3")}}
				if krng.Bool() {
					two[0], two[1] = two[1], two[0]
				}
				seqs = append(seqs, two)
			}
			for _, subs := range seqs {
				if !zvStreamCase(run, pub, k, es, subs) {
					return
				}
			}
			if run.Violations() > 30 {
				return
			}
		}
	}
}
