//go:build verif

package consul

import (
	"fmt"

	"github.com/hashicorp/consul/acl"
	"github.com/hashicorp/consul/agent/structs"
	"github.com/hashicorp/consul/types"
	"github.com/hashicorp/consul/zzverif/core"
)

// zvHidden is the documented placeholder shown instead of a secret the caller may not see.
const zvHidden = "<hidden>"

// ---------------------------------------------------------------------------------------------
// object builders (every object gets its ORIGINAL position stamped into a pass-through field)
// ---------------------------------------------------------------------------------------------

func zvIdx(pos int) structs.RaftIndex {
	return structs.RaftIndex{CreateIndex: uint64(pos + 1), ModifyIndex: uint64(pos + 1)}
}

func zvNode(e zvElem, pos int, lv *zvLeaves) *structs.Node {
	n := &structs.Node{Node: e.Node, PeerName: e.Peer, Address: fmt.Sprintf("10.0.0.%d", pos+1), RaftIndex: zvIdx(pos)}
	lv.add(n)
	return n
}

func zvNS(e zvElem, pos int, lv *zvLeaves) *structs.NodeService {
	id := e.ID
	if id == "" {
		id = e.Svc
	}
	s := &structs.NodeService{ID: id, Service: e.Svc, PeerName: e.Peer, Port: 8000 + pos, RaftIndex: zvIdx(pos)}
	lv.add(s)
	return s
}

func zvHC(node string, e zvElem, tag string, pos int, lv *zvLeaves) *structs.HealthCheck {
	c := &structs.HealthCheck{Node: node, CheckID: types.CheckID(fmt.Sprintf("chk-%s%d", tag, pos)), Status: "passing",
		ServiceName: e.Svc, ServiceID: e.Svc, PeerName: e.Peer, RaftIndex: zvIdx(pos)}
	lv.add(c)
	return c
}

func zvCSN(e zvPE, lv *zvLeaves) structs.CheckServiceNode {
	return structs.CheckServiceNode{
		Node:    zvNode(e.zvElem, e.Pos, lv),
		Service: zvNS(e.zvElem, e.Pos, lv),
		Checks: structs.HealthChecks{
			zvHC(e.Node, zvElem{Peer: e.Peer}, "n", e.Pos, lv),
			zvHC(e.Node, zvElem{Svc: e.Svc, Peer: e.Peer}, "s", e.Pos, lv),
		},
	}
}

func zvCSNs(es []zvPE, lv *zvLeaves) structs.CheckServiceNodes {
	var out structs.CheckServiceNodes
	for _, e := range es {
		out = append(out, zvCSN(e, lv))
	}
	return out
}

// documented: a check-service-node is visible iff the node AND the service are readable
func (r zvRef) csn(e zvElem) bool { return r.node(e.Node, e.Peer) && r.svc(e.Svc, e.Peer) }

func zvGS(e zvPE, lv *zvLeaves) *structs.GatewayService {
	g := &structs.GatewayService{Gateway: structs.NewServiceName(e.Gw, nil), Service: structs.NewServiceName(e.Svc, nil),
		GatewayKind: structs.ServiceKindTerminatingGateway, Port: 9000 + e.Pos, RaftIndex: zvIdx(e.Pos)}
	lv.add(g)
	return g
}

func zvGSs(es []zvPE, lv *zvLeaves) structs.GatewayServices {
	var out structs.GatewayServices
	for _, e := range es {
		out = append(out, zvGS(e, lv))
	}
	return out
}

func zvMeta(flag bool) structs.QueryMeta { return structs.QueryMeta{ResultsFilteredByACLs: flag} }

func zvSlot(es []zvPE, slot string) []zvPE {
	var out []zvPE
	for _, e := range es {
		if e.Slot == slot {
			out = append(out, e)
		}
	}
	return out
}

// zvSelect applies keep to every element.
func zvSelect(es []zvPE, keep func(zvElem) bool) (kept []zvPE, mask []bool, removed bool) {
	mask = make([]bool, len(es))
	for i, e := range es {
		if keep(e.zvElem) {
			mask[i] = true
			kept = append(kept, e)
		} else {
			removed = true
		}
	}
	return
}

// zvFlat: a response that is one list of independent elements plus (optionally) the flag.
func zvFlat(name string, alpha []zvElem, maxLen int, mk func(es []zvPE, flag bool, lv *zvLeaves) any, keep func(r zvRef, e zvElem) bool) zvType {
	return zvType{name: name, alpha: alpha, maxLen: maxLen,
		build: func(es []zvPE, lv *zvLeaves) any { return mk(es, false, lv) },
		expect: func(r zvRef, es []zvPE) zvExpect {
			kept, mask, removed := zvSelect(es, func(e zvElem) bool { return keep(r, e) })
			return zvExpect{subject: mk(kept, removed, nil), mask: mask, changed: removed}
		}}
}

func (t zvType) withAlt(alt func(r zvRef, es []zvPE, got string) string) zvType {
	t.alt = alt
	return t
}

func zvExportedList(es []zvPE, flag bool) *structs.IndexedExportedServiceList {
	out := &structs.IndexedExportedServiceList{Services: map[string]structs.ServiceList{}, QueryMeta: zvMeta(flag)}
	for _, e := range es {
		// a peer without (remaining) services is not part of the response
		out.Services[e.Slot] = append(out.Services[e.Slot], structs.NewServiceName(e.Svc, nil))
	}
	return out
}

// withSlots returns alpha replicated for every slot.
func zvWithSlots(alpha []zvElem, slots ...string) []zvElem {
	var out []zvElem
	for _, s := range slots {
		for _, a := range alpha {
			a.Slot = s
			out = append(out, a)
		}
	}
	return out
}

// ---------------------------------------------------------------------------------------------
// nested node dump
// ---------------------------------------------------------------------------------------------

func zvSvcs(peer string, names ...string) []zvElem {
	var out []zvElem
	for _, n := range names {
		out = append(out, zvElem{Svc: n, Peer: peer})
	}
	return out
}

func zvNodeInfo(e zvPE, lv *zvLeaves) *structs.NodeInfo {
	ni := &structs.NodeInfo{Node: e.Node, PeerName: e.Peer, Address: fmt.Sprintf("10.0.0.%d", e.Pos+1)}
	for j, s := range e.Subs {
		ni.Services = append(ni.Services, zvNS(s, e.Pos*10+j, lv))
	}
	for j, c := range e.Chks {
		ni.Checks = append(ni.Checks, zvHC(e.Node, c, "d", e.Pos*10+j, lv))
	}
	return ni
}

func zvNodeDump(es []zvPE, lv *zvLeaves) structs.NodeDump {
	var out structs.NodeDump
	for _, e := range es {
		out = append(out, zvNodeInfo(e, lv))
	}
	return out
}

// documented: node first; inside a readable node, services need service:read and checks need
// service:read unless they are node level checks
func zvRefNodeDump(r zvRef, es []zvPE) (kept []zvPE, mask []bool, removed, nested bool) {
	mask = make([]bool, len(es))
	for i, e := range es {
		if !r.node(e.Node, e.Peer) {
			removed = true
			continue
		}
		mask[i] = true
		ne := e
		ne.Subs, ne.Chks = nil, nil
		// inner objects keep their original stamps: rebuild by filtering with holes preserved
		inner := false
		for j, s := range e.Subs {
			if r.svc(s.Svc, s.Peer) {
				s.Name = fmt.Sprint(j) // original inner index
				ne.Subs = append(ne.Subs, s)
			} else {
				inner = true
			}
		}
		for j, c := range e.Chks {
			if r.svcOrNone(c.Svc, c.Peer) {
				c.Name = fmt.Sprint(j)
				ne.Chks = append(ne.Chks, c)
			} else {
				inner = true
			}
		}
		if inner {
			removed, nested = true, true
		}
		kept = append(kept, ne)
	}
	return
}

// zvNodeInfoKept builds the expected NodeInfo: inner objects carry the stamp of their ORIGINAL index.
func zvNodeDumpKept(es []zvPE) structs.NodeDump {
	var out structs.NodeDump
	for _, e := range es {
		ni := &structs.NodeInfo{Node: e.Node, PeerName: e.Peer, Address: fmt.Sprintf("10.0.0.%d", e.Pos+1)}
		for _, s := range e.Subs {
			var j int
			fmt.Sscan(s.Name, &j)
			s.Name = ""
			ni.Services = append(ni.Services, zvNS(s, e.Pos*10+j, nil))
		}
		for _, c := range e.Chks {
			var j int
			fmt.Sscan(c.Name, &j)
			c.Name = ""
			ni.Checks = append(ni.Checks, zvHC(e.Node, c, "d", e.Pos*10+j, nil))
		}
		out = append(out, ni)
	}
	return out
}

func zvRandNodeInfo(rng *core.Rand) zvElem {
	peer := ""
	if rng.Chance(30) {
		peer = "peerA"
	}
	e := zvElem{Node: core.Pick(rng, zvUniverse["node"]), Peer: peer}
	if peer != "" {
		e.Slot = "imported"
	}
	svcs := []string{"web", "db", "api", "web-sidecar-proxy"}
	for i, n := 0, rng.Intn(5); i < n; i++ {
		e.Subs = append(e.Subs, zvElem{Svc: core.Pick(rng, svcs), Peer: peer})
	}
	for i, n := 0, rng.Intn(5); i < n; i++ {
		c := zvElem{Peer: peer}
		if rng.Chance(70) {
			c.Svc = core.Pick(rng, svcs)
		}
		e.Chks = append(e.Chks, c)
	}
	return e
}

// ---------------------------------------------------------------------------------------------
// node services (one node + its services)
// ---------------------------------------------------------------------------------------------

// arrangement: es[0] is the node marker (Kind "node", or Nil), the rest are services
func zvNodeSvcArrangements(svcAlpha []zvElem, maxLen int) [][]zvElem {
	var out [][]zvElem
	nodes := []zvElem{{Kind: "node", Node: "n1"}, {Kind: "node", Node: "n2"}, {Kind: "node", Node: "N1"}, {Kind: "node", Node: "n2", Peer: "peerA"}, {Kind: "node", Nil: true}}
	for _, n := range nodes {
		for _, seq := range zvSequences(svcAlpha, 0, maxLen) {
			if n.Nil && len(seq) > 0 {
				continue
			}
			arr := []zvElem{n}
			for _, s := range seq {
				s.Peer = n.Peer
				arr = append(arr, s)
			}
			out = append(out, arr)
		}
	}
	return out
}

func zvSvcID(e zvElem) string {
	if e.ID != "" {
		return e.ID
	}
	return e.Svc
}

// zvDedupeByID: NodeServices.Services is a map keyed by service ID: the last occurrence wins
func zvDedupeByID(es []zvPE) []zvPE {
	last := map[string]int{}
	for i, e := range es {
		last[zvSvcID(e.zvElem)] = i
	}
	var out []zvPE
	for i, e := range es {
		if last[zvSvcID(e.zvElem)] == i {
			out = append(out, e)
		}
	}
	return out
}

func zvBuildNodeServices(es []zvPE, flag bool, lv *zvLeaves) any {
	out := &structs.IndexedNodeServices{QueryMeta: zvMeta(flag)}
	if len(es) == 0 || es[0].Nil {
		return out
	}
	ns := &structs.NodeServices{Node: zvNode(es[0].zvElem, 0, lv), Services: map[string]*structs.NodeService{}}
	for _, e := range es[1:] {
		s := zvNS(e.zvElem, e.Pos, lv)
		ns.Services[s.ID] = s
	}
	out.NodeServices = ns
	return out
}

func zvExpectNodeServices(r zvRef, es []zvPE, byID bool) zvExpect {
	if len(es) == 0 || es[0].Nil {
		return zvExpect{subject: zvBuildNodeServices(nil, false, nil)}
	}
	n := es[0]
	if !r.node(n.Node, n.Peer) {
		return zvExpect{subject: zvBuildNodeServices(nil, true, nil), changed: true, mask: make([]bool, len(es)-1)}
	}
	svcs := zvDedupeByID(es[1:])
	kept, mask, removed := zvSelect(svcs, func(e zvElem) bool {
		if byID {
			return r.svcOrNone(zvSvcID(e), e.Peer)
		}
		return r.svc(e.Svc, e.Peer)
	})
	return zvExpect{subject: zvBuildNodeServices(append([]zvPE{n}, kept...), removed, nil), mask: mask, changed: removed, nested: removed}
}

func zvBuildNodeServiceList(es []zvPE, flag bool, lv *zvLeaves) any {
	out := &structs.IndexedNodeServiceList{QueryMeta: zvMeta(flag)}
	if len(es) == 0 || es[0].Nil {
		return out
	}
	out.NodeServices.Node = zvNode(es[0].zvElem, 0, lv)
	for _, e := range es[1:] {
		out.NodeServices.Services = append(out.NodeServices.Services, zvNS(e.zvElem, e.Pos, lv))
	}
	return out
}

// ---------------------------------------------------------------------------------------------
// ACL objects
// ---------------------------------------------------------------------------------------------

var zvACLAlpha = []zvElem{{Name: "o1", Token: "secret-1"}, {Name: "o2", Token: "secret-2"}}

// zvACLList: list of ACL objects: visible iff acl:read; secrets shown only with acl:write
func zvACLList[T any](name string, mk func(e zvPE, secret string) *T, wrap func([]*T) any, hasSecret bool) zvType {
	build := func(es []zvPE, redact bool, lv *zvLeaves) any {
		var out []*T
		for _, e := range es {
			s := e.Token
			if redact && hasSecret {
				s = zvHidden
			}
			o := mk(e, s)
			lv.add(o)
			out = append(out, o)
		}
		return wrap(out)
	}
	return zvType{name: name, usesACL: true, alpha: zvACLAlpha, maxLen: 5,
		build: func(es []zvPE, lv *zvLeaves) any { return build(es, false, lv) },
		expect: func(r zvRef, es []zvPE) zvExpect {
			if !r.aclRead() {
				return zvExpect{subject: build(nil, false, nil), mask: make([]bool, len(es)), changed: len(es) > 0}
			}
			mask := make([]bool, len(es))
			for i := range mask {
				mask[i] = true
			}
			red := !r.aclWrite() && hasSecret
			return zvExpect{subject: build(es, red, nil), mask: mask, changed: red && len(es) > 0, nested: red && len(es) > 0}
		}}
}

// zvACLOne: pointer to one ACL object (may be nil)
func zvACLOne[T any](name string, mk func(e zvPE, secret string) *T, hasSecret bool) zvType {
	build := func(es []zvPE, redact bool, lv *zvLeaves) any {
		var p *T
		if len(es) > 0 && !es[0].Nil {
			s := es[0].Token
			if redact && hasSecret {
				s = zvHidden
			}
			p = mk(es[0], s)
			lv.add(p)
		}
		return &p
	}
	return zvType{name: name, usesACL: true, alpha: []zvElem{zvACLAlpha[0], {Nil: true}}, minLen: 1, maxLen: 1,
		build: func(es []zvPE, lv *zvLeaves) any { return build(es, false, lv) },
		expect: func(r zvRef, es []zvPE) zvExpect {
			if len(es) == 0 || es[0].Nil {
				return zvExpect{subject: build(nil, false, nil)}
			}
			if !r.aclRead() {
				return zvExpect{subject: build(nil, false, nil), mask: []bool{false}, changed: true}
			}
			red := !r.aclWrite() && hasSecret
			return zvExpect{subject: build(es, red, nil), mask: []bool{true}, changed: red, nested: red}
		}}
}

func zvMkToken(e zvPE, secret string) *structs.ACLToken {
	return &structs.ACLToken{AccessorID: "acc-" + e.Name, SecretID: secret, Description: fmt.Sprint("pos", e.Pos),
		Policies: []structs.ACLTokenPolicyLink{{ID: "p1"}}, RaftIndex: zvIdx(e.Pos)}
}
func zvMkStub(e zvPE, secret string) *structs.ACLTokenListStub {
	return &structs.ACLTokenListStub{AccessorID: "acc-" + e.Name, SecretID: secret, Description: fmt.Sprint("pos", e.Pos),
		Policies: []structs.ACLTokenPolicyLink{{ID: "p1"}}, CreateIndex: uint64(e.Pos + 1)}
}
func zvMkPolicy(e zvPE, _ string) *structs.ACLPolicy {
	return &structs.ACLPolicy{ID: "pol-" + e.Name, Name: e.Name, Description: fmt.Sprint("pos", e.Pos), Rules: `key "x" { policy = "read" }`}
}
func zvMkRole(e zvPE, _ string) *structs.ACLRole {
	return &structs.ACLRole{ID: "role-" + e.Name, Name: e.Name, Description: fmt.Sprint("pos", e.Pos)}
}
func zvMkRule(e zvPE, _ string) *structs.ACLBindingRule {
	return &structs.ACLBindingRule{ID: "rule-" + e.Name, AuthMethod: "m", Description: fmt.Sprint("pos", e.Pos), BindType: "service", BindName: "x"}
}
func zvMkMethod(e zvPE, _ string) *structs.ACLAuthMethod {
	return &structs.ACLAuthMethod{Name: e.Name, Type: "jwt", Description: fmt.Sprint("pos", e.Pos)}
}

// ---------------------------------------------------------------------------------------------
// prepared queries
// ---------------------------------------------------------------------------------------------

func zvPQ(e zvPE, token string, lv *zvLeaves) *structs.PreparedQuery {
	q := &structs.PreparedQuery{ID: fmt.Sprintf("q-%d", e.Pos), Name: e.Name, Token: token, RaftIndex: zvIdx(e.Pos),
		Service: structs.ServiceQuery{Service: "web"}}
	q.Template.Type = e.Tmpl
	lv.add(q)
	return q
}

func zvPQs(es []zvPE, redact bool, flag bool, lv *zvLeaves) any {
	out := &structs.IndexedPreparedQueries{QueryMeta: zvMeta(flag)}
	for _, e := range es {
		tok := e.Token
		if redact && tok != "" {
			tok = zvHidden
		}
		out.Queries = append(out.Queries, zvPQ(e, tok, lv))
	}
	return out
}

// ---------------------------------------------------------------------------------------------
// the table
// ---------------------------------------------------------------------------------------------

func zvTypes() []zvType {
	csnAlpha := []zvElem{
		{Node: "n1", Svc: "web"},               // readable
		{Node: "n2", Svc: "web"},               // unreadable node + readable service
		{Node: "n1", Svc: "db"},                // readable node + unreadable service
		{Node: "n1x", Svc: "api"},              // readable
		{Node: "n2", Svc: "db", Peer: "peerA"}, // imported: readable under the peer's context only
	}
	csnSmall := csnAlpha[:3]
	csnImported := []zvElem{{Node: "n2", Svc: "db", Peer: "peerA"}, {Node: "n1", Svc: "web", Peer: "peerA"}}
	gsAlpha := []zvElem{{Gw: "gw", Svc: "web"}, {Gw: "gw", Svc: "db"}, {Gw: "gw2", Svc: "web"}, {Gw: "gw2", Svc: "db"}}

	multiLen := core.N(4, 5) // alphabets of 6 symbols (several lists in one response)

	var tys []zvType

	// --- check service nodes in their various wrappers
	tys = append(tys,
		zvFlat("*structs.CheckServiceNodes", csnAlpha, 5,
			func(es []zvPE, _ bool, lv *zvLeaves) any { v := zvCSNs(es, lv); return &v },
			func(r zvRef, e zvElem) bool { return r.csn(e) }),
		zvFlat("*structs.IndexedCheckServiceNodes", csnAlpha, 5,
			func(es []zvPE, flag bool, lv *zvLeaves) any {
				return &structs.IndexedCheckServiceNodes{Nodes: zvCSNs(es, lv), QueryMeta: zvMeta(flag)}
			},
			func(r zvRef, e zvElem) bool { return r.csn(e) }),
		zvFlat("*structs.PreparedQueryExecuteResponse", csnAlpha, 5,
			func(es []zvPE, flag bool, lv *zvLeaves) any {
				return &structs.PreparedQueryExecuteResponse{Service: "web", Datacenter: "dc1", Failovers: 1, Nodes: zvCSNs(es, lv), QueryMeta: zvMeta(flag)}
			},
			func(r zvRef, e zvElem) bool { return r.csn(e) }),
		zvFlat("*structs.IndexedServiceTopology", zvWithSlots(csnSmall, "up", "down"), multiLen,
			func(es []zvPE, flag bool, lv *zvLeaves) any {
				return &structs.IndexedServiceTopology{FilteredByACLs: flag, QueryMeta: zvMeta(flag),
					ServiceTopology: &structs.ServiceTopology{Upstreams: zvCSNs(zvSlot(es, "up"), lv), Downstreams: zvCSNs(zvSlot(es, "down"), lv), MetricsProtocol: "http"}}
			},
			func(r zvRef, e zvElem) bool { return r.csn(e) }),
		zvFlat("*structs.DatacenterIndexedCheckServiceNodes", zvWithSlots(csnSmall, "dc1", "dc2"), multiLen,
			func(es []zvPE, flag bool, lv *zvLeaves) any {
				m := map[string]structs.CheckServiceNodes{}
				for _, dc := range []string{"dc1", "dc2"} {
					// a datacenter without (remaining) nodes is not part of the response
					if l := zvCSNs(zvSlot(es, dc), lv); len(l) > 0 {
						m[dc] = l
					}
				}
				return &structs.DatacenterIndexedCheckServiceNodes{DatacenterNodes: m, QueryMeta: zvMeta(flag)}
			},
			func(r zvRef, e zvElem) bool { return r.csn(e) }),
	)
	nwgAlpha := append(zvWithSlots(csnSmall[:2], "nodes"), zvWithSlots(gsAlpha[:2], "gateways")...)
	nwgAlpha = append(nwgAlpha, zvWithSlots(csnImported, "imported")...)
	tys = append(tys, zvFlat("*structs.IndexedNodesWithGateways", nwgAlpha, multiLen,
		func(es []zvPE, flag bool, lv *zvLeaves) any {
			return &structs.IndexedNodesWithGateways{Nodes: zvCSNs(zvSlot(es, "nodes"), lv), ImportedNodes: zvCSNs(zvSlot(es, "imported"), lv),
				Gateways: zvGSs(zvSlot(es, "gateways"), lv), QueryMeta: zvMeta(flag)}
		},
		func(r zvRef, e zvElem) bool {
			if e.Slot == "gateways" {
				return r.svc(e.Svc, "") // the endpoint has already required read on the gateway itself
			}
			return r.csn(e)
		}))

	// --- plain lists
	tys = append(tys,
		zvFlat("*structs.IndexedCoordinates", []zvElem{{Node: "n1"}, {Node: "n2"}, {Node: "N1"}, {Node: "n1x"}}, 5,
			func(es []zvPE, flag bool, lv *zvLeaves) any {
				out := &structs.IndexedCoordinates{QueryMeta: zvMeta(flag)}
				for _, e := range es {
					c := &structs.Coordinate{Node: e.Node, Segment: fmt.Sprint("seg", e.Pos)}
					lv.add(c)
					out.Coordinates = append(out.Coordinates, c)
				}
				return out
			},
			func(r zvRef, e zvElem) bool { return r.node(e.Node, "") }),
		zvFlat("*structs.IndexedHealthChecks", []zvElem{{Node: "n1"}, {Node: "n1", Svc: "web"}, {Node: "n1", Svc: "db"}, {Node: "n2", Svc: "web"}, {Node: "n2", Svc: "db", Peer: "peerA"}}, 5,
			func(es []zvPE, flag bool, lv *zvLeaves) any {
				out := &structs.IndexedHealthChecks{QueryMeta: zvMeta(flag)}
				for _, e := range es {
					out.HealthChecks = append(out.HealthChecks, zvHC(e.Node, e.zvElem, "h", e.Pos, lv))
				}
				return out
			},
			func(r zvRef, e zvElem) bool { return r.node(e.Node, e.Peer) && r.svcOrNone(e.Svc, e.Peer) }),
		zvFlat("*structs.IndexedNodes", []zvElem{{Node: "n1"}, {Node: "n2"}, {Node: "n1x"}, {Node: "n2", Peer: "peerA"}, {Node: "n1", Peer: "peerA"}}, 5,
			func(es []zvPE, flag bool, lv *zvLeaves) any {
				out := &structs.IndexedNodes{QueryMeta: zvMeta(flag)}
				for _, e := range es {
					out.Nodes = append(out.Nodes, zvNode(e.zvElem, e.Pos, lv))
				}
				return out
			},
			func(r zvRef, e zvElem) bool { return r.node(e.Node, e.Peer) }),
		zvFlat("*structs.IndexedServiceNodes", csnAlpha, 5,
			func(es []zvPE, flag bool, lv *zvLeaves) any {
				out := &structs.IndexedServiceNodes{QueryMeta: zvMeta(flag)}
				for _, e := range es {
					sn := &structs.ServiceNode{Node: e.Node, Address: fmt.Sprintf("10.0.0.%d", e.Pos+1), ServiceID: e.Svc, ServiceName: e.Svc, PeerName: e.Peer, RaftIndex: zvIdx(e.Pos)}
					lv.add(sn)
					out.ServiceNodes = append(out.ServiceNodes, sn)
				}
				return out
			},
			func(r zvRef, e zvElem) bool { return r.csn(e) }),
		zvFlat("*structs.IndexedSessions", []zvElem{{Node: "n1"}, {Node: "n2"}, {Node: "N1"}, {Node: "n1x"}}, 5,
			func(es []zvPE, flag bool, lv *zvLeaves) any {
				out := &structs.IndexedSessions{QueryMeta: zvMeta(flag)}
				for _, e := range es {
					s := &structs.Session{ID: fmt.Sprintf("sess-%d", e.Pos), Node: e.Node, RaftIndex: zvIdx(e.Pos)}
					lv.add(s)
					out.Sessions = append(out.Sessions, s)
				}
				return out
			},
			func(r zvRef, e zvElem) bool { return r.session(e.Node) }),
		zvFlat("*structs.IndexedServices", []zvElem{{Svc: "web"}, {Svc: "db"}, {Svc: "api"}, {Svc: "web-sidecar-proxy"}}, 5,
			func(es []zvPE, flag bool, lv *zvLeaves) any {
				out := &structs.IndexedServices{Services: structs.Services{}, QueryMeta: zvMeta(flag)}
				for _, e := range es {
					out.Services[e.Svc] = []string{"tag"}
				}
				return out
			},
			func(r zvRef, e zvElem) bool { return r.svc(e.Svc, "") }),
		zvFlat("*structs.IndexedServiceList", []zvElem{{Svc: "web"}, {Svc: "db"}, {Svc: "api"}, {Svc: "web-sidecar-proxy"}}, 5,
			func(es []zvPE, flag bool, lv *zvLeaves) any {
				out := &structs.IndexedServiceList{QueryMeta: zvMeta(flag)}
				for _, e := range es {
					out.Services = append(out.Services, structs.NewServiceName(e.Svc, nil))
				}
				return out
			},
			func(r zvRef, e zvElem) bool { return r.svc(e.Svc, "") }),
		zvFlat("*structs.IndexedExportedServiceList", zvWithSlots([]zvElem{{Svc: "web"}, {Svc: "db"}}, "peerA", "peerB"), 5,
			func(es []zvPE, flag bool, lv *zvLeaves) any { return zvExportedList(es, flag) },
			func(r zvRef, e zvElem) bool { return r.svc(e.Svc, "") }).withAlt(func(r zvRef, es []zvPE, got string) string {
			// specific defect class: content right, flag lost although something was removed, and the
			// response spans two peers one of which lost nothing (the flag of the last visited peer wins)
			kept, _, removed := zvSelect(es, func(e zvElem) bool { return r.svc(e.Svc, "") })
			if !removed {
				return ""
			}
			if got != zvRender(zvExportedList(kept, false)) {
				return ""
			}
			for _, p := range []string{"peerA", "peerB"} {
				if a, k := len(zvSlot(es, p)), len(zvSlot(kept, p)); a > 0 && a == k {
					return "flag-overwritten-per-peer"
				}
			}
			return ""
		}),
		zvFlat("*structs.IndexedGatewayServices", gsAlpha, 5,
			func(es []zvPE, flag bool, lv *zvLeaves) any {
				return &structs.IndexedGatewayServices{Services: zvGSs(es, lv), QueryMeta: zvMeta(flag)}
			},
			// documented in filterGatewayServices: read on the gateway is required by the endpoint beforehand
			func(r zvRef, e zvElem) bool { return r.svc(e.Svc, "") }),
		zvFlat("*structs.IndexedIntentions", []zvElem{{Src: "web", Dst: "db"}, {Src: "db", Dst: "db"}, {Src: "db", Dst: "web"}, {Src: "web", SrcPeer: "peerA", Dst: "db"}, {Src: "api", Dst: "*"}}, 5,
			func(es []zvPE, flag bool, lv *zvLeaves) any {
				out := &structs.IndexedIntentions{QueryMeta: zvMeta(flag)}
				for _, e := range es {
					x := &structs.Intention{ID: fmt.Sprintf("ixn-%d", e.Pos), SourceNS: "default", DestinationNS: "default", SourceName: e.Src, DestinationName: e.Dst,
						SourcePeer: e.SrcPeer, Action: structs.IntentionActionAllow, Precedence: e.Pos, RaftIndex: zvIdx(e.Pos)}
					lv.add(x)
					out.Intentions = append(out.Intentions, x)
				}
				return out
			},
			// documented: read on either end; a source that lives in a peer cannot be authorized locally
			func(r zvRef, e zvElem) bool {
				return (e.Src != "" && e.SrcPeer == "" && r.intention(e.Src)) || (e.Dst != "" && r.intention(e.Dst))
			}),
		zvFlat("*structs.IndexedServiceDump", []zvElem{{Gw: "gw", Svc: "web", Node: "n1"}, {Gw: "gw", Svc: "db", Node: "n1"}, {Gw: "gw2", Svc: "web", Node: "n1"},
			{Gw: "gw", Svc: "web", Node: "n2"}, {Gw: "gw", Svc: "web", NoNode: true}, {Gw: "gw", Svc: "db", NoNode: true}}, multiLen,
			func(es []zvPE, flag bool, lv *zvLeaves) any {
				out := &structs.IndexedServiceDump{QueryMeta: zvMeta(flag)}
				for _, e := range es {
					si := &structs.ServiceInfo{GatewayService: zvGS(e, lv)}
					if !e.NoNode {
						si.Node = zvNode(e.zvElem, e.Pos, lv)
						si.Service = zvNS(zvElem{Svc: e.Gw, Peer: e.Peer}, e.Pos, lv) // the gateway instance
						si.Checks = structs.HealthChecks{zvHC(e.Node, zvElem{Svc: e.Gw}, "g", e.Pos, lv)}
					}
					out.Dump = append(out.Dump, si)
				}
				return out
			},
			// documented: gateway AND linked service readable; the node too when node information is present
			func(r zvRef, e zvElem) bool {
				return r.svcOrNone(e.Gw, "") && r.svcOrNone(e.Svc, "") && (e.NoNode || r.node(e.Node, e.Peer))
			}),
	)

	// --- intention match (request side): all or nothing
	{
		mk := func(es []zvPE, lv *zvLeaves) any {
			out := &structs.IntentionQueryMatch{Type: structs.IntentionMatchDestination}
			for _, e := range es {
				out.Entries = append(out.Entries, structs.IntentionMatchEntry{Namespace: "default", Name: e.Name})
			}
			return out
		}
		tys = append(tys, zvType{name: "*structs.IntentionQueryMatch", alpha: []zvElem{{Name: "web"}, {Name: "db"}, {Name: ""}, {Name: "api"}}, maxLen: 5,
			build: mk,
			expect: func(r zvRef, es []zvPE) zvExpect {
				for _, e := range es {
					if e.Name != "" && !r.intention(e.Name) {
						return zvExpect{subject: mk(nil, nil), mask: make([]bool, len(es)), changed: true}
					}
				}
				mask := make([]bool, len(es))
				for i := range mask {
					mask[i] = true
				}
				return zvExpect{subject: mk(es, nil), mask: mask}
			}})
	}

	// --- node dump (nested)
	{
		mk := func(es []zvPE, flag bool, lv *zvLeaves) any {
			return &structs.IndexedNodeDump{Dump: zvNodeDump(zvSlot(es, ""), lv), ImportedDump: zvNodeDump(zvSlot(es, "imported"), lv), QueryMeta: zvMeta(flag)}
		}
		alpha := []zvElem{
			{Node: "n1", Subs: zvSvcs("", "web", "db"), Chks: zvSvcs("", "", "db")},
			{Node: "n1", Subs: zvSvcs("", "db", "db", "web"), Chks: zvSvcs("", "db", "", "db")},
			{Node: "n2", Subs: zvSvcs("", "web"), Chks: zvSvcs("", "", "web")}, // unreadable node + readable service
			{Node: "n1x"},
			{Slot: "imported", Node: "n2", Peer: "peerA", Subs: zvSvcs("peerA", "db", "web"), Chks: zvSvcs("peerA", "", "web", "db")},
			{Slot: "imported", Node: "n1", Peer: "peerA", Subs: zvSvcs("peerA", "db")},
		}
		tys = append(tys, zvType{name: "*structs.IndexedNodeDump", alpha: alpha, maxLen: 4,
			build: func(es []zvPE, lv *zvLeaves) any { return mk(es, false, lv) },
			expect: func(r zvRef, es []zvPE) zvExpect {
				kept, mask, removed, nested := zvRefNodeDump(r, es)
				return zvExpect{subject: &structs.IndexedNodeDump{Dump: zvNodeDumpKept(zvSlot(kept, "")), ImportedDump: zvNodeDumpKept(zvSlot(kept, "imported")), QueryMeta: zvMeta(removed)},
					mask: mask, changed: removed, nested: nested}
			},
			extra: func(rng *core.Rand) [][]zvElem {
				var out [][]zvElem
				// every inner pattern of <= 3 services / checks on a single readable node
				inner := zvSequences([]zvElem{{Svc: "web"}, {Svc: "db"}, {}}, 0, 3)
				for _, s := range inner {
					ok := true
					for _, x := range s {
						if x.Svc == "" {
							ok = false // a service always has a name
						}
					}
					for _, c := range inner {
						if ok {
							out = append(out, []zvElem{{Node: "n1", Subs: s, Chks: c}})
						}
					}
				}
				for i, n := 0, core.N(1500, 1500); i < n; i++ {
					var arr []zvElem
					for j, m := 0, 1+rng.Intn(4); j < m; j++ {
						arr = append(arr, zvRandNodeInfo(rng))
					}
					out = append(out, arr)
				}
				return out
			}})
	}

	// --- node services (map keyed by service id) and node service list
	{
		svcAlpha := []zvElem{{ID: "web", Svc: "web"}, {ID: "db", Svc: "db"}, {ID: "web", Svc: "db"}, {ID: "db", Svc: "web"}, {ID: "api-1", Svc: "api"}}
		tys = append(tys, zvType{name: "*structs.IndexedNodeServices", minLen: 1, maxLen: 0,
			extra:  func(*core.Rand) [][]zvElem { return zvNodeSvcArrangements(svcAlpha, 4) },
			build:  func(es []zvPE, lv *zvLeaves) any { return zvBuildNodeServices(es, false, lv) },
			expect: func(r zvRef, es []zvPE) zvExpect { return zvExpectNodeServices(r, es, false) },
			alt: func(r zvRef, es []zvPE, got string) string {
				if got == zvRender(zvExpectNodeServices(r, es, true).subject) {
					return "service-id-authorized-instead-of-name"
				}
				return ""
			}})
		tys = append(tys, zvType{name: "*structs.IndexedNodeServiceList", minLen: 1, maxLen: 0,
			extra: func(*core.Rand) [][]zvElem { return zvNodeSvcArrangements(svcAlpha, 4) },
			build: func(es []zvPE, lv *zvLeaves) any { return zvBuildNodeServiceList(es, false, lv) },
			expect: func(r zvRef, es []zvPE) zvExpect {
				if len(es) == 0 || es[0].Nil {
					return zvExpect{subject: zvBuildNodeServiceList(nil, false, nil)}
				}
				n := es[0]
				if !r.node(n.Node, n.Peer) {
					return zvExpect{subject: zvBuildNodeServiceList(nil, true, nil), changed: true, mask: make([]bool, len(es)-1)}
				}
				kept, mask, removed := zvSelect(es[1:], func(e zvElem) bool { return r.svc(e.Svc, e.Peer) })
				return zvExpect{subject: zvBuildNodeServiceList(append([]zvPE{n}, kept...), removed, nil), mask: mask, changed: removed, nested: removed}
			}})
	}

	// --- prepared queries
	{
		pqAlpha := []zvElem{{Name: "q-web", Token: "captured"}, {Name: "q-db", Token: "captured"}, {Name: "", Tmpl: ""}, {Name: "", Tmpl: "name_prefix_match", Token: "captured"}, {Name: "q-web"}}
		tys = append(tys, zvType{name: "*structs.IndexedPreparedQueries", usesACL: true, alpha: pqAlpha, maxLen: 5,
			build: func(es []zvPE, lv *zvLeaves) any { return zvPQs(es, false, false, lv) },
			expect: func(r zvRef, es []zvPE) zvExpect {
				mask := make([]bool, len(es))
				if r.aclWrite() { // management: sees everything, unredacted
					for i := range mask {
						mask[i] = true
					}
					return zvExpect{subject: zvPQs(es, false, false, nil), mask: mask}
				}
				var kept []zvPE
				flag, changed, red := false, false, false
				for i, e := range es {
					named := e.Name != "" || e.Tmpl != ""
					switch {
					case !named: // only management tokens may enumerate unnamed queries; not reported
						changed = true
					case !r.query(e.Name):
						changed, flag = true, true
					default:
						mask[i] = true
						kept = append(kept, e)
						if e.Token != "" {
							changed, red = true, true
						}
					}
				}
				return zvExpect{subject: zvPQs(kept, true, flag, nil), mask: mask, changed: changed, nested: red}
			}})
		one := func(es []zvPE, redact bool, lv *zvLeaves) any {
			var q *structs.PreparedQuery
			if len(es) > 0 {
				tok := es[0].Token
				if redact && tok != "" {
					tok = zvHidden
				}
				q = zvPQ(es[0], tok, lv)
			}
			return &q
		}
		tys = append(tys, zvType{name: "**structs.PreparedQuery", usesACL: true, alpha: pqAlpha, minLen: 1, maxLen: 1,
			build: func(es []zvPE, lv *zvLeaves) any { return one(es, false, lv) },
			expect: func(r zvRef, es []zvPE) zvExpect {
				red := !r.aclWrite()
				ch := red && len(es) > 0 && es[0].Token != ""
				return zvExpect{subject: one(es, red, nil), mask: []bool{true}, changed: ch, nested: ch}
			}})
	}

	// --- ACL objects
	tys = append(tys,
		zvACLList("*structs.ACLTokens", zvMkToken, func(l []*structs.ACLToken) any { v := structs.ACLTokens(l); return &v }, true),
		zvACLOne("**structs.ACLToken", zvMkToken, true),
		zvACLList("*[]*structs.ACLTokenListStub", zvMkStub, func(l []*structs.ACLTokenListStub) any { return &l }, true),
		zvACLOne("**structs.ACLTokenListStub", zvMkStub, true),
		zvACLList("*structs.ACLPolicies", zvMkPolicy, func(l []*structs.ACLPolicy) any { v := structs.ACLPolicies(l); return &v }, false),
		zvACLOne("**structs.ACLPolicy", zvMkPolicy, false),
		zvACLList("*structs.ACLRoles", zvMkRole, func(l []*structs.ACLRole) any { v := structs.ACLRoles(l); return &v }, false),
		zvACLOne("**structs.ACLRole", zvMkRole, false),
		zvACLList("*structs.ACLBindingRules", zvMkRule, func(l []*structs.ACLBindingRule) any { v := structs.ACLBindingRules(l); return &v }, false),
		zvACLOne("**structs.ACLBindingRule", zvMkRule, false),
		zvACLList("*structs.ACLAuthMethods", zvMkMethod, func(l []*structs.ACLAuthMethod) any { v := structs.ACLAuthMethods(l); return &v }, false),
		zvACLOne("**structs.ACLAuthMethod", zvMkMethod, false),
	)

	// --- KV entries and transaction results (agent/consul/filter.go)
	{
		ty := zvFlat("FilterDirEnt", []zvElem{{Key: "a"}, {Key: "a/"}, {Key: "a/b"}, {Key: "ab"}, {Key: "A"}}, 5,
			func(es []zvPE, _ bool, lv *zvLeaves) any {
				var out structs.DirEntries
				for _, e := range es {
					d := &structs.DirEntry{Key: e.Key, Value: []byte(fmt.Sprint("v", e.Pos)), RaftIndex: zvIdx(e.Pos)}
					lv.add(d)
					out = append(out, d)
				}
				return &out
			},
			func(r zvRef, e zvElem) bool { return r.key(e.Key) })
		ty.apply = func(az acl.Authorizer, subject any) any {
			out := FilterDirEnt(az, *subject.(*structs.DirEntries))
			return &out
		}
		tys = append(tys, ty)

		txAlpha := []zvElem{{Kind: "kv", Key: "a"}, {Kind: "kv", Key: "a/b"}, {Kind: "node", Node: "n1"}, {Kind: "node", Node: "n2"},
			{Kind: "service", Svc: "web"}, {Kind: "service", Svc: "db"}, {Kind: "check", Node: "n1"}, {Kind: "check", Node: "n2", Svc: "web"}, {Kind: "check", Node: "n1", Svc: "db"}}
		tx := zvFlat("FilterTxnResults", txAlpha, 4,
			func(es []zvPE, _ bool, lv *zvLeaves) any {
				var out structs.TxnResults
				for _, e := range es {
					res := &structs.TxnResult{}
					switch e.Kind {
					case "kv":
						d := &structs.DirEntry{Key: e.Key, Value: []byte(fmt.Sprint("v", e.Pos)), RaftIndex: zvIdx(e.Pos)}
						lv.add(d)
						res.KV = d
					case "node":
						res.Node = zvNode(e.zvElem, e.Pos, lv)
					case "service":
						res.Service = zvNS(e.zvElem, e.Pos, lv)
					case "check":
						res.Check = zvHC(e.Node, e.zvElem, "t", e.Pos, lv)
					}
					out = append(out, res)
				}
				return &out
			},
			func(r zvRef, e zvElem) bool {
				switch e.Kind {
				case "kv":
					return r.key(e.Key)
				case "node":
					return r.node(e.Node, e.Peer)
				case "service":
					return r.svc(e.Svc, e.Peer)
				default: // check: service checks need service:read, node checks node:read
					if e.Svc != "" {
						return r.svc(e.Svc, e.Peer)
					}
					return r.node(e.Node, e.Peer)
				}
			})
		tx.apply = func(az acl.Authorizer, subject any) any {
			out := FilterTxnResults(az, *subject.(*structs.TxnResults))
			return &out
		}
		tys = append(tys, tx)
	}
	return tys
}
