//go:build verif

package consul

import (
	"context"
	"errors"
	"fmt"
	"sync"
	"time"

	"github.com/hashicorp/go-hclog"

	"github.com/hashicorp/consul/acl"
	"github.com/hashicorp/consul/agent/structs"
	"github.com/hashicorp/consul/zzverif/core"
)

// Expiry monitor: a REAL ACLResolver over a fake backend that hands out exactly what is stored —
// including tokens whose ExpirationTime has passed but which were not reaped yet. The resolver must
// never turn such a token into an authorizer derived from the token's policies / roles / identities.

const (
	zvPolID  = "11111111-2222-3333-4444-555555555555"
	zvRoleID = "66666666-7777-8888-9999-aaaaaaaaaaaa"
)

var zvErrRPC = errors.New("zv: induced RPC failure")

type zvBackend struct {
	mu            sync.Mutex
	localTokens   bool
	localPolicies bool
	tokens        map[string]*structs.ACLToken
	policies      map[string]*structs.ACLPolicy
	roles         map[string]*structs.ACLRole
	failToken     bool
	failOther     bool
}

func (b *zvBackend) ACLDatacenter() string { return "dc1" }

func (b *zvBackend) IsServerManagementToken(string) bool { return false }

func (b *zvBackend) ResolveIdentityFromToken(token string) (bool, structs.ACLIdentity, error) {
	if !b.localTokens {
		return false, nil, nil
	}
	b.mu.Lock()
	defer b.mu.Unlock()
	if t := b.tokens[token]; t != nil {
		return true, t, nil
	}
	return true, nil, acl.ErrNotFound
}

func (b *zvBackend) ResolvePolicyFromID(id string) (bool, *structs.ACLPolicy, error) {
	if !b.localPolicies {
		return false, nil, nil
	}
	b.mu.Lock()
	defer b.mu.Unlock()
	if p := b.policies[id]; p != nil {
		return true, p, nil
	}
	return true, nil, acl.ErrNotFound
}

func (b *zvBackend) ResolveRoleFromID(id string) (bool, *structs.ACLRole, error) {
	if !b.localPolicies {
		return false, nil, nil
	}
	b.mu.Lock()
	defer b.mu.Unlock()
	if r := b.roles[id]; r != nil {
		return true, r, nil
	}
	return true, nil, acl.ErrNotFound
}

func (b *zvBackend) RPC(_ context.Context, method string, args interface{}, reply interface{}) error {
	b.mu.Lock()
	defer b.mu.Unlock()
	switch method {
	case "ACL.TokenRead":
		if b.failToken {
			return zvErrRPC
		}
		req, resp := args.(*structs.ACLTokenGetRequest), reply.(*structs.ACLTokenResponse)
		resp.SourceDatacenter = "dc1"
		if t := b.tokens[req.TokenID]; t != nil {
			resp.Token = t
		}
		return nil
	case "ACL.PolicyResolve":
		if b.failOther {
			return zvErrRPC
		}
		req, resp := args.(*structs.ACLPolicyBatchGetRequest), reply.(*structs.ACLPolicyBatchResponse)
		for _, id := range req.PolicyIDs {
			if p := b.policies[id]; p != nil {
				resp.Policies = append(resp.Policies, p)
			}
		}
		return nil
	case "ACL.RoleResolve":
		if b.failOther {
			return zvErrRPC
		}
		req, resp := args.(*structs.ACLRoleBatchGetRequest), reply.(*structs.ACLRoleBatchResponse)
		for _, id := range req.RoleIDs {
			if r := b.roles[id]; r != nil {
				resp.Roles = append(resp.Roles, r)
			}
		}
		return nil
	}
	return fmt.Errorf("zv: unexpected RPC %s", method)
}

func (b *zvBackend) setRPC(state string) {
	b.mu.Lock()
	b.failToken = state == "fail-token" || state == "fail-all"
	b.failOther = state == "fail-policy" || state == "fail-all"
	b.mu.Unlock()
}

func (b *zvBackend) put(t *structs.ACLToken) {
	b.mu.Lock()
	b.tokens[t.SecretID] = t
	b.mu.Unlock()
}

type zvExpCase struct {
	Expiry      string `json:"expiry"` // -1h | -1s | +1h | none | realtime
	Via         string `json:"via"`    // policy | role | identity
	TokenLocal  bool   `json:"token_local"`
	PolicyLocal bool   `json:"policy_local"`
	Down        string `json:"down_policy"`
	Default     string `json:"default_policy"`
	TTL         string `json:"cache_ttl"` // 0 | 30s
	RPC         string `json:"rpc"`       // state of the fake RPC during the judged resolution
	State       string `json:"state"`     // cold | warm | swap | realtime
}

func zvMkTok(secret string, exp *time.Time, via string, local bool) *structs.ACLToken {
	t := &structs.ACLToken{AccessorID: "acc-" + secret, SecretID: secret, Description: "zv", Local: false,
		ExpirationTime: exp, CreateTime: time.Now().Add(-2 * time.Hour), RaftIndex: structs.RaftIndex{CreateIndex: 5, ModifyIndex: 5}}
	switch via {
	case "policy":
		t.Policies = []structs.ACLTokenPolicyLink{{ID: zvPolID}}
	case "role":
		t.Roles = []structs.ACLTokenRoleLink{{ID: zvRoleID}}
	case "identity":
		t.ServiceIdentities = []*structs.ACLServiceIdentity{{ServiceName: "zvsvc"}}
	}
	return t
}

func zvNewBackend(c zvExpCase) *zvBackend {
	b := &zvBackend{localTokens: c.TokenLocal, localPolicies: c.PolicyLocal,
		tokens: map[string]*structs.ACLToken{}, policies: map[string]*structs.ACLPolicy{}, roles: map[string]*structs.ACLRole{}}
	b.policies[zvPolID] = &structs.ACLPolicy{ID: zvPolID, Name: "zv-pol", Rules: `key "zv-allow" { policy = "write" } key "zv-deny" { policy = "deny" }`,
		RaftIndex: structs.RaftIndex{CreateIndex: 3, ModifyIndex: 3}}
	b.roles[zvRoleID] = &structs.ACLRole{ID: zvRoleID, Name: "zv-role", Policies: []structs.ACLRolePolicyLink{{ID: zvPolID}},
		RaftIndex: structs.RaftIndex{CreateIndex: 4, ModifyIndex: 4}}
	return b
}

func zvNewResolver(b *zvBackend, c zvExpCase) (*ACLResolver, error) {
	ttl := time.Duration(0)
	if c.TTL == "30s" {
		ttl = 30 * time.Second
	}
	return NewACLResolver(&ACLResolverConfig{
		Config: ACLResolverSettings{ACLsEnabled: true, Datacenter: "dc1", NodeName: "zvnode",
			ACLPolicyTTL: ttl, ACLTokenTTL: ttl, ACLRoleTTL: ttl, ACLDownPolicy: c.Down, ACLDefaultPolicy: c.Default},
		Logger:      hclog.NewNullLogger(),
		CacheConfig: &structs.ACLCachesConfig{Identities: 16, Policies: 16, ParsedPolicies: 16, Authorizers: 16, Roles: 16},
		Backend:     b,
	})
}

// zvClassify describes an authorizer by a probe vector: "derived" (carries the grants of the token's
// policy / role / service identity), "uniform-allow", "uniform-deny" or "other:<vector>".
func zvClassify(az acl.Authorizer, via string) string {
	if az == nil {
		return "nil"
	}
	probes := []acl.EnforcementDecision{
		az.KeyWrite("zv-allow", nil), az.KeyWrite("zv-deny", nil),
		az.ServiceWrite("zvsvc", nil), az.ServiceWrite("zz-other", nil),
		az.NodeWrite("zz-node", nil), az.KeyRead("zz-key", nil),
	}
	derived := false
	if via == "identity" {
		derived = probes[2] == acl.Allow && probes[3] == acl.Deny
	} else {
		derived = probes[0] == acl.Allow && probes[1] == acl.Deny
	}
	if derived {
		return "derived"
	}
	same := true
	for _, p := range probes {
		if p != probes[0] {
			same = false
		}
	}
	if same && probes[0] == acl.Allow {
		return "uniform-allow"
	}
	if same && probes[0] == acl.Deny {
		return "uniform-deny"
	}
	return fmt.Sprintf("other:%v", probes)
}

// zvDownClass: what the documented down policy yields when the token cannot be fetched.
func zvDownClass(c zvExpCase) string {
	switch c.Down {
	case "allow":
		return "uniform-allow"
	case "deny":
		return "uniform-deny"
	}
	return "uniform-" + c.Default // extend-cache / async-cache with nothing usable cached: the default policy
}

type zvOutcome struct {
	Err   string `json:"err,omitempty"`
	Class string `json:"authorizer,omitempty"`
	NotFd bool   `json:"not_found,omitempty"`
}

func zvResolve(r *ACLResolver, secret, via string) (out zvOutcome) {
	res, err := r.ResolveToken(secret)
	if err != nil {
		out.Err = err.Error()
		out.NotFd = acl.IsErrNotFound(err)
		if res.Authorizer != nil {
			out.Class = zvClassify(res.Authorizer, via)
		}
		return
	}
	out.Class = zvClassify(res.Authorizer, via)
	return
}

// zvJudgeExpired: the stored token's expiration time lies before the resolution.
func zvJudgeExpired(run *core.Run, c zvExpCase, o zvOutcome, hist []any) {
	run.Distinct("expiry-outcomes", fmt.Sprintf("expired/%s/%s/notfound=%v/%s", c.State, c.RPC, o.NotFd, o.Class))
	if o.Class == "" {
		// refused. With the token fetch possible the refusal is "ACL not found".
		if o.NotFd {
			run.Count("expired_refused_not_found")
		} else {
			run.Count("expired_refused_other_error")
		}
		return
	}
	tokenFetchFailing := !c.TokenLocal && (c.RPC == "fail-token" || c.RPC == "fail-all")
	if tokenFetchFailing && o.Class == zvDownClass(c) {
		run.Count("expired_down_policy_applied")
		return
	}
	key := fmt.Sprintf("C09:expiry:%s:%s-token:expired-token-authorized:%s", c.State, map[bool]string{true: "local", false: "remote"}[c.TokenLocal], o.Class)
	run.Violation(key, fmt.Sprintf("ResolveToken returned an authorizer (%s) for a token whose ExpirationTime had passed; case %s", o.Class, core.JSON(c)),
		map[string]any{"case": c, "outcome": o, "steps": hist})
}

func zvExpiryTime(kind string, now time.Time) *time.Time {
	var t time.Time
	switch kind {
	case "-1h":
		t = now.Add(-time.Hour)
	case "-1s":
		t = now.Add(-time.Second)
	case "+1h":
		t = now.Add(time.Hour)
	default:
		return nil
	}
	return &t
}

func zvExpiry(run *core.Run, rng *core.Rand) {
	_ = rng
	downs := []string{"allow", "deny", "extend-cache", "async-cache"}
	defaults := []string{"deny", "allow"}
	vias := []string{"policy", "role", "identity"}
	rpcs := []string{"ok", "fail-token", "fail-policy", "fail-all"}
	bools := []bool{true, false}
	n := 0

	// ---------------- cold / warm / swap: expiry far away from "now" in either direction
	for _, exp := range []string{"-1h", "-1s", "+1h", "none"} {
		for _, via := range vias {
			for _, tl := range bools {
				for _, pl := range bools {
					for _, down := range downs {
						for _, def := range defaults {
							for _, ttl := range []string{"0", "30s"} {
								for _, rpc := range rpcs {
									for _, state := range []string{"cold", "warm", "swap"} {
										c := zvExpCase{Expiry: exp, Via: via, TokenLocal: tl, PolicyLocal: pl, Down: down, Default: def, TTL: ttl, RPC: rpc, State: state}
										n++
										zvExpiryCase(run, c, n)
										if run.Violations() > 30 {
											return
										}
									}
								}
							}
						}
					}
				}
			}
		}
	}

	// ---------------- real time: the token expires while it is cached
	type rt struct {
		c      zvExpCase
		b      *zvBackend
		r      *ACLResolver
		secret string
		warm   zvOutcome
	}
	var rts []*rt
	start := time.Now()
	exp := start.Add(3 * time.Second)
	for _, via := range vias {
		for _, tl := range bools {
			for _, pl := range bools {
				for _, down := range downs {
					for _, def := range defaults {
						for _, ttl := range []string{"0", "30s"} {
							for _, rpc := range rpcs {
								c := zvExpCase{Expiry: "realtime", Via: via, TokenLocal: tl, PolicyLocal: pl, Down: down, Default: def, TTL: ttl, RPC: rpc, State: "realtime"}
								b := zvNewBackend(c)
								r, err := zvNewResolver(b, c)
								if err != nil {
									zvSanityFail(run, "cannot build resolver: "+err.Error())
									continue
								}
								x := &rt{c: c, b: b, r: r, secret: fmt.Sprintf("zv-rt-%d", len(rts))}
								e := exp
								b.put(zvMkTok(x.secret, &e, via, tl))
								x.warm = zvResolve(r, x.secret, via)
								rts = append(rts, x)
							}
						}
					}
				}
			}
		}
	}
	if time.Now().After(exp.Add(-500 * time.Millisecond)) {
		zvSanityFail(run, "real-time expiry batch: warming took too long, tokens were about to expire")
		return
	}
	time.Sleep(time.Until(exp) + time.Second)
	for _, x := range rts {
		run.Eval()
		run.Count("expiry_cases")
		run.Count("expiry_realtime_cases")
		if x.warm.Class != "derived" {
			zvSanityFail(run, fmt.Sprintf("real-time expiry: token was not honoured while still valid (%s) in case %s", core.JSON(x.warm), core.JSON(x.c)))
			continue
		}
		x.b.setRPC(x.c.RPC)
		if !time.Now().After(exp) {
			zvSanityFail(run, "real-time expiry: clock did not pass the expiration time")
			continue
		}
		o := zvResolve(x.r, x.secret, x.c.Via)
		zvJudgeExpired(run, x.c, o, []any{map[string]any{"step": "resolved while valid", "outcome": x.warm}, map[string]any{"step": "waited until ExpirationTime+1s", "rpc": x.c.RPC}})
		run.NonTrivial(core.Hash("expiry", core.JSON(x.c)))
	}
}

func zvExpiryCase(run *core.Run, c zvExpCase, n int) {
	core.Progress("C09", "expiry "+core.JSON(c))
	b := zvNewBackend(c)
	r, err := zvNewResolver(b, c)
	if err != nil {
		zvSanityFail(run, "cannot build resolver: "+err.Error())
		return
	}
	now := time.Now()
	secret := fmt.Sprintf("zv-secret-%d", n)
	twin := fmt.Sprintf("zv-twin-%d", n)
	expired := c.Expiry == "-1h" || c.Expiry == "-1s"
	var hist []any
	step := func(what string, o zvOutcome) { hist = append(hist, map[string]any{"step": what, "outcome": o}) }

	switch c.State {
	case "cold":
		b.put(zvMkTok(secret, zvExpiryTime(c.Expiry, now), c.Via, c.TokenLocal))
	case "warm":
		// caches (policies, roles, parsed policies, authorizers) are filled by a valid twin with the same
		// links; the token itself was already presented once
		b.put(zvMkTok(secret, zvExpiryTime(c.Expiry, now), c.Via, c.TokenLocal))
		b.put(zvMkTok(twin, zvExpiryTime("+1h", now), c.Via, c.TokenLocal))
		o := zvResolve(r, twin, c.Via)
		step("valid twin resolved", o)
		if o.Class != "derived" {
			zvSanityFail(run, fmt.Sprintf("expiry harness: valid twin token not honoured (%s) in case %s", core.JSON(o), core.JSON(c)))
			return
		}
		o = zvResolve(r, secret, c.Via)
		step("token presented (RPC ok)", o)
		if expired {
			x := c
			x.RPC = "ok"
			zvJudgeExpired(run, x, o, hist)
		}
	case "swap":
		// the identity is cached while valid, then the stored token is replaced by a copy with the
		// case's expiration time
		b.put(zvMkTok(secret, zvExpiryTime("+1h", now), c.Via, c.TokenLocal))
		o := zvResolve(r, secret, c.Via)
		step("valid copy resolved", o)
		if o.Class != "derived" {
			zvSanityFail(run, fmt.Sprintf("expiry harness: valid token not honoured (%s) in case %s", core.JSON(o), core.JSON(c)))
			return
		}
		b.put(zvMkTok(secret, zvExpiryTime(c.Expiry, now), c.Via, c.TokenLocal))
	}
	b.setRPC(c.RPC)
	o := zvResolve(r, secret, c.Via)
	step("judged resolution (rpc "+c.RPC+")", o)
	run.Eval()
	run.Count("expiry_cases")
	run.Distinct("expiry-dimensions", fmt.Sprintf("%s/%s/%s/local=%v", c.Expiry, c.State, c.Via, c.TokenLocal))

	if !expired {
		run.Distinct("expiry-outcomes", fmt.Sprintf("valid/%s/%s/%s", c.State, c.RPC, o.Class))
		// sanity of the harness: with a working RPC a valid token is honoured
		if c.RPC == "ok" && o.Class != "derived" {
			zvSanityFail(run, fmt.Sprintf("expiry harness: valid token not honoured (%s) in case %s", core.JSON(o), core.JSON(c)))
		}
		if o.Class == "derived" {
			run.Count("valid_token_honoured")
		}
		return
	}
	run.NonTrivial(core.Hash("expiry", core.JSON(c)))
	if c.State == "swap" && !c.TokenLocal {
		// the resolver holds an identity that was valid when it was cached; it can only learn about the
		// swapped copy by fetching again. Judged only when the resolver had to re-fetch synchronously.
		refetch := c.TTL == "0" && c.Down != "async-cache"
		cannotKnow := !refetch || ((c.RPC == "fail-token" || c.RPC == "fail-all") && c.Down == "extend-cache")
		if cannotKnow {
			run.Count("expiry_swap_not_judged_cache_semantics")
			run.Distinct("expiry-outcomes", fmt.Sprintf("swap-unjudged/%s/%s", c.RPC, o.Class))
			return
		}
	}
	zvJudgeExpired(run, c, o, hist)
	if run.WantSample() && c.State == "warm" && !c.TokenLocal && c.RPC == "fail-token" {
		run.Sample(map[string]any{"case": c, "steps": hist})
	}
}
