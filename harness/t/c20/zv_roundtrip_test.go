//go:build verif

// Round-trip family over metadata SIZE (C20, first half of the property): archives from the
// production writer with raft.SnapshotMeta of 0..2000 servers, long IDs, long snapshot IDs, large
// indexes, metadata JSON sizes on both sides of (and exactly at) 512, 4096, 65536 and 1 MiB, combined
// with payload sizes 0/1/511/512/513/64 KiB/3 MiB, must be accepted by read, snapshot.Verify and
// snapshot.Read with byte-identical state and equal metadata.
package snapshot

import (
	"bytes"
	"encoding/base64"
	"encoding/json"
	"fmt"
	"io"
	"strconv"
	"strings"
	"time"

	"github.com/hashicorp/consul/zzverif/core"
	"github.com/hashicorp/raft"
)

func zvMetaClass(bodyLen int) string {
	switch {
	case bodyLen < 512:
		return "meta<512"
	case bodyLen < 4096:
		return "meta-512..4095"
	case bodyLen < 65536:
		return "meta-4096..65535"
	case bodyLen < 1<<20:
		return "meta-64KiB..1MiB"
	}
	return "meta>=1MiB"
}

type zvRTSpec struct {
	Servers int    `json:"servers"`
	Style   string `json:"id_style"` // realistic | long | unicode
	Payload int    `json:"payload_len"`
	Target  int    `json:"target_meta_json_len,omitempty"` // exact meta.json body length wanted (0 = as generated)
	Peers   int    `json:"peers_len,omitempty"`
	IDLen   int    `json:"snapshot_id_len,omitempty"`
	Tag     uint64 `json:"rng_tag"`
}

func zvHex(rng *core.Rand, n int) string {
	const d = "0123456789abcdef"
	b := make([]byte, n)
	for i := range b {
		b[i] = d[rng.Intn(16)]
	}
	return string(b)
}

func zvBigMeta(rng *core.Rand, sp zvRTSpec) raft.SnapshotMeta {
	var m raft.SnapshotMeta
	m.Version = raft.SnapshotVersion(core.Pick(rng, []int{0, 1, 1, 1, 2, 255}))
	m.Index = zvRandU64(rng, false)
	m.Term = zvRandU64(rng, false)
	m.ConfigurationIndex = zvRandU64(rng, false)
	m.ID = fmt.Sprintf("%d-%d-%d", m.Term%1000, m.Index%100000, 1486000000000+rng.Intn(1000000))
	if sp.IDLen > 0 {
		m.ID = m.ID + "-" + zvHex(rng, sp.IDLen)
	}
	if sp.Peers > 0 {
		m.Peers = rng.Bytes(sp.Peers)
	} else if sp.Target == 0 && rng.Chance(50) {
		m.Peers = rng.Bytes(1 + rng.Intn(60))
	}
	for i := 0; i < sp.Servers; i++ {
		var id, addr string
		switch sp.Style {
		case "long":
			id = fmt.Sprintf("node-%05d.dc1.consul.very-long-datacenter-name.example.internal-", i) + zvHex(rng, 160+rng.Intn(120))
			addr = fmt.Sprintf("server-%05d.%s.node.dc1.consul.example.internal:8300", i, zvHex(rng, 40))
		case "unicode":
			id = fmt.Sprintf("nœud-%d-日本-\"q\"-<&>-\\-%s", i, zvHex(rng, 8))
			addr = fmt.Sprintf("[fd00::%x:%x]:8300", i/65536, i%65536)
		default:
			id = fmt.Sprintf("%s-%s-%s-%s-%s", zvHex(rng, 8), zvHex(rng, 4), zvHex(rng, 4), zvHex(rng, 4), zvHex(rng, 12))
			addr = fmt.Sprintf("10.%d.%d.%d:8300", i/65536%256, i/256%256, i%256)
		}
		m.Configuration.Servers = append(m.Configuration.Servers, raft.Server{Suffrage: raft.ServerSuffrage(rng.Intn(3)), ID: raft.ServerID(id), Address: raft.ServerAddress(addr)})
	}
	m.Size = int64(sp.Payload)
	if sp.Target > 0 {
		// pad the snapshot ID with ASCII so that meta.json (JSON + the encoder's newline) has exactly Target bytes
		if cur := len(zvMetaJSON(&m)) + 1; cur < sp.Target {
			m.ID += strings.Repeat("a", sp.Target-cur)
		}
	}
	return m
}

func (z *zvCtx) metaSizeRoundTrips(rng *core.Rand) {
	run := z.run
	servers := []int{0, 1, 3, 7, 45, 50, 64, 128, 400, 2000}
	psizes := []int{0, 1, 511, 512, 513, 64 << 10}
	const big = 3<<20 + 5
	var specs []zvRTSpec
	add := func(sp zvRTSpec) { sp.Tag = uint64(len(specs)); specs = append(specs, sp) }
	styles := []string{"realistic", "long"}
	if core.Thorough() {
		styles = append(styles, "unicode")
		for _, n := range servers {
			for _, st := range styles {
				for _, ps := range psizes {
					add(zvRTSpec{Servers: n, Style: st, Payload: ps})
				}
			}
		}
	} else {
		for i, n := range servers {
			for k, st := range styles {
				add(zvRTSpec{Servers: n, Style: st, Payload: psizes[(2*i+k)%len(psizes)]})
			}
		}
		add(zvRTSpec{Servers: 7, Style: "unicode", Payload: 513})
		add(zvRTSpec{Servers: 400, Style: "unicode", Payload: 1})
	}
	// exact boundaries of the metadata size
	k := 0
	for _, t := range []int{512, 1024, 4096, 32768, 65536, 1 << 20} {
		for _, d := range []int{-1, 0, 1} {
			for rep := 0; rep < core.N(1, 3); rep++ {
				ns := []int{0, 1, 3}[k%3]
				if t < 1024 && ns > 1 {
					ns = 1
				}
				add(zvRTSpec{Servers: ns, Style: "realistic", Payload: psizes[k%len(psizes)], Target: t + d})
				k++
			}
		}
	}
	// beyond 1 MiB
	add(zvRTSpec{Servers: 2000, Style: "long", Payload: 513, IDLen: 700000})
	add(zvRTSpec{Servers: 3, Style: "realistic", Payload: 0, Peers: 1200000})
	add(zvRTSpec{Servers: 128, Style: "realistic", Payload: 64 << 10, IDLen: 300000})
	// several MiB of state
	add(zvRTSpec{Servers: 45, Style: "realistic", Payload: big})
	add(zvRTSpec{Servers: 0, Style: "realistic", Payload: big, Target: 1<<20 + 1})
	if core.Thorough() {
		add(zvRTSpec{Servers: 2000, Style: "unicode", Payload: big, IDLen: 2 << 20})
		add(zvRTSpec{Servers: 1, Style: "long", Payload: 2*big + 1})
		add(zvRTSpec{Servers: 400, Style: "long", Payload: big, Peers: 3 << 20})
		add(zvRTSpec{Servers: 50, Style: "realistic", Payload: 1 << 20, Target: 65536})
	}

	maxMeta := 0
	for _, sp := range specs {
		ar := rng.Fork(sp.Tag)
		payload := ar.Bytes(sp.Payload)
		meta := zvBigMeta(ar, sp)
		a, berr := zvBuild(-1, "random", payload, meta, 0)
		bodyLen := len(a.MetaJS) + 1
		cls := zvMetaClass(bodyLen)
		wit := func(res []zvRes) map[string]any {
			w := map[string]any{"spec": sp, "seed": core.SeedInt(), "how": "meta := zvBigMeta(core.NewRand(seed).Fork(88).Fork(spec.rng_tag) after drawing the payload, spec); write(gzip, meta, payload)",
				"meta_json_len": bodyLen, "meta_json_sha256": zvSha([]byte(a.MetaJS)), "payload_sha256": zvSha(payload), "results": res}
			if len(a.MetaJS) <= 8192 {
				w["metadata"] = json.RawMessage(a.MetaJS)
			} else {
				w["metadata_head"] = a.MetaJS[:400]
			}
			if len(a.Gz) <= 16384 {
				w["archive_gz_b64"] = base64.StdEncoding.EncodeToString(a.Gz)
			}
			return w
		}
		desc := fmt.Sprintf("round-trip archive #%d (%d servers, %s ids, meta.json %d bytes, payload %d bytes)", sp.Tag, sp.Servers, sp.Style, bodyLen, sp.Payload)
		run.Eval()
		if berr != nil {
			run.Violation("C20:round-trip:writer:unusable-archive:"+cls, desc+": production writer output not as documented: "+berr.Error(), wit(nil))
			continue
		}
		// the writer, judged without the reader
		l := a.Lay
		switch {
		case len(l.M) != 3 || l.M[0].Name != "meta.json" || l.M[1].Name != "state.bin" || l.M[2].Name != "SHA256SUMS":
			run.Violation("C20:round-trip:writer:members:"+cls, fmt.Sprintf("%s: members %+v", desc, l.M), wit(nil))
			continue
		case !bytes.Equal(a.body(1), payload):
			run.Violation("C20:round-trip:writer:state-bytes:"+cls, desc+": state.bin member differs from the payload", wit(nil))
			continue
		}
		var m raft.SnapshotMeta
		if err := json.Unmarshal(a.body(0), &m); err != nil || zvMetaJSON(&m) != a.MetaJS {
			run.Violation("C20:round-trip:writer:metadata:"+cls, fmt.Sprintf("%s: meta.json member (%d bytes) does not decode to the written metadata (%v)", desc, l.M[0].Size, err), wit(nil))
			continue
		}
		want, _ := zvDecodeSums([]byte(zvSha(a.body(0)) + "  meta.json\n" + zvSha(a.body(1)) + "  state.bin\n"))
		if got, ok := zvDecodeSums(a.body(2)); !ok || got != want {
			run.Violation("C20:round-trip:writer:sums:"+cls, fmt.Sprintf("%s: SHA256SUMS %q, expected content %q", desc, a.body(2), want), wit(nil))
			continue
		}
		// the three readers
		ok := true
		for _, st := range []struct {
			stage string
			r     zvRes
		}{{"read", zvPlain(a.Tar)}, {"Verify", zvVerifyGz(a.Gz)}, {"Read", z.readGz(a.Gz)}} {
			run.Eval()
			r := st.r
			r.State = nil
			switch {
			case r.Infra:
				run.Inconclusive(desc + ": " + r.Err)
				ok = false
			case r.Panic:
				run.Violation("C20:round-trip:panic:"+st.stage+":"+cls, desc+": "+r.Path+": "+r.Err, wit([]zvRes{r}))
				ok = false
			case !r.Acc:
				run.Violation("C20:round-trip:rejected-intact-archive:"+st.stage+":"+cls, desc+": "+r.Path+" rejected the unmodified archive: "+r.Err, wit([]zvRes{r}))
				ok = false
			case r.Meta != a.MetaJS:
				rs := r
				if len(rs.Meta) > 2000 {
					rs.Meta = rs.Meta[:2000] + "…"
				}
				run.Violation("C20:round-trip:metadata-differs:"+st.stage+":"+cls, fmt.Sprintf("%s: %s returned metadata of %d JSON bytes (sha %s), written %d bytes (sha %s)", desc, r.Path, len(r.Meta), zvSha([]byte(r.Meta)), len(a.MetaJS), zvSha([]byte(a.MetaJS))), wit([]zvRes{rs}))
				ok = false
			case r.HasState && !bytes.Equal(st.r.State, payload):
				run.Violation("C20:round-trip:state-differs:"+st.stage+":"+cls, fmt.Sprintf("%s: %s returned state len=%d sha=%s, written len=%d sha=%s", desc, r.Path, r.StateLen, r.StateSha, len(payload), zvSha(payload)), wit([]zvRes{r}))
				ok = false
			default:
				run.Count("round-trip:stage-ok:" + st.stage)
			}
		}
		if !ok {
			continue
		}
		run.Count("round-trip:archives")
		run.Distinct("round-trip:meta-size-class", cls)
		run.Distinct("round-trip:servers", strconv.Itoa(sp.Servers))
		run.Distinct("round-trip:payload-size", strconv.Itoa(sp.Payload))
		run.Distinct("round-trip:meta-json-len", strconv.Itoa(bodyLen))
		if sp.Target > 0 && bodyLen == sp.Target {
			run.Distinct("round-trip:exact-boundary", strconv.Itoa(sp.Target))
		}
		if bodyLen > maxMeta {
			maxMeta = bodyLen
		}
		run.NonTrivial(core.Hash("round-trip-size", core.JSON(sp)))
	}
	run.CountN("round-trip:metadata-bytes-max", maxMeta)
	run.Floor("round-trip:archives", core.N(35, 200))
	run.Floor("round-trip:metadata-bytes-max", 1<<20)
	run.Floor("round-trip:stage-ok:read", core.N(35, 200))
	run.Floor("round-trip:stage-ok:Verify", core.N(35, 200))
	run.Floor("round-trip:stage-ok:Read", core.N(35, 200))
	run.FloorDistinct("round-trip:meta-size-class", 5)
	run.FloorDistinct("round-trip:servers", 9)
	run.FloorDistinct("round-trip:payload-size", 6)
	run.FloorDistinct("round-trip:exact-boundary", 15)
}

// newLargeConfigRoundTrip: snapshot.New on a real raft whose configuration holds many servers, so that
// the metadata raft itself produces is large; the archive must read back exactly.
func (z *zvCtx) newLargeConfigRoundTrip(rng *core.Rand, nservers int) {
	run := z.run
	r, fsm, err := zvMakeRaft()
	if err != nil {
		run.Inconclusive("large-config raft: " + err.Error())
		return
	}
	defer r.Shutdown()
	for i := 0; i < nservers; i++ {
		id := raft.ServerID(fmt.Sprintf("%s-%s-%s-%s-%s", zvHex(rng, 8), zvHex(rng, 4), zvHex(rng, 4), zvHex(rng, 4), zvHex(rng, 12)))
		addr := raft.ServerAddress(fmt.Sprintf("10.9.%d.%d:8300", i/256, i%256))
		if err := r.AddNonvoter(id, addr, 0, 20*time.Second).Error(); err != nil {
			run.Inconclusive(fmt.Sprintf("large-config raft: AddNonvoter #%d: %v", i, err))
			return
		}
	}
	for _, sz := range []int{0, 513, 64 << 10} {
		payload := rng.Bytes(sz)
		fsm.mu.Lock()
		fsm.snap = payload
		fsm.mu.Unlock()
		if err := r.Apply([]byte("x"), 20*time.Second).Error(); err != nil {
			run.Inconclusive("large-config raft apply: " + err.Error())
			return
		}
		run.Eval()
		z.tmpMu.RLock()
		s, err := New(z.logger, r)
		var gz []byte
		var idx uint64
		if err == nil {
			gz, _ = io.ReadAll(s)
			idx = s.Index()
			s.Close()
		}
		z.tmpMu.RUnlock()
		if err != nil {
			run.Inconclusive("large-config snapshot.New: " + err.Error())
			return
		}
		tb, derr := zvGunzip(gz)
		lay, lerr := zvParseTar(tb)
		wit := map[string]any{"servers": nservers + 1, "payload_len": sz, "payload_sha256": zvSha(payload), "archive_gz_len": len(gz)}
		if derr != nil || lerr != nil || len(lay.M) != 3 || lay.M[0].Name != "meta.json" || lay.M[1].Name != "state.bin" {
			run.Violation("C20:round-trip:snapshot.New:layout", fmt.Sprintf("snapshot.New with %d servers, %d-byte state: gunzip %v, layout %v %+v", nservers+1, sz, derr, lerr, lay.M), wit)
			continue
		}
		mb := tb[lay.M[0].Body : lay.M[0].Body+lay.M[0].Size]
		cls := zvMetaClass(len(mb))
		var m raft.SnapshotMeta
		if err := json.Unmarshal(mb, &m); err != nil || m.Index != idx || m.Size != int64(sz) || len(m.Configuration.Servers) != nservers+1 {
			run.Violation("C20:round-trip:snapshot.New:metadata:"+cls, fmt.Sprintf("snapshot.New with %d servers: meta.json (%d bytes) decodes to index %d size %d servers %d (err %v), expected index %d size %d", nservers+1, len(mb), m.Index, m.Size, len(m.Configuration.Servers), err, idx, sz), wit)
			continue
		}
		if !bytes.Equal(tb[lay.M[1].Body:lay.M[1].Body+lay.M[1].Size], payload) {
			run.Violation("C20:round-trip:snapshot.New:state-bytes:"+cls, fmt.Sprintf("snapshot.New with %d servers: state.bin differs from what the FSM persisted", nservers+1), wit)
			continue
		}
		ok := true
		for _, st := range []struct {
			stage string
			r     zvRes
		}{{"read", zvPlain(tb)}, {"Verify", zvVerifyGz(gz)}, {"Read", z.readGz(gz)}} {
			rr := st.r
			switch {
			case rr.Infra:
				run.Inconclusive("large-config: " + rr.Err)
				ok = false
			case !rr.Acc:
				run.Violation("C20:round-trip:rejected-intact-archive:"+st.stage+":"+cls, fmt.Sprintf("archive of snapshot.New with %d servers (meta.json %d bytes, state %d bytes): %s rejected it: %s", nservers+1, len(mb), sz, rr.Path, rr.Err), wit)
				ok = false
			case rr.Meta != zvMetaJSON(&m):
				run.Violation("C20:round-trip:metadata-differs:"+st.stage+":"+cls, fmt.Sprintf("archive of snapshot.New with %d servers (meta.json %d bytes): %s returned different metadata (%d JSON bytes)", nservers+1, len(mb), rr.Path, len(rr.Meta)), wit)
				ok = false
			case rr.HasState && !bytes.Equal(rr.State, payload):
				run.Violation("C20:round-trip:state-differs:"+st.stage+":"+cls, fmt.Sprintf("archive of snapshot.New with %d servers: %s returned different state", nservers+1, rr.Path), wit)
				ok = false
			}
		}
		if ok {
			run.Count("round-trip:snapshot.New-large-config-ok")
			run.Distinct("round-trip:meta-size-class", cls)
			run.NonTrivial(core.Hash("new-large-config", strconv.Itoa(sz)))
		}
	}
}
