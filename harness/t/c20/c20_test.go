//go:build verif

// C20 — snapshot archives: exact round trip, corruption always detected.
//
// Archives are produced by the PRODUCTION writer (snapshot.write behind a gzip.Writer exactly as
// snapshot.New arranges it, and snapshot.New itself on a real in-memory raft). The harness parses
// the tar structure with its own ustar parser and classifies every mutation from that layout:
//
//	must-reject : a byte of meta.json / state.bin altered, SHA256SUMS content altered, a member name
//	              altered, truncation before the end of the last member's data, member removed,
//	              checksum line removed, unexpected member injected, member renamed
//	weak        : everything else (padding, trailer, other header fields, checksum-field encodings,
//	              re-orderings, duplications, gzip framing) — outcome must be `reject` or
//	              (`accept` and extracted state == original and metadata == original)
//
// Every mutation is run through the unexported read (plain tar), snapshot.Verify and snapshot.Read
// (gzip-wrapped). Mutations are applied to the uncompressed tar (then re-gzipped) and to the gzip
// bytes directly. A sample of rejected archives is fed to snapshot.Restore against a real
// single-node in-memory raft with a recording FSM: FSM.Restore must not be called.
package snapshot

import (
	"archive/tar"
	"bytes"
	"compress/gzip"
	"crypto/sha256"
	"encoding/base64"
	"encoding/hex"
	"encoding/json"
	"fmt"
	"io"
	"os"
	"runtime"
	"strconv"
	"strings"
	"sync"
	"sync/atomic"
	"testing"
	"time"

	"github.com/hashicorp/consul/zzverif/core"
	"github.com/hashicorp/go-hclog"
	"github.com/hashicorp/raft"
)

// ---------------- archives ----------------

type zvArchive struct {
	Idx     int
	Kind    string
	Payload []byte
	Meta    raft.SnapshotMeta
	MetaJS  string
	Tar     []byte
	Gz      []byte
	Lay     zvLayout
	Sums    string // decoded content of the original SHA256SUMS
	Seed    uint64
}

func (a *zvArchive) describe() map[string]any {
	return map[string]any{"index": a.Idx, "payload_kind": a.Kind, "payload_len": len(a.Payload),
		"payload_sha256": zvSha(a.Payload), "metadata": json.RawMessage(a.MetaJS), "tar_len": len(a.Tar),
		"gz_len": len(a.Gz), "layout": a.Lay}
}

func zvSha(b []byte) string { s := sha256.Sum256(b); return hex.EncodeToString(s[:]) }

func zvMetaJSON(m *raft.SnapshotMeta) string {
	if m == nil {
		return "<nil>"
	}
	b, err := json.Marshal(m)
	if err != nil {
		return "<unencodable: " + err.Error() + ">"
	}
	return string(b)
}

var zvStrPieces = []string{"2-15-1486", "a", "é", "\"", "\\", "<&>", " ", "\x00", "\n", " ", "日本", "{}", "server-1", "127.0.0.1:8300", "/", "\t", "\U0001F600"}

func zvRandStr(rng *core.Rand, max int) string {
	n := rng.Intn(max + 1)
	var sb strings.Builder
	for i := 0; i < n; i++ {
		sb.WriteString(core.Pick(rng, zvStrPieces))
	}
	return sb.String()
}

func zvRandU64(rng *core.Rand, small bool) uint64 {
	if small {
		return uint64(rng.Intn(100000))
	}
	switch rng.Intn(6) {
	case 0:
		return uint64(rng.Intn(1000))
	case 1:
		return 1<<53 + uint64(rng.Intn(5)) // not exactly representable as float64 when odd
	case 2:
		return ^uint64(0) - uint64(rng.Intn(3))
	case 3:
		return 1<<63 + uint64(rng.Intn(1000))
	default:
		return rng.U64()
	}
}

func zvRandMeta(rng *core.Rand, size int, small bool) raft.SnapshotMeta {
	var m raft.SnapshotMeta
	m.Version = raft.SnapshotVersion(rng.Intn(2))
	if small {
		m.Version = 1 // these archives are also restored into a real raft, whose in-memory snapshot store takes version 1 only
	}
	m.ID = zvRandStr(rng, 5)
	m.Index = zvRandU64(rng, small)
	m.Term = zvRandU64(rng, small)
	if rng.Chance(60) {
		m.Peers = rng.Bytes(1 + rng.Intn(40))
	}
	ns := rng.Intn(4)
	for i := 0; i < ns; i++ {
		m.Configuration.Servers = append(m.Configuration.Servers, raft.Server{
			Suffrage: raft.ServerSuffrage(rng.Intn(3)), ID: raft.ServerID(zvRandStr(rng, 3)), Address: raft.ServerAddress(zvRandStr(rng, 3))})
	}
	m.ConfigurationIndex = zvRandU64(rng, small)
	m.Size = int64(size)
	return m
}

func zvGunzip(g []byte) ([]byte, error) {
	zr, err := gzip.NewReader(bytes.NewReader(g))
	if err != nil {
		return nil, err
	}
	out, err := io.ReadAll(io.LimitReader(zr, 256<<20))
	return out, err
}

var zvGzPool = sync.Pool{New: func() any { return gzip.NewWriter(io.Discard) }}

// zvGzip wraps tar bytes the way snapshot.New does (gzip.NewWriter defaults, no header fields).
func zvGzip(t []byte) []byte {
	w := zvGzPool.Get().(*gzip.Writer)
	var b bytes.Buffer
	b.Grow(len(t) + 64)
	w.Reset(&b)
	w.Write(t)
	w.Close()
	zvGzPool.Put(w)
	return b.Bytes()
}

// zvBuild runs the production writer behind a gzip compressor (as snapshot.New) and keeps the
// uncompressed tar it emitted.
func zvBuild(idx int, kind string, payload []byte, meta raft.SnapshotMeta, seed uint64) (*zvArchive, error) {
	a := &zvArchive{Idx: idx, Kind: kind, Payload: payload, Meta: meta, Seed: seed}
	a.MetaJS = zvMetaJSON(&a.Meta)
	var gzb, tb bytes.Buffer
	comp := gzip.NewWriter(&gzb)
	if err := write(io.MultiWriter(comp, &tb), &a.Meta, bytes.NewReader(payload)); err != nil {
		return a, fmt.Errorf("write: %v", err)
	}
	if err := comp.Close(); err != nil {
		return a, fmt.Errorf("gzip close: %v", err)
	}
	a.Tar, a.Gz = tb.Bytes(), gzb.Bytes()
	lay, err := zvParseTar(a.Tar)
	if err != nil {
		return a, fmt.Errorf("layout: %v", err)
	}
	a.Lay = lay
	return a, nil
}

// ---------------- execution of the code under test ----------------

type zvRes struct {
	Path     string `json:"path"`
	Acc      bool   `json:"accepted"`
	Err      string `json:"error,omitempty"`
	HasState bool   `json:"-"`
	State    []byte `json:"-"`
	StateLen int    `json:"state_len"`
	StateSha string `json:"state_sha256,omitempty"`
	Meta     string `json:"metadata,omitempty"`
	Panic    bool   `json:"panic,omitempty"`
	Infra    bool   `json:"infra,omitempty"`
}

func (r *zvRes) setState(b []byte) {
	r.HasState, r.State, r.StateLen, r.StateSha = true, b, len(b), zvSha(b)
}

func zvPlain(t []byte) (r zvRes) {
	r.Path = "read(plain tar)"
	defer func() {
		if p := recover(); p != nil {
			r.Acc, r.Panic, r.Err = false, true, fmt.Sprintf("PANIC: %v", p)
		}
	}()
	var meta raft.SnapshotMeta
	var buf bytes.Buffer
	if err := read(bytes.NewReader(t), &meta, &buf); err != nil {
		r.Err = err.Error()
		return
	}
	r.Acc = true
	r.setState(buf.Bytes())
	r.Meta = zvMetaJSON(&meta)
	return
}

func zvVerifyGz(g []byte) (r zvRes) {
	r.Path = "snapshot.Verify(gzip)"
	defer func() {
		if p := recover(); p != nil {
			r.Acc, r.Panic, r.Err = false, true, fmt.Sprintf("PANIC: %v", p)
		}
	}()
	meta, err := Verify(bytes.NewReader(g))
	if err != nil {
		r.Err = err.Error()
		return
	}
	r.Acc = true
	r.Meta = zvMetaJSON(meta)
	return
}

type zvCtx struct {
	run    *core.Run
	logger hclog.Logger
	tmp    string
	tmpMu  sync.RWMutex // R: a call that creates temp files is in flight; W: sweeping leaked files
	failed int64

	raftMu sync.Mutex
	raft   *raft.Raft
	fsm    *zvFSM
	arch   []*zvArchive
	stop   int32
}

func zvInfraErr(s string) bool {
	return strings.Contains(s, "failed to create temp snapshot file") || strings.Contains(s, "too many open files") ||
		strings.Contains(s, "no space left") || strings.Contains(s, "failed to sync temp snapshot") || strings.Contains(s, "failed to rewind temp snapshot")
}

func (z *zvCtx) readGzOnce(g []byte) (r zvRes) {
	r.Path = "snapshot.Read(gzip)"
	defer func() {
		if p := recover(); p != nil {
			r.Acc, r.Panic, r.Err = false, true, fmt.Sprintf("PANIC: %v", p)
		}
	}()
	f, meta, err := Read(z.logger, bytes.NewReader(g))
	if f != nil {
		defer func() { name := f.Name(); f.Close(); os.Remove(name) }()
	}
	if err != nil {
		r.Err = err.Error()
		r.Infra = zvInfraErr(r.Err)
		return
	}
	b, rerr := io.ReadAll(f)
	if rerr != nil {
		r.Err, r.Infra = "harness: reading returned file: "+rerr.Error(), true
		return
	}
	r.Acc = true
	r.setState(b)
	r.Meta = zvMetaJSON(meta)
	return
}

const zvSweepEvery = 6000

func (z *zvCtx) readGz(g []byte) (r zvRes) {
	for attempt := 0; ; attempt++ {
		z.tmpMu.RLock()
		r = z.readGzOnce(g)
		z.tmpMu.RUnlock()
		if !r.Infra || attempt >= 3 {
			break
		}
		z.sweep()
		time.Sleep(20 * time.Millisecond)
	}
	if !r.Acc {
		// snapshot.Read leaves its temp file (and descriptor) behind on a failed read: not part of
		// this property, but the harness must not fill the disk / run out of descriptors
		if atomic.AddInt64(&z.failed, 1)%zvSweepEvery == 0 {
			z.sweep()
		}
	}
	return
}

func (z *zvCtx) sweep() {
	z.tmpMu.Lock()
	defer z.tmpMu.Unlock()
	runtime.GC() // runs the os.File cleanups of the leaked descriptors
	ents, _ := os.ReadDir(z.tmp)
	for _, e := range ents {
		os.Remove(z.tmp + "/" + e.Name())
	}
}

// ---------------- raft with a recording FSM ----------------

type zvFSM struct {
	mu       sync.Mutex
	restores int
	last     []byte
	applied  int
	snap     []byte
}

func (f *zvFSM) Apply(l *raft.Log) interface{} { f.mu.Lock(); f.applied++; f.mu.Unlock(); return nil }
func (f *zvFSM) Snapshot() (raft.FSMSnapshot, error) {
	f.mu.Lock()
	defer f.mu.Unlock()
	return &zvFSMSnap{append([]byte(nil), f.snap...)}, nil
}
func (f *zvFSM) Restore(rc io.ReadCloser) error {
	defer rc.Close()
	b, err := io.ReadAll(rc)
	f.mu.Lock()
	f.restores++
	f.last = b
	f.mu.Unlock()
	return err
}
func (f *zvFSM) state() (int, string) {
	f.mu.Lock()
	defer f.mu.Unlock()
	return f.restores, zvSha(f.last)
}

type zvFSMSnap struct{ data []byte }

func (s *zvFSMSnap) Persist(sink raft.SnapshotSink) error {
	if _, err := sink.Write(s.data); err != nil {
		sink.Cancel()
		return err
	}
	return sink.Close()
}
func (s *zvFSMSnap) Release() {}

func zvMakeRaft() (*raft.Raft, *zvFSM, error) {
	fsm := &zvFSM{}
	store := raft.NewInmemStore()
	snaps := raft.NewInmemSnapshotStore()
	addr, trans := raft.NewInmemTransport("")
	cfg := raft.DefaultConfig()
	cfg.LocalID = raft.ServerID("server-" + string(addr))
	cfg.Logger = hclog.NewNullLogger()
	cfg.HeartbeatTimeout = 50 * time.Millisecond
	cfg.ElectionTimeout = 50 * time.Millisecond
	cfg.LeaderLeaseTimeout = 50 * time.Millisecond
	cfg.CommitTimeout = 5 * time.Millisecond
	var members raft.Configuration
	members.Servers = append(members.Servers, raft.Server{Suffrage: raft.Voter, ID: cfg.LocalID, Address: addr})
	if err := raft.BootstrapCluster(cfg, store, store, snaps, trans, members); err != nil {
		return nil, nil, err
	}
	r, err := raft.NewRaft(cfg, fsm, store, store, snaps, trans)
	if err != nil {
		return nil, nil, err
	}
	deadline := time.After(20 * time.Second)
	for r.Leader() == "" {
		select {
		case <-r.LeaderCh():
		case <-time.After(50 * time.Millisecond):
		case <-deadline:
			r.Shutdown()
			return nil, nil, fmt.Errorf("no leader within 20s")
		}
	}
	return r, fsm, nil
}

// restoreRejected feeds an archive that Verify/Read rejected to snapshot.Restore.
func (z *zvCtx) restoreRejected(loc *zvLocal, cs zvCase, mg []byte) {
	if z.raft == nil {
		return
	}
	z.raftMu.Lock()
	defer z.raftMu.Unlock()
	n0, s0 := z.fsm.state()
	z.tmpMu.RLock()
	err := func() (err error) {
		defer func() {
			if p := recover(); p != nil {
				err = fmt.Errorf("PANIC: %v", p)
			}
		}()
		return Restore(z.logger, bytes.NewReader(mg), z.raft)
	}()
	z.tmpMu.RUnlock()
	if atomic.AddInt64(&z.failed, 1)%zvSweepEvery == 0 {
		z.sweep()
	}
	n1, s1 := z.fsm.state()
	loc.count("restore:rejected-archive-checked")
	if n1 != n0 || s1 != s0 || err == nil {
		z.run.Violation("C20:restore:rejected-archive-reached-raft",
			fmt.Sprintf("archive %d mutation %s (%s) is rejected by Verify/Read but snapshot.Restore returned err=%v and FSM.Restore calls went %d->%d", cs.Arch, cs.Desc, cs.Class, err, n0, n1),
			z.witness(cs, mg, nil))
	}
}

// restoreAccepted: an archive accepted with identical extraction must restore the original state.
func (z *zvCtx) restoreAccepted(loc *zvLocal, cs zvCase, mg []byte) {
	a := z.arch[cs.Arch]
	// raft's in-memory snapshot store takes version 1 only; huge indexes would overflow raft's index+1
	if z.raft == nil || a.Meta.Index >= 1<<40 || a.Meta.Version != 1 {
		return
	}
	z.raftMu.Lock()
	defer z.raftMu.Unlock()
	n0, _ := z.fsm.state()
	z.tmpMu.RLock()
	err := func() (err error) {
		defer func() {
			if p := recover(); p != nil {
				err = fmt.Errorf("PANIC: %v", p)
			}
		}()
		return Restore(z.logger, bytes.NewReader(mg), z.raft)
	}()
	z.tmpMu.RUnlock()
	n1, s1 := z.fsm.state()
	if err != nil {
		loc.count("restore:accepted-archive-raft-error")
		z.run.Inconclusive(fmt.Sprintf("raft refused an accepted archive (archive %d %s): %v", cs.Arch, cs.Desc, err))
		if n1 != n0 && s1 != zvSha(a.Payload) {
			z.run.Violation("C20:restore:different-state-restored", fmt.Sprintf("archive %d mutation %s: FSM restored %s, original %s (err %v)", cs.Arch, cs.Desc, s1, zvSha(a.Payload), err), z.witness(cs, mg, nil))
		}
		return
	}
	loc.count("restore:accepted-archive-checked")
	if n1 != n0+1 || s1 != zvSha(a.Payload) {
		z.run.Violation("C20:restore:different-state-restored",
			fmt.Sprintf("archive %d mutation %s (%s): snapshot.Restore succeeded, FSM.Restore calls %d->%d, restored sha %s, original %s", cs.Arch, cs.Desc, cs.Class, n0, n1, s1, zvSha(a.Payload)),
			z.witness(cs, mg, nil))
	}
}

// ---------------- cases and the oracle ----------------

type zvCase struct {
	Arch   int    `json:"archive"`
	Domain string `json:"domain"` // tar (mutated tar, re-gzipped) | gz (mutated gzip bytes)
	Kind   string `json:"kind"`   // flip | trunc | struct
	Class  string `json:"class"`
	Must   bool   `json:"must_reject"`
	Desc   string `json:"mutation"`
	// MustKey / WeakKey: violation key stems of families that name their own keys (else derived from Class)
	MustKey string `json:"-"`
	WeakKey string `json:"-"`
}

func (c zvCase) fp() string {
	return core.Hash(strconv.Itoa(c.Arch), c.Domain, c.Kind, c.Desc)
}

type zvLocal struct {
	counts   map[string]int
	distinct map[[2]string]struct{}
}

func zvNewLocal() *zvLocal {
	return &zvLocal{counts: map[string]int{}, distinct: map[[2]string]struct{}{}}
}
func (l *zvLocal) count(k string)   { l.counts[k]++ }
func (l *zvLocal) dist(s, m string) { l.distinct[[2]string{s, m}] = struct{}{} }
func (l *zvLocal) flush(run *core.Run) {
	for k, n := range l.counts {
		run.CountN(k, n)
	}
	for k := range l.distinct {
		run.Distinct(k[0], k[1])
	}
	l.counts, l.distinct = map[string]int{}, map[[2]string]struct{}{}
}

func (z *zvCtx) witness(cs zvCase, mg []byte, res []zvRes) map[string]any {
	a := z.arch[cs.Arch]
	return map[string]any{"archive": a.describe(), "case": cs, "results": res,
		"original_gz_b64": base64.StdEncoding.EncodeToString(a.Gz), "mutated_gz_b64": base64.StdEncoding.EncodeToString(mg),
		"replay": "base64 -d mutated_gz | consul snapshot inspect/restore; or snapshot.Verify / snapshot.Read on the bytes"}
}

func zvSampled(fp string, k uint64) bool {
	if k <= 1 {
		return true
	}
	n, _ := strconv.ParseUint(fp[:12], 16, 64)
	return n%k == 0
}

// judge applies the oracle to one mutated archive. mg is what Verify/Read were given.
func (z *zvCtx) judge(loc *zvLocal, cs zvCase, mg []byte, res []zvRes) {
	a := z.arch[cs.Arch]
	run := z.run
	run.Eval()
	fp := cs.fp()
	for _, r := range res {
		if r.Infra {
			run.Inconclusive(fmt.Sprintf("archive %d %s: %s: %s", cs.Arch, cs.Desc, r.Path, r.Err))
			return
		}
	}
	var accepted, problems []string
	key := ""
	for _, r := range res {
		if r.Panic {
			problems = append(problems, r.Path+" "+r.Err)
			if key == "" {
				key = "C20:" + cs.Class + ":panic"
			}
			continue
		}
		if !r.Acc {
			continue
		}
		accepted = append(accepted, r.Path)
		switch {
		case cs.Must:
			problems = append(problems, r.Path+" accepted")
			if key == "" {
				key = "C20:" + cs.Class + ":accepted"
				if cs.MustKey != "" {
					key = cs.MustKey
				}
			}
		case r.Meta != a.MetaJS:
			problems = append(problems, fmt.Sprintf("%s accepted with metadata %s (original %s)", r.Path, r.Meta, a.MetaJS))
			if key == "" {
				key = "C20:" + cs.Class + ":accepted-different-metadata"
				if cs.WeakKey != "" {
					key = cs.WeakKey + ":different-metadata"
				}
			}
		case r.HasState && !bytes.Equal(r.State, a.Payload):
			problems = append(problems, fmt.Sprintf("%s accepted with state len=%d sha=%s (original len=%d sha=%s)", r.Path, r.StateLen, r.StateSha, len(a.Payload), zvSha(a.Payload)))
			if key == "" {
				key = "C20:" + cs.Class + ":accepted-different-state"
				if cs.WeakKey != "" {
					key = cs.WeakKey + ":different-state"
				}
			}
		}
	}
	outcome := "reject"
	if len(accepted) == len(res) {
		outcome = "accept-identical"
	} else if len(accepted) > 0 {
		outcome = "accept-identical(some paths)"
	}
	if len(problems) > 0 {
		outcome = "VIOLATION"
		oracle := "weak oracle: reject or identical extraction"
		if cs.Must {
			oracle = "must-reject class"
		}
		run.Violation(key, fmt.Sprintf("archive %d (payload %d bytes %s) %s-domain %s [%s; %s]: %s", cs.Arch, len(a.Payload), a.Kind, cs.Domain, cs.Desc, cs.Class, oracle, strings.Join(problems, "; ")),
			z.witness(cs, mg, res))
	}
	loc.count("outcome:" + cs.Class + ":" + outcome)
	loc.dist("class", cs.Class)
	if cs.Must {
		loc.count("must-reject-cases")
	} else {
		loc.count("weak-oracle-cases")
	}
	if len(accepted) > 0 && len(problems) == 0 {
		loc.count("accepted-with-identical-extraction")
	}
	// Verify and Read disagreeing is not a property violation, but worth seeing
	var v, rd *zvRes
	for i := range res {
		if strings.HasPrefix(res[i].Path, "snapshot.Verify") {
			v = &res[i]
		}
		if strings.HasPrefix(res[i].Path, "snapshot.Read") {
			rd = &res[i]
		}
	}
	if v != nil && rd != nil && v.Acc != rd.Acc {
		loc.count("verify-read-disagree")
	}
	if cs.Must || len(accepted) > 0 {
		run.NonTrivial(fp)
		if run.WantSample() && len(accepted) > 0 {
			run.Sample(map[string]any{"case": cs, "payload_len": len(a.Payload), "results": res})
		}
	}
	if len(problems) > 0 {
		return
	}
	// "never handed to restore"
	if v != nil && rd != nil && !v.Acc && !rd.Acc {
		k := uint64(48)
		if cs.Kind == "struct" {
			k = 1
		}
		if zvSampled(fp, k) {
			z.restoreRejected(loc, cs, mg)
		}
	} else if rd != nil && rd.Acc {
		k := uint64(core.N(40, 150))
		if cs.Kind == "struct" {
			k = 3
		}
		if zvSampled(fp, k) {
			z.restoreAccepted(loc, cs, mg)
		}
	}
}

func (z *zvCtx) runTar(loc *zvLocal, cs zvCase, mt []byte) {
	cs.Domain = "tar"
	mg := zvGzip(mt)
	res := []zvRes{zvPlain(mt), zvVerifyGz(mg), z.readGz(mg)}
	z.judge(loc, cs, mg, res)
}

// runGz classifies a mutated gzip stream from what an independent decompression of it yields.
func (z *zvCtx) runGz(loc *zvLocal, cs zvCase, mg []byte) {
	a := z.arch[cs.Arch]
	cs.Domain = "gz"
	d, derr := zvGunzip(mg)
	effect, must := a.classifyDecoded(d, derr)
	cs.Class = cs.Class + "=>" + effect
	cs.Must = must
	loc.dist("gz-effect", effect)
	res := []zvRes{zvVerifyGz(mg), z.readGz(mg)}
	z.judge(loc, cs, mg, res)
}

// classifyDecoded: what does the (possibly failing) decompressed byte sequence say about the archive?
func (a *zvArchive) classifyDecoded(d []byte, derr error) (string, bool) {
	t := a.Tar
	if bytes.Equal(d, t) {
		if derr == nil {
			return "same-tar", false
		}
		return "same-tar-then-stream-error", false
	}
	if len(d) < a.Lay.lastDataEnd() {
		return "tar-cut-before-last-member-complete", true
	}
	n := len(d)
	if len(t) < n {
		n = len(t)
	}
	must, sumsDiff := false, false
	for p := 0; p < n && !must; p++ {
		if d[p] == t[p] {
			continue
		}
		r := a.Lay.region(p)
		switch r.Kind {
		case "body":
			if a.Lay.M[r.Member].Name == "SHA256SUMS" {
				sumsDiff = true
			} else {
				must = true
			}
		case "hdr":
			if r.Field == "name" && r.Off <= len(a.Lay.M[r.Member].Name) {
				must = true
			}
		}
	}
	if !must && sumsDiff {
		m := a.Lay.M[2]
		if c, ok := zvDecodeSums(d[m.Body : m.Body+m.Size]); !ok || c != a.Sums {
			must = true
		}
	}
	if must {
		return "member-data-or-name-altered", true
	}
	if len(d) > len(t) && bytes.Equal(d[:len(t)], t) {
		// bytes behind the end-of-archive marker: if they hold a well-formed member header (block-aligned,
		// non-empty name, valid checksum) the archive "contains an unexpected member"; anything else is junk
		// behind the archive, which the property does not speak about
		extra := d[len(t):]
		for off := 0; off+zvBlk <= len(extra); off += zvBlk {
			h := extra[off : off+zvBlk]
			if h[0] == 0 || zvIsZero(h) {
				continue
			}
			if sum, ok := zvOctal(h[148:156]); ok && sum == zvHdrSum(h) {
				return "same-tar-plus-extra-member-behind-end-marker", true
			}
		}
		return "same-tar-plus-extra-bytes", false
	}
	return "only-nonessential-bytes-differ", false
}

func zvBit(seed uint64, dom byte, p int) int {
	return int(core.NewRand(seed ^ uint64(dom)<<56 ^ uint64(p)*0x9E3779B97F4A7C15).U64() % 8)
}

var zvAllBits = []int{0, 1, 2, 3, 4, 5, 6, 7}

func (a *zvArchive) tarBits(p int) []int {
	r := a.Lay.region(p)
	all := false
	switch r.Kind {
	case "hdr":
		all = core.Thorough() || r.Field == "chksum" || r.Field == "size" || r.Field == "typeflag" ||
			(r.Field == "name" && r.Off <= len(a.Lay.M[r.Member].Name))
	case "body":
		all = a.Lay.M[r.Member].Name == "SHA256SUMS"
	}
	if all {
		return zvAllBits
	}
	return []int{zvBit(a.Seed, 't', p)}
}

// classifyTarFlip assigns the oracle class of a flip at position p of the tar (mt = mutated tar).
func (a *zvArchive) classifyTarFlip(p int, mt []byte) (string, bool, string) {
	r := a.Lay.region(p)
	switch r.Kind {
	case "hdr":
		m := a.Lay.M[r.Member]
		pos := m.Name + "/hdr/" + r.Field
		if r.Field == "name" && r.Off <= len(m.Name) {
			return "flip:hdr-name", true, pos
		}
		if r.Field == "name" {
			pos = m.Name + "/hdr/name-tail"
			return "flip:hdr-name-tail", false, pos
		}
		return "flip:hdr-" + r.Field, false, pos
	case "body":
		m := a.Lay.M[r.Member]
		if m.Name != "SHA256SUMS" {
			return "flip:" + m.Name + "-body", true, m.Name + "/body"
		}
		if c, ok := zvDecodeSums(mt[m.Body : m.Body+m.Size]); ok && c == a.Sums {
			return "flip:SHA256SUMS-body(same-content)", false, m.Name + "/body"
		}
		return "flip:SHA256SUMS-body", true, m.Name + "/body"
	case "pad":
		return "flip:padding", false, a.Lay.M[r.Member].Name + "/pad"
	}
	return "flip:end-of-archive-marker", false, "trailer/block" + strconv.Itoa(r.Off/zvBlk)
}

// ---------------- structural mutations ----------------

type zvStruct struct {
	Class string
	Must  bool
	Desc  string
	Tar   []byte
}

func (a *zvArchive) member(i int) []byte { m := a.Lay.M[i]; return a.Tar[m.Hdr:m.End] }
func (a *zvArchive) body(i int) []byte   { m := a.Lay.M[i]; return a.Tar[m.Body : m.Body+m.Size] }

func (a *zvArchive) structural(rng *core.Rand) []zvStruct {
	var out []zvStruct
	add := func(class string, must bool, desc string, t []byte) {
		out = append(out, zvStruct{class, must, desc, t})
	}
	mem := [][]byte{a.member(0), a.member(1), a.member(2)}
	names := []string{a.Lay.M[0].Name, a.Lay.M[1].Name, a.Lay.M[2].Name}
	trailer := a.Tar[a.Lay.Trailer:]
	assemble := func(parts ...[]byte) []byte { return zvCat(append(parts, trailer)...) }
	tmpl := mem[0][:zvBlk]

	// 1. member removed
	for i := 0; i < 3; i++ {
		var parts [][]byte
		for j := 0; j < 3; j++ {
			if j != i {
				parts = append(parts, mem[j])
			}
		}
		cls := "member-removed:" + names[i]
		if a.Lay.M[i].Size == 0 {
			cls = "member-absent(zero-length):" + names[i]
		}
		add(cls, true, "remove member "+names[i], assemble(parts...))
	}
	// 2. checksum line(s) removed
	lines := strings.SplitAfter(string(a.body(2)), "\n")
	var nonEmpty []string
	for _, l := range lines {
		if l != "" {
			nonEmpty = append(nonEmpty, l)
		}
	}
	for j, l := range nonEmpty {
		var rest []string
		for k, x := range nonEmpty {
			if k != j {
				rest = append(rest, x)
			}
		}
		f := strings.Fields(l)
		nb := []byte(strings.Join(rest, ""))
		add("checksum-line-removed:"+f[len(f)-1], true, "remove SHA256SUMS line of "+f[len(f)-1],
			assemble(mem[0], mem[1], zvMakeMember(mem[2], names[2], nb, 0, nil)))
	}
	add("checksum-line-removed:all", true, "SHA256SUMS emptied", assemble(mem[0], mem[1], zvMakeMember(mem[2], names[2], nil, 0, nil)))
	// 3. member renamed (header checksum recomputed, content untouched)
	for i := 0; i < 3; i++ {
		n := names[i]
		alts := []string{n + "2", n[:len(n)-1], "./" + n, strings.ToUpper(n[:1]) + strings.ToLower(n[1:]), "", "x", n + "/", " " + n, n + " "}
		if n == strings.ToUpper(n) {
			alts = append(alts, strings.ToLower(n))
		} else {
			alts = append(alts, strings.ToUpper(n))
		}
		other := names[(i+1)%3]
		alts = append(alts, other)
		for _, alt := range alts {
			if alt == n {
				continue
			}
			parts := [][]byte{mem[0], mem[1], mem[2]}
			parts[i] = zvRehdr(mem[i], func(h []byte) {
				for k := 0; k < 100; k++ {
					h[k] = 0
				}
				copy(h[:100], alt)
			})
			cls := "member-renamed:" + n
			if a.Lay.M[i].Size == 0 && (alt == names[0] || alt == names[1] || alt == names[2]) {
				// a zero-length member renamed to another expected name: what remains is an archive
				// WITHOUT that member and without any unexpected name — same class as its removal
				cls = "member-absent(zero-length):" + n
			}
			add(cls, true, fmt.Sprintf("rename %s to %q", n, alt), assemble(parts...))
		}
		parts := [][]byte{mem[0], mem[1], mem[2]}
		parts[i] = zvRehdr(mem[i], func(h []byte) { copy(h[345:500], "dir") })
		add("member-renamed:"+n, true, fmt.Sprintf("rename %s to dir/%s via the ustar prefix field", n, n), assemble(parts...))
	}
	// 4. unexpected member injected
	injNames := []string{"extra", "state.bin.bak", "SHA256SUMS.asc", "meta.json.orig"}
	injSizes := []int{0, 7, 512, 513}
	for pos := 0; pos <= 3; pos++ {
		for k, n := range injNames {
			body := rng.Bytes(injSizes[(pos+k)%len(injSizes)])
			inj := zvMakeMember(tmpl, n, body, 0, nil)
			parts := [][]byte{mem[0], mem[1], mem[2]}
			parts = append(parts[:pos], append([][]byte{inj}, parts[pos:]...)...)
			add("member-injected", true, fmt.Sprintf("inject %q (%d bytes) at member position %d", n, len(body), pos), assemble(parts...))
		}
	}
	specials := []struct {
		cls  string
		must bool
		desc string
		b    []byte
	}{
		{"member-injected:pax-long-name", true, "inject a member with a 150-character name (PAX header + member)", zvStdMember(&tar.Header{Name: strings.Repeat("n", 150), Mode: 0600, Size: 3, Format: tar.FormatPAX}, []byte("abc"))},
		{"member-injected:directory", true, "inject a directory entry \"d/\"", zvStdMember(&tar.Header{Name: "d/", Mode: 0700, Typeflag: tar.TypeDir}, nil)},
		{"member-injected:symlink", true, "inject a symlink \"l\" -> state.bin", zvStdMember(&tar.Header{Name: "l", Linkname: "state.bin", Mode: 0600, Typeflag: tar.TypeSymlink}, nil)},
		{"pax-global-header-injected", false, "inject a PAX global header (typeflag g)", zvMakeMember(tmpl, "pax_global_header", []byte(zvPaxRec("comment", "x")), 'g', nil)},
	}
	for _, sp := range specials {
		for pos := 0; pos <= 3; pos++ {
			parts := [][]byte{mem[0], mem[1], mem[2]}
			parts = append(parts[:pos], append([][]byte{sp.b}, parts[pos:]...)...)
			add(sp.cls, sp.must, fmt.Sprintf("%s at member position %d", sp.desc, pos), assemble(parts...))
		}
	}
	// 5. duplication (weak)
	for i := 0; i < 3; i++ {
		for pos := 0; pos <= 3; pos++ {
			parts := [][]byte{mem[0], mem[1], mem[2]}
			parts = append(parts[:pos], append([][]byte{mem[i]}, parts[pos:]...)...)
			add("member-duplicated:"+names[i], false, fmt.Sprintf("duplicate %s at member position %d", names[i], pos), assemble(parts...))
			empty := zvMakeMember(mem[i], names[i], nil, 0, nil)
			parts = [][]byte{mem[0], mem[1], mem[2]}
			parts = append(parts[:pos], append([][]byte{empty}, parts[pos:]...)...)
			add("member-duplicated-zero-length:"+names[i], false, fmt.Sprintf("insert a zero-length second %s at member position %d", names[i], pos), assemble(parts...))
		}
	}
	// 6. reordering (weak)
	for _, p := range [][]int{{0, 2, 1}, {1, 0, 2}, {1, 2, 0}, {2, 0, 1}, {2, 1, 0}} {
		add("members-reordered", false, fmt.Sprintf("order %s,%s,%s", names[p[0]], names[p[1]], names[p[2]]), assemble(mem[p[0]], mem[p[1]], mem[p[2]]))
	}
	// 7. extended headers in front of a member
	for i := 0; i < 3; i++ {
		n := names[i]
		pre := func(cls string, must bool, desc string, x []byte) {
			parts := [][]byte{mem[0], mem[1], mem[2]}
			parts = append(parts[:i], append([][]byte{x}, parts[i:]...)...)
			add(cls, must, desc+" before "+n, assemble(parts...))
		}
		pax := func(recs string) []byte { return zvMakeMember(tmpl, "PaxHeaders.0/"+n, []byte(recs), 'x', nil) }
		pre("pax-header:benign", false, "PAX extended header mtime=1.5", pax(zvPaxRec("mtime", "1.5")))
		pre("pax-header:benign", false, "PAX extended header path=<same name>", pax(zvPaxRec("path", n)))
		pre("member-renamed:pax-path", true, "PAX extended header path=evil.bin", pax(zvPaxRec("path", "evil.bin")))
		sz := a.Lay.M[i].Size
		pre("pax-header:size-override", false, "PAX extended header size=+1", pax(zvPaxRec("size", strconv.Itoa(sz+1))))
		if sz > 0 {
			pre("pax-header:size-override", false, "PAX extended header size=-1", pax(zvPaxRec("size", strconv.Itoa(sz-1))))
			pre("pax-header:size-override", false, "PAX extended header size=0", pax(zvPaxRec("size", "0")))
		}
		pre("gnu-long-name", false, "GNU long-name entry evil.bin", zvMakeMember(tmpl, "././@LongLink", []byte("evil.bin\x00"), 'L', nil))
	}
	// 8. size field rewritten (checksum recomputed): the member's extent changes
	for i := 0; i < 3; i++ {
		sz := a.Lay.M[i].Size
		for _, ns := range []int{sz - 1, sz + 1, 0, sz + 512, sz - 512} {
			if ns < 0 || ns == sz {
				continue
			}
			parts := [][]byte{mem[0], mem[1], mem[2]}
			nsz := ns
			parts[i] = zvRehdr(mem[i], func(h []byte) { copy(h[124:136], fmt.Sprintf("%011o\x00", nsz)) })
			add("member-resized:"+names[i], false, fmt.Sprintf("size field of %s %d -> %d", names[i], sz, ns), assemble(parts...))
		}
	}
	// 9. header fields that do not change name / size / content (checksum recomputed)
	rewrites := []struct {
		f   string
		mod func(h []byte)
	}{
		{"mode", func(h []byte) { copy(h[100:108], "0000777\x00") }},
		{"uid-gid", func(h []byte) { copy(h[108:116], "0001750\x00"); copy(h[116:124], "0001750\x00") }},
		{"mtime", func(h []byte) { copy(h[136:148], "00000000001\x00") }},
		{"uname-gname", func(h []byte) { copy(h[265:297], "root"); copy(h[297:329], "wheel") }},
		{"typeflag-nul", func(h []byte) { h[156] = 0 }},
		{"typeflag-contiguous", func(h []byte) { h[156] = '7' }},
		{"typeflag-directory", func(h []byte) { h[156] = '5' }},
		{"typeflag-hardlink", func(h []byte) { h[156] = '1' }},
		{"magic-gnu", func(h []byte) { copy(h[257:265], "ustar  \x00") }},
		{"magic-v7", func(h []byte) {
			for k := 257; k < 512; k++ {
				h[k] = 0
			}
		}},
		{"chksum-encoding", func(h []byte) {}}, // replaced below
	}
	for i := 0; i < 3; i++ {
		for _, rw := range rewrites {
			parts := [][]byte{mem[0], mem[1], mem[2]}
			if rw.f == "chksum-encoding" {
				x := append([]byte(nil), mem[i]...)
				copy(x[148:156], fmt.Sprintf("%07o ", zvHdrSum(x[:zvBlk]))) // same value, other legal spelling
				parts[i] = x
			} else {
				parts[i] = zvRehdr(mem[i], rw.mod)
			}
			add("header-rewrite:"+rw.f, false, "rewrite "+rw.f+" of "+names[i], assemble(parts...))
		}
	}
	// 10. bytes after the end-of-archive marker
	add("appended-after-marker", false, "append 512 zero bytes", zvCat(a.Tar, make([]byte, 512)))
	add("appended-after-marker", false, "append one zero byte", zvCat(a.Tar, []byte{0}))
	add("appended-after-marker", false, "append one 0xAA byte", zvCat(a.Tar, []byte{0xAA}))
	add("appended-after-marker", false, "append 512 random bytes", zvCat(a.Tar, rng.Bytes(512)))
	add("appended-after-marker", false, "append a second copy of the archive", zvCat(a.Tar, a.Tar))
	// 11. end-of-archive marker / zero block in front of a member
	for i := 0; i < 3; i++ {
		parts := [][]byte{mem[0], mem[1], mem[2]}
		p2 := append(append([][]byte{}, parts[:i]...), append([][]byte{make([]byte, 1024)}, parts[i:]...)...)
		add("end-marker-inserted", false, "two zero blocks before "+names[i], assemble(p2...))
		p1 := append(append([][]byte{}, parts[:i]...), append([][]byte{make([]byte, 512)}, parts[i:]...)...)
		add("zero-block-inserted", false, "one zero block before "+names[i], assemble(p1...))
	}
	return out
}

type zvGzStruct struct {
	Class string
	Desc  string
	Gz    []byte
}

func zvGzipWith(t []byte, level int, hdr func(w *gzip.Writer)) []byte {
	var b bytes.Buffer
	w, err := gzip.NewWriterLevel(&b, level)
	if err != nil {
		panic(err)
	}
	if hdr != nil {
		hdr(w)
	}
	w.Write(t)
	w.Close()
	return b.Bytes()
}

func (a *zvArchive) gzStructural(rng *core.Rand) []zvGzStruct {
	var out []zvGzStruct
	add := func(c, d string, g []byte) { out = append(out, zvGzStruct{c, d, g}) }
	add("gz-append", "append one zero byte", zvCat(a.Gz, []byte{0}))
	add("gz-append", "append one 0xFF byte", zvCat(a.Gz, []byte{0xFF}))
	add("gz-append", "append 16 random bytes", zvCat(a.Gz, rng.Bytes(16)))
	add("gz-append", "append an empty gzip member", zvCat(a.Gz, zvGzip(nil)))
	add("gz-append", "append the same gzip stream again", zvCat(a.Gz, a.Gz))
	add("gz-append", "append a gzip member holding 512 zero bytes", zvCat(a.Gz, zvGzip(make([]byte, 512))))
	// members smuggled in behind the end-of-archive marker, inside the same gzip stream and as a further gzip
	// member (the sizes move the injected bytes across the buffer boundaries of the readers)
	tmpl := a.Tar[a.Lay.M[0].Hdr:]
	end := make([]byte, 2*zvBlk)
	for _, n := range []int{0, 1, 100, 511, 512, 513, 1500, 3000, 4096, 5000, 9000} {
		m := zvMakeMember(tmpl, "extra.bin", bytes.Repeat([]byte{'x'}, n), 0, nil)
		add("gz-inject-member", fmt.Sprintf("extra member extra.bin (%d bytes) behind the end-of-archive marker, same gzip stream", n), zvGzip(zvCat(a.Tar, m, end)))
		add("gz-inject-member", fmt.Sprintf("extra member extra.bin (%d bytes) in an appended gzip member", n), zvCat(a.Gz, zvGzip(zvCat(m, end))))
	}
	st := a.member(1)
	add("gz-inject-member", "copy of the second member behind the end-of-archive marker, same gzip stream", zvGzip(zvCat(a.Tar, st, end)))
	add("gz-inject-member", "a whole second archive (re-encoded) appended as a gzip member", zvCat(a.Gz, zvGzipWith(a.Tar, gzip.BestSpeed, nil)))
	for _, n := range []int{1, 100, 512, 3000, 5000} {
		add("gz-inject-junk", fmt.Sprintf("%d non-zero junk bytes behind the end-of-archive marker, same gzip stream", n), zvGzip(zvCat(a.Tar, bytes.Repeat([]byte{0xA5}, n))))
		add("gz-inject-junk", fmt.Sprintf("%d zero bytes behind the end-of-archive marker, same gzip stream", n), zvGzip(zvCat(a.Tar, make([]byte, n))))
	}
	for _, lv := range []int{gzip.NoCompression, gzip.BestSpeed, gzip.BestCompression, gzip.HuffmanOnly} {
		add("gz-reencode", fmt.Sprintf("same tar, compression level %d", lv), zvGzipWith(a.Tar, lv, nil))
	}
	add("gz-reencode", "same tar, gzip header with name/comment/extra/mtime", zvGzipWith(a.Tar, gzip.DefaultCompression, func(w *gzip.Writer) {
		w.Name, w.Comment, w.Extra, w.ModTime = "snapshot.tar", "c", []byte{1, 2, 3, 4}, time.Unix(1500000000, 0)
	}))
	for _, k := range []int{1, 512, a.Lay.M[1].Body, a.Lay.lastDataEnd(), len(a.Tar) - 1} {
		if k > 0 && k < len(a.Tar) {
			add("gz-reencode", fmt.Sprintf("same tar split over two gzip members at %d", k), zvCat(zvGzip(a.Tar[:k]), zvGzip(a.Tar[k:])))
		}
	}
	return out
}

// ---------------- the test ----------------

type zvJob struct {
	name string
	fn   func(loc *zvLocal)
}

func TestZZVerifC20(t *testing.T) {
	run := core.NewRun("C20", "fault_enumeration",
		"archives written by the production writer (snapshot.write behind gzip as in snapshot.New; plus snapshot.New on a real in-memory raft) for payload sizes {0,1,511,512,513,4103} x random metadata; for each archive EVERY byte position of the uncompressed tar and of the gzip stream gets a bit flip (bit by PRNG; all 8 bits in SHA256SUMS, header name/size/chksum/typeflag fields and the gzip header/trailer; thorough: all 8 bits in whole tar headers), EVERY truncation length of tar and gzip stream, every member removal/duplication/reordering/rename/injection/checksum-line removal and header/extended-header/gzip-framing rewrites; each mutated archive goes through read (plain tar), snapshot.Verify and snapshot.Read (gzip). Class (must-reject vs reject-or-identical-extraction) is assigned from the tar layout parsed by the harness. non-trivial = mutation of a must-reject class, or a mutated archive that was accepted (so the extracted bytes and metadata were compared); distinct by (archive, domain, mutation)")
	run.Assume("archive/tar, compress/gzip, encoding/json and crypto/sha256 of the Go standard library are trusted; the code judged is consul's use of them (snapshot/archive.go, snapshot/snapshot.go)",
		"metadata strings are valid UTF-8 (JSON cannot carry anything else); raft.SnapshotMeta equality is equality of its JSON encoding",
		"a SHA256SUMS flip that leaves the decoded list content (digest values, file names) unchanged — hex digit case, a white-space variant of a separator — is judged by the weak oracle, every other SHA256SUMS flip is must-reject",
		"single-bit flips in tar header fields other than the member name are judged by the weak oracle (the property does not name them); they are in fact always rejected by the header checksum, see outcome counters",
		"the archive bytes contain the wall-clock mtime and a map-ordered SHA256SUMS, so gzip lengths (and with them the number of gzip-domain cases) can differ by a few bytes between runs of the same seed; positions, bits and classes are a pure function of seed and layout",
		"snapshot.Read leaks its temp file and descriptor on a failed read; the harness sweeps them (not judged here)")
	rng := core.NewRand(core.Seed())
	z := &zvCtx{run: run, logger: hclog.NewNullLogger()}

	// Private temp directory. snapshot.Read creates one temp file per call and leaks it on failure;
	// on the ext4 volume of the driver's TMPDIR creating/unlinking ~10^5..10^6 files costs 6x the
	// rest of the run, so a tmpfs directory is used when there is one (removed at the end; stale
	// directories of dead processes are removed at start). Fallback: below the driver's TMPDIR.
	oldTmp, hadTmp := os.LookupEnv("TMPDIR")
	tmp := ""
	if st, serr := os.Stat("/dev/shm"); serr == nil && st.IsDir() {
		if old, _ := os.ReadDir("/dev/shm"); old != nil {
			for _, e := range old {
				if rest, ok := strings.CutPrefix(e.Name(), "zvc20-"); ok {
					if _, perr := os.Stat("/proc/" + rest); perr != nil {
						os.RemoveAll("/dev/shm/" + e.Name())
					}
				}
			}
		}
		d := fmt.Sprintf("/dev/shm/zvc20-%d", os.Getpid())
		os.RemoveAll(d)
		if os.Mkdir(d, 0o700) == nil {
			tmp = d
		}
	}
	if tmp == "" {
		d, err := os.MkdirTemp("", "zvc20-")
		if err != nil {
			t.Fatalf("temp dir: %v", err)
		}
		tmp = d
	}
	run.Extra("temp_dir", tmp)
	z.tmp = tmp
	os.Setenv("TMPDIR", tmp)
	defer func() {
		if hadTmp {
			os.Setenv("TMPDIR", oldTmp)
		} else {
			os.Unsetenv("TMPDIR")
		}
		os.RemoveAll(tmp)
	}()

	// ---- archives
	sizes := []int{0, 1, 511, 512, 513, 4096 + 7}
	type spec struct {
		size int
		kind string
	}
	var specs []spec
	for rep := 0; rep < core.N(1, 7); rep++ {
		for _, s := range sizes {
			specs = append(specs, spec{s, "random"})
		}
	}
	specials := []spec{{513, "zeros"}, {4096 + 7, "embedded-archive"}, {512, "0xff"}, {4096 + 7, "zeros"}, {1, "zeros"}, {511, "text"}}
	specs = append(specs, specials[:core.N(2, 6)]...)
	for i, sp := range specs {
		ar := rng.Fork(uint64(1000 + i))
		var payload []byte
		switch sp.kind {
		case "random":
			payload = ar.Bytes(sp.size)
		case "zeros":
			payload = make([]byte, sp.size)
		case "0xff":
			payload = bytes.Repeat([]byte{0xff}, sp.size)
		case "text":
			payload = []byte(strings.Repeat("meta.json state.bin SHA256SUMS\n", 40))[:sp.size]
		case "embedded-archive":
			inner, ierr := zvBuild(-1, "inner", ar.Bytes(10), zvRandMeta(ar, 10, true), 0)
			if ierr != nil {
				t.Fatalf("inner archive: %v", ierr)
			}
			payload = append(append([]byte(nil), inner.Tar...), ar.Bytes(sp.size)...)[:sp.size]
		}
		meta := zvRandMeta(ar, sp.size, i%2 == 0)
		a, berr := zvBuild(i, sp.kind, payload, meta, ar.U64())
		run.Eval()
		if berr != nil {
			run.Violation("C20:write:unusable-archive", fmt.Sprintf("archive %d (payload %d bytes, metadata %s): production writer output not as documented: %v", i, sp.size, a.MetaJS, berr),
				map[string]any{"metadata": json.RawMessage(a.MetaJS), "payload_b64": base64.StdEncoding.EncodeToString(payload), "tar_b64": base64.StdEncoding.EncodeToString(a.Tar)})
			continue
		}
		z.arch = append(z.arch, a)
		a.Idx = len(z.arch) - 1
		z.checkWritten(a)
		z.roundTrip(a)
	}
	if len(z.arch) == 0 {
		run.Finish()
		t.Fatal("no usable archive")
	}

	// ---- real raft: snapshot.New round trip, positive restore control
	if r, fsm, rerr := zvMakeRaft(); rerr != nil {
		run.Inconclusive("cannot start in-memory raft: " + rerr.Error())
	} else {
		z.raft, z.fsm = r, fsm
		defer r.Shutdown()
		z.newRoundTrip(rng.Fork(77), sizes)
	}
	// ---- round trips over metadata size (no mutation): 0..2000 servers, meta.json up to > 1 MiB
	z.metaSizeRoundTrips(rng.Fork(88))
	z.newLargeConfigRoundTrip(rng.Fork(89), core.N(64, 400))
	run.Floor("round-trip:snapshot.New-large-config-ok", 2)

	// ---- jobs
	var jobs []zvJob
	const chunk = 256
	for _, a := range z.arch {
		a := a
		for lo := 0; lo < len(a.Tar); lo += chunk {
			lo, hi := lo, lo+chunk
			if hi > len(a.Tar) {
				hi = len(a.Tar)
			}
			jobs = append(jobs, zvJob{fmt.Sprintf("a%d tar flips %d-%d", a.Idx, lo, hi), func(loc *zvLocal) {
				for p := lo; p < hi; p++ {
					for _, bit := range a.tarBits(p) {
						mt := append([]byte(nil), a.Tar...)
						mt[p] ^= 1 << uint(bit)
						cls, must, where := a.classifyTarFlip(p, mt)
						loc.dist("flip-position", where)
						z.runTar(loc, zvCase{Arch: a.Idx, Kind: "flip", Class: cls, Must: must, Desc: fmt.Sprintf("flip tar byte %d bit %d (%s)", p, bit, where)}, mt)
					}
				}
			}})
			jobs = append(jobs, zvJob{fmt.Sprintf("a%d tar truncations %d-%d", a.Idx, lo, hi), func(loc *zvLocal) {
				lastEnd := a.Lay.lastDataEnd()
				for n := lo; n < hi; n++ {
					cls, must := "trunc:after-last-member-data", false
					if n < lastEnd {
						cls, must = "trunc:before-last-member-complete", true
					}
					r := a.Lay.region(n)
					where := r.Kind
					if r.Member >= 0 {
						where = a.Lay.M[r.Member].Name + "/" + r.Kind
					}
					loc.dist("trunc-position", where)
					z.runTar(loc, zvCase{Arch: a.Idx, Kind: "trunc", Class: cls, Must: must, Desc: fmt.Sprintf("truncate tar to %d bytes (cut in %s)", n, where)}, a.Tar[:n])
				}
			}})
		}
		srng := core.NewRand(a.Seed ^ 0x51)
		for _, s := range a.structural(srng) {
			s := s
			jobs = append(jobs, zvJob{fmt.Sprintf("a%d %s", a.Idx, s.Desc), func(loc *zvLocal) {
				z.runTar(loc, zvCase{Arch: a.Idx, Kind: "struct", Class: s.Class, Must: s.Must, Desc: s.Desc}, s.Tar)
			}})
		}
		for lo := 0; lo < len(a.Gz); lo += chunk {
			lo, hi := lo, lo+chunk
			if hi > len(a.Gz) {
				hi = len(a.Gz)
			}
			jobs = append(jobs, zvJob{fmt.Sprintf("a%d gz flips %d-%d", a.Idx, lo, hi), func(loc *zvLocal) {
				for p := lo; p < hi; p++ {
					bits := []int{zvBit(a.Seed, 'g', p)}
					where := "deflate"
					if p < 10 {
						bits, where = zvAllBits, "gzip-header"
					} else if p >= len(a.Gz)-8 {
						bits, where = zvAllBits, "gzip-trailer"
					}
					for _, bit := range bits {
						mg := append([]byte(nil), a.Gz...)
						mg[p] ^= 1 << uint(bit)
						z.runGz(loc, zvCase{Arch: a.Idx, Kind: "flip", Class: "gz-flip:" + where, Desc: fmt.Sprintf("flip gzip byte %d bit %d (%s)", p, bit, where)}, mg)
					}
				}
			}})
			jobs = append(jobs, zvJob{fmt.Sprintf("a%d gz truncations %d-%d", a.Idx, lo, hi), func(loc *zvLocal) {
				for n := lo; n < hi; n++ {
					z.runGz(loc, zvCase{Arch: a.Idx, Kind: "trunc", Class: "gz-trunc", Desc: fmt.Sprintf("truncate gzip stream to %d of %d bytes", n, len(a.Gz))}, a.Gz[:n])
				}
			}})
		}
		jobs = append(jobs, z.sumsStructureJobs(a)...)
		for _, s := range a.gzStructural(core.NewRand(a.Seed ^ 0x52)) {
			s := s
			jobs = append(jobs, zvJob{fmt.Sprintf("a%d %s", a.Idx, s.Desc), func(loc *zvLocal) {
				z.runGz(loc, zvCase{Arch: a.Idx, Kind: "struct", Class: s.Class, Desc: s.Desc}, s.Gz)
			}})
		}
	}
	run.Extra("jobs", len(jobs))
	run.Extra("archives", len(z.arch))

	workers := runtime.GOMAXPROCS(0)
	if workers > 16 {
		workers = 16
	}
	ch := make(chan zvJob)
	var wg sync.WaitGroup
	for w := 0; w < workers; w++ {
		wg.Add(1)
		go func() {
			defer wg.Done()
			loc := zvNewLocal()
			for j := range ch {
				if atomic.LoadInt32(&z.stop) != 0 {
					continue
				}
				j.fn(loc)
				loc.flush(run)
				if run.Violations() > 30 {
					atomic.StoreInt32(&z.stop, 1)
				}
			}
		}()
	}
	for _, j := range jobs {
		ch <- j
	}
	close(ch)
	wg.Wait()
	z.sweep()

	run.Floor("roundtrip:ok", 3*len(specs))
	run.Floor("roundtrip:snapshot.New-ok", len(sizes))
	run.Floor("must-reject-cases", core.N(30000, 300000))
	run.Floor("weak-oracle-cases", core.N(30000, 300000))
	run.Floor("accepted-with-identical-extraction", core.N(2000, 15000))
	run.Floor("restore:rejected-archive-checked", core.N(500, 500))
	run.Floor("restore:accepted-archive-checked", 10)
	run.Floor("restore:positive-control", 1)
	run.FloorDistinct("class", 45)
	run.FloorDistinct("flip-position", 50)
	run.FloorDistinct("trunc-position", 9)
	run.FloorDistinct("gz-effect", 4)
	run.Floor("sums-structure:cases", core.N(15000, 90000))
	run.Floor("sums-structure:member-without-checksum-cases", core.N(10000, 60000))
	run.Floor("sums-structure:altered-member-cases", core.N(10000, 60000))
	run.FloorDistinct("sums-structure:shape", 8)
	run.FloorDistinct("sums-structure:alteration", 4)
	run.FloorDistinct("sums-structure:list-length", 5)
	if run.Finish() == 1 {
		t.Fail()
	}
}

// checkWritten judges the writer independently of the reader: the archive it produced must hold
// exactly the three documented members with the given data and correct digests.
func (z *zvCtx) checkWritten(a *zvArchive) {
	run := z.run
	bad := func(what string) {
		run.Violation("C20:write:"+strings.SplitN(what, ":", 2)[0], fmt.Sprintf("archive %d (payload %d bytes): %s", a.Idx, len(a.Payload), what), z.witness(zvCase{Arch: a.Idx, Desc: "none"}, a.Gz, nil))
	}
	l := a.Lay
	if len(l.M) != 3 || l.M[0].Name != "meta.json" || l.M[1].Name != "state.bin" || l.M[2].Name != "SHA256SUMS" {
		bad(fmt.Sprintf("members: %+v", l.M))
		return
	}
	if !bytes.Equal(a.body(1), a.Payload) {
		bad("state-bytes: state.bin member differs from the payload")
	}
	var m raft.SnapshotMeta
	if err := json.Unmarshal(a.body(0), &m); err != nil || zvMetaJSON(&m) != a.MetaJS {
		bad(fmt.Sprintf("metadata: meta.json %q does not decode to %s (%v)", a.body(0), a.MetaJS, err))
	}
	want, _ := zvDecodeSums([]byte(zvSha(a.body(0)) + "  meta.json\n" + zvSha(a.body(1)) + "  state.bin\n"))
	got, ok := zvDecodeSums(a.body(2))
	if !ok || got != want {
		bad(fmt.Sprintf("sums: SHA256SUMS %q, expected content %q", a.body(2), want))
	}
	a.Sums = want
	if d, err := zvGunzip(a.Gz); err != nil || !bytes.Equal(d, a.Tar) {
		bad(fmt.Sprintf("gzip: stream does not decompress to the tar (%v)", err))
	}
	run.Count("writer-output-checked")
}

func (z *zvCtx) roundTrip(a *zvArchive) {
	run := z.run
	for _, r := range []zvRes{zvPlain(a.Tar), zvVerifyGz(a.Gz), z.readGz(a.Gz)} {
		run.Eval()
		what := ""
		switch {
		case r.Infra:
			run.Inconclusive("round trip: " + r.Err)
			continue
		case !r.Acc:
			what = "rejected: " + r.Err
		case r.Meta != a.MetaJS:
			what = fmt.Sprintf("metadata %s != written %s", r.Meta, a.MetaJS)
		case r.HasState && !bytes.Equal(r.State, a.Payload):
			what = fmt.Sprintf("state len=%d sha=%s != written len=%d sha=%s", r.StateLen, r.StateSha, len(a.Payload), zvSha(a.Payload))
		}
		if what != "" {
			run.Violation("C20:roundtrip:"+strings.SplitN(what, " ", 2)[0], fmt.Sprintf("archive %d (payload %d bytes %s): %s of the unmodified archive: %s", a.Idx, len(a.Payload), a.Kind, r.Path, what),
				z.witness(zvCase{Arch: a.Idx, Desc: "none"}, a.Gz, []zvRes{r}))
			continue
		}
		run.Count("roundtrip:ok")
		run.NonTrivial(core.Hash("roundtrip", strconv.Itoa(a.Idx), r.Path))
	}
}

// newRoundTrip: snapshot.New on a real raft -> archive -> Verify/Read/Restore into the same raft.
func (z *zvCtx) newRoundTrip(rng *core.Rand, sizes []int) {
	run := z.run
	for i, sz := range sizes {
		payload := rng.Bytes(sz)
		z.fsm.mu.Lock()
		z.fsm.snap = payload
		z.fsm.mu.Unlock()
		if err := z.raft.Apply([]byte("x"), 10*time.Second).Error(); err != nil {
			run.Inconclusive("raft apply: " + err.Error())
			continue
		}
		run.Eval()
		z.tmpMu.RLock()
		s, err := New(z.logger, z.raft)
		var gz []byte
		var idx uint64
		if err == nil {
			gz, _ = io.ReadAll(s)
			idx = s.Index()
			s.Close()
		}
		z.tmpMu.RUnlock()
		if err != nil {
			run.Inconclusive("snapshot.New: " + err.Error())
			continue
		}
		bad := func(what string) {
			run.Violation("C20:roundtrip:snapshot.New:"+strings.SplitN(what, ":", 2)[0], fmt.Sprintf("snapshot.New with a %d-byte FSM snapshot: %s", sz, what),
				map[string]any{"payload_b64": base64.StdEncoding.EncodeToString(payload), "archive_gz_b64": base64.StdEncoding.EncodeToString(gz)})
		}
		tb, derr := zvGunzip(gz)
		if derr != nil {
			bad("gzip: " + derr.Error())
			continue
		}
		lay, lerr := zvParseTar(tb)
		if lerr != nil || len(lay.M) != 3 || lay.M[1].Name != "state.bin" || lay.M[0].Name != "meta.json" {
			bad(fmt.Sprintf("layout: %v %+v", lerr, lay.M))
			continue
		}
		var m raft.SnapshotMeta
		mb := tb[lay.M[0].Body : lay.M[0].Body+lay.M[0].Size]
		if err := json.Unmarshal(mb, &m); err != nil || m.Index != idx || m.Size != int64(sz) {
			bad(fmt.Sprintf("metadata: %q (index reported %d) %v", mb, idx, err))
			continue
		}
		if !bytes.Equal(tb[lay.M[1].Body:lay.M[1].Body+lay.M[1].Size], payload) {
			bad("state-bytes: state.bin differs from what the FSM persisted")
			continue
		}
		ok := true
		for _, r := range []zvRes{zvPlain(tb), zvVerifyGz(gz), z.readGz(gz)} {
			if !r.Acc || r.Meta != zvMetaJSON(&m) || (r.HasState && !bytes.Equal(r.State, payload)) {
				bad(fmt.Sprintf("read-back: %s: accepted=%v err=%q metadata %s vs %s, state sha %s vs %s", r.Path, r.Acc, r.Err, r.Meta, zvMetaJSON(&m), r.StateSha, zvSha(payload)))
				ok = false
			}
		}
		// positive control of the restore recorder
		n0, _ := z.fsm.state()
		z.tmpMu.RLock()
		rerr := Restore(z.logger, bytes.NewReader(gz), z.raft)
		z.tmpMu.RUnlock()
		n1, s1 := z.fsm.state()
		if rerr != nil {
			run.Inconclusive("snapshot.Restore of a valid archive: " + rerr.Error())
			ok = false
		} else if n1 != n0+1 || s1 != zvSha(payload) {
			bad(fmt.Sprintf("restore: FSM.Restore calls %d->%d, restored sha %s, expected %s", n0, n1, s1, zvSha(payload)))
			ok = false
		} else {
			run.Count("restore:positive-control")
		}
		if ok {
			run.Count("roundtrip:snapshot.New-ok")
			run.NonTrivial(core.Hash("new-roundtrip", strconv.Itoa(i)))
		}
	}
}
