//go:build verif

// Independent tar-structure tooling of the C20 monitor: a strict ustar layout parser (written from the
// POSIX ustar description, not using archive/tar), header (re)construction with checksum recomputation,
// a reference decoder of SHA256SUMS-style lists and the region classifier that decides from the layout
// which oracle applies to a mutation.
package snapshot

import (
	"archive/tar"
	"bytes"
	"fmt"
	"sort"
	"strconv"
	"strings"
)

const zvBlk = 512

type zvMember struct {
	Name string `json:"name"`
	Hdr  int    `json:"hdr"`  // offset of the 512-byte header
	Body int    `json:"body"` // offset of the first data byte
	Size int    `json:"size"` // data bytes
	End  int    `json:"end"`  // offset after the padding
}

type zvLayout struct {
	M       []zvMember `json:"members"`
	Trailer int        `json:"trailer"` // offset of the end-of-archive marker
	Len     int        `json:"len"`
}

var zvFields = []struct {
	name   string
	lo, hi int
}{{"name", 0, 100}, {"mode", 100, 108}, {"uid", 108, 116}, {"gid", 116, 124}, {"size", 124, 136}, {"mtime", 136, 148},
	{"chksum", 148, 156}, {"typeflag", 156, 157}, {"linkname", 157, 257}, {"magic", 257, 263}, {"version", 263, 265},
	{"uname", 265, 297}, {"gname", 297, 329}, {"devmajor", 329, 337}, {"devminor", 337, 345}, {"prefix", 345, 500}, {"hdrpad", 500, 512}}

func zvFieldAt(off int) string {
	for _, f := range zvFields {
		if off >= f.lo && off < f.hi {
			return f.name
		}
	}
	return "?"
}

func zvIsZero(b []byte) bool {
	for _, c := range b {
		if c != 0 {
			return false
		}
	}
	return true
}

func zvCStr(b []byte) string {
	if i := bytes.IndexByte(b, 0); i >= 0 {
		b = b[:i]
	}
	return string(b)
}

// zvOctal parses a ustar numeric field: octal digits, terminated/padded by NUL or space.
func zvOctal(b []byte) (int, bool) {
	s := strings.Trim(string(b), " \x00")
	if s == "" {
		return 0, true
	}
	n, err := strconv.ParseInt(s, 8, 64)
	return int(n), err == nil
}

// zvHdrSum is the ustar header checksum: byte sum with the chksum field taken as spaces.
func zvHdrSum(h []byte) int {
	s := 0
	for i, c := range h[:zvBlk] {
		if i >= 148 && i < 156 {
			c = ' '
		}
		s += int(c)
	}
	return s
}

func zvFixSum(h []byte) { copy(h[148:156], fmt.Sprintf("%06o\x00 ", zvHdrSum(h))) }

// zvParseTar parses the layout of an archive as the production writer is expected to emit it:
// plain ustar regular-file members, contiguous, followed by exactly two zero blocks.
func zvParseTar(t []byte) (zvLayout, error) {
	var l zvLayout
	l.Len = len(t)
	if len(t)%zvBlk != 0 {
		return l, fmt.Errorf("length %d is not a multiple of 512", len(t))
	}
	off := 0
	for {
		if off+zvBlk > len(t) {
			return l, fmt.Errorf("no end-of-archive marker")
		}
		h := t[off : off+zvBlk]
		if zvIsZero(h) {
			l.Trailer = off
			if len(t)-off != 2*zvBlk || !zvIsZero(t[off:]) {
				return l, fmt.Errorf("end-of-archive marker is not exactly two zero blocks (%d bytes remain)", len(t)-off)
			}
			return l, nil
		}
		if string(h[257:263]) != "ustar\x00" || string(h[263:265]) != "00" {
			return l, fmt.Errorf("member at %d: not a ustar header (magic %q)", off, h[257:265])
		}
		if h[156] != '0' {
			return l, fmt.Errorf("member at %d: typeflag %q", off, h[156])
		}
		if h[345] != 0 {
			return l, fmt.Errorf("member at %d: has a prefix", off)
		}
		sum, ok := zvOctal(h[148:156])
		if !ok || sum != zvHdrSum(h) {
			return l, fmt.Errorf("member at %d: header checksum mismatch", off)
		}
		size, ok := zvOctal(h[124:136])
		if !ok || size < 0 {
			return l, fmt.Errorf("member at %d: bad size", off)
		}
		m := zvMember{Name: zvCStr(h[0:100]), Hdr: off, Body: off + zvBlk, Size: size}
		m.End = m.Body + (size+zvBlk-1)/zvBlk*zvBlk
		if m.End > len(t) {
			return l, fmt.Errorf("member %q overruns the archive", m.Name)
		}
		if !zvIsZero(t[m.Body+size : m.End]) {
			return l, fmt.Errorf("member %q: padding not zero", m.Name)
		}
		l.M = append(l.M, m)
		off = m.End
	}
}

func (l zvLayout) lastDataEnd() int {
	m := l.M[len(l.M)-1]
	return m.Body + m.Size
}

type zvRegion struct {
	Member int    // -1 for the trailer
	Kind   string // hdr | body | pad | trailer
	Field  string // header field name (hdr only)
	Off    int    // offset inside the header / body
}

func (l zvLayout) region(p int) zvRegion {
	for i, m := range l.M {
		switch {
		case p >= m.Hdr && p < m.Body:
			return zvRegion{i, "hdr", zvFieldAt(p - m.Hdr), p - m.Hdr}
		case p >= m.Body && p < m.Body+m.Size:
			return zvRegion{i, "body", "", p - m.Body}
		case p >= m.Body+m.Size && p < m.End:
			return zvRegion{i, "pad", "", p - m.Body - m.Size}
		}
	}
	return zvRegion{-1, "trailer", "", p - l.Trailer}
}

// ---------- SHA256SUMS reference decoding ----------

func zvIsSumSpace(c byte) bool { return c == ' ' || (c >= '\t' && c <= '\r') }

// zvDecodeSums decodes a SHA256SUMS-style list into its CONTENT: the set of (digest, file name)
// pairs. Tokens are separated by ASCII white space, the digest is 64 hex digits in either case.
// Two lists with the same content bind the same files to the same digests; a list whose content
// differs from the original has been altered in a way verification has to notice.
func zvDecodeSums(b []byte) (string, bool) {
	var toks []string
	i := 0
	for i < len(b) {
		for i < len(b) && zvIsSumSpace(b[i]) {
			i++
		}
		j := i
		for j < len(b) && !zvIsSumSpace(b[j]) {
			j++
		}
		if j > i {
			toks = append(toks, string(b[i:j]))
		}
		i = j
	}
	if len(toks)%2 != 0 {
		return "", false
	}
	var pairs []string
	for k := 0; k < len(toks); k += 2 {
		d := toks[k]
		if len(d) != 64 {
			return "", false
		}
		for _, c := range []byte(d) {
			if !((c >= '0' && c <= '9') || (c >= 'a' && c <= 'f') || (c >= 'A' && c <= 'F')) {
				return "", false
			}
		}
		pairs = append(pairs, strings.ToLower(d)+" "+toks[k+1])
	}
	sort.Strings(pairs)
	return strings.Join(pairs, "\n"), true
}

// ---------- member construction ----------

func zvPad(body []byte) []byte {
	if r := len(body) % zvBlk; r != 0 {
		return make([]byte, zvBlk-r)
	}
	return nil
}

// zvMakeMember builds header+body+padding from a template header (mode, mtime, magic ... are kept).
func zvMakeMember(tmpl []byte, name string, body []byte, typeflag byte, mod func(h []byte)) []byte {
	h := make([]byte, zvBlk)
	copy(h, tmpl[:zvBlk])
	for i := 0; i < 100; i++ {
		h[i] = 0
	}
	copy(h[:100], name)
	copy(h[124:136], fmt.Sprintf("%011o\x00", len(body)))
	if typeflag != 0 {
		h[156] = typeflag
	}
	if mod != nil {
		mod(h)
	}
	zvFixSum(h)
	out := append(h, body...)
	return append(out, zvPad(body)...)
}

// zvRehdr returns a copy of a whole member with its header edited and the checksum recomputed.
func zvRehdr(member []byte, mod func(h []byte)) []byte {
	out := append([]byte(nil), member...)
	mod(out[:zvBlk])
	zvFixSum(out[:zvBlk])
	return out
}

// zvStdMember lets the standard library build a member (PAX / long names / special types).
func zvStdMember(h *tar.Header, body []byte) []byte {
	var b bytes.Buffer
	w := tar.NewWriter(&b)
	if err := w.WriteHeader(h); err != nil {
		panic(err)
	}
	if len(body) > 0 {
		if _, err := w.Write(body); err != nil {
			panic(err)
		}
	}
	if err := w.Flush(); err != nil {
		panic(err)
	}
	return b.Bytes()
}

func zvPaxRec(k, v string) string {
	n := len(k) + len(v) + 3 // space, '=', newline
	size := n + len(strconv.Itoa(n))
	if len(strconv.Itoa(size)) != len(strconv.Itoa(n)) {
		size = n + len(strconv.Itoa(size))
	}
	return fmt.Sprintf("%d %s=%s\n", size, k, v)
}

func zvCat(parts ...[]byte) []byte {
	var out []byte
	for _, p := range parts {
		out = append(out, p...)
	}
	return out
}
