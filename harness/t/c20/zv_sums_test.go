//go:build verif

// Structural rewrites of the SHA256SUMS member as a whole (C20: "an archive that lacks a member OR ITS
// CHECKSUM is rejected, and any alteration of state or metadata is detected").
//
// For every archive ALL line lists of length 0..4 over the alphabet
//
//	M  correct digest of meta.json, named meta.json
//	S  correct digest of state.bin, named state.bin
//	U  a digest, named after a file that is not in the archive
//	Xs the (correct) digest of meta.json, named state.bin
//	Xm the (correct) digest of state.bin, named meta.json
//
// are written into an otherwise well-formed archive (SHA256SUMS header size and checksum recomputed),
// each combined with: unmodified members | one state byte altered | one digit of the metadata index
// altered (JSON stays valid) | state.bin shortened by its last byte (header recomputed).
//
// Classifier (from the list and the alteration only):
//   - a list without a correct line for BOTH members: must reject (a member lacks its checksum);
//   - any alteration: must reject (the bytes differ from what the present correct digest covers, or the
//     altered member has no correct line at all);
//   - unmodified members and a list that holds M and S: weak oracle (reject, or accept with identical
//     extraction) — also when correct lines are repeated or U / Xs / Xm lines come on top (the real
//     reader rejects those; the property does not name them).
package snapshot

import (
	"fmt"
	"strings"
)

type zvSumsAlt struct {
	name string
	mem  [][]byte // members 0 and 1 after the alteration
	whom string   // altered member ("" = none)
}

func (a *zvArchive) sumsAlterations() []zvSumsAlt {
	m0, m1 := a.member(0), a.member(1)
	out := []zvSumsAlt{{"unmodified", [][]byte{m0, m1}, ""}}
	if n := a.Lay.M[1].Size; n > 0 {
		x := append([]byte(nil), m1...)
		x[zvBlk+n/2] ^= 0x10
		out = append(out, zvSumsAlt{"state-byte-altered", [][]byte{m0, x}, "state.bin"})
		out = append(out, zvSumsAlt{"state-truncated-by-one", [][]byte{m0, zvMakeMember(m1, "state.bin", a.Payload[:n-1], 0, nil)}, "state.bin"})
	}
	// last digit of "Index":<digits>
	body := a.body(0)
	if i := strings.Index(string(body), `"Index":`); i >= 0 {
		j := i + len(`"Index":`)
		for j < len(body) && body[j] >= '0' && body[j] <= '9' {
			j++
		}
		if j > i+len(`"Index":`) {
			x := append([]byte(nil), m0...)
			d := x[zvBlk+j-1]
			x[zvBlk+j-1] = '0' + (d-'0'+1)%10
			if j-1 == i+len(`"Index":`) && x[zvBlk+j-1] == '0' {
				x[zvBlk+j-1] = '1'
			}
			out = append(out, zvSumsAlt{"metadata-index-digit-altered", [][]byte{x, m1}, "meta.json"})
		}
	}
	return out
}

func (z *zvCtx) sumsStructureJobs(a *zvArchive) []zvJob {
	shaM, shaS := zvSha(a.body(0)), zvSha(a.body(1))
	sym := []struct{ tag, line string }{
		{"M", shaM + "  meta.json\n"},
		{"S", shaS + "  state.bin\n"},
		{"U", zvSha([]byte("nope")) + "  nope.bin\n"},
		{"Xs", shaM + "  state.bin\n"},
		{"Xm", shaS + "  meta.json\n"},
	}
	if shaM == shaS {
		return nil // cannot happen for real metadata; the classifier below relies on it
	}
	var lists [][]int
	var gen func(cur []int, n int)
	gen = func(cur []int, n int) {
		if len(cur) == n {
			lists = append(lists, append([]int(nil), cur...))
			return
		}
		for s := range sym {
			gen(append(cur, s), n)
		}
	}
	for n := 0; n <= 4; n++ {
		gen(nil, n)
	}
	alts := a.sumsAlterations()
	trailer := a.Tar[a.Lay.Trailer:]
	sumsTmpl := a.member(2)
	var jobs []zvJob
	const per = 60
	for lo := 0; lo < len(lists); lo += per {
		lo, hi := lo, lo+per
		if hi > len(lists) {
			hi = len(lists)
		}
		jobs = append(jobs, zvJob{fmt.Sprintf("a%d sums-structure lists %d-%d", a.Idx, lo, hi), func(loc *zvLocal) {
			for _, l := range lists[lo:hi] {
				var sb strings.Builder
				var tags []string
				cnt := make([]int, len(sym))
				for _, s := range l {
					sb.WriteString(sym[s].line)
					tags = append(tags, sym[s].tag)
					cnt[s]++
				}
				hasM, hasS := cnt[0] > 0, cnt[1] > 0
				lacks := ""
				switch {
				case !hasM && !hasS:
					lacks = "both"
				case !hasM:
					lacks = "meta.json"
				case !hasS:
					lacks = "state.bin"
				}
				cover := "lacks-line:" + lacks
				if lacks == "" {
					switch {
					case cnt[2]+cnt[3]+cnt[4] > 0:
						cover = "covers-both+unknown-or-contradicting-line"
					case cnt[0]+cnt[1] > 2:
						cover = "covers-both+repeated-correct-line"
					default:
						cover = "covers-both-exactly"
					}
				}
				shape := cover
				if lacks != "" && lacks != "both" && cnt[2]+cnt[3]+cnt[4] == 0 && len(l) >= 2 {
					shape = "one-line-absent-other-repeated"
					if len(l) == 2 {
						shape = "one-line-absent-other-repeated(same-line-count-and-size)"
					}
				}
				if len(l) == 2 && hasM && hasS {
					shape = "both-lines:" + strings.Join(tags, ",")
				}
				sums := zvMakeMember(sumsTmpl, "SHA256SUMS", []byte(sb.String()), 0, nil)
				for _, alt := range alts {
					must := lacks != "" || alt.whom != ""
					cs := zvCase{Arch: a.Idx, Kind: "sums-structure", Must: must,
						Class: "sums-structure:" + cover + ":" + alt.name,
						Desc:  fmt.Sprintf("SHA256SUMS rewritten to lines [%s], members %s", strings.Join(tags, ","), alt.name)}
					switch {
					case alt.whom != "" && (lacks == alt.whom || lacks == "both"):
						// the altered member has no correct checksum line at all
						cs.MustKey = "C20:sums-structure:member-without-checksum-accepted:" + lacks + ":" + alt.name
					case lacks != "":
						cs.MustKey = "C20:sums-structure:member-without-checksum-accepted:" + lacks + ":" + alt.name
					case alt.whom != "":
						cs.MustKey = "C20:sums-structure:altered-member-accepted:" + alt.whom + ":" + alt.name + ":" + cover
					}
					cs.WeakKey = "C20:sums-structure:" + cover + ":accepted"
					loc.count("sums-structure:cases")
					if lacks != "" {
						loc.count("sums-structure:member-without-checksum-cases")
					}
					if alt.whom != "" {
						loc.count("sums-structure:altered-member-cases")
					}
					loc.dist("sums-structure:shape", shape)
					loc.dist("sums-structure:alteration", alt.name)
					loc.dist("sums-structure:list-length", fmt.Sprint(len(l)))
					z.runTar(loc, cs, zvCat(alt.mem[0], alt.mem[1], sums, trailer))
				}
			}
		}})
	}
	return jobs
}
