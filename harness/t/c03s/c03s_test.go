//go:build verif

// C03 (server tier) - the KV read endpoints of a real single-node server return exactly the content of a
// sequential map: KVS.Get, KVS.List and KVS.ListKeys (with every separator of a small adversarial set)
// after every write RPC of PRNG histories over prefix-related keys. The store-level monitor (group c03)
// cannot see the endpoint's own logic (separator folding and de-duplication live in kvs_endpoint.go).
package consul

import (
	"bytes"
	"context"
	"fmt"
	"sort"
	"strings"
	"testing"

	"github.com/hashicorp/consul/agent/structs"
	"github.com/hashicorp/consul/api"
	"github.com/hashicorp/consul/zzverif/core"
)

type zv3Ent struct {
	val   []byte
	flags uint64
}

var zv3Keys = []string{"web/a", "web/b", "web/sub/c", "web//d", "webapp", "webapp/x", "/lead", "a", "a/", "a/b", "ab", "日本/x", "日本語", "x/y/z/"}
var zv3Prefixes = []string{"", "web", "web/", "web/s", "webapp", "a", "a/", "/", "日本", "日", "x/", "zz"}
var zv3Seps = []string{"", "/", "//", "b", "/s", "本", "app", "a"}

// zv3ModelKeys: the documented meaning of a key listing with a separator - every key under the prefix,
// cut after the first occurrence of the separator behind the prefix, each resulting name once, in key order
func zv3ModelKeys(m map[string]zv3Ent, prefix, sep string) []string {
	var ks []string
	for k := range m {
		if strings.HasPrefix(k, prefix) {
			ks = append(ks, k)
		}
	}
	sort.Strings(ks)
	var out []string
	seen := map[string]bool{}
	for _, k := range ks {
		if sep != "" {
			if i := strings.Index(k[len(prefix):], sep); i >= 0 {
				k = k[:len(prefix)+i+len(sep)]
			}
		}
		if !seen[k] {
			seen[k] = true
			out = append(out, k)
		}
	}
	return out
}

func TestZZVerifC03Server(t *testing.T) {
	run := core.NewRun("C03", "exploration",
		"server tier: PRNG histories of KVS.Apply (set, cas, delete, delete-cas, delete-tree) and Txn.Apply KV writes against a real single-node server over 14 prefix-related keys (shared prefixes, leading/trailing/double separators, multi-byte runes); after every write KVS.Get of every key, KVS.List of 12 prefixes and KVS.ListKeys of 12 prefixes x 8 separators are compared with a sequential map and the documented separator semantics. non-trivial = comparison in which the expected key listing folds at least one key at a separator; distinct by (prefix, separator, key set)")
	run.Assume("ACLs disabled on the test server (filtering is C09); indexes are judged by C06")
	rng := core.NewRand(core.Seed())
	nh := core.N(6, 60)
	ln := core.N(50, 80)
	for h := 0; h < nh && run.Violations() < 30; h++ {
		hr := rng.Fork(uint64(3000 + h))
		_, srv := testServer(t)
		waitForLeaderEstablishment(t, srv)
		model := map[string]zv3Ent{}
		var log []string
		get := func(key string) *structs.DirEntry {
			var out structs.IndexedDirEntries
			if err := srv.RPC(context.Background(), "KVS.Get", &structs.KeyRequest{Datacenter: "dc1", Key: key}, &out); err != nil || len(out.Entries) == 0 {
				return nil
			}
			return out.Entries[0]
		}
		for step := 0; step < ln; step++ {
			key := core.Pick(hr, zv3Keys)
			val := []byte(fmt.Sprintf("v%d.%d", h, step))
			flags := uint64(hr.Intn(3))
			var desc string
			switch hr.Intn(10) {
			case 0, 1, 2, 3:
				desc = fmt.Sprintf("KVS.Apply set %q", key)
				var ok bool
				if err := srv.RPC(context.Background(), "KVS.Apply", &structs.KVSRequest{Datacenter: "dc1", Op: api.KVSet, DirEnt: structs.DirEntry{Key: key, Value: val, Flags: flags}}, &ok); err == nil {
					model[key] = zv3Ent{val, flags}
				}
			case 4:
				cur := get(key)
				idx := uint64(0)
				if cur != nil {
					idx = cur.ModifyIndex
				}
				stale := hr.Chance(40)
				if stale {
					idx += 1 + uint64(hr.Intn(3))
				}
				desc = fmt.Sprintf("KVS.Apply cas %q index %d (stale=%v)", key, idx, stale)
				var ok bool
				if err := srv.RPC(context.Background(), "KVS.Apply", &structs.KVSRequest{Datacenter: "dc1", Op: api.KVCAS, DirEnt: structs.DirEntry{Key: key, Value: val, Flags: flags, RaftIndex: structs.RaftIndex{ModifyIndex: idx}}}, &ok); err == nil && !stale {
					model[key] = zv3Ent{val, flags}
				}
			case 5, 6:
				desc = fmt.Sprintf("KVS.Apply delete %q", key)
				var ok bool
				if err := srv.RPC(context.Background(), "KVS.Apply", &structs.KVSRequest{Datacenter: "dc1", Op: api.KVDelete, DirEnt: structs.DirEntry{Key: key}}, &ok); err == nil {
					delete(model, key)
				}
			case 7:
				p := core.Pick(hr, []string{"web/", "web", "a/", "日本", "x/", "webapp/"})
				desc = fmt.Sprintf("KVS.Apply delete-tree %q", p)
				var ok bool
				if err := srv.RPC(context.Background(), "KVS.Apply", &structs.KVSRequest{Datacenter: "dc1", Op: api.KVDeleteTree, DirEnt: structs.DirEntry{Key: p}}, &ok); err == nil {
					for k := range model {
						if strings.HasPrefix(k, p) {
							delete(model, k)
						}
					}
				}
			default:
				k2 := core.Pick(hr, zv3Keys)
				desc = fmt.Sprintf("Txn.Apply [set %q, delete %q]", key, k2)
				req := structs.TxnRequest{Datacenter: "dc1", Ops: structs.TxnOps{
					{KV: &structs.TxnKVOp{Verb: api.KVSet, DirEnt: structs.DirEntry{Key: key, Value: val, Flags: flags}}},
					{KV: &structs.TxnKVOp{Verb: api.KVDelete, DirEnt: structs.DirEntry{Key: k2}}},
				}}
				var out structs.TxnResponse
				if err := srv.RPC(context.Background(), "Txn.Apply", &req, &out); err == nil && len(out.Errors) == 0 {
					model[key] = zv3Ent{val, flags}
					delete(model, k2)
				}
			}
			log = append(log, desc)
			run.Eval()
			run.Count("server-writes")
			wit := func() map[string]any { return map[string]any{"log": log} }
			// ---- point reads
			for _, k := range zv3Keys {
				e := get(k)
				m, ok := model[k]
				switch {
				case ok && e == nil:
					run.Violation("C03:server:get:missing", fmt.Sprintf("KVS.Get %q finds nothing after %s; the map holds %q", k, desc, m.val), wit())
				case !ok && e != nil:
					run.Violation("C03:server:get:resurrected", fmt.Sprintf("KVS.Get %q returns %q after %s; the map holds nothing", k, e.Value, desc), wit())
				case ok && (!bytes.Equal(e.Value, m.val) || e.Flags != m.flags):
					run.Violation("C03:server:get:content", fmt.Sprintf("KVS.Get %q returns %q/%d after %s; the map holds %q/%d", k, e.Value, e.Flags, desc, m.val, m.flags), wit())
				}
				run.Count("server-gets")
			}
			// ---- listings
			for _, p := range zv3Prefixes {
				var out structs.IndexedDirEntries
				if err := srv.RPC(context.Background(), "KVS.List", &structs.KeyRequest{Datacenter: "dc1", Key: p}, &out); err != nil {
					run.Violation("C03:server:list:error", fmt.Sprintf("KVS.List %q: %v", p, err), wit())
					continue
				}
				var got []string
				for _, e := range out.Entries {
					got = append(got, fmt.Sprintf("%s=%s/%d", e.Key, e.Value, e.Flags))
				}
				var want []string
				for _, k := range zv3ModelKeys(model, p, "") {
					want = append(want, fmt.Sprintf("%s=%s/%d", k, model[k].val, model[k].flags))
				}
				if strings.Join(got, "\x00") != strings.Join(want, "\x00") {
					run.Violation("C03:server:list:content", fmt.Sprintf("KVS.List %q after %s returns %q, the map holds %q", p, desc, got, want), wit())
				}
				run.Count("server-lists")
				for _, sep := range zv3Seps {
					var kl structs.IndexedKeyList
					if err := srv.RPC(context.Background(), "KVS.ListKeys", &structs.KeyListRequest{Datacenter: "dc1", Prefix: p, Seperator: sep}, &kl); err != nil {
						run.Violation("C03:server:keys:error", fmt.Sprintf("KVS.ListKeys %q sep %q: %v", p, sep, err), wit())
						continue
					}
					want := zv3ModelKeys(model, p, sep)
					run.Count("server-key-listings")
					folded := len(want) < len(zv3ModelKeys(model, p, ""))
					for _, k := range want {
						if sep != "" && strings.HasSuffix(k, sep) {
							if _, isKey := model[k]; !isKey {
								folded = true
							}
						}
					}
					if folded {
						run.Count("server-key-listings-with-folding")
						run.NonTrivial(core.Hash(p, sep, strings.Join(want, "\x00")))
						if sep != "" && len(p) > 0 && !strings.HasSuffix(p, sep) {
							run.Count("server-key-listings-folding-right-behind-the-prefix-or-later")
						}
					}
					if strings.Join(kl.Keys, "\x00") != strings.Join(want, "\x00") {
						class := "other"
						if sep == "" {
							class = "no-separator"
						} else if folded {
							class = "folding"
						}
						run.Violation("C03:server:keys:content:"+class, fmt.Sprintf("KVS.ListKeys prefix %q separator %q after %s returns %q, the map implies %q", p, sep, desc, kl.Keys, want), wit())
					}
				}
			}
		}
		srv.Shutdown()
	}
	run.Floor("server-writes", 200)
	run.Floor("server-key-listings-with-folding", 1500)
	if run.Finish() == 1 {
		t.Fail()
	}
}
