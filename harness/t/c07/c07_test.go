//go:build verif

// C07 — catalog integrity: no orphans, complete cascades, derived views agree with a recomputation
// from the base tables, virtual IPs are injective and advertised == assigned.
// Oracle: independent recompute-from-base walkers run over the live tables after EVERY command.
package c07

import (
	"fmt"
	"os"
	"net"
	"sort"
	"strings"
	"testing"

	"github.com/hashicorp/consul/agent/consul/state"
	"github.com/hashicorp/consul/agent/structs"
	"github.com/hashicorp/consul/zzverif/core"
	"github.com/hashicorp/consul/zzverif/dump"
	"github.com/hashicorp/consul/zzverif/fsmkit"
	"github.com/hashicorp/consul/zzverif/gen"
)

type tables struct {
	nodes    map[string]*structs.Node // peer|lower(name)
	services []*structs.ServiceNode
	checks   []*structs.HealthCheck
	coords   []*structs.Coordinate
	ksn      []*state.KindServiceName
	topo     []*state.VerifUpstreamDownstream
	vips     []state.ServiceVirtualIP
	gwsvc    []*structs.GatewayService
	free     []state.FreeVirtualIP
	usage    map[string]int
	configs  []structs.ConfigEntry
	kvs      int
	sessions map[string]bool
}

func nk(peer, node string) string { return peer + "|" + strings.ToLower(node) }

func load(s *state.Store) *tables {
	t := &tables{nodes: map[string]*structs.Node{}, usage: map[string]int{}, sessions: map[string]bool{}}
	s.WalkAllTables(func(table string, item interface{}) bool {
		switch x := item.(type) {
		case *structs.Node:
			t.nodes[nk(x.PeerName, x.Node)] = x
		case *structs.ServiceNode:
			t.services = append(t.services, x)
		case *structs.HealthCheck:
			t.checks = append(t.checks, x)
		case *structs.Coordinate:
			t.coords = append(t.coords, x)
		case *state.KindServiceName:
			t.ksn = append(t.ksn, x)
		case *structs.GatewayService:
			t.gwsvc = append(t.gwsvc, x)
		case *state.VerifUpstreamDownstream:
			t.topo = append(t.topo, x)
		case state.ServiceVirtualIP:
			t.vips = append(t.vips, x)
		case state.FreeVirtualIP:
			t.free = append(t.free, x)
		case *state.UsageEntry:
			t.usage[x.ID] = x.Count
		case *structs.DirEntry:
			t.kvs++
		case *structs.Session:
			t.sessions[x.ID] = true
		default:
			if table == "config-entries" {
				if ce, ok := item.(structs.ConfigEntry); ok {
					t.configs = append(t.configs, ce)
				}
			}
		}
		return true
	})
	return t
}

type finding struct{ key, what string }

// tgwAdvertising counts walker visits in which a terminating-gateway instance advertised at least
// one per-service virtual IP (coverage only)
var tgwAdvertising int

func check(s *state.Store, t *tables) []finding {
	var out []finding
	add := func(key, f string, a ...any) { out = append(out, finding{key, fmt.Sprintf(f, a...)}) }

	// ---- orphans
	svcKey := map[string]*structs.ServiceNode{}
	for _, sv := range t.services {
		if _, ok := t.nodes[nk(sv.PeerName, sv.Node)]; !ok {
			add("C07:orphan:service-without-node", "service instance %s/%s (peer %q) has no node row", sv.Node, sv.ServiceID, sv.PeerName)
		}
		svcKey[nk(sv.PeerName, sv.Node)+"|"+sv.ServiceID] = sv
	}
	for _, c := range t.checks {
		if _, ok := t.nodes[nk(c.PeerName, c.Node)]; !ok {
			add("C07:orphan:check-without-node", "check %s/%s (peer %q) has no node row", c.Node, c.CheckID, c.PeerName)
		}
		if c.ServiceID != "" {
			if _, ok := svcKey[nk(c.PeerName, c.Node)+"|"+c.ServiceID]; !ok {
				add("C07:orphan:check-without-service", "check %s/%s is bound to service instance %q which is not registered on that node (peer %q)", c.Node, c.CheckID, c.ServiceID, c.PeerName)
			}
		}
	}
	for _, c := range t.coords {
		if _, ok := t.nodes[nk("", c.Node)]; !ok {
			add("C07:orphan:coordinate-without-node", "coordinate for node %s (segment %q) has no node row", c.Node, c.Segment)
		}
	}

	// ---- usage counters vs counts of base rows (local entries only, as documented in usage.go)
	nLocalNodes := 0
	for _, n := range t.nodes {
		if n.PeerName == "" {
			nLocalNodes++
		}
	}
	names := map[string]bool{}
	nInst := 0
	kinds := map[string]int{}
	for _, sv := range t.services {
		if sv.PeerName != "" {
			continue
		}
		nInst++
		names[sv.ServiceName] = true
		if sv.ServiceKind != structs.ServiceKindTypical {
			kinds[string(sv.ServiceKind)]++
		}
		if sv.ServiceConnect.Native {
			kinds["connect-native"]++
		}
	}
	if _, u, err := s.NodeUsage(); err == nil && u.Nodes != nLocalNodes {
		add("C07:usage:nodes", "NodeUsage reports %d nodes, the nodes table holds %d local nodes", u.Nodes, nLocalNodes)
	}
	if _, u, err := s.ServiceUsage(nil, false); err == nil {
		if u.ServiceInstances != nInst {
			add("C07:usage:service-instances", "ServiceUsage reports %d instances, the services table holds %d local instances", u.ServiceInstances, nInst)
		}
		if u.Services != len(names) {
			add("C07:usage:service-names", "ServiceUsage reports %d distinct services, the services table holds %d distinct local names", u.Services, len(names))
		}
		for k, n := range u.ConnectServiceInstances {
			if n != kinds[k] {
				add("C07:usage:connect-instances:"+k, "ServiceUsage reports %d %s instances, the services table holds %d", n, k, kinds[k])
			}
		}
	}
	if _, u, err := s.KVUsage(); err == nil && u.KVCount != t.kvs {
		add("C07:usage:kv", "KVUsage reports %d entries, the kvs table holds %d", u.KVCount, t.kvs)
	}
	if _, u, err := s.ConfigEntryUsage(); err == nil {
		cnt := map[string]int{}
		for _, ce := range t.configs {
			cnt[ce.GetKind()]++
		}
		for k, n := range u.ConfigByKind {
			if n != cnt[k] {
				add("C07:usage:config-entries:"+k, "ConfigEntryUsage reports %d %s entries, the table holds %d", n, k, cnt[k])
			}
		}
	}

	// ---- kind-service-names == recomputation
	want := map[string]bool{}
	for _, sv := range t.services {
		if sv.PeerName != "" {
			continue
		}
		want[string(sv.ServiceKind)+"|"+sv.ServiceName] = true
		if sv.ServiceKind == structs.ServiceKindConnectProxy && sv.ServiceProxy.DestinationServiceName != "" {
			want[string(structs.ServiceKindConnectEnabled)+"|"+sv.ServiceProxy.DestinationServiceName] = true
		}
		if sv.ServiceConnect.Native {
			want[string(structs.ServiceKindConnectEnabled)+"|"+sv.ServiceName] = true
		}
	}
	for _, ce := range t.configs {
		if sd, ok := ce.(*structs.ServiceConfigEntry); ok && sd.Destination != nil {
			want[string(structs.ServiceKindDestination)+"|"+sd.Name] = true
		}
	}
	have := map[string]bool{}
	for _, k := range t.ksn {
		have[string(k.Kind)+"|"+k.Service.Name] = true
	}
	for k := range want {
		if !have[k] {
			kind := k[:strings.Index(k, "|")]
			add("C07:kind-service-names:missing:"+kind, "kind-service-names lacks (%s) although the base tables imply it", k)
		}
	}
	for k := range have {
		if !want[k] {
			kind := k[:strings.Index(k, "|")]
			add("C07:kind-service-names:stale:"+kind, "kind-service-names holds (%s) although no registration / config entry implies it", k)
		}
	}

	// ---- mesh-topology refs == recomputation from currently registered proxies
	required := map[string]bool{} // upstream|downstream|ref
	allowed := map[string]bool{}
	for _, sv := range t.services {
		if !(sv.ServiceKind == structs.ServiceKindConnectProxy || sv.ServiceConnect.Native) {
			continue
		}
		for _, u := range sv.ServiceProxy.Upstreams {
			if u.DestinationType == structs.UpstreamDestTypePreparedQuery {
				continue
			}
			ref := structs.UniqueID(sv.Node, sv.CompoundServiceID().String())
			k := u.DestinationName + "|" + sv.ServiceProxy.DestinationServiceName + "|" + strings.ToLower(ref)
			if sv.PeerName == "" {
				required[k] = true
			}
			allowed[k] = true
		}
	}
	ingress := map[string]bool{}
	for _, ce := range t.configs {
		if ig, ok := ce.(*structs.IngressGatewayConfigEntry); ok {
			ingress[ig.Name] = true
		}
	}
	haveRef := map[string]bool{}
	for _, m := range t.topo {
		// rows whose downstream is a configured ingress gateway come from the gateway's config
		// entry and carry no refs by design; they are outside this recomputation
		if ingress[m.Downstream.Name] && len(m.Refs) == 0 {
			continue
		}
		if len(m.Refs) == 0 {
			add("C07:mesh-topology:empty-refs", "mesh-topology row %s<-%s has no refs left but was not deleted", m.Upstream.Name, m.Downstream.Name)
		}
		for ref := range m.Refs {
			haveRef[m.Upstream.Name+"|"+m.Downstream.Name+"|"+strings.ToLower(ref)] = true
		}
	}
	for k := range required {
		if !haveRef[k] {
			add("C07:mesh-topology:missing-ref", "mesh-topology lacks upstream|downstream|proxy %s although that proxy instance is registered with that upstream", k)
		}
	}
	for k := range haveRef {
		if !allowed[k] {
			add("C07:mesh-topology:stale-ref", "mesh-topology holds upstream|downstream|proxy %s although no registered proxy instance has that upstream", k)
		}
	}

	// ---- gateway-to-service links == recomputation (c07_gateway_test.go)
	checkGatewayServices(t, add)

	// ---- virtual IPs
	byIP := map[string]string{}
	assigned := map[string]state.ServiceVirtualIP{}
	for _, v := range t.vips {
		ip := v.IP.String()
		if other, dup := byIP[ip]; dup {
			add("C07:vip:duplicate", "virtual IP %s is assigned to both %s and %s", ip, other, v.Service.String())
		}
		byIP[ip] = v.Service.String()
		assigned[v.Service.Peer+"|"+v.Service.ServiceName.Name] = v
	}
	var counter net.IP
	freeSeen := map[string]bool{}
	for _, f := range t.free {
		if f.IsCounter {
			counter = f.IP
			continue
		}
		ip := f.IP.String()
		if freeSeen[ip] {
			add("C07:vip:free-duplicate", "virtual IP %s is in the free pool twice", ip)
		}
		freeSeen[ip] = true
		if svc, ok := byIP[ip]; ok {
			add("C07:vip:free-and-assigned", "virtual IP %s is assigned to %s and in the free pool at the same time", ip, svc)
		}
	}
	if counter != nil {
		for _, v := range t.vips {
			if cmpIP(v.IP, counter) > 0 {
				add("C07:vip:beyond-counter", "assigned virtual IP %s is beyond the allocation counter %s", v.IP, counter)
			}
		}
	}
	// terminating-gateway instances advertise one virtual IP per linked service ("consul-virtual:<name>")
	for _, sv := range t.services {
		if sv.ServiceKind != structs.ServiceKindTerminatingGateway || sv.PeerName != "" {
			continue
		}
		var keys []string
		for k := range sv.ServiceTaggedAddresses {
			if strings.HasPrefix(k, structs.TaggedAddressVirtualIP+":") {
				keys = append(keys, k)
			}
		}
		sort.Strings(keys)
		if len(keys) > 0 {
			tgwAdvertising++
		}
		for _, k := range keys {
			name := strings.TrimPrefix(k, structs.TaggedAddressVirtualIP+":")
			ta := sv.ServiceTaggedAddresses[k]
			// does the gateway's CURRENT config entry still link that service?
			linked := "no-longer-linked"
			for _, ce := range t.configs {
				if tg, ok := ce.(*structs.TerminatingGatewayConfigEntry); ok && tg.Name == sv.ServiceName {
					explicit, wild := false, false
					for _, ls := range tg.Services {
						if ls.Name == name {
							explicit = true
						}
						if ls.Name == structs.WildcardSpecifier {
							wild = true
						}
					}
					switch {
					case wild:
						linked = "linked-by-entry-with-wildcard"
					case explicit:
						linked = "linked-explicitly"
					}
				}
			}
			v, ok := assigned["|"+name]
			if !ok {
				add("C07:vip:gateway-advertised-but-unassigned:"+linked, "terminating gateway instance %s/%s advertises virtual IP %s for service %q (%s by its config entry) which has no assignment", sv.Node, sv.ServiceID, ta.Address, name, linked)
				continue
			}
			if cur, err := v.IPWithOffset(); err == nil && cur != ta.Address {
				add("C07:vip:gateway-advertised-differs:"+linked, "terminating gateway instance %s/%s advertises virtual IP %s for service %q (%s by its config entry) which is assigned %s", sv.Node, sv.ServiceID, ta.Address, name, linked, cur)
			}
		}
	}
	for _, sv := range t.services {
		ta, ok := sv.ServiceTaggedAddresses[structs.TaggedAddressVirtualIP]
		if !ok {
			continue
		}
		name := sv.ServiceName
		if sv.ServiceKind == structs.ServiceKindConnectProxy {
			name = sv.ServiceProxy.DestinationServiceName
		}
		v, ok := assigned[sv.PeerName+"|"+name]
		if !ok {
			add("C07:vip:advertised-but-unassigned", "instance %s/%s advertises virtual IP %s but service %q (peer %q) has no assignment", sv.Node, sv.ServiceID, ta.Address, name, sv.PeerName)
			continue
		}
		cur, err := v.IPWithOffset()
		if err == nil && cur != ta.Address {
			add("C07:vip:advertised-differs", "instance %s/%s advertises virtual IP %s but service %q is assigned %s", sv.Node, sv.ServiceID, ta.Address, name, cur)
		}
	}
	return out
}

func cmpIP(a, b net.IP) int {
	a, b = a.To16(), b.To16()
	for i := range a {
		if a[i] != b[i] {
			if a[i] < b[i] {
				return -1
			}
			return 1
		}
	}
	return 0
}

func TestZZVerifC07(t *testing.T) {
	run := core.NewRun("C07", "exploration",
		"PRNG-generated histories of catalog commands (register/deregister of nodes, typical/connect-proxy/connect-native/gateway services, node- and service-level checks, local and for two peers, rename by ID), config entries (service-defaults incl. destinations, gateways, resolvers, ...), transactions with node/service/check verbs, virtual-IP flags; after EVERY command independent walkers recompute from the base tables: orphans (service/check without node, service check without instance, coordinate without node), usage counters, kind-service-names, mesh-topology refs, gateway-services links (explicit listings with their own fields, wildcard rows, wildcard expansion by connect mode / destinations, nothing else), virtual-IP injectivity / free-pool disjointness / advertised==assigned. non-trivial = history that reached >=3 of the hard situations (last instance of a service removed, proxy removed after its service, two proxies sharing an upstream, node removed with services+checks, node rename by ID); distinct by command log hash")
	run.Assume("peer-imported proxies' topology refs are treated as allowed-but-not-required (upstream code marks this path TODO(peering))", "gateway-services: wildcard mappings whose presence depends on registration order (a name that has a sidecar proxy but no instance of its own) are allowed-but-not-required; of ServiceKind only destination vs non-destination is judged (consul's own tests pin both \"\" and \"service\" for a registered service)")
	rng := core.NewRand(core.Seed())
	nh := core.N(150, 3000)
	ln := core.N(70, 110)
	for h := 0; h < nh && run.Violations() < 40; h++ {
		hr := rng.Fork(uint64(h))
		w := gen.CatalogWeights()
		g := gen.New(hr, w)
		r := fsmkit.New(fsmkit.Opts{})
		idx := uint64(4)
		var log []string
		var prelude []gen.Cmd
		if h%3 != 0 {
			prelude = gen.VIPPrelude()
		}
		if h%4 == 3 {
			prelude = gen.GatewayPrelude()
		}
		if h%4 == 1 {
			prelude = gen.GatewayOrderScenario(hr)
		}
		situations := map[string]bool{}
		reported := map[string]bool{}
		gwEdgeSeen = map[string]bool{}
		for i := 0; i < ln; i++ {
			idx += 1 + uint64(hr.Intn(2))
			var c gen.Cmd
			if i < len(prelude) {
				c = prelude[i]
			} else {
				c = g.Next(r.State(), idx)
				// the virtual-IP feature flags are one-way markers the leader sets once every server
				// supports the feature; removing them again is not a client write history
				for strings.HasPrefix(c.Class, "sysmeta:delete:virtual-ips") {
					c = g.Next(r.State(), idx)
				}
			}
			before := load(r.State())
			log = append(log, fmt.Sprintf("@%d %s", idx, trunc(c.Desc, 400)))
			core.Progress("C07", fmt.Sprintf("history %d step %d %s", h, i, c.Desc))
			res := r.ApplyBytes(idx, c.Bytes)
			after := load(r.State())
			run.Count("steps")
			run.Distinct("class", c.Class)
			if os.Getenv("VERIF_C07_DEBUG") == fmt.Sprint(h) {
				fmt.Printf("DEBUG h=%d step=%d %s\n", h, i, trunc(c.Desc, 300))
				for _, r := range after.gwsvc {
					fmt.Printf("   row %s|%s|%d wild=%v kind=%q ci=%d mi=%d\n", r.Gateway.Name, r.Service.Name, r.Port, r.FromWildcard, r.ServiceKind, r.CreateIndex, r.ModifyIndex)
				}
			}
			classify(before, after, situations)
			for _, f := range check(r.State(), after) {
				if reported[f.key] {
					continue
				}
				reported[f.key] = true
				run.Violation(f.key, fmt.Sprintf("history %d after step %d (%s -> %s): %s", h, i, trunc(c.Desc, 200), trunc(fsmkit.RenderResult(res, dump.Render), 80), f.what),
					map[string]any{"log": log, "finding": f.what})
			}
		}
		for s := range situations {
			run.Count("situation:" + s)
		}
		if len(situations) >= 3 {
			run.NonTrivial(core.Hash(log...))
			if run.WantSample() {
				var ss []string
				for s := range situations {
					ss = append(ss, s)
				}
				sort.Strings(ss)
				run.Sample(map[string]any{"history": h, "situations": ss, "log_prefix": log[:min(8, len(log))]})
			}
		}
		run.Eval()
		r.Close()
	}
	run.CountN("walks-with-gateway-advertised-vip", tgwAdvertising)
	run.CountN("gateway-services-rows-judged", gwRowsSeen)
	run.CountN("gateway-services-wildcard-rows-judged", gwWildcardRowsSeen)
	run.Floor("gateway-services-rows-judged", 2000)
	run.Floor("gateway-services-wildcard-rows-judged", 200)
	for _, s := range []string{"last-instance-removed", "node-removed-with-services", "two-proxies-share-upstream", "proxy-removed-after-service", "node-renamed-by-id", "vip-assigned", "vip-freed"} {
		run.Floor("situation:"+s, 5)
	}
	if run.Finish() == 1 {
		t.Fail()
	}
}

// classify records which hard situations a step produced (coverage only).
func classify(b, a *tables, sit map[string]bool) {
	names := func(t *tables) map[string]int {
		m := map[string]int{}
		for _, s := range t.services {
			if s.PeerName == "" {
				m[s.ServiceName]++
			}
		}
		return m
	}
	nb, na := names(b), names(a)
	for n, c := range nb {
		if c > 0 && na[n] == 0 {
			sit["last-instance-removed"] = true
			if strings.HasSuffix(n, "-sidecar-proxy") && nb[strings.TrimSuffix(n, "-sidecar-proxy")] == 0 {
				sit["proxy-removed-after-service"] = true
			}
		}
	}
	for k := range b.nodes {
		if _, ok := a.nodes[k]; !ok {
			for _, s := range b.services {
				if nk(s.PeerName, s.Node) == k {
					sit["node-removed-with-services"] = true
				}
			}
		}
	}
	// rename by ID: same ID, different name
	ids := map[string]string{}
	for _, n := range b.nodes {
		if n.ID != "" && n.PeerName == "" {
			ids[string(n.ID)] = strings.ToLower(n.Node)
		}
	}
	for _, n := range a.nodes {
		if old, ok := ids[string(n.ID)]; ok && n.PeerName == "" && old != strings.ToLower(n.Node) {
			sit["node-renamed-by-id"] = true
		}
	}
	up := map[string]int{}
	for _, s := range a.services {
		if s.ServiceKind == structs.ServiceKindConnectProxy && s.PeerName == "" {
			for _, u := range s.ServiceProxy.Upstreams {
				up[u.DestinationName+"|"+s.ServiceProxy.DestinationServiceName]++
			}
		}
	}
	for _, c := range up {
		if c >= 2 {
			sit["two-proxies-share-upstream"] = true
		}
	}
	if len(a.vips) > len(b.vips) {
		sit["vip-assigned"] = true
	}
	if len(a.vips) < len(b.vips) {
		sit["vip-freed"] = true
	}
}

func trunc(s string, n int) string {
	if len(s) > n {
		return s[:n] + "…"
	}
	return s
}
