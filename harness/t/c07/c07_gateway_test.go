//go:build verif

package c07

import (
	"fmt"
	"sort"
	"strings"

	"github.com/hashicorp/consul/agent/structs"
)

// gateway-to-service links: the gateway-services table recomputed from the gateway config entries,
// the registered instances and the service-defaults destinations alone.
//
// Rules (written from the documented intent of the wildcard handling, website docs of the ingress- and
// terminating-gateway config entries, and the comments in state/catalog.go):
//   * a service listed by name in a gateway's entry is linked to the gateway (one row per listener
//     port for ingress gateways) for as long as the entry lists it, registered or not, and carries
//     the fields of ITS OWN listing (hosts / TLS files / SNI): "the service entry is the source of truth";
//   * a wildcard listing is itself a row ("*") and links every local service name that currently
//     has a connect instance (ingress) / an instance that is not connect-native or a service-defaults
//     destination (terminating), unless that name is listed on its own for the same port;
//   * nothing else is linked: no row without a config entry, no row for a name that is neither
//     listed nor covered by a wildcard, no wildcard row for a name that lost its last eligible instance.
//
// Rows whose presence depends on registration order in consul's incremental maintenance (a wildcard
// row for a name that only has a sidecar proxy but no instance of its own) are allowed but not required.
type gwWant struct {
	fields   string // rendering of the listing's fields
	wildcard bool   // produced by a wildcard listing
	required bool
	listing  string
}

func gwFields(kind structs.ServiceKind, port int, proto string, hosts []string, ca, cert, key, sni string) string {
	h := append([]string{}, hosts...)
	return fmt.Sprintf("kind=%s port=%d protocol=%s hosts=%v ca=%s cert=%s key=%s sni=%s", kind, port, proto, h, ca, cert, key, sni)
}

var gwRowsSeen, gwWildcardRowsSeen int

// gwEdgeSeen: names that, earlier in the CURRENT history, were a service-defaults destination while all
// their instances were connect-native (the order-dependent edge described below). Reset per history.
var gwEdgeSeen = map[string]bool{}

func checkGatewayServices(t *tables, add func(key, f string, a ...any)) {
	// eligibility of names from the registrations (local only)
	hasConnect := map[string]bool{}    // connect-native instance of the name, or a proxy for it
	hasNonNative := map[string]bool{}  // any instance carrying the name that is not connect-native
	hasTypical := map[string]bool{}    // a typical instance of the name
	hasTypicalNN := map[string]bool{}  // a typical, not connect-native instance
	for _, sv := range t.services {
		if sv.PeerName != "" {
			continue
		}
		if sv.ServiceConnect.Native {
			hasConnect[sv.ServiceName] = true
		} else {
			hasNonNative[sv.ServiceName] = true
		}
		if sv.ServiceKind == structs.ServiceKindConnectProxy && sv.ServiceProxy.DestinationServiceName != "" {
			hasConnect[sv.ServiceProxy.DestinationServiceName] = true
		}
		if sv.ServiceKind == structs.ServiceKindTypical {
			hasTypical[sv.ServiceName] = true
			if !sv.ServiceConnect.Native {
				hasTypicalNN[sv.ServiceName] = true
			}
		}
	}
	dest := map[string]bool{}
	hasDefaults := map[string]bool{}
	for _, ce := range t.configs {
		if sd, ok := ce.(*structs.ServiceConfigEntry); ok {
			hasDefaults[sd.Name] = true
			if sd.Destination != nil {
				dest[sd.Name] = true
			}
		}
	}
	allNames := map[string]bool{}
	for n := range hasConnect {
		allNames[n] = true
	}
	for n := range hasNonNative {
		allNames[n] = true
	}
	for n := range dest {
		allNames[n] = true
	}
	delete(allNames, "consul")

	for n := range dest {
		if nameRegistered(t, n) && !hasNonNative[n] {
			gwEdgeSeen[n] = true
		}
	}
	want := map[string]*gwWant{} // gateway|service|port
	entryOf := map[string]string{} // gateway -> kind of its entry
	hasWild := map[string]bool{}   // gateway|port -> entry has a wildcard listing for that port
	k := func(gw, svc string, port int) string { return fmt.Sprintf("%s|%s|%d", gw, svc, port) }
	for _, ce := range t.configs {
		switch e := ce.(type) {
		case *structs.IngressGatewayConfigEntry:
			entryOf[e.Name] = structs.IngressGateway
			// explicit listings first: they override wildcard expansion for the same port
			for _, l := range e.Listeners {
				for _, s := range l.Services {
					if s.Name != structs.WildcardSpecifier {
						want[k(e.Name, s.Name, l.Port)] = &gwWant{fields: gwFields(structs.ServiceKindIngressGateway, l.Port, l.Protocol, s.Hosts, "", "", "", ""), required: true, listing: "explicit"}
					}
				}
			}
			for _, l := range e.Listeners {
				for _, s := range l.Services {
					if s.Name != structs.WildcardSpecifier {
						continue
					}
					hasWild[fmt.Sprintf("%s|%d", e.Name, l.Port)] = true
					f := gwFields(structs.ServiceKindIngressGateway, l.Port, l.Protocol, s.Hosts, "", "", "", "")
					want[k(e.Name, "*", l.Port)] = &gwWant{fields: f, required: true, listing: "wildcard-itself"}
					for n := range allNames {
						if _, explicit := want[k(e.Name, n, l.Port)]; explicit || !hasConnect[n] {
							continue
						}
						want[k(e.Name, n, l.Port)] = &gwWant{fields: f, wildcard: true, required: hasTypical[n], listing: "wildcard-expansion"}
					}
				}
			}
		case *structs.TerminatingGatewayConfigEntry:
			entryOf[e.Name] = structs.TerminatingGateway
			for _, s := range e.Services {
				if s.Name != structs.WildcardSpecifier {
					want[k(e.Name, s.Name, 0)] = &gwWant{fields: gwFields(structs.ServiceKindTerminatingGateway, 0, "", nil, s.CAFile, s.CertFile, s.KeyFile, s.SNI), required: true, listing: "explicit"}
				}
			}
			for _, s := range e.Services {
				if s.Name != structs.WildcardSpecifier {
					continue
				}
				hasWild[fmt.Sprintf("%s|%d", e.Name, 0)] = true
				f := gwFields(structs.ServiceKindTerminatingGateway, 0, "", nil, s.CAFile, s.CertFile, s.KeyFile, s.SNI)
				want[k(e.Name, "*", 0)] = &gwWant{fields: f, required: true, listing: "wildcard-itself"}
				for n := range allNames {
					if _, explicit := want[k(e.Name, n, 0)]; explicit || !(hasNonNative[n] || dest[n]) {
						continue
					}
					// a destination whose name ALSO carries instances that are all connect-native is linked or
				// not depending on which of gateway entry / service-defaults was written last (and consul's
				// own kind rule calls it a service): allowed, not required
				want[k(e.Name, n, 0)] = &gwWant{fields: f, wildcard: true, required: hasTypicalNN[n] || (dest[n] && !nameRegistered(t, n)), listing: "wildcard-expansion"}
				}
			}
		}
	}

	have := map[string]*structs.GatewayService{}
	for _, r := range t.gwsvc {
		key := k(r.Gateway.Name, r.Service.Name, r.Port)
		if _, dup := have[key]; dup {
			add("C07:gateway-services:duplicate-row", "gateway-services holds two rows for gateway|service|port %s", key)
		}
		have[key] = r
		gwRowsSeen++
		if r.FromWildcard {
			gwWildcardRowsSeen++
		}
	}
	keys := make([]string, 0, len(want)+len(have))
	for key := range want {
		keys = append(keys, key)
	}
	for key := range have {
		if _, ok := want[key]; !ok {
			keys = append(keys, key)
		}
	}
	sort.Strings(keys)
	for _, key := range keys {
		w, r := want[key], have[key]
		parts := strings.Split(key, "|")
		gw, svc := parts[0], parts[1]
		wildTag := ""
		if hasWild[gw+"|"+parts[2]] {
			wildTag = ":entry-also-has-wildcard"
		}
		switch {
		case r == nil && w.required && w.wildcard && gwEdgeSeen[svc]:
			add("C07:gateway-services:missing-row:wildcard-expansion:destination-that-had-only-connect-native-instances", "gateway-services lacks gateway|service|port %s: %q is a service-defaults destination without instances now, but while the destination was written its only instances were connect-native, so it was not linked, and nothing links it when they leave", key, svc)
		case r == nil && w.required:
			add("C07:gateway-services:missing-row:"+w.listing+wildTag, "gateway-services lacks gateway|service|port %s although the %s entry of %s links it (%s)", key, entryOf[gw], gw, w.listing)
		case r == nil:
			// allowed-but-not-required
		case w == nil:
			why := "not-listed"
			if entryOf[gw] == "" {
				why = "gateway-has-no-entry"
			} else if r.FromWildcard && hasWild[gw+"|"+parts[2]] && r.ServiceKind == structs.GatewayServiceKindDestination && hasDefaults[svc] && !dest[svc] {
				why = "destination-row-after-service-defaults-lost-its-destination"
			} else if r.FromWildcard && hasWild[gw+"|"+parts[2]] && nameRegistered(t, svc) {
				// the name still has instances, but none of the connect mode this gateway kind needs
				why = "wildcard-row-kept-although-remaining-instances-have-other-connect-mode"
			} else if r.FromWildcard && hasWild[gw+"|"+parts[2]] {
				why = "wildcard-row-for-vanished-service"
			} else if r.FromWildcard {
				why = "wildcard-row-but-entry-has-no-wildcard"
			}
			add("C07:gateway-services:stale-row:"+why, "gateway-services holds gateway|service|port %s (from-wildcard=%v) although nothing links service %q to %s any more (%s); instances mentioning the name: %s", key, r.FromWildcard, svc, gw, why, mentions(t, svc))
		default:
			got := gwFields(r.GatewayKind, r.Port, r.Protocol, r.Hosts, r.CAFile, r.CertFile, r.KeyFile, r.SNI)
			if got != w.fields {
				add("C07:gateway-services:row-fields-differ:"+w.listing+wildTag, "gateway-services row %s carries %s but its %s listing says %s", key, got, w.listing, w.fields)
			}
			if r.FromWildcard != w.wildcard && svc != structs.WildcardSpecifier {
				add("C07:gateway-services:from-wildcard-flag:"+w.listing+wildTag, "gateway-services row %s has FromWildcard=%v but the entry links it by a %s listing", key, r.FromWildcard, w.listing)
			}
			// ServiceKind: consul itself writes both "" and "service" for a registered service depending on
			// the path (its own tests pin both), so only the functionally relevant distinction is judged:
			// a link is marked as a destination iff the name has no instance and is a service-defaults destination
			if r.GatewayKind == structs.ServiceKindTerminatingGateway && svc != structs.WildcardSpecifier {
				expDest := !nameRegistered(t, svc) && dest[svc]
				// (same edge as above: destination + only connect-native instances is not judged)
				edge := dest[svc] && nameRegistered(t, svc) && !hasNonNative[svc]
				if isDest := r.ServiceKind == structs.GatewayServiceKindDestination; isDest != expDest && !edge {
					add(fmt.Sprintf("C07:gateway-services:service-kind:%s:%s", map[bool]string{true: "destination-not-marked", false: "marked-destination-wrongly"}[expDest], w.listing),
						"gateway-services row %s says the linked service is a %q; the catalog has %d instance(s) of it and service-defaults destination=%v", key, orUnknown(r.ServiceKind), countName(t, svc), dest[svc])
				}
			}
		}
	}
}

func orUnknown(k structs.GatewayServiceKind) structs.GatewayServiceKind {
	if k == "" {
		return "unknown"
	}
	return k
}

// nameRegistered: some local instance carries the service name
func nameRegistered(t *tables, name string) bool { return countName(t, name) > 0 }

func countName(t *tables, name string) int {
	n := 0
	for _, sv := range t.services {
		if sv.PeerName == "" && sv.ServiceName == name {
			n++
		}
	}
	return n
}

func mentions(t *tables, name string) string {
	var out []string
	for _, sv := range t.services {
		if sv.ServiceName == name || sv.ServiceProxy.DestinationServiceName == name {
			out = append(out, fmt.Sprintf("%s/%s(name=%s kind=%q native=%v dest=%q peer=%q)", sv.Node, sv.ServiceID, sv.ServiceName, sv.ServiceKind, sv.ServiceConnect.Native, sv.ServiceProxy.DestinationServiceName, sv.PeerName))
		}
	}
	sort.Strings(out)
	return strings.Join(out, ", ")
}
