//go:build verif

// C17 — peering: imports mirror exactly what was exported and touch nothing else; the exporting
// side offers a service to a peer only if an exported-services entry names that peer as consumer.
//
// IMPORT side: the REAL (*Server).processResponse / handleUpsert / handleUpdateService /
// handleUpsertExportedServiceList run against a real FSM + state store (Backend = thin adapter that
// applies CatalogRegister / CatalogDeregister as raft log entries through the real FSM at
// increasing indexes, exactly as the production PeeringBackend does with raftApply).
// Oracles after EVERY update: MIRROR (CheckServiceNodes of every service of the updated peer vs a
// model built from the messages that were sent), RESIDUE (no orphan nodes/checks of that peer),
// ISOLATION (every row of every table that does not belong to the updated peer is byte-identical).
// EXPORT side: Store.ExportedServicesForPeer vs an independent recomputation, exhaustively.
package peerstream

import (
	"errors"
	"fmt"
	"os"
	"sort"
	"strings"
	"testing"

	"github.com/hashicorp/go-hclog"
	"github.com/hashicorp/serf/coordinate"
	"google.golang.org/protobuf/proto"
	"google.golang.org/protobuf/types/known/anypb"

	"github.com/hashicorp/consul/agent/consul/state"
	"github.com/hashicorp/consul/agent/consul/stream"
	"github.com/hashicorp/consul/agent/structs"
	"github.com/hashicorp/consul/api"
	"github.com/hashicorp/consul/proto/private/pbcommon"
	"github.com/hashicorp/consul/proto/private/pbpeering"
	"github.com/hashicorp/consul/proto/private/pbpeerstream"
	"github.com/hashicorp/consul/proto/private/pbservice"
	"github.com/hashicorp/consul/types"
	"github.com/hashicorp/consul/zzverif/core"
	"github.com/hashicorp/consul/zzverif/dump"
	"github.com/hashicorp/consul/zzverif/fsmkit"
)

// ---------------------------------------------------------------------------------------------
// universe (small and colliding on purpose: the SAME node names, node IDs, service names, service
// IDs and check IDs are used by the local cluster, peerA and peerB)
// ---------------------------------------------------------------------------------------------

var (
	zvPeers   = []string{"peerA", "peerB"}
	zvPeerIDs = map[string]string{"peerA": "00000701-aaaa-bbbb-cccc-000000000701", "peerB": "00000702-aaaa-bbbb-cccc-000000000702"}
	// case-folded node names; the local cluster spells them like this, every exporter world picks its
	// own spelling per node (lower-case, Mixed-Case or UPPER-CASE; one node per case-folded name)
	zvNodeNames  = []string{"node-a", "node-b", "win-7qk2b"}
	zvNodeSpells = map[string][]string{"node-a": {"Node-A", "NODE-A"}, "node-b": {"Node-B", "NODE-B"}, "win-7qk2b": {"WIN-7QK2B", "Win-7qk2B"}}
	zvSvcNames   = []string{"web", "db", "api", "web-sidecar-proxy"}
	zvBaseSvcs   = []string{"web", "db", "api"}
)

const zvProxySuffix = "-sidecar-proxy"

func zvUUID(n int) string { return fmt.Sprintf("%08x-1717-1717-1717-%012x", n, n) }

func zvBase(svc string) string { return strings.TrimSuffix(svc, zvProxySuffix) }

// ---------------------------------------------------------------------------------------------
// Backend adapter: catalog writes go through the real FSM as raft log entries
// ---------------------------------------------------------------------------------------------

type zvBackend struct {
	r   *fsmkit.Replica
	idx *uint64
	ops *[]string
}

var _ Backend = (*zvBackend)(nil)

func (b *zvBackend) Subscribe(*stream.SubscribeRequest) (*stream.Subscription, error) {
	return nil, errors.New("zv: Subscribe is not used by the import path")
}
func (b *zvBackend) IsLeader() bool                                     { return true }
func (b *zvBackend) SetLeaderAddress(string)                            {}
func (b *zvBackend) GetLeaderAddress() string                           { return "" }
func (b *zvBackend) ValidateProposedPeeringSecret(string) (bool, error) { return true, nil }
func (b *zvBackend) PeeringSecretsWrite(*pbpeering.SecretsWriteRequest) error {
	return errors.New("zv: unexpected PeeringSecretsWrite")
}
func (b *zvBackend) PeeringTerminateByID(*pbpeering.PeeringTerminateByIDRequest) error {
	return errors.New("zv: unexpected PeeringTerminateByID")
}
func (b *zvBackend) PeeringTrustBundleWrite(*pbpeering.PeeringTrustBundleWriteRequest) error {
	return errors.New("zv: unexpected PeeringTrustBundleWrite")
}
func (b *zvBackend) PeeringWrite(*pbpeering.PeeringWriteRequest) error {
	return errors.New("zv: unexpected PeeringWrite")
}
func (b *zvBackend) apply(t structs.MessageType, req any) error {
	*b.idx++
	if err, ok := b.r.Apply(*b.idx, t, req).(error); ok && err != nil {
		return err
	}
	return nil
}
func (b *zvBackend) CatalogRegister(req *structs.RegisterRequest) error {
	d := fmt.Sprintf("register peer=%q node=%q", req.PeerName, req.Node)
	if req.Service != nil {
		d += " service=" + req.Service.ID
	}
	for _, c := range req.Checks {
		d += " check=" + string(c.CheckID)
	}
	*b.ops = append(*b.ops, d)
	return b.apply(structs.RegisterRequestType, req)
}
func (b *zvBackend) CatalogDeregister(req *structs.DeregisterRequest) error {
	*b.ops = append(*b.ops, fmt.Sprintf("deregister peer=%q node=%q service=%q check=%q", req.PeerName, req.Node, req.ServiceID, req.CheckID))
	return b.apply(structs.DeregisterRequestType, req)
}

// ---------------------------------------------------------------------------------------------
// exporter world model (what a peer's catalog looks like); snapshots are taken from it, so one
// message is always self-consistent (node-level data identical on every entry of the same node)
// ---------------------------------------------------------------------------------------------

type zvChk struct{ ID, Name, Status, Output, Notes string }

type zvNd struct {
	Key                string // case-folded name (world map key)
	Name, ID, Addr, DC string // Name: the exporter's spelling, constant for the whole history
	Meta, TAddr        map[string]string
	Checks             map[string]*zvChk
}

type zvIn struct {
	Svc, Node, ID string
	Port          int
	Addr          string
	Tags          []string
	Meta          map[string]string
	Checks        map[string]*zvChk
}

type zvWorld struct {
	peer     string
	pidx     int
	idBase   int
	idless   bool              // an exporter whose nodes were registered without node IDs
	spell    map[string]string // case-folded node name -> this exporter's spelling
	fresh    int
	nodes    map[string]*zvNd
	insts    map[string]*zvIn // svc|node|id
	exported map[string]bool  // base service names currently exported
	flatten  bool             // exporter flattens checks into one overall-check per instance (as current consul does)
	pbPeer   string           // PeerName written into the protobufs (the importer documents that it overrides it)
}

func zvNewWorld(peer string, pidx int, idBase int, r *core.Rand) *zvWorld {
	w := &zvWorld{peer: peer, pidx: pidx, idBase: idBase, nodes: map[string]*zvNd{}, insts: map[string]*zvIn{}, exported: map[string]bool{}, spell: map[string]string{}}
	// node-name spelling: 35% of the exporters are all lower-case, the others capitalise most names
	// (hosts called Node-A / WIN-7QK2B). The catalog matches node names case-insensitively.
	sr := r.Fork(4242)
	allLower := sr.Chance(35)
	for _, n := range zvNodeNames {
		w.spell[n] = n
		if !allLower && sr.Chance(70) {
			w.spell[n] = core.Pick(sr, zvNodeSpells[n])
		}
	}
	w.idless = r.Chance(35)
	for _, s := range zvBaseSvcs {
		w.exported[s] = r.Chance(90)
	}
	w.flatten = r.Chance(20)
	// the exporter's catalog is not empty when the peering starts
	for i, n := 0, 2+r.Intn(4); i < n; i++ {
		w.addRandom(r)
	}
	switch r.Intn(4) {
	case 0:
		w.pbPeer = zvPeers[1-pidx] // hostile: the exporter labels its rows with the OTHER peer's name
	case 1:
		w.pbPeer = "exporter-self"
	}
	return w
}

func (w *zvWorld) node(name string, r *core.Rand) *zvNd {
	if n, ok := w.nodes[name]; ok {
		return n
	}
	ni := 0
	for i, x := range zvNodeNames {
		if x == name {
			ni = i
		}
	}
	n := &zvNd{Key: name, Name: w.spell[name], ID: zvUUID(w.idBase + ni + 1), Addr: fmt.Sprintf("10.%d.0.%d", w.pidx+1, ni+1), DC: "dc-" + w.peer,
		Meta: map[string]string{"rack": "r1"}, Checks: map[string]*zvChk{}}
	if r.Chance(65) {
		n.Checks["mem"] = &zvChk{ID: "mem", Name: "memory", Status: api.HealthPassing}
	}
	if r.Chance(25) {
		n.Checks["disk"] = &zvChk{ID: "disk", Name: "node-disk", Status: api.HealthWarning}
	}
	// externally registered nodes carry no node ID; a whole exporter without IDs (every third
	// world) makes several ID-less nodes carry the same service IDs
	if r.Chance(8) || w.idless {
		n.ID = ""
	}
	w.nodes[name] = n
	return n
}

func zvStatus(r *core.Rand) string {
	return core.Pick(r, []string{api.HealthPassing, api.HealthPassing, api.HealthWarning, api.HealthCritical})
}

func zvInstKey(svc, node, id string) string { return svc + "|" + node + "|" + id }

func (w *zvWorld) instKeys() []string {
	var ks []string
	for k := range w.insts {
		ks = append(ks, k)
	}
	sort.Strings(ks)
	return ks
}

func (w *zvWorld) gc() {
	used := map[string]bool{}
	for _, in := range w.insts {
		used[in.Node] = true
	}
	for n := range w.nodes {
		if !used[n] {
			delete(w.nodes, n)
		}
	}
}

func (w *zvWorld) servicesOn(node string) []string {
	m := map[string]bool{}
	for _, in := range w.insts {
		if in.Node == node {
			m[in.Svc] = true
		}
	}
	var out []string
	for s := range m {
		out = append(out, s)
	}
	sort.Strings(out)
	return out
}

func (w *zvWorld) addRandom(r *core.Rand) (string, []string) {
	svc := core.Pick(r, zvSvcNames)
	node := core.Pick(r, zvNodeNames)
	id := svc + "-" + core.Pick(r, []string{"1", "2"})
	w.node(node, r)
	in := &zvIn{Svc: svc, Node: node, ID: id, Port: 8000 + r.Intn(3), Checks: map[string]*zvChk{}}
	if r.Chance(40) {
		in.Tags = []string{"v" + fmt.Sprint(r.Intn(2))}
	}
	if r.Chance(30) {
		in.Meta = map[string]string{"ver": fmt.Sprint(r.Intn(3))}
	}
	if r.Chance(60) {
		in.Checks[id+":overall-check"] = &zvChk{ID: id + ":overall-check", Name: "overall-check", Status: zvStatus(r)}
	}
	if r.Chance(35) {
		in.Checks["chk-"+id] = &zvChk{ID: "chk-" + id, Name: "tcp", Status: zvStatus(r), Output: "ok"}
	}
	if w.idless {
		// ID-less exporters model a fleet of identical instances (same service ID on every node, same
		// port, a version tag only): rolling upgrades make instances on different nodes EQUAL
		in.ID = svc + "-1"
		in.Port, in.Meta = 8000, nil
		in.Tags = []string{"v" + fmt.Sprint(r.Intn(2))}
		in.Checks = map[string]*zvChk{in.ID + ":overall-check": {ID: in.ID + ":overall-check", Name: "overall-check", Status: api.HealthPassing}}
		id = in.ID
	}
	w.insts[zvInstKey(svc, node, id)] = in
	return fmt.Sprintf("add %s on %s", id, node), []string{svc}
}

// mutate applies one random change to the exporter's catalog and returns a description and the
// services whose snapshot changed.
func (w *zvWorld) mutate(r *core.Rand) (string, []string) {
	keys := w.instKeys()
	op := r.Intn(100)
	if len(keys) == 0 {
		op = 0
	}
	switch {
	case op < 22: // add an instance (or overwrite the same ID)
		return w.addRandom(r)
	case op < 34: // remove an instance
		k := core.Pick(r, keys)
		in := w.insts[k]
		delete(w.insts, k)
		w.gc()
		return fmt.Sprintf("remove %s from %s", in.ID, in.Node), []string{in.Svc}
	case op < 46: // move an instance to another node (same service ID)
		k := core.Pick(r, keys)
		in := w.insts[k]
		to := core.Pick(r, zvNodeNames)
		if to == in.Node {
			to = zvNodeNames[(r.Intn(2)+1+zvIndex(zvNodeNames, in.Node))%len(zvNodeNames)]
		}
		from := in.Node
		delete(w.insts, k)
		w.node(to, r)
		in.Node = to
		w.insts[zvInstKey(in.Svc, to, in.ID)] = in
		w.gc()
		return fmt.Sprintf("move %s from %s to %s", in.ID, from, to), []string{in.Svc}
	case op < 56: // change instance fields
		in := w.insts[core.Pick(r, keys)]
		if w.idless {
			// rolling upgrade of an identical-instance fleet: only the version tag moves
			if len(in.Tags) == 1 && in.Tags[0] == "v0" {
				in.Tags = []string{"v1"}
			} else {
				in.Tags = []string{"v0"}
			}
			return "upgrade " + in.ID + " on " + in.Node, []string{in.Svc}
		}
		switch r.Intn(4) {
		case 0:
			in.Port++
		case 1:
			in.Tags = []string{"t" + fmt.Sprint(r.Intn(3))}
		case 2:
			in.Meta = map[string]string{"ver": fmt.Sprint(r.Intn(5))}
		default:
			in.Addr = fmt.Sprintf("192.168.%d.%d", w.pidx, r.Intn(4))
		}
		return "change fields of " + in.ID + " on " + in.Node, []string{in.Svc}
	case op < 65: // change node fields
		in := w.insts[core.Pick(r, keys)]
		n := w.nodes[in.Node]
		switch r.Intn(6) {
		case 0:
			n.Addr = fmt.Sprintf("10.%d.1.%d", w.pidx+1, r.Intn(5))
		case 1:
			n.Meta = map[string]string{"rack": "r" + fmt.Sprint(r.Intn(3))}
		case 2:
			n.TAddr = map[string]string{"wan": fmt.Sprintf("198.51.%d.%d", w.pidx, r.Intn(4))}
		case 3:
			n.Meta = nil
		case 4: // node replaced: same name, fresh ID
			if !w.idless {
				w.fresh++
				n.ID = zvUUID(w.idBase + 100 + w.fresh)
			}
		default:
			n.DC = "dc-" + w.peer + fmt.Sprint(r.Intn(2))
		}
		return "change node " + n.Name, w.servicesOn(n.Key)
	case op < 80: // node-level check add / remove / change
		in := w.insts[core.Pick(r, keys)]
		n := w.nodes[in.Node]
		id := core.Pick(r, []string{"mem", "disk"})
		if c, ok := n.Checks[id]; ok {
			if r.Chance(50) {
				delete(n.Checks, id)
				return "remove node check " + id + " on " + n.Name, w.servicesOn(n.Key)
			}
			c.Status = zvStatus(r)
			c.Output = "o" + fmt.Sprint(r.Intn(3))
			return "change node check " + id + " on " + n.Name, w.servicesOn(n.Key)
		}
		n.Checks[id] = &zvChk{ID: id, Name: "node-" + id, Status: zvStatus(r)}
		return "add node check " + id + " on " + n.Name, w.servicesOn(n.Key)
	case op < 95: // service-level check add / remove / change
		in := w.insts[core.Pick(r, keys)]
		id := core.Pick(r, []string{in.ID + ":overall-check", "chk-" + in.ID})
		if c, ok := in.Checks[id]; ok {
			if r.Chance(50) {
				delete(in.Checks, id)
				return "remove service check " + id + " on " + in.Node, []string{in.Svc}
			}
			c.Status = zvStatus(r)
			c.Notes = "n" + fmt.Sprint(r.Intn(3))
			return "change service check " + id + " on " + in.Node, []string{in.Svc}
		}
		in.Checks[id] = &zvChk{ID: id, Name: "c", Status: zvStatus(r)}
		return "add service check " + id + " on " + in.Node, []string{in.Svc}
	default: // all instances of a service disappear
		svc := w.insts[core.Pick(r, keys)].Svc
		for k, in := range w.insts {
			if in.Svc == svc {
				delete(w.insts, k)
			}
		}
		w.gc()
		return "drop all instances of " + svc, []string{svc}
	}
}

func zvIndex(xs []string, x string) int {
	for i, y := range xs {
		if y == x {
			return i
		}
	}
	return 0
}

// ---------------------------------------------------------------------------------------------
// canonical entry form shared by the expectation (from the world) and the observation (from the store)
// ---------------------------------------------------------------------------------------------

type zvEnt struct {
	Node string            `json:"node"`
	Svc  string            `json:"service"`
	SC   map[string]string `json:"service_checks"`
	NC   map[string]string `json:"node_checks"`
}

func zvMapStr(m map[string]string) string {
	var ks []string
	for k := range m {
		ks = append(ks, k)
	}
	sort.Strings(ks)
	var sb strings.Builder
	for i, k := range ks {
		if i > 0 {
			sb.WriteByte(',')
		}
		sb.WriteString(k + "=" + m[k])
	}
	return sb.String()
}

func zvNodeStr(name, id, addr, dc string, meta, taddr map[string]string) string {
	return fmt.Sprintf("node{name=%q id=%q addr=%q dc=%q meta=[%s] taddr=[%s]}", name, id, addr, dc, zvMapStr(meta), zvMapStr(taddr))
}

func zvSvcStr(id, name, kind string, port int, addr string, tags []string, meta map[string]string, dest, destID string, sni []string, taddr map[string]string) string {
	return fmt.Sprintf("svc{id=%q name=%q kind=%q port=%d addr=%q tags=%q meta=[%s] dest=%q destid=%q sni=%q taddr=[%s]}",
		id, name, kind, port, addr, append([]string{}, tags...), zvMapStr(meta), dest, destID, append([]string{}, sni...), zvMapStr(taddr))
}

func zvChkStr(name, status, output, notes, svcID, svcName string) string {
	return fmt.Sprintf("chk{name=%q status=%q output=%q notes=%q sid=%q sname=%q}", name, status, output, notes, svcID, svcName)
}

func zvEntKey(node, svcID string) string { return node + "|" + svcID }

func zvCopyMap(m map[string]string) map[string]string {
	if m == nil {
		return nil
	}
	o := map[string]string{}
	for k, v := range m {
		o[k] = v
	}
	return o
}

var zvStatusRank = map[string]int{api.HealthCritical: 0, api.HealthWarning: 1, api.HealthPassing: 2}

// snapshot renders the world's current view of one service as the protobuf the exporter would send
// and as the canonical expectation.
func (w *zvWorld) snapshot(svc string) (*pbpeerstream.ExportedService, map[string]zvEnt) {
	out := &pbpeerstream.ExportedService{}
	exp := map[string]zvEnt{}
	for _, k := range w.instKeys() {
		in := w.insts[k]
		if in.Svc != svc {
			continue
		}
		n := w.nodes[in.Node]
		pbn := &pbservice.Node{ID: n.ID, Node: n.Name, Address: n.Addr, Datacenter: n.DC, TaggedAddresses: zvCopyMap(n.TAddr), Meta: zvCopyMap(n.Meta), PeerName: w.pbPeer}
		pbs := &pbservice.NodeService{ID: in.ID, Service: in.Svc, Tags: append([]string(nil), in.Tags...), Address: in.Addr, Meta: zvCopyMap(in.Meta),
			Port: int32(in.Port), PeerName: w.pbPeer, EnterpriseMeta: &pbcommon.EnterpriseMeta{}}
		// what an exporter's store-sourced snapshot always carries (without it the importer never
		// recognises an unchanged instance and its skip-unchanged path is not exercised)
		pbs.Weights = &pbservice.Weights{Passing: 1, Warning: 1}
		if pbs.Meta == nil {
			pbs.Meta = map[string]string{}
		}
		if pbs.Tags == nil {
			pbs.Tags = []string{}
		}
		kind, dest, destID := "", "", ""
		var sni []string
		if strings.HasSuffix(svc, zvProxySuffix) {
			kind, dest, destID = string(structs.ServiceKindConnectProxy), zvBase(svc), zvBase(svc)
			sni = []string{zvBase(svc) + ".default.default." + w.peer + ".external.td.consul"}
			pbs.Kind = kind
			pbs.Proxy = &pbservice.ConnectProxyConfig{DestinationServiceName: dest, DestinationServiceID: destID}
			pbs.Connect = &pbservice.ServiceConnect{PeerMeta: &pbservice.PeeringServiceMeta{SNI: sni, SpiffeID: []string{"spiffe://td.consul/ns/default/dc/" + n.DC + "/svc/" + dest}, Protocol: "tcp"}}
		}
		e := zvEnt{Node: zvNodeStr(n.Name, n.ID, n.Addr, n.DC, n.Meta, n.TAddr),
			Svc: zvSvcStr(in.ID, in.Svc, kind, in.Port, in.Addr, in.Tags, in.Meta, dest, destID, sni, nil),
			SC:  map[string]string{}, NC: map[string]string{}}
		var pbc []*pbservice.HealthCheck
		if w.flatten {
			// what the current exporter does: one synthetic service-level check per instance
			if len(n.Checks)+len(in.Checks) > 0 {
				st := api.HealthPassing
				for _, c := range n.Checks {
					if zvStatusRank[c.Status] < zvStatusRank[st] {
						st = c.Status
					}
				}
				for _, c := range in.Checks {
					if zvStatusRank[c.Status] < zvStatusRank[st] {
						st = c.Status
					}
				}
				id := in.ID + ":overall-check"
				pbc = append(pbc, &pbservice.HealthCheck{Node: n.Name, CheckID: id, Name: "overall-check", Status: st, ServiceID: in.ID, ServiceName: in.Svc, PeerName: w.pbPeer, EnterpriseMeta: &pbcommon.EnterpriseMeta{}})
				e.SC[id] = zvChkStr("overall-check", st, "", "", in.ID, in.Svc)
			}
		} else {
			var ids []string
			for id := range n.Checks {
				ids = append(ids, id)
			}
			sort.Strings(ids)
			for _, id := range ids {
				c := n.Checks[id]
				pbc = append(pbc, &pbservice.HealthCheck{Node: n.Name, CheckID: c.ID, Name: c.Name, Status: c.Status, Output: c.Output, Notes: c.Notes, PeerName: w.pbPeer})
				e.NC[id] = zvChkStr(c.Name, c.Status, c.Output, c.Notes, "", "")
			}
			ids = ids[:0]
			for id := range in.Checks {
				ids = append(ids, id)
			}
			sort.Strings(ids)
			for _, id := range ids {
				c := in.Checks[id]
				pbc = append(pbc, &pbservice.HealthCheck{Node: n.Name, CheckID: c.ID, Name: c.Name, Status: c.Status, Output: c.Output, Notes: c.Notes, ServiceID: in.ID, ServiceName: in.Svc, PeerName: w.pbPeer})
				e.SC[id] = zvChkStr(c.Name, c.Status, c.Output, c.Notes, in.ID, in.Svc)
			}
		}
		out.Nodes = append(out.Nodes, &pbservice.CheckServiceNode{Node: pbn, Service: pbs, Checks: pbc})
		exp[zvEntKey(n.Name, in.ID)] = e
	}
	return out, exp
}

// zvObserve reads what the importing store holds for (service, peer) in canonical form.
func zvObserve(st *state.Store, svc, peer string) (map[string]zvEnt, []string) {
	var problems []string
	_, csns, err := st.CheckServiceNodes(nil, svc, structs.DefaultEnterpriseMetaInDefaultPartition(), peer)
	if err != nil {
		return nil, []string{"CheckServiceNodes error: " + err.Error()}
	}
	out := map[string]zvEnt{}
	for _, c := range csns {
		if c.Node == nil || c.Service == nil {
			problems = append(problems, "entry without node or service")
			continue
		}
		key := zvEntKey(c.Node.Node, c.Service.ID)
		if c.Node.PeerName != peer {
			problems = append(problems, fmt.Sprintf("node %s carries PeerName %q", c.Node.Node, c.Node.PeerName))
		}
		if c.Service.PeerName != peer {
			problems = append(problems, fmt.Sprintf("instance %s carries PeerName %q", key, c.Service.PeerName))
		}
		if c.Service.Service != svc {
			problems = append(problems, fmt.Sprintf("instance %s has service name %q", key, c.Service.Service))
		}
		ta := map[string]string{}
		for k, v := range c.Service.TaggedAddresses {
			if k == structs.TaggedAddressVirtualIP {
				continue // assigned by the importing store (documented)
			}
			ta[k] = fmt.Sprintf("%s:%d", v.Address, v.Port)
		}
		var sni []string
		if c.Service.Connect.PeerMeta != nil {
			sni = c.Service.Connect.PeerMeta.SNI
		}
		e := zvEnt{
			Node: zvNodeStr(c.Node.Node, string(c.Node.ID), c.Node.Address, c.Node.Datacenter, c.Node.Meta, c.Node.TaggedAddresses),
			Svc: zvSvcStr(c.Service.ID, c.Service.Service, string(c.Service.Kind), c.Service.Port, c.Service.Address, c.Service.Tags, c.Service.Meta,
				c.Service.Proxy.DestinationServiceName, c.Service.Proxy.DestinationServiceID, sni, ta),
			SC: map[string]string{}, NC: map[string]string{}}
		for _, h := range c.Checks {
			if h.PeerName != peer {
				problems = append(problems, fmt.Sprintf("check %s on %s carries PeerName %q", h.CheckID, h.Node, h.PeerName))
			}
			if !strings.EqualFold(h.Node, c.Node.Node) {
				problems = append(problems, fmt.Sprintf("check %s of node %s attached to node %s", h.CheckID, h.Node, c.Node.Node))
			}
			s := zvChkStr(h.Name, h.Status, h.Output, h.Notes, h.ServiceID, h.ServiceName)
			if h.ServiceID == "" {
				e.NC[string(h.CheckID)] = s
			} else {
				if h.ServiceID != c.Service.ID {
					problems = append(problems, fmt.Sprintf("check %s of instance %s attached to instance %s", h.CheckID, h.ServiceID, c.Service.ID))
				}
				e.SC[string(h.CheckID)] = s
			}
		}
		if _, dup := out[key]; dup {
			problems = append(problems, "duplicate entry "+key)
		}
		out[key] = e
	}
	return out, problems
}

// ---------------------------------------------------------------------------------------------
// typed walk of ALL tables; every row is attributed to an owner (a peer name, "" = local cluster /
// not peer-scoped, or a "#shared..." class for bookkeeping that is global by construction)
// ---------------------------------------------------------------------------------------------

type zvRow struct {
	table, owner, text string
	item               any
}

func zvOwner(table string, item any) string {
	switch x := item.(type) {
	case *structs.Node:
		return x.PeerName
	case *structs.ServiceNode:
		return x.PeerName
	case *structs.HealthCheck:
		return x.PeerName
	case state.ServiceVirtualIP:
		return x.Service.Peer
	case state.FreeVirtualIP:
		return "#shared-vip-pool"
	case *state.IndexEntry:
		if strings.HasPrefix(x.Key, "peer.") {
			rest := x.Key[len("peer."):]
			if i := strings.IndexByte(rest, ':'); i >= 0 {
				if rest[:i] == structs.LocalPeerKeyword {
					return ""
				}
				return rest[:i]
			}
		}
		return "#shared-index"
	}
	return ""
}

func zvRows(st *state.Store) []zvRow {
	var rows []zvRow
	err := st.WalkAllTables(func(table string, item interface{}) bool {
		rows = append(rows, zvRow{table: table, owner: zvOwner(table, item), text: dump.Render(item), item: item})
		return true
	})
	if err != nil {
		panic(err)
	}
	return rows
}

func zvDumpOf(rows []zvRow, keep func(owner string) bool) *dump.Dump {
	d := &dump.Dump{Tables: map[string][]string{}}
	for _, r := range rows {
		if keep(r.owner) {
			d.Tables[r.table] = append(d.Tables[r.table], r.text)
		}
	}
	return d
}

// global max-index rows (one per table, used for snapshots) move with any write by construction;
// they carry no peer-scoped data. Everything else in the index table that is not "peer.<name>:..."
// must stay put.
func zvSharedIndexAllowed(key string) bool {
	switch key {
	case "nodes", "services", "checks", "service-virtual-ips", "service-virtual-ips.imported":
		return true
	}
	return strings.HasPrefix(key, "service_kind.")
}

// ---------------------------------------------------------------------------------------------
// one history = local seeding + a sequence of updates; EVERY update is one (prior, update) pair
// ---------------------------------------------------------------------------------------------

type zvHist struct {
	script   []zvScriptStep
	mcStreak map[string]int // peer|service -> consecutive upserts that carried an already imported mixed-case node
	run      *core.Run
	h        int
	r        *fsmkit.Replica
	idx      uint64
	ops      []string
	log      []string
	srv      *Server
	mst      map[string]*MutableStatus
	worlds   map[string]*zvWorld
	last     map[string]map[string]map[string]zvEnt // peer -> service -> entry key -> expectation
	sentLst  map[string][]string
	prev     map[string][]string
	part     string
	nonce    int
	localID  map[string]string
	dead     bool
}

func (z *zvHist) applyLocal(t structs.MessageType, req any, what string) {
	z.idx++
	res := z.r.Apply(z.idx, t, req)
	if err, ok := res.(error); ok && err != nil {
		what += " -> " + err.Error()
	}
	z.log = append(z.log, "local: "+what)
}

func (z *zvHist) localRegister(node, svc, id string, kind structs.ServiceKind, chk []*structs.HealthCheck) {
	ni := zvIndex(zvNodeNames, node)
	req := &structs.RegisterRequest{Datacenter: "dc1", Node: node, ID: types.NodeID(z.localID[node]), Address: fmt.Sprintf("10.0.0.%d", ni+1),
		NodeMeta: map[string]string{"rack": "r1"}}
	if svc != "" {
		req.Service = &structs.NodeService{ID: id, Service: svc, Port: 8000, Kind: kind}
		if kind == structs.ServiceKindConnectProxy {
			req.Service.Proxy = structs.ConnectProxyConfig{DestinationServiceName: zvBase(svc), DestinationServiceID: zvBase(svc) + "-1"}
		}
	}
	req.Checks = chk
	z.applyLocal(structs.RegisterRequestType, req, fmt.Sprintf("register node=%s service=%s checks=%d", node, id, len(chk)))
}

func (z *zvHist) seedLocal(r *core.Rand) {
	st := z.r.State()
	if r.Chance(75) {
		for _, k := range []string{structs.SystemMetadataVirtualIPsEnabled, structs.SystemMetadataTermGatewayVirtualIPsEnabled} {
			z.applyLocal(structs.SystemMetadataRequestType, &structs.SystemMetadataRequest{Datacenter: "dc1", Op: structs.SystemMetadataUpsert, Entry: &structs.SystemMetadataEntry{Key: k, Value: "true"}}, "sysmeta "+k)
		}
	}
	for _, p := range zvPeers {
		z.idx++
		if err := st.PeeringWrite(z.idx, &pbpeering.PeeringWriteRequest{Peering: &pbpeering.Peering{ID: zvPeerIDs[p], Name: p, State: pbpeering.PeeringState_ACTIVE}}); err != nil {
			panic(err)
		}
	}
	// config entries that derive local tables from service names
	if r.Chance(45) {
		e := &structs.IngressGatewayConfigEntry{Kind: structs.IngressGateway, Name: "igw", Listeners: []structs.IngressListener{{Port: 8080, Protocol: "http", Services: []structs.IngressService{{Name: "*"}}}}}
		z.applyLocal(structs.ConfigEntryRequestType, &structs.ConfigEntryRequest{Op: structs.ConfigEntryUpsert, Datacenter: "dc1", Entry: e}, "config ingress-gateway igw services=*")
	}
	if r.Chance(45) {
		e := &structs.TerminatingGatewayConfigEntry{Kind: structs.TerminatingGateway, Name: "tgw", Services: []structs.LinkedService{{Name: "*"}}}
		z.applyLocal(structs.ConfigEntryRequestType, &structs.ConfigEntryRequest{Op: structs.ConfigEntryUpsert, Datacenter: "dc1", Entry: e}, "config terminating-gateway tgw services=*")
	}
	if r.Chance(50) {
		e := &structs.ServiceConfigEntry{Kind: structs.ServiceDefaults, Name: "web", Protocol: "http"}
		z.applyLocal(structs.ConfigEntryRequestType, &structs.ConfigEntryRequest{Op: structs.ConfigEntryUpsert, Datacenter: "dc1", Entry: e}, "config service-defaults web")
	}
	if r.Chance(40) {
		e := &structs.ExportedServicesConfigEntry{Name: "default", Services: []structs.ExportedService{{Name: "web", Consumers: []structs.ServiceConsumer{{Peer: "peerA"}}}, {Name: "*", Consumers: []structs.ServiceConsumer{{Peer: "peerB"}}}}}
		z.applyLocal(structs.ConfigEntryRequestType, &structs.ConfigEntryRequest{Op: structs.ConfigEntryUpsert, Datacenter: "dc1", Entry: e}, "config exported-services")
	}
	// local catalog with the same names as the peers use
	for _, n := range zvNodeNames {
		if n == zvNodeNames[2] && r.Chance(50) {
			continue
		}
		chk := []*structs.HealthCheck{{Node: n, CheckID: "serfHealth", Name: "Serf Health Status", Status: api.HealthPassing}}
		if r.Chance(70) {
			chk = append(chk, &structs.HealthCheck{Node: n, CheckID: "mem", Name: "memory", Status: api.HealthPassing})
		}
		if r.Chance(40) {
			chk = append(chk, &structs.HealthCheck{Node: n, CheckID: "disk", Name: "disk", Status: api.HealthWarning})
		}
		z.localRegister(n, "", "", "", chk)
		for _, s := range zvBaseSvcs {
			for _, suffix := range []string{"1", "2"} {
				if !r.Chance(45) {
					continue
				}
				id := s + "-" + suffix
				var sc []*structs.HealthCheck
				if r.Chance(60) {
					sc = append(sc, &structs.HealthCheck{Node: n, CheckID: types.CheckID(id + ":overall-check"), Name: "overall-check", Status: api.HealthPassing, ServiceID: id})
				}
				if r.Chance(30) {
					sc = append(sc, &structs.HealthCheck{Node: n, CheckID: types.CheckID("chk-" + id), Name: "tcp", Status: api.HealthPassing, ServiceID: id})
				}
				z.localRegister(n, s, id, structs.ServiceKindTypical, sc)
			}
		}
		if r.Chance(45) {
			z.localRegister(n, "web"+zvProxySuffix, "web"+zvProxySuffix+"-1", structs.ServiceKindConnectProxy, nil)
		}
	}
	// session bound to a local node check whose ID the peers use too, a lock held by it, plain KV, coordinates
	sid := zvUUID(9000 + z.h%7)
	z.applyLocal(structs.SessionRequestType, &structs.SessionRequest{Datacenter: "dc1", Op: structs.SessionCreate,
		Session: structs.Session{ID: sid, Node: zvNodeNames[0], NodeChecks: []string{"serfHealth", "mem"}, Behavior: structs.SessionKeysDelete}}, "session on n1 bound to checks serfHealth+mem")
	z.applyLocal(structs.SessionRequestType, &structs.SessionRequest{Datacenter: "dc1", Op: structs.SessionCreate,
		Session: structs.Session{ID: zvUUID(9100), Node: zvNodeNames[1], NodeChecks: []string{"serfHealth"}}}, "session on n2 bound to serfHealth")
	z.applyLocal(structs.KVSRequestType, &structs.KVSRequest{Datacenter: "dc1", Op: api.KVLock, DirEnt: structs.DirEntry{Key: "lock/n1", Value: []byte("x"), Session: sid}}, "kv lock lock/n1")
	z.applyLocal(structs.KVSRequestType, &structs.KVSRequest{Datacenter: "dc1", Op: api.KVSet, DirEnt: structs.DirEntry{Key: "peerA/web", Value: []byte("v")}}, "kv set peerA/web")
	z.applyLocal(structs.CoordinateBatchUpdateType, structs.Coordinates{{Node: zvNodeNames[0], Coord: coordinate.NewCoordinate(coordinate.DefaultConfig())}}, "coordinate n1")
}

func (z *zvHist) localMutation(r *core.Rand) {
	n := core.Pick(r, zvNodeNames)
	s := core.Pick(r, zvBaseSvcs)
	id := s + "-" + core.Pick(r, []string{"1", "2"})
	switch r.Intn(5) {
	case 0, 1:
		z.localRegister(n, s, id, structs.ServiceKindTypical, []*structs.HealthCheck{{Node: n, CheckID: types.CheckID(id + ":overall-check"), Name: "overall-check", Status: zvStatus(r), ServiceID: id}})
	case 2:
		z.applyLocal(structs.DeregisterRequestType, &structs.DeregisterRequest{Datacenter: "dc1", Node: n, ServiceID: id}, "deregister "+id+" on "+n)
	case 3:
		z.localRegister(n, "", "", "", []*structs.HealthCheck{{Node: n, CheckID: "disk", Name: "disk", Status: core.Pick(r, []string{api.HealthPassing, api.HealthWarning})}})
	default:
		z.applyLocal(structs.DeregisterRequestType, &structs.DeregisterRequest{Datacenter: "dc1", Node: n, CheckID: "disk"}, "deregister check disk on "+n)
	}
}

func (z *zvHist) send(peer, url, id string, msg proto.Message) (bool, string) {
	z.nonce++
	any, err := anypb.New(msg)
	if err != nil {
		panic(err)
	}
	resp := &pbpeerstream.ReplicationMessage_Response{ResourceURL: url, ResourceID: id, Nonce: fmt.Sprint(z.nonce), Operation: pbpeerstream.Operation_OPERATION_UPSERT, Resource: any}
	reply, perr := z.srv.processResponse(peer, z.part, z.mst[peer], resp)
	if perr != nil {
		return false, perr.Error()
	}
	if reply == nil || reply.GetRequest() == nil || reply.GetRequest().Error != nil || reply.GetRequest().ResponseNonce != fmt.Sprint(z.nonce) {
		return false, "reply is not an ACK for the nonce: " + dump.Render(reply)
	}
	return true, ""
}

func zvKeep(list []string, svc string) bool {
	for _, x := range list {
		if x == svc || (strings.HasSuffix(svc, zvProxySuffix) && zvBase(svc) == x) {
			return true
		}
	}
	return false
}

type zvPeerView struct {
	nodes  map[string]bool   // node names
	insts  map[string]string // node|svcID -> service name
	nchk   map[string]bool   // node|checkID (node-level)
	schk   map[string]bool   // node|checkID (service-level)
	schkOf map[string]string // node|checkID -> svcID
	rows   int
}

func zvView(rows []zvRow, peer string) *zvPeerView {
	v := &zvPeerView{nodes: map[string]bool{}, insts: map[string]string{}, nchk: map[string]bool{}, schk: map[string]bool{}, schkOf: map[string]string{}}
	for _, r := range rows {
		if r.owner != peer {
			continue
		}
		switch x := r.item.(type) {
		case *structs.Node:
			v.nodes[strings.ToLower(x.Node)] = true
			v.rows++
		case *structs.ServiceNode:
			v.insts[strings.ToLower(x.Node)+"|"+x.ServiceID] = x.ServiceName
			v.rows++
		case *structs.HealthCheck:
			k := strings.ToLower(x.Node) + "|" + string(x.CheckID)
			if x.ServiceID == "" {
				v.nchk[k] = true
			} else {
				v.schk[k] = true
				v.schkOf[k] = x.ServiceID
			}
			v.rows++
		}
	}
	return v
}

func zvSortedKeys[V any](m map[string]V) []string {
	var ks []string
	for k := range m {
		ks = append(ks, k)
	}
	sort.Strings(ks)
	return ks
}

// step performs one update for one peer and checks all oracles. kind: "upsert" | "list".
func (z *zvHist) step(step int, r *core.Rand) {
	run := z.run
	st := z.r.State()
	pidx := r.Intn(2)
	var scripted *zvScriptStep
	if len(z.script) > 0 {
		scripted = &z.script[0]
		z.script = z.script[1:]
		pidx = 0
	}
	peer := zvPeers[pidx]
	w := z.worlds[peer]

	// the exporter's catalog moves on
	var touched []string
	var muts []string
	if scripted != nil {
		muts = append(muts, scripted.mut(w))
		touched = append(touched, scripted.svc)
	}
	for i, n := 0, 1+r.Intn(3); i < n && scripted == nil; i++ {
		d, t := w.mutate(r)
		muts = append(muts, d)
		touched = append(touched, t...)
		if w.idless && strings.HasPrefix(d, "upgrade ") {
			run.Count("idless-fleet-upgrade-steps")
			// does the upgraded instance now equal a same-ID instance on another ID-less node?
			for _, a := range w.insts {
				for _, b := range w.insts {
					if a != b && a.ID == b.ID && a.Node != b.Node && fmt.Sprint(a.Tags) == fmt.Sprint(b.Tags) && strings.Contains(d, a.ID+" on "+a.Node) {
						run.Count("idless-fleet-upgrade-makes-twin-equal")
					}
				}
			}
		}
	}

	kind := "upsert"
	if r.Chance(18) || (step == 0 && r.Chance(40)) {
		kind = "list"
	}
	var svc string
	if scripted != nil {
		kind = "upsert"
		w.exported[zvBase(scripted.svc)] = true
	}
	if kind == "upsert" {
		var cands []string
		if scripted != nil {
			cands = []string{scripted.svc}
		}
		if r.Chance(85) && scripted == nil {
			for _, s := range touched {
				if w.exported[zvBase(s)] {
					cands = append(cands, s)
				}
			}
		}
		if len(cands) == 0 {
			for _, s := range zvSvcNames {
				if w.exported[zvBase(s)] {
					cands = append(cands, s)
				}
			}
		}
		if len(cands) == 0 {
			kind = "list"
		} else {
			svc = core.Pick(r, cands)
		}
	}

	// prior observation
	before := zvRows(st)
	priorView := zvView(before, peer)
	priorObs := map[string]map[string]zvEnt{}
	for _, s := range zvSvcNames {
		priorObs[s], _ = zvObserve(st, s, peer)
	}
	priorNC := map[string]map[string]bool{} // node -> node-level check ids present before
	for k := range priorView.nchk {
		i := strings.IndexByte(k, '|')
		if priorNC[k[:i]] == nil {
			priorNC[k[:i]] = map[string]bool{}
		}
		priorNC[k[:i]][k[i+1:]] = true
	}

	z.ops = z.ops[:0]
	var desc string
	var ok bool
	if kind == "upsert" {
		z.countMixedCase(svc, peer, w, priorObs[svc], scripted != nil)
	}
	var emsg string
	var list []string
	var sentExp map[string]zvEnt
	core.Progress("C17", fmt.Sprintf("history %d step %d peer %s %s %s", z.h, step, peer, kind, svc))
	if kind == "upsert" {
		msg, exp := w.snapshot(svc)
		sentExp = exp
		desc = fmt.Sprintf("step %d: world[%s] %v; UPSERT peer=%s service=%s snapshot=%s", step, peer, muts, peer, svc, core.JSON(exp))
		z.log = append(z.log, desc)
		ok, emsg = z.send(peer, pbpeerstream.TypeURLExportedService, svc, msg)
	} else {
		// exported set changes: shrink / grow
		for i, n := 0, (r.Intn(4)+2)/2; i < n; i++ {
			s := core.Pick(r, zvBaseSvcs)
			w.exported[s] = !w.exported[s]
		}
		if r.Chance(6) {
			for _, s := range zvBaseSvcs {
				w.exported[s] = false
			}
		}
		for _, s := range zvBaseSvcs {
			if w.exported[s] {
				list = append(list, s)
			}
		}
		desc = fmt.Sprintf("step %d: world[%s] %v; EXPORTED-LIST peer=%s services=%v", step, peer, muts, peer, list)
		z.log = append(z.log, desc)
		ok, emsg = z.send(peer, pbpeerstream.TypeURLExportedServiceList, subExportedServiceList, &pbpeerstream.ExportedServiceList{Services: list})
	}
	run.Eval()
	run.Count("pairs:" + kind)
	ops := append([]string(nil), z.ops...)
	witness := func(extra map[string]any) map[string]any {
		m := map[string]any{"history": z.h, "step": step, "peer": peer, "partition_arg": z.part, "log": append([]string(nil), z.log...), "backend_ops": ops}
		for k, v := range extra {
			m[k] = v
		}
		return m
	}
	if !ok {
		run.Violation("C17:process:"+kind+":error", fmt.Sprintf("history %d: a well-formed %s update was not applied/ACKed: %s (%s)", z.h, kind, emsg, desc), witness(map[string]any{"error": emsg}))
		z.dead = true
		return
	}

	// model update
	lm := z.last[peer]
	if kind == "upsert" {
		lm[svc] = sentExp
	} else {
		for _, s := range zvSortedKeys(lm) {
			if !zvKeep(list, s) {
				lm[s] = map[string]zvEnt{}
			}
		}
		z.sentLst[peer] = list
	}

	after := zvRows(st)
	postView := zvView(after, peer)
	viol := func(key, what string, extra map[string]any) {
		run.Violation(key, fmt.Sprintf("history %d %s: %s", z.h, desc, what), witness(extra))
	}

	// ---- MIRROR: every service of the updated peer against the model
	for _, s := range zvSvcNames {
		obs, problems := zvObserve(st, s, peer)
		for _, p := range problems {
			viol("C17:mirror:malformed-entry", fmt.Sprintf("CheckServiceNodes(%s, %s): %s", s, peer, p), nil)
		}
		exp := lm[s]
		if scripted != nil && s == svc && os.Getenv("VERIF_C17_DEBUG") != "" {
			fmt.Printf("DEBUG h%d %v\n  obs=%s\n  exp=%s\n  ops=%v\n", z.h, muts, core.JSON(obs), core.JSON(exp), z.ops)
		}
		full := kind == "upsert" && s == svc
		pre := "C17:mirror:"
		if !full {
			pre = "C17:mirror:other-service:"
			if kind == "list" {
				pre = "C17:list:"
			}
		}
		for _, k := range zvSortedKeys(exp) {
			e := exp[k]
			o, present := obs[k]
			if !present {
				viol(pre+"instance-missing", fmt.Sprintf("service %s of %s: entry %s of the snapshot is not in the catalog", s, peer, k), map[string]any{"expected": e})
				continue
			}
			if o.Svc != e.Svc {
				viol(pre+"service-fields", fmt.Sprintf("service %s of %s entry %s: stored %s, snapshot %s", s, peer, k, o.Svc, e.Svc), nil)
			}
			for _, id := range zvSortedKeys(e.SC) {
				if oc, ok := o.SC[id]; !ok {
					viol(pre+"service-check-missing", fmt.Sprintf("service %s of %s entry %s: service check %s of the snapshot is not stored", s, peer, k, id), nil)
				} else if oc != e.SC[id] {
					viol(pre+"service-check-fields", fmt.Sprintf("service %s of %s entry %s check %s: stored %s, snapshot %s", s, peer, k, id, oc, e.SC[id]), nil)
				}
			}
			for _, id := range zvSortedKeys(o.SC) {
				if _, ok := e.SC[id]; !ok {
					viol(pre+"service-check-not-removed", fmt.Sprintf("service %s of %s entry %s: service check %s is stored but not in the snapshot", s, peer, k, id), nil)
				}
			}
			if !full {
				continue
			}
			if o.Node != e.Node {
				viol(pre+"node-fields", fmt.Sprintf("service %s of %s entry %s: stored %s, snapshot %s", s, peer, k, o.Node, e.Node), nil)
			}
			for _, id := range zvSortedKeys(e.NC) {
				if oc, ok := o.NC[id]; !ok {
					viol(pre+"node-check-missing", fmt.Sprintf("service %s of %s entry %s: node check %s of the snapshot is not stored", s, peer, k, id), nil)
				} else if oc != e.NC[id] {
					viol(pre+"node-check-fields", fmt.Sprintf("service %s of %s entry %s node check %s: stored %s, snapshot %s", s, peer, k, id, oc, e.NC[id]), nil)
				}
			}
			_, persisted := priorObs[s][k]
			node := strings.ToLower(k[:strings.IndexByte(k, '|')])
			for _, id := range zvSortedKeys(o.NC) {
				if _, ok := e.NC[id]; ok {
					continue
				}
				switch {
				case persisted:
					viol(pre+"node-check-not-removed", fmt.Sprintf("service %s of %s entry %s existed before and is in the snapshot without node check %s, which is still stored", s, peer, k, id), nil)
				case priorNC[node][id]:
					// the entry is new on an already imported node: the check belongs to what other
					// services' snapshots said about that node (see assumptions)
					run.Count("tolerated:node-check-of-other-services-snapshot")
				default:
					viol(pre+"node-check-invented", fmt.Sprintf("service %s of %s entry %s: node check %s is stored, was not there before and is not in the snapshot", s, peer, k, id), nil)
				}
			}
		}
		for _, k := range zvSortedKeys(obs) {
			if _, ok := exp[k]; !ok {
				cls := "instance-not-removed"
				if _, was := priorObs[s][k]; !was {
					cls = "instance-invented"
				}
				viol(pre+cls, fmt.Sprintf("service %s of %s: entry %s is in the catalog but not in the last snapshot / the service is no longer exported", s, peer, k), map[string]any{"stored": obs[k]})
			}
		}
		// an exported-list update must leave the services it keeps completely alone (node-level data included)
		if kind == "list" && zvKeep(list, s) {
			if a, b := core.JSON(priorObs[s]), core.JSON(obs); a != b {
				viol("C17:list:kept-service-changed", fmt.Sprintf("service %s of %s is still exported but its catalog changed: before %s after %s", s, peer, a, b), nil)
			}
		}
	}
	if _, sl, err := st.ServiceList(nil, structs.DefaultEnterpriseMetaInDefaultPartition(), peer); err == nil {
		for _, sn := range sl {
			if !zvHas(zvSvcNames, sn.Name) {
				viol("C17:mirror:unknown-service", fmt.Sprintf("peer %s holds service %q which no update ever named", peer, sn.Name), nil)
			}
		}
	}

	// ---- RESIDUE: nothing of the peer is left that no snapshot entry accounts for
	svcOnNode := map[string]bool{}
	for k := range postView.insts {
		svcOnNode[k[:strings.IndexByte(k, '|')]] = true
	}
	for _, n := range zvSortedKeys(postView.nodes) {
		if !svcOnNode[n] {
			viol("C17:residue:node-without-instances", fmt.Sprintf("node %s of %s has no imported instance left but was not removed", n, peer), nil)
		}
	}
	for _, k := range zvSortedKeys(postView.nchk) {
		if !postView.nodes[k[:strings.IndexByte(k, '|')]] {
			viol("C17:residue:check-without-node", fmt.Sprintf("node check %s of %s outlived its node", k, peer), nil)
		}
	}
	for _, k := range zvSortedKeys(postView.schk) {
		n := k[:strings.IndexByte(k, '|')]
		if _, ok := postView.insts[n+"|"+postView.schkOf[k]]; !ok {
			viol("C17:residue:check-without-instance", fmt.Sprintf("service check %s of %s (instance %s) outlived its instance", k, peer, postView.schkOf[k]), nil)
		}
	}
	// virtual IPs of the peer only for destinations that still have an imported proxy
	for _, rw := range after {
		if v, ok := rw.item.(state.ServiceVirtualIP); ok && rw.owner == peer {
			run.Count("observed:peer-virtual-ip-rows")
			_ = v
		}
	}

	// ---- ISOLATION: every row that is not the updated peer's is byte-identical
	other := zvPeers[1-pidx]
	// destination service name of a connect proxy imported by this very update (for defect classification only)
	proxyDest := ""
	if kind == "upsert" && strings.HasSuffix(svc, zvProxySuffix) && len(sentExp) > 0 {
		proxyDest = zvBase(svc)
	}
	const gwKey = "C17:isolation:local:wildcard-gateway-bound-to-imported-proxy-destination"
	gwDefect := false
	for _, cls := range []struct{ name, owner string }{{"local", ""}, {"other-peer", other}} {
		a := zvDumpOf(before, func(o string) bool { return o == cls.owner })
		b := zvDumpOf(after, func(o string) bool { return o == cls.owner })
		for _, d := range dump.RowDiffs(a, b, 12, nil) {
			if cls.owner == "" && proxyDest != "" && d.Kind == "extra" &&
				((d.Table == "gateway-services" && strings.Contains(d.B, fmt.Sprintf("Service:{Name:%q}", proxyDest)) && strings.Contains(d.B, "FromWildcard:true")) ||
					(d.Table == "mesh-topology" && strings.Contains(d.B, fmt.Sprintf("Upstream:{Name:%q}", proxyDest)))) {
				gwDefect = true
				viol(gwKey, fmt.Sprintf("importing the connect proxy %s of %s created the LOCAL row %s in table %s: a local gateway's wildcard now covers service %q because of a peer's import", svc, peer, zvTrunc(d.B, 300), d.Table, proxyDest),
					map[string]any{"diff": d})
				continue
			}
			viol("C17:isolation:"+cls.name+":"+d.Key(), fmt.Sprintf("an update for %s changed a row of %s in table %s (%s): before %s after %s", peer, cls.name, d.Table, d.Kind, zvTrunc(d.A, 300), zvTrunc(d.B, 300)),
				map[string]any{"diff": d})
		}
	}
	// rows attributed to a name that is neither a known peer nor local would escape both classes
	for _, rw := range after {
		if rw.owner != "" && rw.owner != peer && rw.owner != other && !strings.HasPrefix(rw.owner, "#") {
			viol("C17:isolation:unknown-owner", fmt.Sprintf("row of table %s is attributed to unknown peer %q: %s", rw.table, rw.owner, zvTrunc(rw.text, 200)), nil)
		}
	}
	sharedBefore, sharedAfter := map[string]string{}, map[string]string{}
	for _, rw := range before {
		if rw.owner == "#shared-index" {
			sharedBefore[rw.item.(*state.IndexEntry).Key] = rw.text
		}
	}
	for _, rw := range after {
		if rw.owner == "#shared-index" {
			sharedAfter[rw.item.(*state.IndexEntry).Key] = rw.text
		}
	}
	for _, k := range zvSortedKeys(sharedAfter) {
		if sharedBefore[k] != sharedAfter[k] {
			run.Distinct("global-index-rows-moved", k)
			if gwDefect && (k == "gateway-services" || k == "mesh-topology") {
				continue // consequence of the defect reported above
			}
			if !zvSharedIndexAllowed(k) {
				viol("C17:isolation:index:"+k, fmt.Sprintf("an update for %s moved the index row %q which is neither peer-scoped nor a catalog-table max index: %s -> %s", peer, k, sharedBefore[k], sharedAfter[k]), nil)
			}
		}
	}
	for _, k := range zvSortedKeys(sharedBefore) {
		if _, ok := sharedAfter[k]; !ok && !zvSharedIndexAllowed(k) {
			viol("C17:isolation:index:"+k, fmt.Sprintf("an update for %s deleted the index row %q", peer, k), nil)
		}
	}

	// ---- coverage classification (observational, from the peer's rows before/after)
	changed := false
	classes := []string{}
	cl := func(c string) { classes = append(classes, c); run.Count("effect:" + c) }
	for n := range priorView.nodes {
		if !postView.nodes[n] {
			cl("node-removed")
			changed = true
		}
	}
	for n := range postView.nodes {
		if !priorView.nodes[n] {
			cl("node-added")
			changed = true
		}
	}
	byID := func(v *zvPeerView) map[string][]string {
		m := map[string][]string{}
		for k, s := range v.insts {
			i := strings.IndexByte(k, '|')
			m[s+"/"+k[i+1:]] = append(m[s+"/"+k[i+1:]], k[:i])
		}
		return m
	}
	pb, pa := byID(priorView), byID(postView)
	for k, s := range priorView.insts {
		if _, ok := postView.insts[k]; !ok {
			changed = true
			i := strings.IndexByte(k, '|')
			if len(pa[s+"/"+k[i+1:]]) > 0 && len(pb[s+"/"+k[i+1:]]) == 1 && pa[s+"/"+k[i+1:]][0] != k[:i] {
				cl("instance-moved-to-other-node")
			} else {
				cl("instance-removed")
			}
			if postView.nodes[k[:i]] {
				cl("node-kept-after-losing-instance")
			}
		}
	}
	for k := range postView.insts {
		if _, ok := priorView.insts[k]; !ok {
			cl("instance-added")
			changed = true
		}
	}
	for k := range priorView.nchk {
		if !postView.nchk[k] && postView.nodes[k[:strings.IndexByte(k, '|')]] {
			cl("node-check-removed-node-kept")
			changed = true
		}
	}
	for k := range priorView.schk {
		if !postView.schk[k] {
			if _, ok := postView.insts[k[:strings.IndexByte(k, '|')]+"|"+priorView.schkOf[k]]; ok {
				cl("service-check-removed-instance-kept")
			}
			changed = true
		}
	}
	if !changed {
		// field-level change only?
		a := zvDumpOf(before, func(o string) bool { return o == peer })
		b := zvDumpOf(after, func(o string) bool { return o == peer })
		if a.Hash() != b.Hash() {
			changed = true
			cl("fields-only")
		} else {
			cl("no-op")
		}
	}
	if kind == "upsert" {
		if len(sentExp) == 0 && len(priorObs[svc]) > 0 {
			cl("upsert-empty-deletes-service")
		}
		shared := false
		for k := range sentExp {
			n := strings.ToLower(k[:strings.IndexByte(k, '|')])
			for ik, s := range postView.insts {
				if ik[:strings.IndexByte(ik, '|')] == n && s != svc {
					shared = true
				}
			}
		}
		if shared {
			cl("snapshot-node-shared-with-other-service")
		}
	} else {
		pruned := 0
		for _, s := range zvSvcNames {
			if !zvKeep(list, s) && len(priorObs[s]) > 0 {
				pruned++
			}
		}
		if pruned > 0 {
			cl("list-shrink-prunes-imported-service")
		}
		grown := false
		for _, s := range list {
			if !zvHas(z.prev[peer], s) {
				grown = true
			}
		}
		if grown {
			cl("list-grow")
		}
		if len(list) == 0 {
			cl("list-empty")
		}
	}
	z.prev[peer] = list
	// collisions present in the state the update ran against
	collide := false
	for _, rw := range before {
		if rw.owner == peer || strings.HasPrefix(rw.owner, "#") {
			continue
		}
		switch x := rw.item.(type) {
		case *structs.Node:
			if priorView.nodes[strings.ToLower(x.Node)] || postView.nodes[strings.ToLower(x.Node)] {
				collide = true
				run.Count("collision:node-name:" + zvOwnerClass(rw.owner))
			}
		case *structs.ServiceNode:
			k := strings.ToLower(x.Node) + "|" + x.ServiceID
			if _, ok := priorView.insts[k]; ok {
				collide = true
				run.Count("collision:node+service-id:" + zvOwnerClass(rw.owner))
			} else if _, ok := postView.insts[k]; ok {
				collide = true
				run.Count("collision:node+service-id:" + zvOwnerClass(rw.owner))
			}
		case *structs.HealthCheck:
			k := strings.ToLower(x.Node) + "|" + string(x.CheckID)
			if priorView.nchk[k] || priorView.schk[k] || postView.nchk[k] || postView.schk[k] {
				collide = true
				run.Count("collision:node+check-id:" + zvOwnerClass(rw.owner))
			}
		}
	}
	if changed && collide && priorView.rows > 0 {
		run.NonTrivial(core.Hash(z.log...))
		if run.WantSample() {
			run.Sample(map[string]any{"history": z.h, "step": step, "update": zvTrunc(desc, 900), "effects": classes, "backend_ops": ops})
		}
	}
	run.Distinct("prior-depth", fmt.Sprint(step))
}

func zvMixed(s string) bool { return s != strings.ToLower(s) }

// countMixedCase classifies (coverage only) what the snapshot about to be sent does to entries that
// live on nodes whose exported name contains capitals and that are ALREADY imported.
func (z *zvHist) countMixedCase(svc, peer string, w *zvWorld, prior map[string]zvEnt, scripted bool) {
	run := z.run
	_, exp := w.snapshot(svc)
	split := func(k string) (string, string) { i := strings.IndexByte(k, '|'); return k[:i], k[i+1:] }
	snapNodes := map[string]bool{}
	for k := range exp {
		n, _ := split(k)
		snapNodes[n] = true
	}
	carried := false
	for k, e := range exp {
		n, id := split(k)
		if !zvMixed(n) {
			continue
		}
		run.Count("mixedcase:snapshot-entries")
		if o, ok := prior[k]; ok {
			carried = true
			switch {
			case core.JSON(o) == core.JSON(e):
				run.Count("mixedcase:already-imported-entry:unchanged")
			case core.JSON(o.SC) != core.JSON(e.SC) || core.JSON(o.NC) != core.JSON(e.NC):
				run.Count("mixedcase:already-imported-entry:check-changed")
			default:
				run.Count("mixedcase:already-imported-entry:fields-changed")
			}
			continue
		}
		for pk := range prior {
			if pn, pid := split(pk); pid == id && pn != n {
				if _, still := exp[pk]; !still {
					run.Count("mixedcase:instance-moved-onto-mixed-case-node")
				}
			}
		}
	}
	touchedPrior := false
	for pk := range prior {
		pn, pid := split(pk)
		if !zvMixed(pn) {
			continue
		}
		if _, still := exp[pk]; still {
			continue
		}
		touchedPrior = true
		run.Count("mixedcase:imported-entry-absent-from-snapshot")
		for k := range exp {
			if n, id := split(k); id == pid && n != pn {
				run.Count("mixedcase:instance-moved-off-mixed-case-node")
				break
			}
		}
		if !snapNodes[pn] {
			run.Count("mixedcase:node-dropped-from-snapshot")
		}
	}
	key := peer + "|" + svc
	if carried || touchedPrior {
		run.Count("updates-with-mixed-case-node-already-imported")
		if scripted {
			run.Count("scripted-updates-with-mixed-case-node-already-imported")
		}
		z.mcStreak[key]++
		if z.mcStreak[key] >= 2 {
			run.Count("mixedcase:third-or-later-snapshot-touching-imported-mixed-case-node")
		}
	} else {
		z.mcStreak[key] = 0
	}
}

func zvOwnerClass(o string) string {
	if o == "" {
		return "local"
	}
	return "other-peer"
}

func zvTrunc(s string, n int) string {
	if len(s) > n {
		return s[:n] + "…"
	}
	return s
}

func zvHas(xs []string, x string) bool {
	for _, y := range xs {
		if y == x {
			return true
		}
	}
	return false
}

// zvScriptStep forces one exporter mutation followed by an upsert of one service (deterministic
// scenario families run through the same oracles as the random histories)
type zvScriptStep struct {
	mut func(w *zvWorld) string
	svc string
}

// zvFleetScript: a fleet of identical instances (same service ID, externally registered nodes without
// node IDs) is rolled from v0 to v1 node by node and then scaled out onto a third node.
func zvFleetScript(svc string, order []string) []zvScriptStep {
	set := func(node, tag string) func(w *zvWorld) string {
		return func(w *zvWorld) string {
			w.idless = true
			n := w.node(node, core.NewRand(1))
			n.ID = ""
			id := svc + "-1"
			w.insts[zvInstKey(svc, node, id)] = &zvIn{Svc: svc, Node: node, ID: id, Port: 8000, Tags: []string{tag}, Checks: map[string]*zvChk{}}
			return fmt.Sprintf("fleet: %s on %s = %s", id, node, tag)
		}
	}
	reset := func(w *zvWorld) string {
		w.idless = true
		for k, in := range w.insts {
			if in.Svc == svc {
				delete(w.insts, k)
			}
		}
		for _, n := range w.nodes {
			n.ID = ""
		}
		return "fleet: reset " + svc
	}
	a, b, c := order[0], order[1], order[2]
	return []zvScriptStep{
		{func(w *zvWorld) string { return reset(w) + "; " + set(a, "v0")(w) + "; " + set(b, "v0")(w) }, svc},
		{set(b, "v1"), svc},
		{set(a, "v1"), svc},
		{set(c, "v1"), svc},
		{set(a, "v0"), svc},
	}
}

func zvRunHistory(run *core.Run, h int, r *core.Rand, steps int) {
	z := &zvHist{run: run, h: h, mst: map[string]*MutableStatus{}, worlds: map[string]*zvWorld{}, last: map[string]map[string]map[string]zvEnt{},
		sentLst: map[string][]string{}, localID: map[string]string{}, mcStreak: map[string]int{}}
	z.prev = map[string][]string{}
	z.r = fsmkit.New(fsmkit.Opts{})
	defer z.r.Close()
	z.idx = 10
	if r.Bool() {
		z.part = "default"
	}
	collideIDs := r.Chance(40)
	for i, n := range zvNodeNames {
		z.localID[n] = zvUUID(i + 1)
	}
	for i, p := range zvPeers {
		base := 1000 * (i + 1)
		if collideIDs {
			base = 0 // the peers' nodes carry the SAME node IDs as the local nodes and each other
		}
		z.worlds[p] = zvNewWorld(p, i, base, r.Fork(uint64(100+i)))
		z.last[p] = map[string]map[string]zvEnt{}
		for _, s := range zvSvcNames {
			z.last[p][s] = map[string]zvEnt{}
		}
	}
	z.seedLocal(r.Fork(7))
	be := &zvBackend{r: z.r, idx: &z.idx, ops: &z.ops}
	z.srv = NewServer(Config{Backend: be, GetStore: func() StateStore { return z.r.State() }, Logger: hclog.NewNullLogger(), Datacenter: "dc1", ConnectEnabled: true})
	for _, p := range zvPeers {
		m, err := z.srv.Tracker.Connected(zvPeerIDs[p])
		if err != nil {
			panic(err)
		}
		z.mst[p] = m
	}
	na, nb, nc := zvNodeNames[0], zvNodeNames[1], zvNodeNames[2]
	if h%10 == 3 && h/10%4 != 3 {
		// three of four scripted fleet scenarios run on an exporter whose hosts are all capitalised
		for _, n := range zvNodeNames {
			z.worlds[zvPeers[0]].spell[n] = zvNodeSpells[n][h/10%2]
		}
		for _, nd := range z.worlds[zvPeers[0]].nodes {
			nd.Name = z.worlds[zvPeers[0]].spell[nd.Key]
		}
		run.Count("fleet-scenarios-on-mixed-case-nodes")
	}
	for s := 0; s < steps && !z.dead && run.Violations() < 30; s++ {
		if r.Chance(20) {
			z.localMutation(r)
		}
		// every 10th history: after a few random updates run the fleet scenario, then go on randomly
		if h%10 == 3 && s == 4 {
			z.script = zvFleetScript(zvSvcNames[h/10%len(zvSvcNames)], [][]string{{na, nb, nc}, {nb, na, nc}, {nc, na, nb}}[h/10%3])
			run.Count("fleet-scenarios")
		}
		z.step(s, r)
	}
}

// ---------------------------------------------------------------------------------------------
// EXPORT side: exhaustive
// ---------------------------------------------------------------------------------------------

func zvExportSide(run *core.Run) {
	type peerT struct{ name, id string }
	pP, pQ, pR := peerT{"peer-p", zvUUID(801)}, peerT{"peer-q", zvUUID(802)}, peerT{"peer-r", zvUUID(803)}
	consumers := func(code int) [][]string {
		switch code {
		case 1:
			return [][]string{{pP.name}}
		case 2:
			return [][]string{{pQ.name}}
		case 3:
			return [][]string{{pP.name, pQ.name}}
		case 4:
			return [][]string{{pQ.name}, {pP.name}} // the same service listed twice, one consumer each
		}
		return nil
	}
	for mask := 0; mask < 8 && run.Violations() < 30; mask++ {
		for variant := 0; variant < 2; variant++ {
			r := fsmkit.New(fsmkit.Opts{})
			st := r.State()
			idx := uint64(10)
			apply := func(t structs.MessageType, req any) {
				idx++
				if err, ok := r.Apply(idx, t, req).(error); ok && err != nil {
					panic(fmt.Sprintf("export-side setup: %v", err))
				}
			}
			idx++
			if err := st.CASetConfig(idx, &structs.CAConfiguration{ClusterID: zvUUID(600), Provider: "consul"}); err != nil {
				panic(err)
			}
			for _, p := range []peerT{pP, pQ, pR} {
				idx++
				if err := st.PeeringWrite(idx, &pbpeering.PeeringWriteRequest{Peering: &pbpeering.Peering{ID: p.id, Name: p.name, State: pbpeering.PeeringState_ACTIVE}}); err != nil {
					panic(err)
				}
			}
			reg := func(peer, svc, id string, kind structs.ServiceKind, native bool, dest string) {
				req := &structs.RegisterRequest{Datacenter: "dc1", Node: "n1", Address: "10.0.0.1", PeerName: peer,
					Service: &structs.NodeService{ID: id, Service: svc, Port: 80, Kind: kind, PeerName: peer}}
				req.Service.Connect.Native = native
				if kind == structs.ServiceKindConnectProxy {
					req.Service.Proxy = structs.ConnectProxyConfig{DestinationServiceName: dest, DestinationServiceID: dest}
				}
				apply(structs.RegisterRequestType, req)
			}
			reg("", "consul", "consul", structs.ServiceKindTypical, false, "")
			var localTypical []string
			connect := map[string]bool{}
			chainCfg := map[string]bool{}
			if mask&1 != 0 {
				reg("", "a", "a", structs.ServiceKindTypical, false, "")
				localTypical = append(localTypical, "a")
				if variant == 1 {
					reg("", "a"+zvProxySuffix, "a"+zvProxySuffix, structs.ServiceKindConnectProxy, false, "a")
					connect["a"] = true
				}
			}
			if mask&2 != 0 {
				reg("", "b", "b", structs.ServiceKindTypical, false, "")
				localTypical = append(localTypical, "b")
			}
			if mask&4 != 0 {
				reg("", "c", "c", structs.ServiceKindTypical, variant == 1, "")
				localTypical = append(localTypical, "c")
				if variant == 1 {
					connect["c"] = true
				}
			}
			// services IMPORTED from q must never be offered to anyone, wildcard or not
			reg(pQ.name, "z", "z", structs.ServiceKindTypical, false, "")
			reg(pQ.name, "a", "a", structs.ServiceKindTypical, false, "")
			if variant == 1 {
				apply(structs.ConfigEntryRequestType, &structs.ConfigEntryRequest{Op: structs.ConfigEntryUpsert, Datacenter: "dc1", Entry: &structs.ServiceResolverConfigEntry{Kind: structs.ServiceResolver, Name: "d"}})
				chainCfg["d"] = true
			}
			for cfg := -1; cfg < 250; cfg++ {
				var entry *structs.ExportedServicesConfigEntry
				offer := map[string]map[string]bool{} // service name -> consumer peer names
				if cfg >= 0 {
					entry = &structs.ExportedServicesConfigEntry{Name: "default"}
					codes := []int{cfg % 5, (cfg / 5) % 5, (cfg / 25) % 5}
					for i, name := range []string{"a", "b", "*"} {
						for _, cs := range consumers(codes[i]) {
							es := structs.ExportedService{Name: name}
							for _, c := range cs {
								es.Consumers = append(es.Consumers, structs.ServiceConsumer{Peer: c})
								if offer[name] == nil {
									offer[name] = map[string]bool{}
								}
								offer[name][c] = true
							}
							entry.Services = append(entry.Services, es)
						}
					}
					if cfg >= 125 {
						entry.Services = append(entry.Services, structs.ExportedService{Name: structs.ConsulServiceName, Consumers: []structs.ServiceConsumer{{Peer: pP.name}, {Peer: pQ.name}}})
					}
					apply(structs.ConfigEntryRequestType, &structs.ConfigEntryRequest{Op: structs.ConfigEntryUpsert, Datacenter: "dc1", Entry: entry})
				} else {
					apply(structs.ConfigEntryRequestType, &structs.ConfigEntryRequest{Op: structs.ConfigEntryDelete, Datacenter: "dc1", Entry: &structs.ExportedServicesConfigEntry{Name: "default"}})
				}
				expFor := map[string][2][]string{}
				for _, p := range []peerT{pP, pQ, pR, {"nobody", zvUUID(899)}} {
					// ---- independent recomputation from the config entry
					want := map[string]bool{}
					wantChains := map[string]bool{}
					for _, name := range []string{"a", "b"} {
						if offer[name][p.name] {
							want[name] = true
						}
					}
					if offer["*"][p.name] {
						for _, n := range localTypical {
							want[n] = true
						}
						for n := range chainCfg {
							wantChains[n] = true
						}
					}
					for n := range want {
						if connect[n] || chainCfg[n] {
							wantChains[n] = true
						}
					}
					_, got, err := st.ExportedServicesForPeer(nil, p.id, "dc1")
					run.Eval()
					run.Count("export:queries")
					ctx := fmt.Sprintf("catalog{a:%v b:%v c:%v connect:%v} exported-services=%s peer=%s", mask&1 != 0, mask&2 != 0, mask&4 != 0, variant == 1, core.JSON(entry), p.name)
					if err != nil {
						run.Violation("C17:export:error", ctx+": "+err.Error(), map[string]any{"mask": mask, "variant": variant, "cfg": cfg})
						continue
					}
					gotS := map[string]bool{}
					for _, sn := range got.Services {
						gotS[sn.Name] = true
					}
					gotC := map[string]bool{}
					for sn := range got.DiscoChains {
						gotC[sn.Name] = true
					}
					w := map[string]any{"mask": mask, "variant": variant, "cfg": cfg, "entry": entry, "peer": p.name, "got_services": zvSortedKeys(gotS), "want_services": zvSortedKeys(want), "got_chains": zvSortedKeys(gotC), "want_chains": zvSortedKeys(wantChains)}
					for _, n := range zvSortedKeys(gotS) {
						if !want[n] {
							cls := "not-offered-to-this-peer"
							switch {
							case n == structs.ConsulServiceName:
								cls = "consul-service"
							case n == "z":
								cls = "imported-service"
							case len(offer[n]) == 0 && !(len(offer["*"]) > 0):
								cls = "not-offered-to-anyone"
							}
							run.Violation("C17:export:leak:"+cls, fmt.Sprintf("%s: service %q is offered although no exported-services entry names the peer as its consumer", ctx, n), w)
						}
					}
					for _, n := range zvSortedKeys(want) {
						if !gotS[n] {
							run.Violation("C17:export:missing-service", fmt.Sprintf("%s: service %q is not offered although the entry names the peer as consumer", ctx, n), w)
						}
					}
					for _, n := range zvSortedKeys(gotC) {
						if !wantChains[n] {
							run.Violation("C17:export:leak:discovery-chain", fmt.Sprintf("%s: discovery chain %q is offered although nothing exports it to the peer", ctx, n), w)
						}
					}
					for _, n := range zvSortedKeys(wantChains) {
						if !gotC[n] {
							run.Violation("C17:export:missing-discovery-chain", fmt.Sprintf("%s: connect service / discovery chain %q is not offered although exported to the peer", ctx, n), w)
						}
					}
					expFor[p.name] = [2][]string{zvSortedKeys(want), zvSortedKeys(wantChains)}
					if len(want) > 0 {
						run.Count("export:nonempty-offers")
					} else {
						run.Count("export:empty-offers")
					}
				}
				// non-trivial: the configuration discriminates between p and q
				if core.JSON(expFor[pP.name]) != core.JSON(expFor[pQ.name]) {
					run.NonTrivial(core.Hash("export", fmt.Sprint(mask, variant, cfg)))
					run.Count("export:discriminating-configs")
				}
				run.Count("export:configs")
			}
			r.Close()
		}
	}
}

// ---------------------------------------------------------------------------------------------

func TestZZVerifC17(t *testing.T) {
	run := core.NewRun("C17", "exploration",
		"IMPORT: PRNG histories against the real peerstream.Server.processResponse + real FSM/state store: local catalog/KV/session/config-entry seeding with node names, node IDs, service names, service IDs and check IDs COLLIDING between local, peerA and peerB (node names collide case-insensitively: every exporter spells each node lower-case, Mixed-Case or UPPER-CASE, one node per case-folded name, spelling constant per history); then 12 updates (each one (prior,update) pair, priors built by 0..11 earlier updates, exporter catalogs pre-populated): an exporter world model is mutated (instances added/removed/moved between nodes, node shared by services, node/service fields, node-level and service-level checks, node replaced, service dropped) and either the snapshot of one service (possibly stale w.r.t. other services, empty = delete) or the exported-services list (shrink/grow/empty) is sent. After every update: MIRROR of all services of that peer vs the model, RESIDUE (orphans), ISOLATION (dump of all tables restricted to rows not owned by the updated peer identical). non-trivial pair = prior state holds rows of the peer, a local/other-peer row collides by name with rows the update touches, and the update changed the peer's rows; distinct by hash of the full history log. EXPORT: exhaustive: 8 catalogs {a,b,c} x {plain, connect+resolver} x (no entry + 5^3 consumer assignments {none,p,q,both,split} of {exact a, exact b, wildcard} x {with/without exact 'consul'}) x 4 queried peers, each compared with an independent recomputation; non-trivial = configuration that discriminates between p and q")
	run.Assume(
		"node-level data is shared by all services of a peer on that node: for the updated service strict equality of node-level checks is demanded for entries that existed before; when an entry is NEW on an already imported node, node checks that were stored before and are absent from the snapshot may remain (they stem from other services' snapshots); node fields are last-writer-wins",
		"documented rewrites ignored in MIRROR: PeerName/partition overridden by the importer, raft indexes, the consul-virtual tagged address the importing store assigns to connect proxies, ServiceTags copied onto checks by the store; Locality is not modelled (Node.ToRegisterRequest drops it)",
		"global per-table max-index rows (nodes, services, checks, service_kind.*, service-virtual-ips, service-virtual-ips.imported) and the free-virtual-ips allocator pool are shared bookkeeping, not data of a cluster/peer; every other row of every table is attributed by its PeerName field (index rows by their peer.<name>: prefix)",
		"CE build: partitions/namespaces/sameness groups not exercised; trust bundle and server-address resources not exercised")
	rng := core.NewRand(core.Seed())

	nh := core.N(600, 3000)
	steps := 12
	forks := make([]*core.Rand, nh)
	for h := range forks {
		forks[h] = rng.Fork(uint64(h))
	}
	for h := 0; h < nh && run.Violations() < 30; h++ {
		zvRunHistory(run, h, forks[h], steps)
	}
	run.CountN("import:histories", nh)

	zvExportSide(run)

	for c, min := range map[string]int{"instance-added": 500, "instance-removed": 300, "instance-moved-to-other-node": 80, "node-removed": 300,
		"node-kept-after-losing-instance": 80, "node-check-removed-node-kept": 30, "service-check-removed-instance-kept": 30,
		"upsert-empty-deletes-service": 80, "snapshot-node-shared-with-other-service": 250, "list-shrink-prunes-imported-service": 100,
		"list-grow": 300, "fields-only": 200} {
		run.Floor("effect:"+c, min)
	}
	run.Floor("pairs:upsert", 4000)
	// node names with capitals (the catalog is case-insensitive, the importer compares names itself)
	run.Floor("updates-with-mixed-case-node-already-imported", 400)
	run.Floor("scripted-updates-with-mixed-case-node-already-imported", 60)
	run.Floor("fleet-scenarios-on-mixed-case-nodes", 15)
	run.Floor("mixedcase:already-imported-entry:unchanged", 250)
	run.Floor("mixedcase:already-imported-entry:check-changed", 100)
	run.Floor("mixedcase:already-imported-entry:fields-changed", 100)
	run.Floor("mixedcase:instance-moved-off-mixed-case-node", 50)
	run.Floor("mixedcase:instance-moved-onto-mixed-case-node", 40)
	run.Floor("mixedcase:node-dropped-from-snapshot", 100)
	run.Floor("mixedcase:third-or-later-snapshot-touching-imported-mixed-case-node", 150)
	run.Floor("pairs:list", 1000)
	run.FloorDistinct("prior-depth", steps)
	run.Floor("collision:node-name:local", 3000)
	run.Floor("collision:node-name:other-peer", 1000)
	run.Floor("collision:node+service-id:local", 1500)
	run.Floor("collision:node+service-id:other-peer", 200)
	run.Floor("collision:node+check-id:local", 1500)
	run.Floor("collision:node+check-id:other-peer", 400)
	run.Floor("export:queries", 16000)
	run.Floor("export:discriminating-configs", 1000)
	if run.Finish() == 1 {
		t.Fail()
	}
}
