//go:build verif

// C19 part D — rounds whose writes do not fit one raft request.
//
// updateLocalACLType cuts the pending upserts into batches by ESTIMATED SIZE (a batch is closed by the element
// that takes it to aclBatchUpsertSize = 256 KiB or beyond), deleteLocalACLType cuts the deletions by COUNT
// (aclBatchDeleteSize = 4096). Parts A-C never leave the first batch. Here the primary holds 6-12 objects of
// 60-300 KiB among many small ones (sizes placed so that a batch ends at the first element, in the middle, at
// the second-to-last element, exactly ON the limit, 5+ times, or inside a long run of small objects) and the
// secondary holds up to three delete batches of objects the primary no longer has. Rounds: initial sync,
// incremental (some objects already applied, some changed, some new) and index-went-backwards full sync,
// all through the real replicateACLType over the secondary's real FSM (see c19_round_test.go).
// Oracle: after ONE round the secondary's replicated set equals the primary's (id, hash, full content), every
// other table is untouched, and a second incremental round and a further full sync write nothing.
package consul

import (
	"fmt"
	"sort"
	"strings"
	"sync"

	"github.com/hashicorp/consul/agent/consul/state"
	"github.com/hashicorp/consul/agent/structs"
	"github.com/hashicorp/consul/zzverif/core"
	"github.com/hashicorp/consul/zzverif/dump"
	"github.com/hashicorp/consul/zzverif/fsmkit"
)

type zvBObj struct {
	ID   string
	Name string
	Size int    // target of EstimateSize()
	Ver  int    // content version
	Idx  uint64 // modify index in the primary
}

type zvBatchSpec struct {
	Type       string `json:"type"`
	I          int    `json:"round_no"`
	Shape      string `json:"shape"`
	Mode       string `json:"mode"`
	Last       uint64 `json:"last_remote_index"`
	Backwards  bool   `json:"remote_index_backwards"`
	NDel       int    `json:"objects_only_in_secondary"`
	Sizes      []int  `json:"primary_object_sizes_in_id_order"`
	Status     []int  `json:"secondary_has(0 absent,1 same,2 older)"`
	UpsertLens []int  `json:"upsert_batches_submitted"`
	DeleteLens []int  `json:"delete_batches_submitted"`
	RoundErr   string `json:"round_error,omitempty"`
	Detail     string `json:"detail,omitempty"`
}

func zvPad(n int, ver int) string {
	if n <= 0 {
		return ""
	}
	return strings.Repeat(string(rune('a'+ver%26)), n)
}

// per-type adapters
type zvBatchType struct {
	ty      *zvType
	insert  func(s *state.Store, idx uint64, objs []zvBObj)
	round   func(r *fsmkit.Replica, primary []zvBObj, last uint64, backwards bool) zvRound
	ref     func(r *fsmkit.Replica, primary []zvBObj, last uint64) zvRound
	render  func(o zvBObj) string
	estSize func(o zvBObj) int
}

func zvCompact(s string) string {
	if len(s) <= 400 {
		return s
	}
	return fmt.Sprintf("%s…(%d bytes, sha %s)", s[:200], len(s), core.Hash(s))
}

func zvCompactSet(m map[string]string) map[string]string {
	for k, v := range m {
		m[k] = zvCompact(v)
	}
	return m
}

func zvBPol(o zvBObj) *structs.ACLPolicy {
	p := &structs.ACLPolicy{ID: o.ID, Name: o.Name, Description: fmt.Sprintf("zv batched v%d", o.Ver)}
	p.Rules = "#" + zvPad(o.Size-p.EstimateSize()-1, o.Ver)
	p.SetHash(true)
	p.CreateIndex, p.ModifyIndex = 1, o.Idx
	return p
}

func zvBRole(o zvBObj) *structs.ACLRole {
	ro := &structs.ACLRole{ID: o.ID, Name: o.Name, ServiceIdentities: structs.ACLServiceIdentities{
		&structs.ACLServiceIdentity{ServiceName: "zva"}, &structs.ACLServiceIdentity{ServiceName: "zvb", Datacenters: []string{"dc1", "dc2"}}, &structs.ACLServiceIdentity{ServiceName: fmt.Sprintf("zv%d", o.Ver)}}}
	ro.Description = fmt.Sprintf("v%d ", o.Ver)
	ro.Description += zvPad(o.Size-ro.EstimateSize(), o.Ver)
	ro.SetHash(true)
	ro.CreateIndex, ro.ModifyIndex = 1, o.Idx
	return ro
}

func zvBTok(o zvBObj) *structs.ACLToken {
	t := &structs.ACLToken{AccessorID: o.ID, SecretID: "5" + o.ID[:1] + o.ID[2:], CreateTime: zvTime, ServiceIdentities: structs.ACLServiceIdentities{
		&structs.ACLServiceIdentity{ServiceName: "zva"}, &structs.ACLServiceIdentity{ServiceName: fmt.Sprintf("zv%d", o.Ver)}}}
	t.Description = fmt.Sprintf("v%d ", o.Ver)
	t.Description += zvPad(o.Size-t.EstimateSize(), o.Ver)
	t.SetHash(true)
	t.CreateIndex, t.ModifyIndex = 1, o.Idx
	return t
}

var zvBatchTypes = []*zvBatchType{
	{
		ty: zvPolicyType,
		insert: func(s *state.Store, idx uint64, objs []zvBObj) {
			var b structs.ACLPolicies
			for _, o := range objs {
				b = append(b, zvBPol(o))
			}
			zvMust(s.ACLPolicyBatchSet(idx, b))
		},
		round: func(r *fsmkit.Replica, primary []zvBObj, last uint64, backwards bool) zvRound {
			var rem []*structs.ACLPolicy
			for _, o := range primary {
				rem = append(rem, zvBPol(o))
			}
			return zvPolicyRound(r, rem, last, false, 0, backwards)
		},
		ref: func(r *fsmkit.Replica, primary []zvBObj, last uint64) zvRound {
			var rem []*structs.ACLPolicy
			for _, o := range primary {
				rem = append(rem, zvBPol(o))
			}
			return zvPolicyRef(r, rem, last, false, 0)
		},
		render:  func(o zvBObj) string { return zvPolRender(zvBPol(o)) },
		estSize: func(o zvBObj) int { return zvBPol(o).EstimateSize() },
	},
	{
		ty: zvRoleType,
		insert: func(s *state.Store, idx uint64, objs []zvBObj) {
			var b structs.ACLRoles
			for _, o := range objs {
				b = append(b, zvBRole(o))
			}
			zvMust(s.ACLRoleBatchSet(idx, b, true))
		},
		round: func(r *fsmkit.Replica, primary []zvBObj, last uint64, backwards bool) zvRound {
			var rem structs.ACLRoles
			for _, o := range primary {
				rem = append(rem, zvBRole(o))
			}
			return zvRoleRound(r, rem, last, false, 0, backwards)
		},
		ref: func(r *fsmkit.Replica, primary []zvBObj, last uint64) zvRound {
			var rem structs.ACLRoles
			for _, o := range primary {
				rem = append(rem, zvBRole(o))
			}
			return zvRoleRef(r, rem, last, false, 0)
		},
		render:  func(o zvBObj) string { return zvRoleRender(zvBRole(o)) },
		estSize: func(o zvBObj) int { return zvBRole(o).EstimateSize() },
	},
	{
		ty: zvTokenType,
		insert: func(s *state.Store, idx uint64, objs []zvBObj) {
			var b structs.ACLTokens
			for _, o := range objs {
				b = append(b, zvBTok(o))
			}
			zvMust(s.ACLTokenBatchSet(idx, b, state.ACLTokenSetOptions{AllowMissingPolicyAndRoleIDs: true, FromReplication: true}))
		},
		round: func(r *fsmkit.Replica, primary []zvBObj, last uint64, backwards bool) zvRound {
			var rem []*structs.ACLToken
			for _, o := range primary {
				rem = append(rem, zvBTok(o))
			}
			return zvTokenRound(r, rem, last, false, 0, 0, 0, backwards)
		},
		ref: func(r *fsmkit.Replica, primary []zvBObj, last uint64) zvRound {
			var rem []*structs.ACLToken
			for _, o := range primary {
				rem = append(rem, zvBTok(o))
			}
			return zvTokenRef(r, rem, last, false, 0, 0, 0)
		},
		render:  func(o zvBObj) string { return zvTokRender(zvBTok(o)) },
		estSize: func(o zvBObj) int { return zvBTok(o).EstimateSize() },
	},
}

var zvBatchShapes = []string{"bigs-among-smalls", "first-element-over-limit", "second-to-last-over-limit", "exactly-on-the-limit", "fourteen-bigs(5+batches)", "long-run-of-smalls"}
var zvBatchModes = []string{"initial", "incremental", "backwards-full-sync"}
var zvBatchDels = []int{0, 300, 4096, 4097, 8200}

const zvKiB = 1024

// zvBatchSizes returns the estimated sizes of the primary's objects in id (= upsert) order.
func zvBatchSizes(shape int, rng *core.Rand) []int {
	small := func() int { return 150 + rng.Intn(400) }
	big := func() int { return (60 + rng.Intn(61)) * zvKiB }
	var out []int
	smalls := func(n int) {
		for i := 0; i < n; i++ {
			out = append(out, small())
		}
	}
	switch shape {
	case 0:
		smalls(3 + rng.Intn(10))
		for i, n := 0, 6+rng.Intn(7); i < n; i++ {
			out = append(out, big())
			smalls(rng.Intn(8))
		}
		smalls(3 + rng.Intn(10))
	case 1:
		out = append(out, aclBatchUpsertSize+(1+rng.Intn(40))*zvKiB)
		smalls(5 + rng.Intn(5))
		for i := 0; i < 6; i++ {
			out = append(out, big())
			smalls(rng.Intn(4))
		}
	case 2:
		smalls(4 + rng.Intn(6))
		for i := 0; i < 6; i++ {
			out = append(out, big())
			smalls(rng.Intn(4))
		}
		out = append(out, aclBatchUpsertSize+(1+rng.Intn(40))*zvKiB, small())
	case 3:
		// the first k elements add up to the limit exactly; then more
		k := 3 + rng.Intn(4)
		sum := 0
		for i := 0; i < k-1; i++ {
			s := small()
			if i%2 == 1 {
				s = (30 + rng.Intn(30)) * zvKiB
			}
			out = append(out, s)
			sum += s
		}
		out = append(out, aclBatchUpsertSize-sum)
		smalls(2 + rng.Intn(4))
		for i := 0; i < 6; i++ {
			out = append(out, big())
			smalls(rng.Intn(3))
		}
	case 4:
		for i := 0; i < 14; i++ {
			smalls(rng.Intn(5))
			out = append(out, (130+rng.Intn(21))*zvKiB)
		}
		smalls(1 + rng.Intn(5))
	default:
		smalls(1500 + rng.Intn(800))
	}
	return out
}

func zvBatchSpecFor(bt *zvBatchType, ti, i int, seed uint64) (sp zvBatchSpec, primary, local, doomed []zvBObj) {
	rng := core.NewRand(seed).Fork(uint64(0xD000 + ti*1000 + i))
	j := i + ti*7
	sp = zvBatchSpec{Type: bt.ty.name, I: i, Shape: zvBatchShapes[j%len(zvBatchShapes)], Mode: zvBatchModes[(j/2)%len(zvBatchModes)], NDel: zvBatchDels[(j/3+j)%len(zvBatchDels)]}
	if sp.NDel == 8200 {
		sp.NDel += rng.Intn(300)
	}
	sp.Sizes = zvBatchSizes(j%len(zvBatchShapes), rng)
	switch sp.Mode {
	case "incremental":
		sp.Last = 5
	case "backwards-full-sync":
		sp.Last, sp.Backwards = 9, true
	}
	for pos, size := range sp.Sizes {
		o := zvBObj{ID: fmt.Sprintf("b0000000-0000-4000-8000-%012x", pos+1), Name: fmt.Sprintf("zv-batched-%d", pos), Size: size, Ver: 1 + rng.Intn(20), Idx: zvIdxVals[rng.Intn(3)]}
		status := 0
		switch sp.Mode {
		case "incremental":
			status = rng.Intn(3)
			if size > 20*zvKiB && status == 1 && rng.Chance(80) {
				status = 2 * rng.Intn(2) // the large ones mostly travel
			}
			switch status {
			case 1:
				o.Idx = zvIdxVals[rng.Intn(2)] // <= lastRemoteIndex: already applied
			case 2:
				o.Idx = 9
			}
		case "backwards-full-sync":
			status = rng.Intn(3)
			if size > 20*zvKiB && status == 1 && rng.Chance(80) {
				status = 2 * rng.Intn(2)
			}
			o.Idx = zvIdxVals[rng.Intn(2)] // the rebuilt primary is at an index below lastRemoteIndex
		}
		sp.Status = append(sp.Status, status)
		primary = append(primary, o)
		switch status {
		case 1:
			local = append(local, o)
		case 2:
			old := o
			old.Ver, old.Size = o.Ver+1, 200 // what an earlier round had brought
			local = append(local, old)
		}
	}
	for d := 0; d < sp.NDel; d++ {
		prefix := "a0" // half sort before, half after the primary's ids
		if d%2 == 1 {
			prefix = "d0"
		}
		doomed = append(doomed, zvBObj{ID: fmt.Sprintf("%s000000-0000-4000-8000-%012x", prefix, d+1), Name: fmt.Sprintf("zv-doomed-%d", d), Size: 200, Ver: d, Idx: 1})
	}
	return
}

func zvRunBatchRound(run *core.Run, sink *zvSink, bt *zvBatchType, ti, i int, seed uint64) (upsertBatches int) {
	sp, primary, local, doomed := zvBatchSpecFor(bt, ti, i, seed)
	ty := bt.ty
	env := zvPool(nil).get(ty)
	defer env.r.Close()
	s := env.r.State()
	setup := func(s *state.Store) {
		for at := 0; at < len(doomed); at += 1000 {
			end := at + 1000
			if end > len(doomed) {
				end = len(doomed)
			}
			bt.insert(s, 1, doomed[at:end])
		}
		if len(local) > 0 {
			bt.insert(s, 3, local)
		}
	}
	setup(s)
	want := map[string]string{}
	for _, o := range primary {
		want[o.ID] = zvCompact(bt.render(o))
	}
	site := "C19:" + ty.name + "-batched:"
	order := int64(ti*100000 + i)
	desc := fmt.Sprintf("%s batched round %d: shape %s, %s, lastRemoteIndex=%d, primary holds %d objects (%d over 20 KiB, %d KiB estimated in total), secondary holds %d of them and %d the primary does not have",
		ty.name, i, sp.Shape, sp.Mode, sp.Last, len(primary), func() (n int) {
			for _, z := range sp.Sizes {
				if z > 20*zvKiB {
					n++
				}
			}
			return
		}(), func() (n int) {
			for _, z := range sp.Sizes {
				n += z
			}
			return n / zvKiB
		}(), len(local), len(doomed))
	viol := func(key, what string) {
		w := sp
		w.Detail = what
		sink.add(site+key, desc+": "+what, w, order)
	}

	rd := bt.round(env.r, primary, sp.Last, sp.Backwards)
	for k, op := range rd.Ops {
		if op == "upsert" {
			sp.UpsertLens = append(sp.UpsertLens, rd.BatchLens[k])
		} else {
			sp.DeleteLens = append(sp.DeleteLens, rd.BatchLens[k])
		}
	}
	sp.RoundErr = rd.RoundErr
	run.Eval()
	run.Count("partD:rounds")
	run.Count("partD:" + ty.name + ":rounds")
	run.Distinct("partD-class", ty.name+":"+sp.Shape)
	run.Distinct("partD-class", ty.name+":"+sp.Mode)
	if len(sp.UpsertLens) >= 2 {
		run.Count("rounds-with-2+-upsert-batches")
	}
	if len(sp.UpsertLens) >= 3 {
		run.Count("rounds-with-3+-upsert-batches")
	}
	if len(sp.UpsertLens) >= 5 {
		run.Count("rounds-with-5+-upsert-batches")
	}
	if len(sp.DeleteLens) >= 2 {
		run.Count("rounds-with-2+-delete-batches")
	}
	if len(sp.UpsertLens) >= 2 && len(sp.DeleteLens) >= 2 {
		run.Count("rounds-with-2+-upsert-and-2+-delete-batches")
	}
	run.CountN("partD:objects-upserted", len(rd.Upserts))
	run.CountN("partD:objects-deleted", len(rd.Deletes))
	upsertBatches = len(sp.UpsertLens)
	run.NonTrivial(core.Hash("D", ty.name, fmt.Sprint(i), fmt.Sprint(sp.Sizes), fmt.Sprint(sp.Status)))

	if rd.Panic != "" {
		viol("diff-panic", "the round panicked: "+rd.Panic)
		return
	}
	if len(rd.Errs) > 0 {
		e2 := zvPool(nil).get(ty)
		setup(e2.r.State())
		r2 := bt.ref(e2.r, primary, sp.Last)
		cl, _ := zvMapDiff(zvCompactSet(ty.replSet(e2.r.State())), want)
		refOK := cl == "" && len(r2.Errs) == 0 && r2.Panic == ""
		e2.r.Close()
		for k, e := range rd.Errs {
			if refOK {
				viol("round-failed-though-deletions-first-succeeds:"+rd.ErrOps[k], fmt.Sprintf("the FSM rejected a request (%s; round error %q) although the same diff applied deletions first goes through", e, rd.RoundErr))
			} else {
				viol("apply-rejected:"+rd.ErrOps[k], "the secondary's FSM rejected a request of the round: "+e)
			}
		}
		return
	}
	switch {
	case rd.RoundErr != "":
		viol("round-error-without-rejected-write", "replicateACLType returned an error although no write was rejected: "+rd.RoundErr)
		return
	case rd.Exit:
		viol("round-exit-without-cancel", "replicateACLType asked to exit although its context was never cancelled")
		return
	case rd.RoundIndex != rd.RemoteIndex:
		viol("round-returned-wrong-index", fmt.Sprintf("replicateACLType returned index %d, the primary reported %d", rd.RoundIndex, rd.RemoteIndex))
	}
	after := zvCompactSet(ty.replSet(s))
	if cl, d := zvMapDiff(after, want); cl != "" {
		// how many are affected, and where in the upsert order
		var missing, extra, differ []string
		for id := range want {
			if g, ok := after[id]; !ok {
				missing = append(missing, id[24:])
			} else if g != want[id] {
				differ = append(differ, id[24:])
			}
		}
		for id := range after {
			if _, ok := want[id]; !ok {
				extra = append(extra, id[:2]+id[24:])
			}
		}
		sort.Strings(missing)
		sort.Strings(extra)
		sort.Strings(differ)
		trim := func(x []string) string {
			if len(x) > 12 {
				return fmt.Sprintf("%v… (%d)", x[:12], len(x))
			}
			return fmt.Sprint(x)
		}
		viol("replicated-set-differs:"+cl, fmt.Sprintf("after ONE round (upsert batches %v, delete batches %v) %s; positions (hex, 1-based, in id order) missing in the secondary %s, with other content %s, left over in the secondary %s",
			sp.UpsertLens, sp.DeleteLens, d, trim(missing), trim(differ), trim(extra)))
		return
	}
	if t, d := zvForeignDiff(ty, env.base, dump.Of(s)); t != "" {
		viol("other-table-touched:"+t, d)
	}
	// an equal secondary must not be written: next incremental round, then a full sync
	for _, again := range []struct {
		name string
		last uint64
	}{{"second-round-writes", rd.RoundIndex}, {"full-sync-of-equal-secondary-writes", 0}} {
		r2 := bt.round(env.r, primary, again.last, false)
		if r2.Applied > 0 || r2.RoundErr != "" || r2.Panic != "" {
			viol(again.name, fmt.Sprintf("the secondary equals the primary, yet a further round with lastRemoteIndex=%d submitted %d requests %v %v (deletes %d, upserts %d, error %q %s)",
				again.last, r2.Applied, r2.Ops, r2.BatchLens, len(r2.Deletes), len(r2.Upserts), r2.RoundErr, r2.Panic))
		}
	}
	return
}

func zvPartD(run *core.Run, sink *zvSink, workers int) {
	seed := core.Seed()
	perType := core.N(12, 90)
	type job struct{ ti, i int }
	var jobs []job
	for ti := range zvBatchTypes {
		for i := 0; i < perType; i++ {
			jobs = append(jobs, job{ti, i})
		}
	}
	if workers > 8 {
		workers = 8 // each round holds a few MiB
	}
	var mu sync.Mutex
	maxBatches := 0
	zvParallel(workers, int64(len(jobs)), func(_ zvPool, k int64) {
		j := jobs[k]
		n := zvRunBatchRound(run, sink, zvBatchTypes[j.ti], j.ti, j.i, seed)
		mu.Lock()
		if n > maxBatches {
			maxBatches = n
		}
		mu.Unlock()
	})
	run.CountN("upsert-batches-max", maxBatches)
	run.Floor("partD:rounds", 3*perType)
	run.Floor("rounds-with-2+-upsert-batches", 2*perType)
	run.Floor("rounds-with-3+-upsert-batches", perType)
	run.Floor("rounds-with-5+-upsert-batches", 3)
	run.Floor("rounds-with-2+-delete-batches", perType/2)
	run.Floor("rounds-with-2+-upsert-and-2+-delete-batches", 3)
	run.Floor("upsert-batches-max", 5)
	run.FloorDistinct("partD-class", 3*(len(zvBatchShapes)+len(zvBatchModes)))
}
