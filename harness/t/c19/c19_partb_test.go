//go:build verif

// C19 part B — "equal IDs and differing content" where the content is something the secondary's store
// constrains: a token's SecretID (immutable per accessor), policy / role names (unique per store),
// config entries that validate against each other (discovery-chain graph). Every primary state used here is
// reachable through the primary's public endpoints between two replication rounds; the oracle is the same
// as in part A (apply the round, compare the secondary with the primary).
package consul

import (
	"fmt"
	"sort"
	"strings"

	"github.com/hashicorp/consul/agent/consul/state"
	"github.com/hashicorp/consul/agent/structs"
	"github.com/hashicorp/consul/zzverif/core"
	"github.com/hashicorp/consul/zzverif/fsmkit"
)

type zvBCase struct {
	Site             string   `json:"site"`
	Scenario         string   `json:"scenario"`
	Local            []string `json:"local"`
	Remote           []string `json:"remote"`
	Last             uint64   `json:"last_remote_index"`
	Shuffle          bool     `json:"shuffled_input"`
	RoundsToConverge int      `json:"rounds_to_converge"` // identical rounds repeated (as the replicator retries); -1: still different after 4
}

type zvBSpec struct {
	ty    *zvType
	info  *zvBCase
	want  map[string]string
	setup func(s *state.Store)
	round func(r *fsmkit.Replica) zvRound
	ref   func(r *fsmkit.Replica) zvRound // reference application (deletions first) of the same diff
}

func zvConverge(sp *zvBSpec) int {
	env := zvPool(nil).get(sp.ty)
	defer env.r.Close()
	sp.setup(env.r.State())
	for i := 1; i <= 4; i++ {
		sp.round(env.r)
		if cl, _ := zvMapDiff(sp.ty.replSet(env.r.State()), sp.want); cl == "" {
			return i
		}
	}
	return -1
}

var zvBOrder int64

func zvRunB(run *core.Run, sink *zvSink, sp *zvBSpec) {
	zvBOrder++
	sp.info.RoundsToConverge = zvConverge(sp)
	conv := fmt.Sprintf("converges after %d identical rounds", sp.info.RoundsToConverge)
	if sp.info.RoundsToConverge < 0 {
		conv = "does NOT converge within 4 identical rounds"
	}
	desc := fmt.Sprintf("%s local=%v remote=%v lastRemoteIndex=%d shuffled=%v (%s)", sp.info.Scenario, sp.info.Local, sp.info.Remote, sp.info.Last, sp.info.Shuffle, conv)
	rd, _ := zvJudge(sink, zvBOrder, nil, sp.ty, sp.info.Site, sp.info, desc, sp.want, nil, sp.setup, sp.round, sp.ref)
	run.Eval()
	site := strings.SplitN(sp.info.Site, ":", 2)[0]
	run.Count("partB:" + site + ":cases")
	run.Distinct("partB-class", sp.info.Site)
	if len(rd.Errs) > 0 {
		run.Count("partB:" + site + ":round-rejected")
	}
	switch {
	case sp.info.RoundsToConverge == 1:
		run.Count("partB:" + site + ":equal-after-one-round")
	case sp.info.RoundsToConverge > 1:
		run.Count("partB:" + site + ":equal-only-after-retries")
	default:
		run.Count("partB:" + site + ":never-equal")
	}
	if rd.Applied > 0 && len(sp.info.Local) > 0 && len(sp.info.Remote) > 0 {
		run.NonTrivial(core.Hash("B", sp.info.Site, sp.info.Scenario, fmt.Sprint(sp.info.Local, sp.info.Remote, sp.info.Last, sp.info.Shuffle)))
	}
}

// ---------------- B1: a token deleted and created again under the same AccessorID ----------------

// ACL.TokenSet accepts a caller-chosen AccessorID for a new token as long as no token currently has it,
// so "delete X; create X with a new secret" is an ordinary history of the primary (secret rotation under
// a fixed accessor).
func zvTokGen(k, gen, content int, idx uint64) *structs.ACLToken {
	t := zvTok(k, content, idx)
	if gen > 0 {
		t.SecretID = fmt.Sprintf("5f%02d", gen) + t.SecretID[4:]
	}
	return t
}

func zvPartBTokens(run *core.Run, sink *zvSink) {
	for n := 0; n < 64; n++ {
		cl, cr, idx, last, by, sh := n&1, n>>1&1, []uint64{5, 9}[n>>2&1], []uint64{0, 4}[n>>3&1], n>>4&1 == 1, n>>5&1 == 1
		site := "token-recreated:same-hash"
		if cl != cr {
			site = "token-recreated:other-hash"
		}
		mk := func() []*structs.ACLToken {
			remote := []*structs.ACLToken{zvTokGen(1, 1, cr, idx)}
			if by {
				remote = append(remote, zvTok(3, 0, 5)) // an unrelated new token travelling in the same batch
			}
			return remote
		}
		want := map[string]string{}
		info := &zvBCase{Site: site, Scenario: "token re-created in the primary under the same accessor with a new secret", Last: last, Shuffle: sh,
			Local: []string{fmt.Sprintf("%s secret#0 content %s", zvTokIDs[1], zvContent[cl])}}
		for _, t := range mk() {
			want[t.AccessorID] = zvTokRender(t)
			info.Remote = append(info.Remote, fmt.Sprintf("%s secret=%s %q @%d", t.AccessorID, t.SecretID[:4], t.Description, t.ModifyIndex))
		}
		zvRunB(run, sink, &zvBSpec{ty: zvTokenType, info: info, want: want,
			setup: func(s *state.Store) {
				zvMust(s.ACLTokenBatchSet(3, structs.ACLTokens{zvTokGen(1, 0, cl, 3)}, state.ACLTokenSetOptions{AllowMissingPolicyAndRoleIDs: true, FromReplication: true}))
			},
			round: func(r *fsmkit.Replica) zvRound { return zvTokenRound(r, mk(), last, sh, uint64(n), 0, 0, false) },
			ref:   func(r *fsmkit.Replica) zvRound { return zvTokenRef(r, mk(), last, sh, uint64(n), 0, 0) }})
	}
}

// ---------------- B2: policies / roles renamed in the primary ----------------

// zvInjections lists every way to give a subset of 3 ids pairwise different names out of 3 (-1 = id absent).
func zvInjections() (out [][3]int) {
	for a := -1; a < 3; a++ {
		for b := -1; b < 3; b++ {
			for c := -1; c < 3; c++ {
				if (a >= 0 && (a == b || a == c)) || (b >= 0 && b == c) {
					continue
				}
				out = append(out, [3]int{a, b, c})
			}
		}
	}
	return
}

// zvRenameClass: which upserts have to wait for another upsert of the same round to free the name.
func zvRenameClass(local, remote [3]int) string {
	waits := map[int]int{}
	for a := 0; a < 3; a++ {
		if remote[a] < 0 || remote[a] == local[a] {
			continue
		}
		for b := 0; b < 3; b++ {
			// b holds the name locally and survives the deletions of the round
			if b != a && local[b] == remote[a] && remote[b] >= 0 {
				waits[a] = b
			}
		}
	}
	if len(waits) == 0 {
		return "no-conflict"
	}
	for a := range waits {
		x, ok := a, true
		for i := 0; i < 4 && ok; i++ {
			x, ok = waits[x]
			if ok && x == a {
				return "name-cycle"
			}
		}
	}
	return "name-chain"
}

func zvNamedPol(k, name int, idx uint64) *structs.ACLPolicy {
	p := &structs.ACLPolicy{ID: zvPolIDs[k], Name: fmt.Sprintf("zv-name-%d", name), Description: "zv policy", Rules: `key "zv" { policy = "read" }`}
	p.SetHash(true)
	p.CreateIndex, p.ModifyIndex = 1, idx
	return p
}

func zvNamedRole(k, name int, idx uint64) *structs.ACLRole {
	ro := &structs.ACLRole{ID: zvRoleIDs[k], Name: fmt.Sprintf("zv-name-%d", name), Description: "zv role"}
	ro.SetHash(true)
	ro.CreateIndex, ro.ModifyIndex = 1, idx
	return ro
}

func zvPartBRenames(run *core.Run, sink *zvSink) {
	inj := zvInjections()
	n := 0
	for _, local := range inj {
		for _, remote := range inj {
			n++
			local, remote, sh := local, remote, n%2 == 1
			class := zvRenameClass(local, remote)
			for _, kind := range []string{"policy", "role"} {
				info := &zvBCase{Site: kind + "-rename:" + class, Scenario: kind + " names re-assigned in the primary (every intermediate and the final state has unique names)", Shuffle: sh}
				want := map[string]string{}
				for k := 0; k < 3; k++ {
					if local[k] >= 0 {
						info.Local = append(info.Local, fmt.Sprintf("id%d=zv-name-%d", k, local[k]))
					}
					if remote[k] >= 0 {
						info.Remote = append(info.Remote, fmt.Sprintf("id%d=zv-name-%d@5", k, remote[k]))
					}
				}
				sp := &zvBSpec{info: info, want: want}
				if kind == "policy" {
					sp.ty = zvPolicyType
					for k := 0; k < 3; k++ {
						if remote[k] >= 0 {
							want[zvPolIDs[k]] = zvPolRender(zvNamedPol(k, remote[k], 5))
						}
					}
					sp.setup = func(s *state.Store) {
						var b structs.ACLPolicies
						for k := 0; k < 3; k++ {
							if local[k] >= 0 {
								b = append(b, zvNamedPol(k, local[k], 3))
							}
						}
						zvMust(s.ACLPolicyBatchSet(3, b))
					}
					mk := func() (rem []*structs.ACLPolicy) {
						for k := 0; k < 3; k++ {
							if remote[k] >= 0 {
								rem = append(rem, zvNamedPol(k, remote[k], 5))
							}
						}
						return
					}
					sp.round = func(r *fsmkit.Replica) zvRound { return zvPolicyRound(r, mk(), 0, sh, uint64(n), false) }
					sp.ref = func(r *fsmkit.Replica) zvRound { return zvPolicyRef(r, mk(), 0, sh, uint64(n)) }
				} else {
					sp.ty = zvRoleType
					for k := 0; k < 3; k++ {
						if remote[k] >= 0 {
							want[zvRoleIDs[k]] = zvRoleRender(zvNamedRole(k, remote[k], 5))
						}
					}
					sp.setup = func(s *state.Store) {
						var b structs.ACLRoles
						for k := 0; k < 3; k++ {
							if local[k] >= 0 {
								b = append(b, zvNamedRole(k, local[k], 3))
							}
						}
						zvMust(s.ACLRoleBatchSet(3, b, true))
					}
					mk := func() (rem structs.ACLRoles) {
						for k := 0; k < 3; k++ {
							if remote[k] >= 0 {
								rem = append(rem, zvNamedRole(k, remote[k], 5))
							}
						}
						return
					}
					sp.round = func(r *fsmkit.Replica) zvRound { return zvRoleRound(r, mk(), 0, sh, uint64(n), false) }
					sp.ref = func(r *fsmkit.Replica) zvRound { return zvRoleRef(r, mk(), 0, sh, uint64(n)) }
				}
				zvRunB(run, sink, sp)
			}
		}
	}
}

// ---------------- B3: config entries that validate against each other ----------------

// 0 proxy-defaults/global protocol=http, 1 service-defaults/zvg protocol=http, 2 service-router/zvg (needs an
// http-like protocol for zvg), 3 ingress-gateway/zvig with an http listener for zvg (needs zvg to be http).
func zvGraphEntry(k int, idx uint64) structs.ConfigEntry {
	var e structs.ConfigEntry
	switch k {
	case 0:
		e = &structs.ProxyConfigEntry{Kind: structs.ProxyDefaults, Name: structs.ProxyConfigGlobal, Config: map[string]interface{}{"protocol": "http"}}
	case 1:
		e = &structs.ServiceConfigEntry{Kind: structs.ServiceDefaults, Name: "zvg", Protocol: "http"}
	case 2:
		e = &structs.ServiceRouterConfigEntry{Kind: structs.ServiceRouter, Name: "zvg", Routes: []structs.ServiceRoute{{
			Match: &structs.ServiceRouteMatch{HTTP: &structs.ServiceRouteHTTPMatch{PathPrefix: "/zv"}}, Destination: &structs.ServiceRouteDestination{Service: "zvg"}}}}
	default:
		e = &structs.IngressGatewayConfigEntry{Kind: structs.IngressGateway, Name: "zvig", Listeners: []structs.IngressListener{{
			Port: 9191, Protocol: "http", Services: []structs.IngressService{{Name: "zvg"}}}}}
	}
	zvMust(e.Normalize())
	zvMust(e.Validate())
	ri := e.GetRaftIndex()
	ri.CreateIndex, ri.ModifyIndex = 1, idx
	return e
}

var zvGraphNames = [4]string{"proxy-defaults/global(http)", "service-defaults/zvg(http)", "service-router/zvg", "ingress-gateway/zvig(http->zvg)"}

func zvPartBGraph(run *core.Run, sink *zvSink) {
	var valid []int
	for m := 0; m < 16; m++ {
		if m&(4|8) != 0 && m&(1|2) == 0 {
			continue // a router / http listener without an http protocol for zvg is refused by the primary too
		}
		valid = append(valid, m)
	}
	graphType := *zvConfigType
	// gateway-services and mesh-topology are derived from ingress gateways; usage counts follow
	graphType.rowSkips = map[string][]string{"index": {`Key:"config-entries"`, `Key:"usage"`, `Key:"gateway-services"`, `Key:"mesh-topology"`}, "usage": {`ID:"config-entries-`},
		"gateway-services": {""}, "mesh-topology": {""}}
	n := 0
	for _, lm := range valid {
		for _, rm := range valid {
			for _, sh := range []bool{false, true} {
				n++
				lm, rm, sh := lm, rm, sh
				info := &zvBCase{Site: "config-graph", Scenario: "config entries whose validation depends on other entries", Shuffle: sh}
				want := map[string]string{}
				for k := 0; k < 4; k++ {
					if lm&(1<<k) != 0 {
						info.Local = append(info.Local, zvGraphNames[k])
					}
					if rm&(1<<k) != 0 {
						info.Remote = append(info.Remote, zvGraphNames[k]+"@5")
						e := zvGraphEntry(k, 5)
						want[zvCfgKey(e)] = zvCfgRender(e)
					}
				}
				zvRunB(run, sink, &zvBSpec{ty: &graphType, info: info, want: want,
					setup: func(s *state.Store) {
						for k := 0; k < 4; k++ { // dependency order, as the primary's endpoint would have demanded
							if lm&(1<<k) != 0 {
								zvMust(s.EnsureConfigEntry(3, zvGraphEntry(k, 3)))
							}
						}
					},
					round: func(r *fsmkit.Replica) zvRound {
						var remote []structs.ConfigEntry
						for k := 0; k < 4; k++ {
							if rm&(1<<k) != 0 {
								remote = append(remote, zvGraphEntry(k, 5))
							}
						}
						sort.SliceStable(remote, func(i, j int) bool { return zvCfgKey(remote[i]) < zvCfgKey(remote[j]) }) // store order
						return zvConfigRound(r, remote, 0, sh, uint64(n))
					}})
			}
		}
	}
}

func zvPartB(run *core.Run, sink *zvSink) {
	zvPartBTokens(run, sink)
	zvPartBRenames(run, sink)
	zvPartBGraph(run, sink)
	run.Floor("partB:token-recreated:cases", 64)
	run.Floor("partB:policy-rename:cases", 1156)
	run.Floor("partB:role-rename:cases", 1156)
	run.Floor("partB:config-graph:cases", 300)
}
