//go:build verif

// C19 — one replication round makes the secondary equal to the primary.
//
// The REAL diff functions (diffACLType over the real token / policy / role replicator types,
// diffConfigEntries) are fed with (local, remote, lastRemoteIndex) triples; `local` is what a real
// secondary store returns through the very calls FetchLocal / replicateConfig make. The computed
// result is then APPLIED to that store through a real FSM with the request structs the replicator
// builds (batch delete, then batch set with the remote objects) and the outcome is judged, not the
// diff: replicated set == remote, local-only rows and every other table byte-identical, no write
// when the two sides were already equal.
package consul

import (
	"encoding/hex"
	"fmt"
	"runtime"
	"sort"
	"strings"
	"sync"
	"testing"
	"time"

	"github.com/hashicorp/consul/agent/consul/state"
	"github.com/hashicorp/consul/agent/structs"
	"github.com/hashicorp/consul/zzverif/core"
	"github.com/hashicorp/consul/zzverif/dump"
	"github.com/hashicorp/consul/zzverif/fsmkit"
)

// ---------------- case description ----------------

var zvIdxVals = [3]uint64{1, 5, 9}
var zvLastVals = [3]uint64{0, 4, 9}
var zvContent = [2]string{"x", "y"}

const (
	zvNLocal  = 81   // 3^4 : per id absent | x | y (the secondary's own modify index is not an input of the diff; it is drawn per case)
	zvNRemote = 2401 // 7^4 : per id absent | (x|y) x (1|5|9)
	zvSpace   = int64(2 * zvNLocal * zvNRemote * 3)
)

type zvCase struct {
	Type           string    `json:"type"`
	N              int64     `json:"n"`                      // position in the enumeration
	Local          [4]int    `json:"local"`                  // per id: 0 absent, 1 content x, 2 content y
	LIdx           [4]uint64 `json:"local_index"`            // raft index at which the secondary stored it
	Remote         [4]int    `json:"remote"`                 // per id: 0 absent, 1..6 = content (r-1)%2, modify index (r-1)/2 of {1,5,9}
	Last           uint64    `json:"last_remote_index"`      // lastRemoteIndex handed to the diff
	Shuffle        bool      `json:"shuffled_input"`         // false: lists in the order production hands them over; true: permuted
	LocalOnly      int       `json:"local_only_mask"`        // local-scoped tokens / local exported-services present in the secondary
	LocalEmpty     int       `json:"local_empty_ids"`        // unmigrated (empty AccessorID) items in the local list (tokens)
	RemoteEmpty    int       `json:"remote_empty_ids"`       // unmigrated items in the remote list (tokens)
	RemoteExported bool      `json:"remote_exported"`        // primary holds an exported-services entry (config)
	Backwards      bool      `json:"remote_index_backwards"` // primary rebuilt: it reports an index below lastRemoteIndex (ACL types, only when coherent with its items)
	Aux            uint64    `json:"aux"`                    // seed of the per-case choices
}

func (c *zvCase) rContent(k int) int  { return (c.Remote[k] - 1) % 2 }
func (c *zvCase) rIndex(k int) uint64 { return zvIdxVals[(c.Remote[k]-1)/2] }

// zvDecode turns an enumeration position into a case; ok=false when lastRemoteIndex is not
// consistent with history (an id present on both sides whose remote modify index is <= lastRemoteIndex
// has already been applied, so local content must equal remote content).
func zvDecode(typ string, n int64, seed uint64) (c zvCase, ok bool) {
	c.Type, c.N = typ, n
	m := n
	c.Shuffle = m%2 == 1
	m /= 2
	li := int(m % zvNLocal)
	m /= zvNLocal
	ri := int(m % zvNRemote)
	m /= zvNRemote
	c.Last = zvLastVals[m]
	h := core.NewRand(seed ^ uint64(n)*0x9E3779B97F4A7C15 ^ uint64(len(typ))<<56 ^ uint64(typ[0])<<48)
	c.Aux = h.U64()
	for k := 0; k < 4; k++ {
		c.Local[k] = li % 3
		li /= 3
		c.Remote[k] = ri % 7
		ri /= 7
		c.LIdx[k] = zvIdxVals[h.Intn(3)]
		if c.Local[k] != 0 && c.Remote[k] != 0 && c.rIndex(k) <= c.Last && c.Local[k]-1 != c.rContent(k) {
			return c, false
		}
	}
	switch typ {
	case "token":
		c.LocalOnly = h.Intn(8)
		if h.Chance(30) {
			c.RemoteEmpty = 1 + h.Intn(2)
		}
		if h.Chance(30) {
			c.LocalEmpty = 1 + h.Intn(2)
		}
	case "config":
		c.LocalOnly = h.Intn(2)
		c.RemoteExported = h.Chance(40)
	}
	if typ != "config" {
		c.Backwards = h.Chance(50)
	}
	return c, true
}

// ---------------- what one round did ----------------

type zvRound struct {
	Deletes       []string `json:"deletes"`
	Upserts       []string `json:"upserts"`
	Errs          []string `json:"apply_errors,omitempty"`
	ErrOps        []string `json:"-"`
	LocalSkipped  int      `json:"local_skipped,omitempty"`
	RemoteSkipped int      `json:"remote_skipped,omitempty"`
	Panic         string   `json:"panic,omitempty"`
	Applied       int      `json:"fsm_requests"`
	AppliedDel    int      `json:"fsm_delete_requests"`
	Ops           []string `json:"fsm_request_order,omitempty"`
	BatchLens     []int    `json:"fsm_batch_sizes,omitempty"`
	ViaProduction bool     `json:"through_replicateACLType"`
	RoundErr      string   `json:"round_error,omitempty"`
	RoundIndex    uint64   `json:"round_returned_index"`
	RemoteIndex   uint64   `json:"remote_index"`
	Exit          bool     `json:"round_exit,omitempty"`
}

type zvType struct {
	name      string
	table     string               // memdb table holding the replicated objects
	rowSkips  map[string][]string  // tables that follow the replicated one -> marker of the rows that legitimately move
	cleanup   func(s *state.Store) // removes every object a case may have put into the replicated table
	setup     func(s *state.Store, c *zvCase)
	round     func(r *fsmkit.Replica, c *zvCase) zvRound
	ref       func(r *fsmkit.Replica, c *zvCase) zvRound // ACL types: the same diff applied by the monitor itself, deletions first (reference order)
	replSet   func(s *state.Store) map[string]string     // replicated set: id -> content rendering (incl. hash, excl. raft indexes)
	localOnly func(s *state.Store) []string              // rows that replication must never touch
	expected  func(c *zvCase) map[string]string
	localWant func(c *zvCase) map[string]string // what setup is supposed to have produced (harness self check)
}

func zvShuffle[T any](xs []T, rng *core.Rand) {
	for i := len(xs) - 1; i > 0; i-- {
		j := rng.Intn(i + 1)
		xs[i], xs[j] = xs[j], xs[i]
	}
}

func zvMust(err error) {
	if err != nil {
		panic("zv harness: " + err.Error())
	}
}

var zvTime = time.Unix(1700000000, 0).UTC()

// ---------------- sentinel rows (unrelated tables) ----------------

func zvSentinels(s *state.Store, typ string) {
	zvMust(s.KVSSet(20, &structs.DirEntry{Key: "zv/sentinel", Value: []byte("s")}))
	zvMust(s.EnsureRegistration(21, &structs.RegisterRequest{Node: "zvnode", Address: "10.0.0.9",
		Service: &structs.NodeService{ID: "zvsvc", Service: "zvsvc", Port: 80}}))
	if typ != "policy" {
		p := &structs.ACLPolicy{ID: "5e000000-0000-4000-8000-0000000000f1", Name: "zv-sentinel-policy", Rules: `key "" { policy = "read" }`}
		p.SetHash(true)
		zvMust(s.ACLPolicyBatchSet(22, structs.ACLPolicies{p}))
	}
	if typ != "role" {
		ro := &structs.ACLRole{ID: "5e000000-0000-4000-8000-0000000000f2", Name: "zv-sentinel-role", Description: "s"}
		ro.SetHash(true)
		zvMust(s.ACLRoleBatchSet(23, structs.ACLRoles{ro}, true))
	}
	if typ != "token" {
		g := &structs.ACLToken{AccessorID: "5e000000-0000-4000-8000-0000000000f3", SecretID: "5e000000-0000-4000-8000-0000000000a3", Description: "sentinel global", CreateTime: zvTime}
		l := &structs.ACLToken{AccessorID: "5e000000-0000-4000-8000-0000000000f4", SecretID: "5e000000-0000-4000-8000-0000000000a4", Description: "sentinel local", Local: true, CreateTime: zvTime}
		g.SetHash(true)
		l.SetHash(true)
		zvMust(s.ACLTokenBatchSet(24, structs.ACLTokens{g, l}, state.ACLTokenSetOptions{}))
	}
	if typ != "config" {
		e := &structs.ServiceConfigEntry{Kind: structs.ServiceDefaults, Name: "zvsentinel", Protocol: "tcp"}
		zvMust(e.Normalize())
		zvMust(s.EnsureConfigEntry(25, e))
	}
}

// ---------------- shared ACL machinery ----------------

// zvDiff runs the production diff; a panic is recovered and reported by the caller.
func zvDiff(tr aclTypeReplicator, last uint64) (res itemDiffResults, pan string) {
	defer func() {
		if p := recover(); p != nil {
			pan = fmt.Sprint(p)
		}
	}()
	return diffACLType(tr, last), ""
}

// zvApplyACL is replicateACLType after FetchUpdated: deleteLocalACLType then updateLocalACLType
// (same batching loops, no rate limiter), each batch submitted to the FSM as the request struct
// DeleteLocalBatch / UpdateLocalBatch build. An error response aborts the round like leaderRaftApply.
func zvApplyACL(r *fsmkit.Replica, tr aclTypeReplicator, res itemDiffResults, rd *zvRound,
	mkDel func(batch []string) (structs.MessageType, any), mkSet func(start, end int) (structs.MessageType, any)) {
	idx := uint64(100)
	if len(res.LocalDeletes) > 0 {
		deletions := res.LocalDeletes
		for i := 0; i < len(deletions); i += aclBatchDeleteSize {
			var batch []string
			if i+aclBatchDeleteSize > len(deletions) {
				batch = deletions[i:]
			} else {
				batch = deletions[i : i+aclBatchDeleteSize]
			}
			t, req := mkDel(batch)
			idx++
			rd.Applied++
			rd.AppliedDel++
			if err, ok := r.Apply(idx, t, req).(error); ok {
				rd.Errs = append(rd.Errs, "delete: "+err.Error())
				rd.ErrOps = append(rd.ErrOps, "delete")
				return
			}
		}
	}
	if len(res.LocalUpserts) > 0 {
		lenPending := tr.LenPendingUpdates()
		for batchStart := 0; batchStart < lenPending; {
			batchSize := 0
			batchEnd := batchStart
			for ; batchEnd < lenPending && batchSize < aclBatchUpsertSize; batchEnd += 1 {
				if tr.PendingUpdateIsRedacted(batchEnd) {
					rd.Errs = append(rd.Errs, "upsert: redacted")
					rd.ErrOps = append(rd.ErrOps, "upsert")
					return
				}
				batchSize += tr.PendingUpdateEstimatedSize(batchEnd)
			}
			t, req := mkSet(batchStart, batchEnd)
			idx++
			rd.Applied++
			if err, ok := r.Apply(idx, t, req).(error); ok {
				rd.Errs = append(rd.Errs, "upsert: "+err.Error())
				rd.ErrOps = append(rd.ErrOps, "upsert")
				return
			}
			batchStart = batchEnd
		}
	}
}

func zvHex(b []byte) string { return hex.EncodeToString(b) }

// ---------------- tokens ----------------

var zvTokIDs = [4]string{
	"1a000000-0000-4000-8000-000000000001",
	"1a000000-0000-4000-8000-000000000002",
	"1a000000-0000-4000-8000-00000000000a",
	"a1000000-0000-4000-8000-000000000001",
}

// local-scoped tokens of the secondary; their ids sort before / between / after the replicated ids
var zvLocalTokIDs = [3]string{
	"00000000-0000-4000-8000-00000000000f",
	"1a000000-0000-4000-8000-000000000003",
	"ffffffff-0000-4000-8000-000000000001",
}

func zvSecret(accessor string) string { return "5e" + accessor[0:2] + "0000" + accessor[8:] }

func zvTok(k, content int, idx uint64) *structs.ACLToken {
	t := &structs.ACLToken{AccessorID: zvTokIDs[k], SecretID: zvSecret(zvTokIDs[k]), Description: "zv token content " + zvContent[content], CreateTime: zvTime}
	t.SetHash(true) // ACL.TokenSet does this before the raft apply in the primary
	t.CreateIndex, t.ModifyIndex = 1, idx
	return t
}

func zvTokRender(t *structs.ACLToken) string {
	c := *t
	c.RaftIndex = structs.RaftIndex{}
	return "hash=" + zvHex(t.Hash) + " " + dump.Render(&c)
}

// zvTokenRef is the reference application (diff, then deletions, then upserts, done by the monitor) against the secondary r, the primary
// holding the global tokens `remote`.
func zvTokenRef(r *fsmkit.Replica, remote []*structs.ACLToken, last uint64, shuffle bool, aux uint64, localEmpty, remoteEmpty int) (rd zvRound) {
	// FetchLocal
	_, local, err := r.State().ACLTokenList(nil, false, true, "", "", "", nil, structs.ReplicationEnterpriseMeta())
	zvMust(err)
	// FetchRemote: ACL.TokenList of the primary = stubs of its global tokens in store order
	var stubs structs.ACLTokenListStubs
	byID := map[string]*structs.ACLToken{}
	for _, t := range remote {
		byID[t.AccessorID] = t
		stubs = append(stubs, t.Stub())
	}
	for j := 0; j < remoteEmpty; j++ {
		stubs = append(stubs, &structs.ACLTokenListStub{SecretID: fmt.Sprintf("zv-legacy-remote-%d", j), Description: "unmigrated", Hash: []byte{byte(j), 1}, CreateIndex: 1, ModifyIndex: zvIdxVals[j%3]})
	}
	for j := 0; j < localEmpty; j++ {
		local = append(local, &structs.ACLToken{SecretID: fmt.Sprintf("zv-legacy-local-%d", j), Description: "unmigrated", Hash: []byte{byte(j), 2}, RaftIndex: structs.RaftIndex{CreateIndex: 1, ModifyIndex: 1}})
	}
	if shuffle {
		rng := core.NewRand(aux)
		zvShuffle(local, rng)
		zvShuffle(stubs, rng)
	}
	tr := &aclTokenReplicator{local: local, remote: stubs}
	res, pan := zvDiff(tr, last)
	rd.Deletes, rd.Upserts, rd.LocalSkipped, rd.RemoteSkipped, rd.Panic = res.LocalDeletes, res.LocalUpserts, res.LocalSkipped, res.RemoteSkipped, pan
	if pan != "" {
		return
	}
	// FetchUpdated: ACL.TokenBatchRead returns the primary's tokens with these accessors (unknown ids are just absent)
	for _, id := range res.LocalUpserts {
		if t, ok := byID[id]; ok {
			tr.updated = append(tr.updated, t)
		}
	}
	if _, _, err := tr.ensureRemoteConsistent(res.LocalUpserts); err != nil {
		rd.Errs, rd.ErrOps = append(rd.Errs, "ensureRemoteConsistent: "+err.Error()), append(rd.ErrOps, "consistency-check")
		return
	}
	zvApplyACL(r, tr, res, &rd,
		func(batch []string) (structs.MessageType, any) {
			return structs.ACLTokenDeleteRequestType, &structs.ACLTokenBatchDeleteRequest{TokenIDs: batch}
		},
		func(start, end int) (structs.MessageType, any) {
			return structs.ACLTokenSetRequestType, &structs.ACLTokenBatchSetRequest{Tokens: tr.updated[start:end], CAS: false, AllowMissingLinks: true, FromReplication: true}
		})
	return
}

var zvTokenType = &zvType{
	name: "token", table: "acl-tokens", rowSkips: map[string][]string{"index": {`Key:"acl-tokens"`}},
	cleanup: func(s *state.Store) {
		zvMust(s.ACLTokenBatchDelete(90, append(append([]string{}, zvTokIDs[:]...), zvLocalTokIDs[:]...)))
	},
	setup: func(s *state.Store, c *zvCase) {
		for _, idx := range zvIdxVals {
			var batch structs.ACLTokens
			for k := 0; k < 4; k++ {
				if c.Local[k] != 0 && c.LIdx[k] == idx {
					batch = append(batch, zvTok(k, c.Local[k]-1, 3)) // object fetched from the primary in an earlier round
				}
			}
			if len(batch) > 0 {
				zvMust(s.ACLTokenBatchSet(idx, batch, state.ACLTokenSetOptions{AllowMissingPolicyAndRoleIDs: true, FromReplication: true}))
			}
		}
		for b := 0; b < 3; b++ {
			if c.LocalOnly&(1<<b) != 0 {
				t := &structs.ACLToken{AccessorID: zvLocalTokIDs[b], SecretID: zvSecret(zvLocalTokIDs[b]), Description: "zv local token", Local: true, CreateTime: zvTime}
				t.SetHash(true)
				zvMust(s.ACLTokenBatchSet(uint64(12+b), structs.ACLTokens{t}, state.ACLTokenSetOptions{}))
			}
		}
	},
	round: func(r *fsmkit.Replica, c *zvCase) zvRound {
		var remote []*structs.ACLToken
		for k := 0; k < 4; k++ {
			if c.Remote[k] != 0 {
				remote = append(remote, zvTok(k, c.rContent(k), c.rIndex(k)))
			}
		}
		return zvTokenRound(r, remote, c.Last, c.Shuffle, c.Aux, c.LocalEmpty, c.RemoteEmpty, c.Backwards)
	},
	ref: func(r *fsmkit.Replica, c *zvCase) zvRound {
		var remote []*structs.ACLToken
		for k := 0; k < 4; k++ {
			if c.Remote[k] != 0 {
				remote = append(remote, zvTok(k, c.rContent(k), c.rIndex(k)))
			}
		}
		return zvTokenRef(r, remote, c.Last, c.Shuffle, c.Aux, c.LocalEmpty, c.RemoteEmpty)
	},
	replSet: func(s *state.Store) map[string]string {
		_, l, err := s.ACLTokenList(nil, false, true, "", "", "", nil, structs.ReplicationEnterpriseMeta())
		zvMust(err)
		m := map[string]string{}
		for _, t := range l {
			m[t.AccessorID] = zvTokRender(t)
		}
		return m
	},
	localOnly: func(s *state.Store) []string {
		_, l, err := s.ACLTokenList(nil, true, false, "", "", "", nil, structs.ReplicationEnterpriseMeta())
		zvMust(err)
		var out []string
		for _, t := range l {
			out = append(out, dump.Render(t))
		}
		return out
	},
	expected: func(c *zvCase) map[string]string {
		m := map[string]string{}
		for k := 0; k < 4; k++ {
			if c.Remote[k] != 0 {
				m[zvTokIDs[k]] = zvTokRender(zvTok(k, c.rContent(k), c.rIndex(k)))
			}
		}
		return m
	},
	localWant: func(c *zvCase) map[string]string {
		m := map[string]string{}
		for k := 0; k < 4; k++ {
			if c.Local[k] != 0 {
				m[zvTokIDs[k]] = zvTokRender(zvTok(k, c.Local[k]-1, 1))
			}
		}
		return m
	},
}

// ---------------- policies ----------------

var zvPolIDs = [4]string{
	"2b000000-0000-4000-8000-000000000001",
	"2b000000-0000-4000-8000-000000000002",
	"2b000000-0000-4000-8000-00000000000a",
	"b2000000-0000-4000-8000-000000000001",
}

func zvPol(k, content int, idx uint64) *structs.ACLPolicy {
	p := &structs.ACLPolicy{ID: zvPolIDs[k], Name: fmt.Sprintf("zv-policy-%d", k), Description: "zv policy content " + zvContent[content],
		Rules: fmt.Sprintf("key %q { policy = \"read\" }", zvContent[content])}
	p.SetHash(true) // ACL.PolicySet does this before the raft apply in the primary
	p.CreateIndex, p.ModifyIndex = 1, idx
	return p
}

func zvPolRender(p *structs.ACLPolicy) string {
	c := *p
	c.RaftIndex = structs.RaftIndex{}
	return "hash=" + zvHex(p.Hash) + " " + dump.Render(&c)
}

// zvPolicyRef: reference application for policies (see zvTokenRef).
func zvPolicyRef(r *fsmkit.Replica, remote []*structs.ACLPolicy, last uint64, shuffle bool, aux uint64) (rd zvRound) {
	_, local, err := r.State().ACLPolicyList(nil, structs.ReplicationEnterpriseMeta())
	zvMust(err)
	var stubs structs.ACLPolicyListStubs // ACL.PolicyList
	byID := map[string]*structs.ACLPolicy{}
	for _, p := range remote {
		byID[p.ID] = p
		stubs = append(stubs, p.Stub())
	}
	if shuffle {
		rng := core.NewRand(aux)
		zvShuffle(local, rng)
		zvShuffle(stubs, rng)
	}
	tr := &aclPolicyReplicator{local: local, remote: stubs}
	res, pan := zvDiff(tr, last)
	rd.Deletes, rd.Upserts, rd.LocalSkipped, rd.RemoteSkipped, rd.Panic = res.LocalDeletes, res.LocalUpserts, res.LocalSkipped, res.RemoteSkipped, pan
	if pan != "" {
		return
	}
	for _, id := range res.LocalUpserts { // ACL.PolicyBatchRead
		if p, ok := byID[id]; ok {
			tr.updated = append(tr.updated, p)
		}
	}
	if _, _, err := tr.ensureRemoteConsistent(res.LocalUpserts); err != nil {
		rd.Errs, rd.ErrOps = append(rd.Errs, "ensureRemoteConsistent: "+err.Error()), append(rd.ErrOps, "consistency-check")
		return
	}
	zvApplyACL(r, tr, res, &rd,
		func(batch []string) (structs.MessageType, any) {
			return structs.ACLPolicyDeleteRequestType, &structs.ACLPolicyBatchDeleteRequest{PolicyIDs: batch}
		},
		func(start, end int) (structs.MessageType, any) {
			return structs.ACLPolicySetRequestType, &structs.ACLPolicyBatchSetRequest{Policies: tr.updated[start:end]}
		})
	return
}

var zvPolicyType = &zvType{
	name: "policy", table: "acl-policies", rowSkips: map[string][]string{"index": {`Key:"acl-policies"`}},
	cleanup: func(s *state.Store) { zvMust(s.ACLPolicyBatchDelete(90, zvPolIDs[:])) },
	setup: func(s *state.Store, c *zvCase) {
		for _, idx := range zvIdxVals {
			var batch structs.ACLPolicies
			for k := 0; k < 4; k++ {
				if c.Local[k] != 0 && c.LIdx[k] == idx {
					batch = append(batch, zvPol(k, c.Local[k]-1, 3))
				}
			}
			if len(batch) > 0 {
				zvMust(s.ACLPolicyBatchSet(idx, batch))
			}
		}
	},
	round: func(r *fsmkit.Replica, c *zvCase) zvRound {
		var remote []*structs.ACLPolicy
		for k := 0; k < 4; k++ {
			if c.Remote[k] != 0 {
				remote = append(remote, zvPol(k, c.rContent(k), c.rIndex(k)))
			}
		}
		return zvPolicyRound(r, remote, c.Last, c.Shuffle, c.Aux, c.Backwards)
	},
	ref: func(r *fsmkit.Replica, c *zvCase) zvRound {
		var remote []*structs.ACLPolicy
		for k := 0; k < 4; k++ {
			if c.Remote[k] != 0 {
				remote = append(remote, zvPol(k, c.rContent(k), c.rIndex(k)))
			}
		}
		return zvPolicyRef(r, remote, c.Last, c.Shuffle, c.Aux)
	},
	replSet: func(s *state.Store) map[string]string {
		_, l, err := s.ACLPolicyList(nil, structs.ReplicationEnterpriseMeta())
		zvMust(err)
		m := map[string]string{}
		for _, p := range l {
			m[p.ID] = zvPolRender(p)
		}
		return m
	},
	localOnly: func(s *state.Store) []string { return nil },
	expected: func(c *zvCase) map[string]string {
		m := map[string]string{}
		for k := 0; k < 4; k++ {
			if c.Remote[k] != 0 {
				m[zvPolIDs[k]] = zvPolRender(zvPol(k, c.rContent(k), c.rIndex(k)))
			}
		}
		return m
	},
	localWant: func(c *zvCase) map[string]string {
		m := map[string]string{}
		for k := 0; k < 4; k++ {
			if c.Local[k] != 0 {
				m[zvPolIDs[k]] = zvPolRender(zvPol(k, c.Local[k]-1, 1))
			}
		}
		return m
	},
}

// ---------------- roles ----------------

var zvRoleIDs = [4]string{
	"3c000000-0000-4000-8000-000000000001",
	"3c000000-0000-4000-8000-000000000002",
	"3c000000-0000-4000-8000-00000000000a",
	"c3000000-0000-4000-8000-000000000001",
}

func zvRole(k, content int, idx uint64) *structs.ACLRole {
	ro := &structs.ACLRole{ID: zvRoleIDs[k], Name: fmt.Sprintf("zv-role-%d", k), Description: "zv role content " + zvContent[content],
		ServiceIdentities: structs.ACLServiceIdentities{&structs.ACLServiceIdentity{ServiceName: "zv" + zvContent[content]}}}
	ro.SetHash(true) // ACL.RoleSet does this before the raft apply in the primary
	ro.CreateIndex, ro.ModifyIndex = 1, idx
	return ro
}

func zvRoleRender(ro *structs.ACLRole) string {
	c := *ro
	c.RaftIndex = structs.RaftIndex{}
	return "hash=" + zvHex(ro.Hash) + " " + dump.Render(&c)
}

// zvRoleRef: reference application for roles (see zvTokenRef).
func zvRoleRef(r *fsmkit.Replica, remote structs.ACLRoles, last uint64, shuffle bool, aux uint64) (rd zvRound) {
	_, local, err := r.State().ACLRoleList(nil, "", structs.ReplicationEnterpriseMeta())
	zvMust(err)
	if shuffle {
		rng := core.NewRand(aux)
		zvShuffle(local, rng)
		zvShuffle(remote, rng)
	}
	tr := &aclRoleReplicator{local: local, remote: remote}
	res, pan := zvDiff(tr, last)
	rd.Deletes, rd.Upserts, rd.LocalSkipped, rd.RemoteSkipped, rd.Panic = res.LocalDeletes, res.LocalUpserts, res.LocalSkipped, res.RemoteSkipped, pan
	if pan != "" {
		return
	}
	if len(res.LocalUpserts) > 0 {
		// the production FetchUpdated of roles needs no server: it re-uses the remote list
		if _, err := tr.FetchUpdated(nil, res.LocalUpserts); err != nil {
			rd.Errs, rd.ErrOps = append(rd.Errs, "FetchUpdated: "+err.Error()), append(rd.ErrOps, "fetch-updated")
			return
		}
		if _, _, err := tr.ensureRemoteConsistent(res.LocalUpserts); err != nil {
			rd.Errs, rd.ErrOps = append(rd.Errs, "ensureRemoteConsistent: "+err.Error()), append(rd.ErrOps, "consistency-check")
			return
		}
	}
	zvApplyACL(r, tr, res, &rd,
		func(batch []string) (structs.MessageType, any) {
			return structs.ACLRoleDeleteRequestType, &structs.ACLRoleBatchDeleteRequest{RoleIDs: batch}
		},
		func(start, end int) (structs.MessageType, any) {
			return structs.ACLRoleSetRequestType, &structs.ACLRoleBatchSetRequest{Roles: tr.updated[start:end], AllowMissingLinks: true}
		})
	return
}

var zvRoleType = &zvType{
	name: "role", table: "acl-roles", rowSkips: map[string][]string{"index": {`Key:"acl-roles"`}},
	cleanup: func(s *state.Store) { zvMust(s.ACLRoleBatchDelete(90, zvRoleIDs[:])) },
	setup: func(s *state.Store, c *zvCase) {
		for _, idx := range zvIdxVals {
			var batch structs.ACLRoles
			for k := 0; k < 4; k++ {
				if c.Local[k] != 0 && c.LIdx[k] == idx {
					batch = append(batch, zvRole(k, c.Local[k]-1, 3))
				}
			}
			if len(batch) > 0 {
				zvMust(s.ACLRoleBatchSet(idx, batch, true))
			}
		}
	},
	round: func(r *fsmkit.Replica, c *zvCase) zvRound {
		var remote structs.ACLRoles
		for k := 0; k < 4; k++ {
			if c.Remote[k] != 0 {
				remote = append(remote, zvRole(k, c.rContent(k), c.rIndex(k)))
			}
		}
		return zvRoleRound(r, remote, c.Last, c.Shuffle, c.Aux, c.Backwards)
	},
	ref: func(r *fsmkit.Replica, c *zvCase) zvRound {
		var remote structs.ACLRoles
		for k := 0; k < 4; k++ {
			if c.Remote[k] != 0 {
				remote = append(remote, zvRole(k, c.rContent(k), c.rIndex(k)))
			}
		}
		return zvRoleRef(r, remote, c.Last, c.Shuffle, c.Aux)
	},
	replSet: func(s *state.Store) map[string]string {
		_, l, err := s.ACLRoleList(nil, "", structs.ReplicationEnterpriseMeta())
		zvMust(err)
		m := map[string]string{}
		for _, ro := range l {
			m[ro.ID] = zvRoleRender(ro)
		}
		return m
	},
	localOnly: func(s *state.Store) []string { return nil },
	expected: func(c *zvCase) map[string]string {
		m := map[string]string{}
		for k := 0; k < 4; k++ {
			if c.Remote[k] != 0 {
				m[zvRoleIDs[k]] = zvRoleRender(zvRole(k, c.rContent(k), c.rIndex(k)))
			}
		}
		return m
	},
	localWant: func(c *zvCase) map[string]string {
		m := map[string]string{}
		for k := 0; k < 4; k++ {
			if c.Local[k] != 0 {
				m[zvRoleIDs[k]] = zvRoleRender(zvRole(k, c.Local[k]-1, 1))
			}
		}
		return m
	},
}

// ---------------- config entries ----------------

// ids = (kind, name); sort order of the diff is kind, then name: proxy-defaults/global <
// service-defaults/zva < service-defaults/zvb < service-resolver/zva (same name under two kinds).
func zvCfg(k, content int, idx uint64) structs.ConfigEntry {
	meta := map[string]string{"zv": zvContent[content]}
	var e structs.ConfigEntry
	switch k {
	case 0:
		e = &structs.ProxyConfigEntry{Kind: structs.ProxyDefaults, Name: structs.ProxyConfigGlobal, Meta: meta}
	case 1:
		e = &structs.ServiceConfigEntry{Kind: structs.ServiceDefaults, Name: "zva", Meta: meta}
	case 2:
		e = &structs.ServiceConfigEntry{Kind: structs.ServiceDefaults, Name: "zvb", Meta: meta}
	default:
		e = &structs.ServiceResolverConfigEntry{Kind: structs.ServiceResolver, Name: "zva", Meta: meta, ConnectTimeout: time.Duration(content+1) * time.Second}
	}
	zvMust(e.Normalize()) // ConfigEntry.Apply normalizes (which sets the hash) and validates before the raft apply
	zvMust(e.Validate())
	ri := e.GetRaftIndex()
	ri.CreateIndex, ri.ModifyIndex = 1, idx
	return e
}

func zvExported(content string, idx uint64) structs.ConfigEntry {
	e := &structs.ExportedServicesConfigEntry{Name: "default", Meta: map[string]string{"zv": content},
		Services: []structs.ExportedService{{Name: "zvsvc", Consumers: []structs.ServiceConsumer{{Peer: "zvpeer"}}}}}
	zvMust(e.Normalize())
	zvMust(e.Validate())
	e.CreateIndex, e.ModifyIndex = 1, idx
	return e
}

func zvCfgKey(e structs.ConfigEntry) string { return e.GetKind() + "/" + e.GetName() }

func zvCfgRender(e structs.ConfigEntry) string {
	s := dump.Render(e)
	// drop the raft indexes: they are the secondary's own
	ri := e.GetRaftIndex()
	s = strings.Replace(s, "RaftIndex:"+dump.Render(*ri), "RaftIndex:-", 1)
	return fmt.Sprintf("hash=%d %s", e.GetHash(), s)
}

// zvApplyConfig is reconcileLocalConfig without the rate limiter: one ConfigEntryRequest per entry,
// exported-services skipped, errors accumulated and the loop continued.
func zvApplyConfig(r *fsmkit.Replica, idx *uint64, configs []structs.ConfigEntry, op structs.ConfigEntryOp, rd *zvRound) {
	for _, entry := range configs {
		if entry.GetKind() == structs.ExportedServices {
			continue
		}
		req := structs.ConfigEntryRequest{Op: op, Datacenter: "dc2", Entry: entry}
		*idx++
		rd.Applied++
		if op == structs.ConfigEntryDelete {
			rd.AppliedDel++
		}
		if err, ok := r.Apply(*idx, structs.ConfigEntryRequestType, &req).(error); ok {
			rd.Errs = append(rd.Errs, fmt.Sprintf("%s %s: %v", op, zvCfgKey(entry), err))
			rd.ErrOps = append(rd.ErrOps, string(op))
		}
	}
}

func zvDiffConfig(local, remote []structs.ConfigEntry, last uint64) (d, u []structs.ConfigEntry, pan string) {
	defer func() {
		if p := recover(); p != nil {
			pan = fmt.Sprint(p)
		}
	}()
	d, u = diffConfigEntries(local, remote, last)
	return
}

func zvConfigRound(r *fsmkit.Replica, remote []structs.ConfigEntry, last uint64, shuffle bool, aux uint64) (rd zvRound) {
	_, local, err := r.State().ConfigEntries(nil, structs.ReplicationEnterpriseMeta())
	zvMust(err)
	if shuffle {
		rng := core.NewRand(aux)
		zvShuffle(local, rng)
		zvShuffle(remote, rng)
	}
	dels, ups, pan := zvDiffConfig(local, remote, last)
	rd.Panic = pan
	for _, e := range dels {
		rd.Deletes = append(rd.Deletes, zvCfgKey(e))
	}
	for _, e := range ups {
		rd.Upserts = append(rd.Upserts, zvCfgKey(e))
	}
	if pan != "" {
		return
	}
	idx := uint64(100)
	if len(dels) > 0 {
		zvApplyConfig(r, &idx, dels, structs.ConfigEntryDelete, &rd)
	}
	if len(ups) > 0 {
		zvApplyConfig(r, &idx, ups, structs.ConfigEntryUpsert, &rd)
	}
	return
}

func zvCfgSet(s *state.Store, exported bool) map[string]string {
	_, l, err := s.ConfigEntries(nil, structs.ReplicationEnterpriseMeta())
	zvMust(err)
	m := map[string]string{}
	for _, e := range l {
		if (e.GetKind() == structs.ExportedServices) == exported {
			m[zvCfgKey(e)] = zvCfgRender(e)
		}
	}
	return m
}

var zvConfigType = &zvType{
	name: "config", table: "config-entries",
	// the usage table counts config entries per kind: its config-entries-* rows are derived from the replicated table
	rowSkips: map[string][]string{"index": {`Key:"config-entries"`, `Key:"usage"`}, "usage": {`ID:"config-entries-`}},
	cleanup: func(s *state.Store) {
		_, l, err := s.ConfigEntries(nil, structs.ReplicationEnterpriseMeta())
		zvMust(err)
		for _, e := range l {
			if e.GetName() != "zvsentinel" {
				zvMust(s.DeleteConfigEntry(90, e.GetKind(), e.GetName(), e.GetEnterpriseMeta()))
			}
		}
	},
	setup: func(s *state.Store, c *zvCase) {
		for _, idx := range zvIdxVals {
			for k := 0; k < 4; k++ {
				if c.Local[k] != 0 && c.LIdx[k] == idx {
					zvMust(s.EnsureConfigEntry(idx, zvCfg(k, c.Local[k]-1, 3)))
				}
			}
		}
		if c.LocalOnly&1 != 0 {
			zvMust(s.EnsureConfigEntry(12, zvExported("local", 3)))
		}
	},
	round: func(r *fsmkit.Replica, c *zvCase) zvRound {
		var remote []structs.ConfigEntry // ConfigEntry.ListAll: the primary's entries of all kinds in store order
		if c.RemoteExported {
			remote = append(remote, zvExported("primary", 5))
		}
		for k := 0; k < 4; k++ {
			if c.Remote[k] != 0 {
				remote = append(remote, zvCfg(k, c.rContent(k), c.rIndex(k)))
			}
		}
		return zvConfigRound(r, remote, c.Last, c.Shuffle, c.Aux)
	},
	replSet: func(s *state.Store) map[string]string { return zvCfgSet(s, false) },
	localOnly: func(s *state.Store) []string {
		var out []string
		for k, v := range zvCfgSet(s, true) {
			out = append(out, k+" "+v)
		}
		sort.Strings(out)
		return out
	},
	expected: func(c *zvCase) map[string]string {
		m := map[string]string{}
		for k := 0; k < 4; k++ {
			if c.Remote[k] != 0 {
				e := zvCfg(k, c.rContent(k), c.rIndex(k))
				m[zvCfgKey(e)] = zvCfgRender(e)
			}
		}
		return m
	},
	localWant: func(c *zvCase) map[string]string {
		m := map[string]string{}
		for k := 0; k < 4; k++ {
			if c.Local[k] != 0 {
				e := zvCfg(k, c.Local[k]-1, 1)
				m[zvCfgKey(e)] = zvCfgRender(e)
			}
		}
		return m
	},
}

// ---------------- oracle ----------------

func zvMapDiff(got, want map[string]string) (class, detail string) {
	var keys []string
	for k := range want {
		keys = append(keys, k)
	}
	for k := range got {
		if _, ok := want[k]; !ok {
			keys = append(keys, k)
		}
	}
	sort.Strings(keys)
	for _, k := range keys {
		g, gok := got[k]
		w, wok := want[k]
		switch {
		case !gok:
			return "missing", fmt.Sprintf("%s is in the primary but not in the secondary", k)
		case !wok:
			return "extra", fmt.Sprintf("%s is in the secondary but not in the primary", k)
		case g != w:
			return "content", fmt.Sprintf("%s differs: secondary %s primary %s (%s)", k, g, w, dump.FieldDiff(g, w))
		}
	}
	return "", ""
}

// zvForeignDiff compares everything outside the replicated table: all other tables row by row, and of the
// tables that legitimately follow the replicated one (index counters, usage counters) the rows that do not.
func zvForeignDiff(ty *zvType, a, b *dump.Dump) (table, detail string) {
	if diffs := dump.Compare(a, b, 3, func(t string) bool { _, part := ty.rowSkips[t]; return t == ty.table || part }); len(diffs) > 0 {
		return diffs[0].Table, fmt.Sprintf("unrelated table %s changed: %q -> %q", diffs[0].Table, diffs[0].A, diffs[0].B)
	}
	for t, skips := range ty.rowSkips {
		filter := func(d *dump.Dump) []string {
			var out []string
		rows:
			for _, row := range d.Tables[t] {
				for _, k := range skips {
					if strings.Contains(row, k) {
						continue rows
					}
				}
				out = append(out, row)
			}
			return out
		}
		if x, y := filter(a), filter(b); strings.Join(x, "\n") != strings.Join(y, "\n") {
			return t, fmt.Sprintf("rows of table %s that belong to unrelated data changed: %v -> %v", t, x, y)
		}
	}
	return "", ""
}

type zvOutcome struct {
	Case        any               `json:"case"`
	Round       zvRound           `json:"round"`
	LocalBefore map[string]string `json:"secondary_before"`
	Primary     map[string]string `json:"primary"`
	After       map[string]string `json:"secondary_after"`
}

// zvEnv is a secondary (real FSM + store) holding only the sentinel rows. It is re-used for a bounded
// number of cases: after a case without findings the replicated objects are removed again and the next
// case verifies that everything outside the replicated table still equals the baseline dump.
type zvEnv struct {
	r    *fsmkit.Replica
	base *dump.Dump
	uses int
}

type zvPool map[string]*zvEnv

const zvMaxUses = 64

func (p zvPool) get(ty *zvType) *zvEnv {
	if p != nil {
		if e := p[ty.name]; e != nil {
			if e.uses < zvMaxUses {
				e.uses++
				return e
			}
			e.r.Close()
			delete(p, ty.name)
		}
	}
	e := &zvEnv{r: fsmkit.New(fsmkit.Opts{}), uses: 1}
	zvSentinels(e.r.State(), ty.name)
	e.base = dump.Of(e.r.State())
	if p != nil {
		p[ty.name] = e
	}
	return e
}

func (p zvPool) drop(ty *zvType, e *zvEnv) {
	e.r.Close()
	if p != nil && p[ty.name] == e {
		delete(p, ty.name)
	}
}

func (p zvPool) closeAll() {
	for k, e := range p {
		e.r.Close()
		delete(p, k)
	}
}

// zvSink collects violations from the parallel workers and hands them to the run in a fixed order with the
// witness of the smallest case position, so that keys, counts AND the recorded witness do not depend on scheduling.
type zvSink struct {
	mu sync.Mutex
	m  map[string]*zvFinding
}

type zvFinding struct {
	key, what string
	wit       any
	order     int64
	count     int
}

func (k *zvSink) add(key, what string, wit any, order int64) {
	k.mu.Lock()
	defer k.mu.Unlock()
	if k.m == nil {
		k.m = map[string]*zvFinding{}
	}
	f := k.m[key]
	if f == nil {
		k.m[key] = &zvFinding{key: key, what: what, wit: wit, order: order, count: 1}
		return
	}
	f.count++
	if order < f.order {
		f.what, f.wit, f.order = what, wit, order
	}
}

func (k *zvSink) n() int {
	k.mu.Lock()
	defer k.mu.Unlock()
	return len(k.m)
}

func (k *zvSink) flush(run *core.Run) {
	k.mu.Lock()
	defer k.mu.Unlock()
	var keys []string
	for key := range k.m {
		keys = append(keys, key)
	}
	sort.Strings(keys)
	for _, key := range keys {
		f := k.m[key]
		for i := 0; i < f.count; i++ {
			run.Violation(f.key, f.what, f.wit)
		}
	}
	k.m = nil
}

// zvJudge runs one case against a secondary at its baseline and reports violations under site `site`.
func zvJudge(sink *zvSink, order int64, pool zvPool, ty *zvType, site string, c any, cdesc string, want map[string]string, localWant map[string]string,
	setup func(s *state.Store), round func(r *fsmkit.Replica) zvRound, ref func(r *fsmkit.Replica) zvRound) (rd zvRound, equalBefore bool) {
	env := pool.get(ty)
	r := env.r
	s := r.State()
	if a, b := ty.replSet(s), ty.localOnly(s); len(a)+len(b) != 0 {
		panic(fmt.Sprintf("zv harness: secondary not clean before the case: %v %v", a, b))
	}
	setup(s)
	replBefore := ty.replSet(s)
	if localWant != nil {
		if cl, d := zvMapDiff(replBefore, localWant); cl != "" {
			panic("zv harness: the secondary does not hold the intended local set: " + d)
		}
	}
	lonlyBefore := ty.localOnly(s)
	// Everything outside the replicated table is compared with the baseline dump taken when the secondary was
	// built. That the case set-up itself leaves those tables alone is re-verified on the first use of every
	// secondary (i.e. at least every zvMaxUses cases) and whenever the pool is bypassed.
	if env.uses == 1 {
		if t, d := zvForeignDiff(ty, env.base, dump.Of(s)); t != "" {
			panic("zv harness: the secondary is not at its baseline before the round: " + d)
		}
	}
	equalBefore = func() bool { cl, _ := zvMapDiff(replBefore, want); return cl == "" }()

	rd = round(r)

	after := dump.Of(s)
	replAfter := ty.replSet(s)
	dirty := false
	pre := "C19:" + site + ":"
	viol := func(key, what string) {
		dirty = true
		sink.add(pre+key, fmt.Sprintf("%s %s: diff deletes=%q upserts=%q: %s", ty.name, cdesc, rd.Deletes, rd.Upserts, what),
			zvOutcome{Case: c, Round: rd, LocalBefore: replBefore, Primary: want, After: replAfter}, order)
	}
	defer func() {
		if dirty || len(rd.Errs) > 0 || pool == nil {
			pool.drop(ty, env)
			return
		}
		ty.cleanup(s)
	}()
	if rd.Panic != "" {
		viol("diff-panic", "the diff panicked: "+rd.Panic)
		return
	}
	for _, id := range append(append([]string{}, rd.Deletes...), rd.Upserts...) {
		if id == "" {
			viol("empty-id-in-result", "an unmigrated (empty id) item is scheduled for a write")
		}
	}
	if len(rd.Errs) > 0 {
		// Would the same diff, applied deletions first, have gone through? Then the round code is to blame, not the input.
		refOK := false
		if ref != nil && rd.ViaProduction {
			e2 := zvPool(nil).get(ty)
			setup(e2.r.State())
			r2 := ref(e2.r)
			cl, _ := zvMapDiff(ty.replSet(e2.r.State()), want)
			refOK = cl == "" && len(r2.Errs) == 0 && r2.Panic == ""
			e2.r.Close()
		}
		for i, e := range rd.Errs {
			if refOK {
				viol("round-failed-though-deletions-first-succeeds:"+rd.ErrOps[i], fmt.Sprintf("the round submitted %v and the secondary's FSM rejected a request (%s; round error %q), although applying the same deletions and then the same upserts makes the secondary equal to the primary", rd.Ops, e, rd.RoundErr))
			} else {
				viol("apply-rejected:"+rd.ErrOps[i], "the secondary's FSM rejected a request of the round: "+e)
			}
		}
	}
	if rd.ViaProduction {
		switch {
		case rd.RoundErr != "" && len(rd.Errs) == 0:
			viol("round-error-without-rejected-write", "replicateACLType returned an error although no write was rejected: "+rd.RoundErr)
		case rd.RoundErr == "" && len(rd.Errs) > 0:
			viol("round-swallowed-rejected-write", "replicateACLType reported success although the FSM rejected a write")
		case rd.RoundErr == "" && !rd.Exit && rd.RoundIndex != rd.RemoteIndex:
			viol("round-returned-wrong-index", fmt.Sprintf("replicateACLType returned index %d, the primary reported %d", rd.RoundIndex, rd.RemoteIndex))
		}
		if rd.Exit {
			viol("round-exit-without-cancel", "replicateACLType asked to exit although its context was never cancelled")
		}
	}
	if equalBefore && rd.Applied > 0 {
		k := "upsert"
		if rd.AppliedDel > 0 {
			k = "delete"
		}
		viol("write-when-equal:"+k, fmt.Sprintf("the secondary already equalled the primary but %d write request(s) were submitted", rd.Applied))
	}
	if cl, d := zvMapDiff(replAfter, want); cl != "" && len(rd.Errs) == 0 && rd.RoundErr == "" {
		viol("replicated-set-differs:"+cl, "after applying the round "+d)
	}
	lonlyAfter := ty.localOnly(s)
	if strings.Join(lonlyBefore, "\n") != strings.Join(lonlyAfter, "\n") {
		viol("local-only-touched", fmt.Sprintf("local-only objects changed: before %v after %v", lonlyBefore, lonlyAfter))
	}
	if t, d := zvForeignDiff(ty, env.base, after); t != "" {
		viol("other-table-touched:"+t, d)
	}
	if cl, d := zvMapDiff(replAfter, replBefore); rd.Applied == 0 && cl != "" {
		viol("store-changed-without-writes", "no write was submitted but the replicated table changed: "+d)
	}
	return
}

func zvRunCase(run *core.Run, sink *zvSink, pool zvPool, ty *zvType, c *zvCase) {
	want := ty.expected(c)
	cdesc := fmt.Sprintf("case n=%d local=%v remote=%v lastRemoteIndex=%d shuffled=%v", c.N, c.Local, c.Remote, c.Last, c.Shuffle)
	var ref func(r *fsmkit.Replica) zvRound
	if ty.ref != nil {
		ref = func(r *fsmkit.Replica) zvRound { return ty.ref(r, c) }
	}
	rd, equal := zvJudge(sink, c.N, pool, ty, ty.name, c, cdesc, want, ty.localWant(c),
		func(s *state.Store) { ty.setup(s, c) },
		func(r *fsmkit.Replica) zvRound { return ty.round(r, c) }, ref)
	run.Eval()
	run.Count("cases:" + ty.name)
	run.CountN("fsm-requests-applied", rd.Applied)
	run.CountN("deletions-computed", len(rd.Deletes))
	run.CountN("upserts-computed", len(rd.Upserts))
	// classes observed
	cls := func(s string) { run.Distinct("class", ty.name+":"+s); run.Count("class:" + s) }
	both, lonly, ronly, skipIdx, skipHash, differ := 0, 0, 0, 0, 0, 0
	for k := 0; k < 4; k++ {
		switch {
		case c.Local[k] != 0 && c.Remote[k] == 0:
			lonly++
		case c.Local[k] == 0 && c.Remote[k] != 0:
			ronly++
		case c.Local[k] != 0 && c.Remote[k] != 0:
			both++
			switch {
			case c.rIndex(k) <= c.Last:
				skipIdx++
			case c.Local[k]-1 == c.rContent(k):
				skipHash++
			default:
				differ++
			}
		}
	}
	if lonly > 0 {
		cls("id-only-local(delete)")
	}
	if ronly > 0 {
		cls("id-only-remote(create)")
	}
	if skipIdx > 0 {
		cls("both:index<=last(skip)")
	}
	if skipHash > 0 {
		cls("both:index>last,same-content(skip)")
	}
	if differ > 0 {
		cls("both:index>last,content-differs(update)")
	}
	if c.Local[3] != 0 && c.Remote[3] == 0 && (c.Remote[0] != 0 || c.Remote[1] != 0 || c.Remote[2] != 0) {
		cls("trailing-local-run")
	}
	if c.Remote[3] != 0 && c.Local[3] == 0 && (c.Local[0] != 0 || c.Local[1] != 0 || c.Local[2] != 0) {
		cls("trailing-remote-run")
	}
	if lonly+both == 0 {
		cls("local-empty")
	}
	if ronly+both == 0 {
		cls("remote-empty")
	}
	if equal {
		cls("already-equal")
	}
	if c.Shuffle {
		cls("input-permuted")
	} else {
		cls("input-production-order")
	}
	if c.LocalOnly != 0 {
		cls("local-only-objects-present")
	}
	if c.LocalEmpty > 0 {
		cls("unmigrated-local")
	}
	if c.RemoteEmpty > 0 {
		cls("unmigrated-remote")
	}
	if rd.ViaProduction {
		run.Count("rounds-through-replicateACLType")
		if rd.RemoteIndex < c.Last {
			cls("remote-index-went-backwards(full-sync)")
		}
		if rd.AppliedDel > 0 && rd.Applied > rd.AppliedDel {
			run.Count("rounds-with-delete-and-upsert-phase")
		}
	}
	if c.RemoteExported {
		cls("primary-has-exported-services")
	}
	// non-trivial: the ids overlap and the round both wrote and left something alone
	if both > 0 && len(rd.Deletes)+len(rd.Upserts) > 0 && (skipIdx+skipHash > 0 || len(rd.Deletes) > 0 && len(rd.Upserts) > 0) {
		run.NonTrivial(core.Hash(ty.name, fmt.Sprint(c.N), fmt.Sprint(c.Aux)))
	}
}

// ---------------- driver ----------------

func zvParallel(workers int, n int64, fn func(pool zvPool, i int64)) {
	var wg sync.WaitGroup
	for w := 0; w < workers; w++ {
		wg.Add(1)
		go func(w int) {
			defer wg.Done()
			pool := zvPool{}
			defer pool.closeAll()
			for i := int64(w); i < n; i += int64(workers) {
				fn(pool, i)
			}
		}(w)
	}
	wg.Wait()
}

func TestZZVerifC19(t *testing.T) {
	run := core.NewRun("C19", "exploration",
		"Part A, per type (tokens, policies, roles, config entries): positions of the enumeration {input order: production|permuted} x {local: per id absent|x|y}^4 x {remote: per id absent|(x|y)x(modify index 1|5|9)}^4 x {lastRemoteIndex 0|4|9} (1 166 886 positions), those inconsistent with history dropped (750 854 remain); thorough: all of them, quick: 20 000 seed-drawn consistent positions per type. Each case: real secondary store holding `local` (+ per-case drawn local-scoped tokens / local exported-services, unmigrated empty-id list items, sentinel rows in unrelated tables), production diff on the production reads, result applied through a real FSM, then replicated set vs primary by (id, hash, full content), local-only rows, all other tables and index rows, and no-write-when-equal. non-trivial = ids overlap and the round wrote something and also left something alone (or both deleted and upserted); distinct by (type, position). Part B (both tiers, exhaustive): the same oracle on content the secondary's store constrains - 64 scenarios of a token re-created in the primary under the same accessor with a new secret; all 34x34 pairs of unique-name assignments over 3 ids x 3 names for policies and for roles; all 13x13 pairs of valid sets over {proxy-defaults http, service-defaults http, service-router, ingress-gateway http listener} x 2 input orders; each also replayed for up to 4 identical rounds to record whether retries converge. ACL rounds of parts A and B run through the real (*Server).replicateACLType (minimal Server, replicator doubles embedding the production replicators); a rejected round is attributed by replaying the same diff deletions-first. Part D: 12 (quick) / 90 (thorough) rounds per ACL type whose upserts need 2-6 size-cut batches (6-12 objects of 60-300 KiB among small ones; batch ends at the first, a middle, the second-to-last element, exactly on the limit, inside a run of ~2000 small objects) and whose deletions need up to 3 count-cut batches (0/300/4096/4097/8200+ objects only the secondary has), as initial, incremental and index-went-backwards rounds through the real replicateACLType; then a second incremental round and a full sync must write nothing. Part C: a real primary/secondary server pair, the primary walked through 150 (quick) / 1200 (thorough) states of a 6-slot config-entry universe via its endpoints, one real replicateConfig round judged per step.")
	run.Assume(
		"parts A/B, ACL types: replicateACLType, deleteLocalACLType, updateLocalACLType, diffACLType, SortState/Meta accessors, ensureRemoteConsistent, FetchLocal and the role FetchUpdated are the production code; DeleteLocalBatch/UpdateLocalBatch need raft, the doubles submit the same request structs (copied field for field) to the secondary's real fsm.FSM (msgpack encode + production decode)",
		"parts A/B, config entries: replicateConfig cannot run without a primary server; the monitor replays its delete-then-upsert order and reconcileLocalConfig's loop (exported-services skipped, errors accumulated) against a real fsm.FSM; part C runs the real replicateConfig on a real server pair",
		"FetchRemote/FetchUpdated of tokens and policies are RPCs to the primary: the remote list is built from objects constructed the way the primary's endpoints construct them (SetHash / Normalize+Validate, raft indexes as stored) and FetchUpdated is answered from those objects by id; the role replicator's FetchUpdated and every ensureRemoteConsistent are the production code",
		"the secondary's own modify index of a local object is not an input of the diff; it is drawn per case from {1,5,9}",
		"CE build: one partition/namespace")
	seed := core.Seed()
	rng := core.NewRand(seed)
	types := []*zvType{zvTokenType, zvPolicyType, zvRoleType, zvConfigType}

	workers := runtime.GOMAXPROCS(0)
	if workers > 16 {
		workers = 16
	}
	// a few verbatim samples, taken deterministically before the parallel part
	for _, ty := range types {
		sr := rng.Fork(77)
		for {
			c, ok := zvDecode(ty.name, int64(sr.U64()%uint64(zvSpace)), seed)
			if ok && c.Local != [4]int{} && c.Remote != [4]int{} {
				run.Sample(c)
				break
			}
		}
	}
	sink := &zvSink{}
	for ti, ty := range types {
		if run.Violations() > 30 {
			break
		}
		if core.Thorough() {
			zvParallel(workers, zvSpace, func(pool zvPool, n int64) {
				if c, ok := zvDecode(ty.name, n, seed); ok && sink.n() <= 30 {
					zvRunCase(run, sink, pool, ty, &c)
				}
			})
		} else {
			tr := rng.Fork(uint64(1000 + ti))
			var list []zvCase
			for len(list) < 20000 {
				if c, ok := zvDecode(ty.name, int64(tr.U64()%uint64(zvSpace)), seed); ok {
					list = append(list, c)
				}
			}
			zvParallel(workers, int64(len(list)), func(pool zvPool, i int64) {
				if sink.n() <= 30 {
					zvRunCase(run, sink, pool, ty, &list[i])
				}
			})
		}
		sink.flush(run)
	}
	zvPartB(run, sink)
	sink.flush(run)
	zvPartD(run, sink, workers)
	zvPartE(run)
	sink.flush(run)
	zvPartC(t, run, sink)
	sink.flush(run)
	run.Extra("enumeration_space_per_type", zvSpace)
	run.Extra("exhaustive", core.Thorough())

	for _, ty := range types {
		run.Floor("cases:"+ty.name, core.N(20000, 700000))
	}
	run.FloorDistinct("class", 50)
	run.Floor("fsm-requests-applied", 20000)
	run.Floor("class:already-equal", 100)
	run.Floor("class:unmigrated-local", 500)
	run.Floor("class:unmigrated-remote", 500)
	if run.Finish() == 1 {
		t.Fail()
	}
}
