//go:build verif

// C19 part E - stale reads of the primary. A policy round reads the primary twice with AllowStale (the list,
// then the batch read of what the diff wants); the two answers may come from different servers. The batch
// read of a lagging server holds an OLDER version of a policy than the list announced. Whatever the round
// does with such an answer (production refuses it: ensureRemoteConsistent), the NEXT round that reads fresh
// data must make the secondary equal to the primary: a round may fail, but it may not record an index for
// content it did not apply.
package consul

import (
	"fmt"

	"github.com/hashicorp/consul/agent/structs"
	"github.com/hashicorp/consul/zzverif/core"
	"github.com/hashicorp/consul/zzverif/fsmkit"
)

type zvStalePolicyDouble struct {
	*zvPolicyDouble
	stale map[string]*structs.ACLPolicy // answers of the lagging server, by id
}

func (d *zvStalePolicyDouble) FetchUpdated(srv *Server, updates []string) (int, error) {
	n, err := d.zvPolicyDouble.FetchUpdated(srv, updates)
	for i, p := range d.updated {
		if s, ok := d.stale[p.ID]; ok {
			d.updated[i] = s
		}
	}
	return n, err
}

func zvStalePol(id byte, name, rules string, create, modify uint64) *structs.ACLPolicy {
	p := &structs.ACLPolicy{ID: fmt.Sprintf("5a1e0000-0000-0000-0000-0000000000%02x", id), Name: name, Rules: rules}
	p.CreateIndex, p.ModifyIndex = create, modify
	p.SetHash(true)
	return p
}

func zvPartE(run *core.Run) {
	type variant struct {
		name                     string
		create1, mod1, mod2      uint64 // the updated policy: created, first version, second version
		otherMod                 uint64 // an unrelated policy updated in the same window (moves the list index)
		staleIsAbsent            bool   // the lagging server does not know the policy at all (created after its state)
		alsoNew                  bool   // a further policy is created in the primary in the same window
		lastAfterRound1IsListIdx bool
	}
	var vs []variant
	for _, c := range []uint64{3, 10} {
		for _, m1 := range []uint64{0, 4} {
			for _, d := range []uint64{1, 7} {
				for _, an := range []bool{false, true} {
					vs = append(vs, variant{name: fmt.Sprintf("create%d+mod%d+update%d new=%v", c, m1, d, an), create1: c, mod1: c + m1, mod2: c + m1 + d, alsoNew: an})
				}
			}
		}
	}
	for vi, v := range vs {
		r := fsmkit.New(fsmkit.Opts{})
		a1 := zvStalePol(1, "stale-a", `key "a" { policy = "read" }`, v.create1, v.mod1)
		b := zvStalePol(2, "stale-b", `key "b" { policy = "read" }`, 2, 2)
		a2 := zvStalePol(1, "stale-a", `key "a" { policy = "write" }`, v.create1, v.mod2)
		p1 := []*structs.ACLPolicy{a1, b}
		p2 := []*structs.ACLPolicy{a2, b}
		if v.alsoNew {
			p2 = append(p2, zvStalePol(3, "stale-c", `key "c" { policy = "read" }`, v.mod2+1, v.mod2+1))
		}
		round := func(primary []*structs.ACLPolicy, last uint64, stale map[string]*structs.ACLPolicy) zvRound {
			var rd zvRound
			var maxMod uint64
			for _, p := range primary {
				if p.ModifyIndex > maxMod {
					maxMod = p.ModifyIndex
				}
			}
			ctl := &zvRoundCtl{r: r, rd: &rd, idx: 100 + last*10, remoteIndex: zvRemoteIndex(last, maxMod, false)}
			base := &zvPolicyDouble{aclPolicyReplicator: &aclPolicyReplicator{}, ctl: ctl, primary: primary}
			if stale == nil {
				zvProductionRound(ctl, base, last)
			} else {
				zvProductionRound(ctl, &zvStalePolicyDouble{zvPolicyDouble: base, stale: stale}, last)
			}
			return rd
		}
		// round 1: initial sync of state 1
		rd1 := round(p1, 0, nil)
		last := rd1.RoundIndex
		if rd1.RoundErr != "" || rd1.Panic != "" {
			run.Inconclusive(fmt.Sprintf("part E %s: the initial round failed: %s %s", v.name, rd1.RoundErr, rd1.Panic))
			r.Close()
			continue
		}
		// round 2: the list is fresh (state 2), the batch read comes from a server still at state 1
		rd2 := round(p2, last, map[string]*structs.ACLPolicy{a1.ID: a1})
		if rd2.RoundErr == "" && rd2.Panic == "" {
			last = rd2.RoundIndex // production: the index of a successful round becomes lastRemoteIndex
			run.Count("partE_stale_round_accepted")
		} else {
			run.Count("partE_stale_round_refused")
		}
		// round 3: everything fresh
		rd3 := round(p2, last, nil)
		run.Eval()
		run.Count("partE_cases")
		run.NonTrivial(core.Hash("E", v.name))
		var diffs []string
		for _, want := range p2 {
			_, got, _ := r.State().ACLPolicyGetByID(nil, want.ID, nil)
			switch {
			case got == nil:
				diffs = append(diffs, fmt.Sprintf("policy %s missing", want.Name))
			case got.Rules != want.Rules || string(got.Hash) != string(want.Hash):
				diffs = append(diffs, fmt.Sprintf("policy %s has rules %q, the primary has %q", want.Name, got.Rules, want.Rules))
			}
		}
		if len(diffs) > 0 {
			run.Violation("C19:policy-stale-batch-read:never-converges:content", fmt.Sprintf("part E variant %d (%s): after a round whose batch read was answered by a lagging server (round result: err=%q index=%d) and a further round with fresh reads (err=%q, %d writes), the secondary differs from the primary: %v", vi, v.name, rd2.RoundErr, rd2.RoundIndex, rd3.RoundErr, rd3.Applied, diffs),
				map[string]any{"variant": v.name, "round2": rd2, "round3": rd3, "differences": diffs})
		}
		r.Close()
	}
	run.Floor("partE_cases", 12)
}
