//go:build verif

// C19 — whole ACL replication ROUNDS through the production round code.
//
// (*Server).replicateACLType — fetch, backwards-index reset, diff, FetchUpdated, consistency check, the ORDER
// of the delete and update phases, deleteLocalACLType / updateLocalACLType batching and error propagation —
// is executed for real on a minimal *Server (config.ACLReplicationApplyLimit and the secondary's real fsm.FSM
// are all it reads). The replicator handed to it EMBEDS the production replicator type, so SortState,
// LocalMeta/RemoteMeta, ensureRemoteConsistent, the pending-update accessors, FetchLocal (reads srv.fsm) and
// the role FetchUpdated are the production methods; only what needs the WAN or raft is replaced:
// FetchRemote / FetchUpdated answer from the generated primary, DeleteLocalBatch / UpdateLocalBatch submit
// the request structs the production methods build to the secondary's FSM instead of leaderRaftApply.
package consul

import (
	"context"
	"fmt"

	"github.com/hashicorp/go-hclog"

	"github.com/hashicorp/consul/agent/structs"
	"github.com/hashicorp/consul/zzverif/core"
	"github.com/hashicorp/consul/zzverif/fsmkit"
)

var zvNullLogger = hclog.NewNullLogger()

type zvRoundCtl struct {
	r           *fsmkit.Replica
	rd          *zvRound
	idx         uint64
	remoteIndex uint64 // index the primary reports with its list
	shuffle     bool
	aux         uint64
}

func (c *zvRoundCtl) apply(op string, n int, t structs.MessageType, req any) error {
	c.idx++
	c.rd.Applied++
	c.rd.Ops = append(c.rd.Ops, op)
	c.rd.BatchLens = append(c.rd.BatchLens, n)
	if op == "delete" {
		c.rd.AppliedDel++
	}
	if err, ok := c.r.Apply(c.idx, t, req).(error); ok { // leaderRaftApply turns an error response into the error
		c.rd.Errs = append(c.rd.Errs, op+": "+err.Error())
		c.rd.ErrOps = append(c.rd.ErrOps, op)
		return err
	}
	return nil
}

// zvRemoteIndex: the index a primary reports is at least every item's modify index and, on a healthy primary,
// at least the index the secondary saw last. backwards: the primary was rebuilt and reports less than
// lastRemoteIndex (only generated when that is coherent with its items), which makes the round a full sync.
func zvRemoteIndex(last, maxMod uint64, backwards bool) uint64 {
	if backwards && maxMod < last {
		return maxMod
	}
	if maxMod > last {
		return maxMod
	}
	return last
}

// zvProductionRound runs the real replicateACLType.
func zvProductionRound(ctl *zvRoundCtl, tr aclTypeReplicator, last uint64) {
	rd := ctl.rd
	rd.ViaProduction = true
	rd.RemoteIndex = ctl.remoteIndex
	srv := &Server{config: &Config{ACLReplicationApplyLimit: 1000000}, fsm: ctl.r.FSM}
	defer func() {
		if p := recover(); p != nil {
			rd.Panic = fmt.Sprint(p)
		}
	}()
	idx, exit, err := srv.replicateACLType(context.Background(), zvNullLogger, tr, last)
	rd.RoundIndex, rd.Exit = idx, exit
	if err != nil {
		rd.RoundErr = err.Error()
	}
}

// ---------------- tokens ----------------

type zvTokenDouble struct {
	*aclTokenReplicator
	ctl                     *zvRoundCtl
	primary                 []*structs.ACLToken
	localEmpty, remoteEmpty int
}

func (d *zvTokenDouble) FetchRemote(_ *Server, _ uint64) (int, uint64, error) {
	// ACL.TokenList of the primary: stubs of its global tokens in store order (+ unmigrated leftovers)
	var stubs structs.ACLTokenListStubs
	for _, t := range d.primary {
		stubs = append(stubs, t.Stub())
	}
	for j := 0; j < d.remoteEmpty; j++ {
		stubs = append(stubs, &structs.ACLTokenListStub{SecretID: fmt.Sprintf("zv-legacy-remote-%d", j), Description: "unmigrated", Hash: []byte{byte(j), 1}, CreateIndex: 1, ModifyIndex: zvIdxVals[j%3]})
	}
	if d.ctl.shuffle {
		zvShuffle(stubs, core.NewRand(d.ctl.aux))
	}
	d.remote = stubs
	return len(stubs), d.ctl.remoteIndex, nil
}

func (d *zvTokenDouble) FetchLocal(srv *Server) (int, uint64, error) {
	_, idx, err := d.aclTokenReplicator.FetchLocal(srv) // production read of srv.fsm.State()
	for j := 0; j < d.localEmpty; j++ {
		d.local = append(d.local, &structs.ACLToken{SecretID: fmt.Sprintf("zv-legacy-local-%d", j), Description: "unmigrated", Hash: []byte{byte(j), 2}, RaftIndex: structs.RaftIndex{CreateIndex: 1, ModifyIndex: 1}})
	}
	if d.ctl.shuffle {
		zvShuffle(d.local, core.NewRand(d.ctl.aux^0x5bd1e995))
	}
	return len(d.local), idx, err
}

func (d *zvTokenDouble) FetchUpdated(_ *Server, updates []string) (int, error) {
	// ACL.TokenBatchRead: the primary's tokens with these accessors; unknown ids are simply absent
	d.ctl.rd.Upserts = append([]string{}, updates...)
	d.updated = nil
	for _, id := range updates {
		for _, t := range d.primary {
			if t.AccessorID == id {
				d.updated = append(d.updated, t)
			}
		}
	}
	return len(d.updated), nil
}

func (d *zvTokenDouble) DeleteLocalBatch(_ *Server, batch []string) error {
	d.ctl.rd.Deletes = append(d.ctl.rd.Deletes, batch...)
	return d.ctl.apply("delete", len(batch), structs.ACLTokenDeleteRequestType, &structs.ACLTokenBatchDeleteRequest{TokenIDs: batch})
}

func (d *zvTokenDouble) UpdateLocalBatch(_ context.Context, _ *Server, start, end int) error {
	return d.ctl.apply("upsert", end-start, structs.ACLTokenSetRequestType, &structs.ACLTokenBatchSetRequest{Tokens: d.updated[start:end], CAS: false, AllowMissingLinks: true, FromReplication: true})
}

func zvTokenRound(r *fsmkit.Replica, primary []*structs.ACLToken, last uint64, shuffle bool, aux uint64, localEmpty, remoteEmpty int, backwards bool) (rd zvRound) {
	var maxMod uint64
	for _, t := range primary {
		if t.ModifyIndex > maxMod {
			maxMod = t.ModifyIndex
		}
	}
	ctl := &zvRoundCtl{r: r, rd: &rd, idx: 100, remoteIndex: zvRemoteIndex(last, maxMod, backwards), shuffle: shuffle, aux: aux}
	zvProductionRound(ctl, &zvTokenDouble{aclTokenReplicator: &aclTokenReplicator{}, ctl: ctl, primary: primary, localEmpty: localEmpty, remoteEmpty: remoteEmpty}, last)
	return
}

// ---------------- policies ----------------

type zvPolicyDouble struct {
	*aclPolicyReplicator
	ctl     *zvRoundCtl
	primary []*structs.ACLPolicy
}

func (d *zvPolicyDouble) FetchRemote(_ *Server, _ uint64) (int, uint64, error) {
	var stubs structs.ACLPolicyListStubs // ACL.PolicyList
	for _, p := range d.primary {
		stubs = append(stubs, p.Stub())
	}
	if d.ctl.shuffle {
		zvShuffle(stubs, core.NewRand(d.ctl.aux))
	}
	d.remote = stubs
	return len(stubs), d.ctl.remoteIndex, nil
}

func (d *zvPolicyDouble) FetchLocal(srv *Server) (int, uint64, error) {
	n, idx, err := d.aclPolicyReplicator.FetchLocal(srv)
	if d.ctl.shuffle {
		zvShuffle(d.local, core.NewRand(d.ctl.aux^0x5bd1e995))
	}
	return n, idx, err
}

func (d *zvPolicyDouble) FetchUpdated(_ *Server, updates []string) (int, error) {
	d.ctl.rd.Upserts = append([]string{}, updates...)
	d.updated = nil
	for _, id := range updates { // ACL.PolicyBatchRead
		for _, p := range d.primary {
			if p.ID == id {
				d.updated = append(d.updated, p)
			}
		}
	}
	return len(d.updated), nil
}

func (d *zvPolicyDouble) DeleteLocalBatch(_ *Server, batch []string) error {
	d.ctl.rd.Deletes = append(d.ctl.rd.Deletes, batch...)
	return d.ctl.apply("delete", len(batch), structs.ACLPolicyDeleteRequestType, &structs.ACLPolicyBatchDeleteRequest{PolicyIDs: batch})
}

func (d *zvPolicyDouble) UpdateLocalBatch(_ context.Context, _ *Server, start, end int) error {
	return d.ctl.apply("upsert", end-start, structs.ACLPolicySetRequestType, &structs.ACLPolicyBatchSetRequest{Policies: d.updated[start:end]})
}

func zvPolicyRound(r *fsmkit.Replica, primary []*structs.ACLPolicy, last uint64, shuffle bool, aux uint64, backwards bool) (rd zvRound) {
	var maxMod uint64
	for _, p := range primary {
		if p.ModifyIndex > maxMod {
			maxMod = p.ModifyIndex
		}
	}
	ctl := &zvRoundCtl{r: r, rd: &rd, idx: 100, remoteIndex: zvRemoteIndex(last, maxMod, backwards), shuffle: shuffle, aux: aux}
	zvProductionRound(ctl, &zvPolicyDouble{aclPolicyReplicator: &aclPolicyReplicator{}, ctl: ctl, primary: primary}, last)
	return
}

// ---------------- roles ----------------

type zvRoleDouble struct {
	*aclRoleReplicator
	ctl     *zvRoundCtl
	primary structs.ACLRoles
}

func (d *zvRoleDouble) FetchRemote(_ *Server, _ uint64) (int, uint64, error) {
	remote := append(structs.ACLRoles{}, d.primary...) // ACL.RoleList returns full roles
	if d.ctl.shuffle {
		zvShuffle(remote, core.NewRand(d.ctl.aux))
	}
	d.remote = remote
	return len(remote), d.ctl.remoteIndex, nil
}

func (d *zvRoleDouble) FetchLocal(srv *Server) (int, uint64, error) {
	n, idx, err := d.aclRoleReplicator.FetchLocal(srv)
	if d.ctl.shuffle {
		zvShuffle(d.local, core.NewRand(d.ctl.aux^0x5bd1e995))
	}
	return n, idx, err
}

func (d *zvRoleDouble) FetchUpdated(srv *Server, updates []string) (int, error) {
	d.ctl.rd.Upserts = append([]string{}, updates...)
	return d.aclRoleReplicator.FetchUpdated(srv, updates) // production: re-uses the remote list, needs no server
}

func (d *zvRoleDouble) DeleteLocalBatch(_ *Server, batch []string) error {
	d.ctl.rd.Deletes = append(d.ctl.rd.Deletes, batch...)
	return d.ctl.apply("delete", len(batch), structs.ACLRoleDeleteRequestType, &structs.ACLRoleBatchDeleteRequest{RoleIDs: batch})
}

func (d *zvRoleDouble) UpdateLocalBatch(_ context.Context, _ *Server, start, end int) error {
	return d.ctl.apply("upsert", end-start, structs.ACLRoleSetRequestType, &structs.ACLRoleBatchSetRequest{Roles: d.updated[start:end], AllowMissingLinks: true})
}

func zvRoleRound(r *fsmkit.Replica, primary structs.ACLRoles, last uint64, shuffle bool, aux uint64, backwards bool) (rd zvRound) {
	var maxMod uint64
	for _, ro := range primary {
		if ro.ModifyIndex > maxMod {
			maxMod = ro.ModifyIndex
		}
	}
	ctl := &zvRoundCtl{r: r, rd: &rd, idx: 100, remoteIndex: zvRemoteIndex(last, maxMod, backwards), shuffle: shuffle, aux: aux}
	zvProductionRound(ctl, &zvRoleDouble{aclRoleReplicator: &aclRoleReplicator{}, ctl: ctl, primary: primary}, last)
	return
}
