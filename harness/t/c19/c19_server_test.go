//go:build verif

// C19 part C — config-entry replication ROUNDS through the production round code of a real secondary.
//
// replicateConfig reaches the primary through a Server method (fetchConfigEntries -> s.RPC) and writes
// through raft (reconcileLocalConfig -> leaderRaftApply), so there is nothing to substitute: a real primary
// (dc1) and a real secondary (dc2) are started in process and joined over the WAN, the secondary's background
// config replicator is stopped, and every round is ONE call of the real (*Server).replicateConfig with the
// index the previous round returned. The primary is moved from state to state through its public endpoints
// (ConfigEntry.Apply / ConfigEntry.Delete, which validate), so every (local, remote, lastRemoteIndex) triple
// is history-consistent by construction. Judged after each round: the secondary's config entries (except
// exported-services) equal the primary's by (kind, name, hash, content); a sentinel KV row and the ACL tables
// of the secondary are byte-identical; an unchanged primary causes no write. A failed round is attributed by
// replaying the same (local, remote) pair through the monitor's own deletions-first reference application.
package consul

import (
	"context"
	"fmt"
	"strings"
	"testing"
	"time"

	"github.com/hashicorp/consul/agent/consul/state"
	"github.com/hashicorp/consul/agent/structs"
	"github.com/hashicorp/consul/testrpc"
	"github.com/hashicorp/consul/zzverif/core"
	"github.com/hashicorp/consul/zzverif/dump"
)

// state of the primary: one value per slot
//
//	0 proxy-defaults/global      0 absent | 1 protocol=http
//	1 service-defaults/zvg       0 absent | 1 protocol=http | 2 protocol=tcp
//	2 service-router/zvg         0 absent | 1 present        (needs zvg to be http)
//	3 ingress-gateway/zvig       0 absent | 1 http listener for zvg (needs zvg to be http)
//	4 service-defaults/zvb       0 absent | 1 meta x | 2 meta y (independent of the others)
//	5 exported-services/default  0 absent | 1 present        (primary only; never replicated)
type zvSrvState [6]int

var zvSrvArity = [6]int{2, 3, 2, 2, 3, 2}

func (st zvSrvState) valid() bool {
	http := st[1] == 1 || (st[1] == 0 && st[0] == 1)
	return http || (st[2] == 0 && st[3] == 0)
}

func (st zvSrvState) String() string {
	var out []string
	for slot, v := range st {
		if v != 0 {
			out = append(out, zvSrvName(slot, v))
		}
	}
	return "{" + strings.Join(out, " ") + "}"
}

func zvSrvName(slot, v int) string {
	switch slot {
	case 0:
		return "proxy-defaults/global(http)"
	case 1:
		return "service-defaults/zvg(" + []string{"", "http", "tcp"}[v] + ")"
	case 2:
		return "service-router/zvg"
	case 3:
		return "ingress-gateway/zvig(http->zvg)"
	case 4:
		return "service-defaults/zvb(" + zvContent[v-1] + ")"
	}
	return "exported-services/default"
}

func zvSrvEntry(slot, v int) structs.ConfigEntry {
	var e structs.ConfigEntry
	switch slot {
	case 0, 2, 3:
		return zvGraphEntry(slot, 0)
	case 1:
		e = &structs.ServiceConfigEntry{Kind: structs.ServiceDefaults, Name: "zvg", Protocol: []string{"", "http", "tcp"}[v]}
	case 4:
		e = &structs.ServiceConfigEntry{Kind: structs.ServiceDefaults, Name: "zvb", Meta: map[string]string{"zv": zvContent[v-1]}}
	default:
		return zvExported("primary", 0)
	}
	zvMust(e.Normalize())
	zvMust(e.Validate())
	return e
}

func zvSrvStates() (out []zvSrvState) {
	var rec func(slot int, st zvSrvState)
	rec = func(slot int, st zvSrvState) {
		if slot == 6 {
			if st.valid() {
				out = append(out, st)
			}
			return
		}
		for v := 0; v < zvSrvArity[slot]; v++ {
			st[slot] = v
			rec(slot+1, st)
		}
	}
	rec(0, zvSrvState{})
	return
}

// zvSrvRef: the monitor's reference application (diffConfigEntries, deletions first, kind order) of the pair
// on a fresh FSM-backed secondary. true = one such round makes the secondary equal to the primary.
func zvSrvRef(from, to zvSrvState) (ok bool, rd zvRound) {
	env := zvPool(nil).get(zvConfigType)
	defer env.r.Close()
	s := env.r.State()
	for _, slot := range []int{0, 1, 4, 2, 3} { // dependency order
		if from[slot] != 0 {
			zvMust(s.EnsureConfigEntry(3, zvSrvEntry(slot, from[slot])))
		}
	}
	var remote []structs.ConfigEntry
	want := map[string]string{}
	for slot, v := range to {
		if v != 0 {
			e := zvSrvEntry(slot, v)
			e.GetRaftIndex().CreateIndex, e.GetRaftIndex().ModifyIndex = 1, 5
			remote = append(remote, e)
			if slot != 5 {
				want[zvCfgKey(e)] = zvCfgRender(e)
			}
		}
	}
	rd = zvConfigRound(env.r, remote, 0, false, 0)
	cl, _ := zvMapDiff(zvCfgSet(s, false), want)
	return cl == "" && len(rd.Errs) == 0 && rd.Panic == "", rd
}

type zvSrvStep struct {
	Step          int               `json:"step"`
	From          string            `json:"secondary_holds"`
	To            string            `json:"primary_moved_to"`
	Last          uint64            `json:"last_remote_index"`
	PrimaryWrites int               `json:"primary_writes"`
	RoundErr      string            `json:"round_error,omitempty"`
	RoundIndex    uint64            `json:"round_returned_index"`
	Primary       map[string]string `json:"primary"`
	Before        map[string]string `json:"secondary_before"`
	After         map[string]string `json:"secondary_after"`
	RefOK         bool              `json:"deletions_first_reference_succeeds"`
	RetryRounds   int               `json:"further_rounds_until_equal"`
}

type zvSrvPair struct {
	t      *testing.T
	s1, s2 *Server
	cur    zvSrvState // what the primary holds
}

func (p *zvSrvPair) apply(slot, v int) {
	var out bool
	req := structs.ConfigEntryRequest{Datacenter: "dc1", Op: structs.ConfigEntryUpsert, Entry: zvSrvEntry(slot, v)}
	if err := p.s1.RPC(context.Background(), "ConfigEntry.Apply", &req, &out); err != nil {
		p.t.Fatalf("zv harness: primary refused %s while at %v: %v", zvSrvName(slot, v), p.cur, err)
	}
	p.cur[slot] = v
}

func (p *zvSrvPair) del(slot int) {
	var out structs.ConfigEntryDeleteResponse
	req := structs.ConfigEntryRequest{Datacenter: "dc1", Op: structs.ConfigEntryDelete, Entry: zvSrvEntry(slot, p.cur[slot])}
	if err := p.s1.RPC(context.Background(), "ConfigEntry.Delete", &req, &out); err != nil {
		p.t.Fatalf("zv harness: primary refused to delete %s while at %v: %v", zvSrvName(slot, p.cur[slot]), p.cur, err)
	}
	p.cur[slot] = 0
}

// move takes the primary to `to` through valid intermediate states; returns the number of writes.
func (p *zvSrvPair) move(to zvSrvState) (n int) {
	set := func(slot, v int) {
		switch {
		case v == p.cur[slot]:
		case v == 0:
			p.del(slot)
			n++
		default:
			p.apply(slot, v)
			n++
		}
	}
	// 1. dependents that go away
	for _, slot := range []int{2, 3} {
		if to[slot] == 0 {
			set(slot, 0)
		}
	}
	// 2. protocol providers; dependents that stay need zvg to be http at every step (then `to` is http as well)
	if to[1] == 1 {
		set(1, 1)
	}
	if to[0] == 1 {
		set(0, 1)
	}
	set(1, to[1]) // absent (proxy-defaults http is in place if anything depends on it) or tcp (nothing depends on it)
	set(0, to[0])
	// 3. dependents that arrive, and the independent entries
	for _, slot := range []int{2, 3, 4, 5} {
		set(slot, to[slot])
	}
	if p.cur != to {
		p.t.Fatalf("zv harness: primary at %v instead of %v", p.cur, to)
	}
	return
}

func zvSrvSet(s *Server) (set map[string]string, mod map[string]uint64, tableIdx uint64) {
	idx, l, err := s.fsm.State().ConfigEntries(nil, structs.ReplicationEnterpriseMeta())
	zvMust(err)
	set, mod = map[string]string{}, map[string]uint64{}
	for _, e := range l {
		if e.GetKind() != structs.ExportedServices {
			set[zvCfgKey(e)] = zvCfgRender(e)
			mod[zvCfgKey(e)] = e.GetRaftIndex().ModifyIndex
		}
	}
	return set, mod, idx
}

// rows of the secondary that no config replication round may touch (tables no background routine of an idle
// server writes to)
func zvSrvForeign(s *state.Store) string {
	d := dump.Of(s)
	var sb strings.Builder
	for _, t := range []string{"kvs", "tombstones", "acl-tokens", "acl-policies", "acl-roles", "acl-binding-rules", "acl-auth-methods", "prepared-queries", "sessions", "peering"} {
		sb.WriteString("#" + t + "\n" + strings.Join(d.Tables[t], "\n") + "\n")
	}
	return sb.String()
}

func zvPartCRun(st *testing.T, run *core.Run, sink *zvSink, steps int, budget time.Duration) {
	_, s1 := testServerWithConfig(st, func(c *Config) {
		c.PrimaryDatacenter = "dc1"
		c.DefaultQueryTime = 2 * time.Second
		c.MaxQueryTime = 3 * time.Second
	})
	testrpc.WaitForLeader(st, s1.RPC, "dc1")
	_, s2 := testServerWithConfig(st, func(c *Config) {
		c.Datacenter = "dc2"
		c.PrimaryDatacenter = "dc1"
		c.ConfigReplicationRate = 100
		c.ConfigReplicationBurst = 100
		c.ConfigReplicationApplyLimit = 1000000
	})
	testrpc.WaitForLeader(st, s2.RPC, "dc2")
	joinWAN(st, s2, s1)
	testrpc.WaitForLeader(st, s1.RPC, "dc1")
	testrpc.WaitForLeader(st, s1.RPC, "dc2")

	p := &zvSrvPair{t: st, s1: s1, s2: s2}
	// park the background replicator: cancel it, then wake its blocking fetch with a primary write
	stopped := s2.leaderRoutineManager.Stop(configReplicationRoutineName)
	p.apply(4, 1)
	select {
	case <-stopped:
	case <-time.After(90 * time.Second):
		st.Fatalf("zv harness: background config replicator did not stop")
	}
	p.del(4)
	{ // sentinel row in the secondary
		var ok bool
		req := structs.KVSRequest{Datacenter: "dc2", Op: "set", DirEnt: structs.DirEntry{Key: "zv/sentinel", Value: []byte("s")}}
		if err := s2.RPC(context.Background(), "KVS.Apply", &req, &ok); err != nil {
			st.Fatalf("zv harness: sentinel write: %v", err)
		}
	}
	ctx := context.Background()
	round := func(last uint64) (uint64, string) {
		idx, exit, err := s2.replicateConfig(ctx, last, zvNullLogger)
		switch {
		case err != nil:
			return 0, err.Error()
		case exit:
			return 0, "round asked to exit although its context was never cancelled"
		}
		return idx, ""
	}
	// bring the secondary level with the (empty) primary
	last, e := round(0)
	if set, _, _ := zvSrvSet(s2); e != "" || len(set) != 0 {
		st.Fatalf("zv harness: initial round: %q %v", e, set)
	}

	states := zvSrvStates()
	rng := core.NewRand(core.Seed()).Fork(0xC19C)
	// the first transitions are fixed (each known order-sensitive shape once), the rest is a seeded walk
	script := []zvSrvState{
		{1, 0, 0, 1, 0, 0}, {0, 0, 0, 0, 0, 0}, // create provider + gateway in one round; delete both
		{1, 0, 1, 0, 1, 0}, {0, 0, 0, 0, 1, 0}, // delete provider + router in one round
		{0, 1, 1, 0, 1, 0}, {0, 2, 0, 0, 2, 0}, // router deleted while its provider flips to tcp
		{0, 1, 0, 1, 2, 1}, {1, 0, 1, 1, 0, 1}, // provider replaced by another one while dependents stay
		{0, 0, 0, 0, 0, 0},
	}
	start := time.Now()
	secondary := zvSrvState{}
	for step := 0; step < steps; step++ {
		if time.Since(start) > budget {
			run.Inconclusive(fmt.Sprintf("part C: watchdog after %d of %d steps", step, steps))
			break
		}
		var to zvSrvState
		switch {
		case step < len(script):
			to = script[step]
		case rng.Chance(8):
			to = p.cur // unchanged primary
		default:
			to = states[rng.Intn(len(states))]
		}
		from := secondary
		fromRepl := from
		fromRepl[5] = 0
		before, modBefore, tblBefore := zvSrvSet(s2)
		foreignBefore := zvSrvForeign(s2.fsm.State())
		writes := p.move(to)
		useLast := last
		if writes == 0 {
			useLast = 0 // nothing to wake a blocking fetch: judge the full sync of an unchanged primary
		}
		want, _, _ := zvSrvSet(s1)
		idx, rerr := round(useLast)
		after, modAfter, tblAfter := zvSrvSet(s2)
		info := &zvSrvStep{Step: step, From: fromRepl.String(), To: to.String(), Last: useLast, PrimaryWrites: writes, RoundErr: rerr, RoundIndex: idx, Primary: want, Before: before, After: after}
		desc := fmt.Sprintf("config (server pair) step %d: secondary holds %v, primary moved to %v with %d writes, lastRemoteIndex=%d", step, fromRepl, to, writes, useLast)
		viol := func(key, what string) { sink.add(key, desc+": "+what, info, int64(step)) }

		run.Eval()
		run.Count("partC:rounds-through-replicateConfig")
		cl, d := zvMapDiff(after, want)
		equalBefore := func() bool { c, _ := zvMapDiff(before, want); return c == "" }()
		if rerr != "" {
			run.Count("partC:round-returned-error")
			op := "other"
			for _, o := range []string{"delete", "upsert"} {
				if strings.Contains(rerr, "Failed to apply config entry "+o) {
					op = o
					break
				}
			}
			refOK, _ := zvSrvRef(fromRepl, to)
			info.RefOK = refOK
			switch {
			case refOK:
				viol("C19:config-server:round-failed-though-deletions-first-succeeds:"+op, "replicateConfig failed ("+rerr+") although applying the same deletions and then the same upserts makes the secondary equal to the primary")
			case op == "other":
				viol("C19:config-server:round-error", "replicateConfig failed: "+rerr)
			default:
				// the order-within-a-phase finding of part B, seen through the real round
				viol("C19:config-graph:apply-rejected:"+op, "replicateConfig failed: "+rerr)
			}
		} else if cl != "" {
			refOK, _ := zvSrvRef(fromRepl, to)
			info.RefOK = refOK
			viol("C19:config-server:replicated-set-differs:"+cl, "the round reported success but "+d)
		}
		if equalBefore {
			run.Count("partC:already-equal")
			if fmt.Sprint(modBefore) != fmt.Sprint(modAfter) || tblBefore != tblAfter {
				viol("C19:config-server:write-when-equal", fmt.Sprintf("the secondary already equalled the primary but was written: modify indexes %v -> %v, table index %d -> %d", modBefore, modAfter, tblBefore, tblAfter))
			}
		}
		if fa := zvSrvForeign(s2.fsm.State()); fa != foreignBefore {
			viol("C19:config-server:other-table-touched", "rows outside the config entries changed: "+dump.FieldDiff(foreignBefore, fa))
		}
		if writes > 0 && len(before) > 0 && len(want) > 0 && !equalBefore {
			run.NonTrivial(core.Hash("C", fromRepl.String(), to.String()))
		}
		run.Distinct("partC-transition", fromRepl.String()+"->"+to.String())
		// re-synchronise like Replicator.Run does after an error: full syncs until equal
		if rerr == "" && cl == "" {
			last = idx
		} else {
			synced := false
			for i := 1; i <= 4 && !synced; i++ {
				idx, e := round(0)
				got, _, _ := zvSrvSet(s2)
				if c, _ := zvMapDiff(got, want); e == "" && c == "" {
					synced, last, info.RetryRounds = true, idx, i
				}
			}
			if !synced {
				info.RetryRounds = -1
				viol("C19:config-server:never-converges", "4 further full-sync rounds do not make the secondary equal to the primary")
				st.Fatalf("zv: secondary cannot be re-synchronised; part C stops")
			}
			run.Count("partC:equal-only-after-retries")
		}
		secondary = to
	}
}

// zvPartC runs the server tier in a sub-test so that an infrastructure failure (ports, leader election under
// load) ends only the tier: it is then retried once and otherwise left to the coverage floor.
func zvPartC(t *testing.T, run *core.Run, sink *zvSink) {
	steps := core.N(150, 1200)
	budget := time.Duration(core.N(240, 900)) * time.Second
	for attempt := 1; attempt <= 2; attempt++ {
		before := run.Counter("partC:rounds-through-replicateConfig")
		done := false
		t.Run(fmt.Sprintf("zvserver%d", attempt), func(st *testing.T) {
			zvPartCRun(st, run, sink, steps, budget)
			done = true
		})
		if done || run.Counter("partC:rounds-through-replicateConfig")-before >= steps/2 {
			break
		}
		run.Inconclusive(fmt.Sprintf("part C attempt %d: the server pair could not be driven to the end", attempt))
	}
	run.Floor("partC:rounds-through-replicateConfig", steps*2/3)
}
