//go:build verif

// C10 (server tier) - conditional writes through the RPC endpoints of a real single-node server. The store
// tier (group c10) applies FSM commands; the "reported" half of the property is however produced by the
// endpoints (KVS.Apply, Txn.Apply, ConfigEntry.Apply / Delete, Operator.AutopilotSetConfiguration,
// Operator.FeatureGateSet), which add pre-checks and idempotency shortcuts of their own in front of raft.
//
// Per case: the entity is brought into an enumerated pre-state, its current index is read through the read
// endpoint, the conditional write is sent with an enumerated supplied index, and the reply is compared with
// matched(pre-state, supplied index); the entity is read back and a projection of the store (the tables of
// the family and their index rows) is compared before / after.
package consul

import (
	"context"
	"fmt"
	"sort"
	"strings"
	"testing"
	"time"

	"github.com/hashicorp/consul/agent/netutil"
	"github.com/hashicorp/consul/agent/structs"
	"github.com/hashicorp/consul/api"
	"github.com/hashicorp/consul/zzverif/core"
	"github.com/hashicorp/consul/zzverif/dump"
)

type zv10Ent struct {
	family          string
	isDelete        bool // conditional delete
	noEffect        bool // pure check (check-index): never changes anything
	zeroMeansCreate bool // supplied 0 matches an absent entity
	singleton       bool // cannot be absent / removed
	tables          []string
	create          func(v int) error
	remove          func() error
	read            func() (exists bool, idx uint64, fp string)
	wantFP          func(v int) string // fingerprint after an applied conditional write of variant v
	cond            func(x uint64, v int) (reported bool, err error)
	sibling         func() (present bool) // txn families: an unconditional write in the same transaction
}

func zv10Proj(srv *Server, tables []string) string {
	d := dump.Of(srv.fsm.State())
	var sb strings.Builder
	for _, t := range tables {
		rows := append([]string{}, d.Tables[t]...)
		sort.Strings(rows)
		sb.WriteString("#" + t + "\n" + strings.Join(rows, "\n") + "\n")
	}
	var idx []string
	for _, r := range d.Tables["index"] {
		for _, t := range tables {
			if strings.Contains(r, `"`+t+`"`) || strings.Contains(r, `"`+t+".") || strings.Contains(r, "."+t+`"`) {
				idx = append(idx, r)
				break
			}
		}
	}
	sort.Strings(idx)
	sb.WriteString("#index\n" + strings.Join(idx, "\n") + "\n")
	return sb.String()
}

func zv10FirstDiff(a, b string) string {
	la, lb := strings.Split(a, "\n"), strings.Split(b, "\n")
	sa := map[string]bool{}
	for _, l := range la {
		sa[l] = true
	}
	sb := map[string]bool{}
	for _, l := range lb {
		sb[l] = true
	}
	var out []string
	for _, l := range la {
		if !sb[l] {
			out = append(out, "- "+l)
		}
	}
	for _, l := range lb {
		if !sa[l] {
			out = append(out, "+ "+l)
		}
	}
	if len(out) > 6 {
		out = out[:6]
	}
	s := strings.Join(out, " | ")
	if len(s) > 900 {
		s = s[:900] + "…"
	}
	return s
}

func TestZZVerifC10Server(t *testing.T) {
	run := core.NewRun("C10", "exploration",
		"server tier: every conditional write an RPC client can send to a real single-node server - KVS.Apply cas / delete-cas; Txn.Apply with KV cas / delete-cas / check-index and node / service / check cas and delete-cas verbs (each next to an unconditional sibling write in the same transaction); ConfigEntry.Apply upsert-cas and ConfigEntry.Delete delete-cas; Operator.AutopilotSetConfiguration with CAS; Operator.FeatureGateSet with an expected policy index - ENUMERATED over pre-state {absent, present, re-written, deleted-and-recreated} x supplied index {0, current, stale (earlier index of the same entity), future, index of an older other entity, index of a newer other entity} x content {different from, identical to the stored content}. Oracle: matched(pre-state, supplied) from the documented rule <=> the endpoint's reply reports success <=> the read-back shows the write; not matched => the family's tables and index rows are unchanged and the sibling write of the transaction is absent. non-trivial = case with a non-zero supplied index on an existing entity or create-only on an absent one; distinct by (family, pre-state, supplied class, content)")
	run.Assume("ACLs disabled (authorization is C08/C09); single-node cluster; the server's own background writes (CA initialisation, autopilot, self-registration) have settled before the first case: the first projection of every family is taken twice and must be stable")
	// the state store asks the local agent over HTTP for its bind address family (virtual IPs); nothing listens
	// in the sandbox, consul's own tests install the same substitute
	netutil.GetAgentBindAddrFunc = netutil.GetMockGetAgentBindAddrFunc("0.0.0.0")
	_, srv := testServer(t)
	defer srv.Shutdown()
	waitForLeaderEstablishment(t, srv)
	ctx := context.Background()
	rpc := func(m string, a, r any) error { return srv.RPC(ctx, m, a, r) }
	caseNo := 0

	// ---------------- entity constructors (fresh names per case)
	kvGet := func(key string) (bool, uint64, string) {
		var out structs.IndexedDirEntries
		if err := rpc("KVS.Get", &structs.KeyRequest{Datacenter: "dc1", Key: key}, &out); err != nil || len(out.Entries) == 0 {
			return false, 0, ""
		}
		e := out.Entries[0]
		return true, e.ModifyIndex, fmt.Sprintf("%s/%d", e.Value, e.Flags)
	}
	kvSet := func(key, val string) error {
		var ok bool
		return rpc("KVS.Apply", &structs.KVSRequest{Datacenter: "dc1", Op: api.KVSet, DirEnt: structs.DirEntry{Key: key, Value: []byte(val)}}, &ok)
	}
	kvDel := func(key string) error {
		var ok bool
		return rpc("KVS.Apply", &structs.KVSRequest{Datacenter: "dc1", Op: api.KVDelete, DirEnt: structs.DirEntry{Key: key}}, &ok)
	}
	lastTxnErrs := ""
	txn := func(ops ...*structs.TxnOp) (bool, error) {
		var out structs.TxnResponse
		if err := rpc("Txn.Apply", &structs.TxnRequest{Datacenter: "dc1", Ops: ops}, &out); err != nil {
			return false, err
		}
		lastTxnErrs = ""
		for _, e := range out.Errors {
			lastTxnErrs += e.What + "; "
		}
		return len(out.Errors) == 0, nil
	}
	kvTables := []string{"kvs", "tombstones"}
	catTables := []string{"nodes", "services", "checks"}
	val := func(v int) string { return fmt.Sprintf("val%d", v) }

	mkKV := func(mode string) func() *zv10Ent {
		return func() *zv10Ent {
			caseNo++
			key := fmt.Sprintf("c10/%s/%d", mode, caseNo)
			sib := key + ".sibling"
			e := &zv10Ent{family: mode, tables: kvTables, zeroMeansCreate: true,
				create: func(v int) error { return kvSet(key, val(v)) },
				remove: func() error { return kvDel(key) },
				read:   func() (bool, uint64, string) { return kvGet(key) },
				wantFP: func(v int) string { return val(v) + "/0" },
			}
			sibOp := &structs.TxnOp{KV: &structs.TxnKVOp{Verb: api.KVSet, DirEnt: structs.DirEntry{Key: sib, Value: []byte("s")}}}
			e.sibling = func() bool { ok, _, _ := kvGet(sib); return ok }
			switch mode {
			case "kv:cas":
				e.sibling = nil
				e.cond = func(x uint64, v int) (bool, error) {
					var ok bool
					err := rpc("KVS.Apply", &structs.KVSRequest{Datacenter: "dc1", Op: api.KVCAS, DirEnt: structs.DirEntry{Key: key, Value: []byte(val(v)), RaftIndex: structs.RaftIndex{ModifyIndex: x}}}, &ok)
					return ok, err
				}
			case "kv:delete-cas":
				e.sibling = nil
				e.isDelete, e.zeroMeansCreate = true, false
				e.cond = func(x uint64, v int) (bool, error) {
					var ok bool
					err := rpc("KVS.Apply", &structs.KVSRequest{Datacenter: "dc1", Op: api.KVDeleteCAS, DirEnt: structs.DirEntry{Key: key, RaftIndex: structs.RaftIndex{ModifyIndex: x}}}, &ok)
					return ok, err
				}
			case "txn:kv-cas":
				e.cond = func(x uint64, v int) (bool, error) {
					return txn(&structs.TxnOp{KV: &structs.TxnKVOp{Verb: api.KVCAS, DirEnt: structs.DirEntry{Key: key, Value: []byte(val(v)), RaftIndex: structs.RaftIndex{ModifyIndex: x}}}}, sibOp)
				}
			case "txn:kv-delete-cas":
				e.isDelete, e.zeroMeansCreate = true, false
				e.cond = func(x uint64, v int) (bool, error) {
					return txn(sibOp, &structs.TxnOp{KV: &structs.TxnKVOp{Verb: api.KVDeleteCAS, DirEnt: structs.DirEntry{Key: key, RaftIndex: structs.RaftIndex{ModifyIndex: x}}}})
				}
			case "txn:kv-check-index":
				e.noEffect, e.zeroMeansCreate = true, false
				e.cond = func(x uint64, v int) (bool, error) {
					return txn(sibOp, &structs.TxnOp{KV: &structs.TxnKVOp{Verb: api.KVCheckIndex, DirEnt: structs.DirEntry{Key: key, RaftIndex: structs.RaftIndex{ModifyIndex: x}}}})
				}
			}
			return e
		}
	}
	mkCatalog := func(mode string) func() *zv10Ent {
		return func() *zv10Ent {
			caseNo++
			node := fmt.Sprintf("cn%d", caseNo)
			sib := fmt.Sprintf("c10/cat/%d.sibling", caseNo)
			sibOp := &structs.TxnOp{KV: &structs.TxnKVOp{Verb: api.KVSet, DirEnt: structs.DirEntry{Key: sib, Value: []byte("s")}}}
			addr := func(v int) string { return fmt.Sprintf("10.1.0.%d", 1+v) }
			reg := func(v int, what string) error {
				var out struct{}
				req := &structs.RegisterRequest{Datacenter: "dc1", Node: node, Address: "10.1.0.1"}
				switch what {
				case "node":
					req.Address = addr(v)
				case "service":
					req.Service = &structs.NodeService{ID: "web", Service: "web", Port: 8000 + v}
				case "check":
					req.Check = &structs.HealthCheck{Node: node, CheckID: "c1", Name: "chk", Status: api.HealthPassing, Output: val(v)}
				}
				return rpc("Catalog.Register", req, &out)
			}
			dereg := func(what string) error {
				var out struct{}
				req := &structs.DeregisterRequest{Datacenter: "dc1", Node: node}
				switch what {
				case "service":
					req.ServiceID = "web"
				case "check":
					req.CheckID = "c1"
				}
				return rpc("Catalog.Deregister", req, &out)
			}
			what := strings.Split(strings.TrimPrefix(mode, "txn:"), "-")[0]
			e := &zv10Ent{family: mode, tables: append(append([]string{}, catTables...), kvTables...), zeroMeansCreate: true,
				create:  func(v int) error { return reg(v, what) },
				remove:  func() error { return dereg(what) },
				sibling: func() bool { ok, _, _ := kvGet(sib); return ok },
			}
			if what != "node" {
				// service / check cases live on an existing node
				reg(0, "")
			}
			switch what {
			case "node":
				e.read = func() (bool, uint64, string) {
					var out structs.IndexedNodeServices
					if err := rpc("Catalog.NodeServices", &structs.NodeSpecificRequest{Datacenter: "dc1", Node: node}, &out); err != nil || out.NodeServices == nil || out.NodeServices.Node == nil {
						return false, 0, ""
					}
					return true, out.NodeServices.Node.ModifyIndex, out.NodeServices.Node.Address
				}
				e.wantFP = addr
			case "service":
				e.read = func() (bool, uint64, string) {
					var out structs.IndexedNodeServices
					if err := rpc("Catalog.NodeServices", &structs.NodeSpecificRequest{Datacenter: "dc1", Node: node}, &out); err != nil || out.NodeServices == nil {
						return false, 0, ""
					}
					s := out.NodeServices.Services["web"]
					if s == nil {
						return false, 0, ""
					}
					return true, s.ModifyIndex, fmt.Sprint(s.Port)
				}
				e.wantFP = func(v int) string { return fmt.Sprint(8000 + v) }
			case "check":
				e.read = func() (bool, uint64, string) {
					var out structs.IndexedHealthChecks
					if err := rpc("Health.NodeChecks", &structs.NodeSpecificRequest{Datacenter: "dc1", Node: node}, &out); err != nil {
						return false, 0, ""
					}
					for _, c := range out.HealthChecks {
						if c.CheckID == "c1" {
							return true, c.ModifyIndex, c.Output
						}
					}
					return false, 0, ""
				}
				e.wantFP = val
			}
			ri := func(x uint64) structs.RaftIndex { return structs.RaftIndex{ModifyIndex: x} }
			switch mode {
			case "txn:node-cas":
				e.cond = func(x uint64, v int) (bool, error) {
					return txn(&structs.TxnOp{Node: &structs.TxnNodeOp{Verb: api.NodeCAS, Node: structs.Node{Node: node, Address: addr(v), Datacenter: "dc1", RaftIndex: ri(x)}}}, sibOp)
				}
			case "txn:node-delete-cas":
				e.isDelete, e.zeroMeansCreate = true, false
				e.cond = func(x uint64, v int) (bool, error) {
					return txn(sibOp, &structs.TxnOp{Node: &structs.TxnNodeOp{Verb: api.NodeDeleteCAS, Node: structs.Node{Node: node, RaftIndex: ri(x)}}})
				}
			case "txn:service-cas":
				e.cond = func(x uint64, v int) (bool, error) {
					return txn(&structs.TxnOp{Service: &structs.TxnServiceOp{Verb: api.ServiceCAS, Node: node, Service: structs.NodeService{ID: "web", Service: "web", Port: 8000 + v, RaftIndex: ri(x)}}}, sibOp)
				}
			case "txn:service-delete-cas":
				e.isDelete, e.zeroMeansCreate = true, false
				e.cond = func(x uint64, v int) (bool, error) {
					return txn(sibOp, &structs.TxnOp{Service: &structs.TxnServiceOp{Verb: api.ServiceDeleteCAS, Node: node, Service: structs.NodeService{ID: "web", Service: "web", RaftIndex: ri(x)}}})
				}
			case "txn:check-cas":
				e.cond = func(x uint64, v int) (bool, error) {
					return txn(&structs.TxnOp{Check: &structs.TxnCheckOp{Verb: api.CheckCAS, Check: structs.HealthCheck{Node: node, CheckID: "c1", Name: "chk", Status: api.HealthPassing, Output: val(v), RaftIndex: ri(x)}}}, sibOp)
				}
			case "txn:check-delete-cas":
				e.isDelete, e.zeroMeansCreate = true, false
				e.cond = func(x uint64, v int) (bool, error) {
					return txn(sibOp, &structs.TxnOp{Check: &structs.TxnCheckOp{Verb: api.CheckDeleteCAS, Check: structs.HealthCheck{Node: node, CheckID: "c1", RaftIndex: ri(x)}}})
				}
			}
			return e
		}
	}
	protos := []string{"tcp", "http", "grpc", "http2"}
	mkConfig := func(mode string) func() *zv10Ent {
		return func() *zv10Ent {
			caseNo++
			name := fmt.Sprintf("cfgsvc%d", caseNo)
			entry := func(v int, x uint64) structs.ConfigEntry {
				return &structs.ServiceConfigEntry{Kind: structs.ServiceDefaults, Name: name, Protocol: protos[v%len(protos)], RaftIndex: structs.RaftIndex{ModifyIndex: x}}
			}
			e := &zv10Ent{family: mode, tables: []string{"config-entries"}, zeroMeansCreate: true,
				create: func(v int) error {
					var ok bool
					return rpc("ConfigEntry.Apply", &structs.ConfigEntryRequest{Datacenter: "dc1", Op: structs.ConfigEntryUpsert, Entry: entry(v, 0)}, &ok)
				},
				remove: func() error {
					var out structs.ConfigEntryDeleteResponse
					return rpc("ConfigEntry.Delete", &structs.ConfigEntryRequest{Datacenter: "dc1", Op: structs.ConfigEntryDelete, Entry: entry(0, 0)}, &out)
				},
				read: func() (bool, uint64, string) {
					var out structs.ConfigEntryResponse
					if err := rpc("ConfigEntry.Get", &structs.ConfigEntryQuery{Datacenter: "dc1", Kind: structs.ServiceDefaults, Name: name}, &out); err != nil || out.Entry == nil {
						return false, 0, ""
					}
					return true, out.Entry.GetRaftIndex().ModifyIndex, out.Entry.(*structs.ServiceConfigEntry).Protocol
				},
				wantFP: func(v int) string { return protos[v%len(protos)] },
			}
			if mode == "config:upsert-cas" {
				e.cond = func(x uint64, v int) (bool, error) {
					var ok bool
					err := rpc("ConfigEntry.Apply", &structs.ConfigEntryRequest{Datacenter: "dc1", Op: structs.ConfigEntryUpsertCAS, Entry: entry(v, x)}, &ok)
					return ok, err
				}
			} else {
				e.isDelete, e.zeroMeansCreate = true, false
				e.cond = func(x uint64, v int) (bool, error) {
					var out structs.ConfigEntryDeleteResponse
					err := rpc("ConfigEntry.Delete", &structs.ConfigEntryRequest{Datacenter: "dc1", Op: structs.ConfigEntryDeleteCAS, Entry: entry(0, x)}, &out)
					return out.Deleted, err
				}
			}
			return e
		}
	}
	mkAutopilot := func() *zv10Ent {
		caseNo++
		get := func() (bool, uint64, string) {
			var out structs.AutopilotConfig
			if err := rpc("Operator.AutopilotGetConfiguration", &structs.DCSpecificRequest{Datacenter: "dc1"}, &out); err != nil {
				return false, 0, ""
			}
			return true, out.ModifyIndex, fmt.Sprint(out.MaxTrailingLogs)
		}
		set := func(v int, x uint64, cas bool) (bool, error) {
			var cur structs.AutopilotConfig
			if err := rpc("Operator.AutopilotGetConfiguration", &structs.DCSpecificRequest{Datacenter: "dc1"}, &cur); err != nil {
				return false, err
			}
			cur.MaxTrailingLogs = uint64(300 + v)
			cur.ModifyIndex = x
			var ok bool
			err := rpc("Operator.AutopilotSetConfiguration", &structs.AutopilotSetConfigRequest{Datacenter: "dc1", Config: cur, CAS: cas}, &ok)
			return ok, err
		}
		return &zv10Ent{family: "autopilot:cas", singleton: true, tables: []string{"autopilot-config"},
			create: func(v int) error { _, err := set(v, 0, false); return err },
			read:   get,
			wantFP: func(v int) string { return fmt.Sprint(300 + v) },
			cond:   func(x uint64, v int) (bool, error) { return set(v, x, true) },
		}
	}
	gateName := ""
	if defs := srv.featureGateRegistry.Definitions(); len(defs) > 0 {
		gateName = defs[0].Name
	}
	mkGate := func() *zv10Ent {
		caseNo++
		get := func() (bool, uint64, string) {
			var out structs.FeatureGateQueryResponse
			if err := rpc("Operator.FeatureGateGet", &structs.FeatureGateQueryRequest{Name: gateName, DCSpecificRequest: structs.DCSpecificRequest{Datacenter: "dc1"}}, &out); err != nil || out.Uninitialized || len(out.Features) == 0 {
				return false, 0, ""
			}
			f := out.Features[0]
			return true, f.PolicyIndex, fmt.Sprintf("%v/%s", f.DesiredEnabled, f.Source)
		}
		set := func(v int, x uint64) (bool, error) {
			var out structs.FeatureGateSetResponse
			err := rpc("Operator.FeatureGateSet", &structs.FeatureGateSetRequest{Datacenter: "dc1", Name: gateName, Enabled: v%2 == 1, ExpectedPolicyIndex: x}, &out)
			return out.Applied, err
		}
		return &zv10Ent{family: "feature-gate:set", singleton: true, tables: []string{"feature-gate-policy", "feature-gate-status"},
			create: func(v int) error { _, err := set(v, 0); return err },
			read:   get,
			wantFP: func(v int) string { return fmt.Sprintf("%v/%s", v%2 == 1, structs.FeatureGateSourceOperator) },
			cond:   func(x uint64, v int) (bool, error) { return set(v, x) },
		}
	}

	type fam struct {
		name string
		mk   func() *zv10Ent
	}
	fams := []fam{}
	for _, m := range []string{"kv:cas", "kv:delete-cas", "txn:kv-cas", "txn:kv-delete-cas", "txn:kv-check-index"} {
		fams = append(fams, fam{m, mkKV(m)})
	}
	for _, m := range []string{"txn:node-cas", "txn:node-delete-cas", "txn:service-cas", "txn:service-delete-cas", "txn:check-cas", "txn:check-delete-cas"} {
		fams = append(fams, fam{m, mkCatalog(m)})
	}
	fams = append(fams, fam{"config:upsert-cas", mkConfig("config:upsert-cas")}, fam{"config:delete-cas", mkConfig("config:delete-cas")}, fam{"autopilot:cas", mkAutopilot})
	if gateName != "" {
		fams = append(fams, fam{"feature-gate:set", mkGate})
	} else {
		run.Count("no-feature-gate-registered")
	}

	// settle: projections of everything must be stable
	all := []string{"kvs", "tombstones", "nodes", "services", "checks", "config-entries", "autopilot-config", "feature-gate-policy", "feature-gate-status"}
	for i := 0; i < 200; i++ {
		a := zv10Proj(srv, all)
		time.Sleep(50 * time.Millisecond)
		if a == zv10Proj(srv, all) && i >= 10 {
			break
		}
	}

	preStates := []string{"absent", "present", "re-written", "recreated"}
	supplied := []string{"zero", "current", "stale", "future", "other-older", "other-newer"}
	for _, f := range fams {
		for _, ps := range preStates {
			for _, su := range supplied {
				for _, content := range []string{"different", "identical"} {
					if run.Violations() >= 40 {
						break
					}
					// an older other entity
					kvSet("c10/other-older", fmt.Sprint(caseNo))
					_, olderIdx, _ := kvGet("c10/other-older")
					e := f.mk()
					var stale uint64
					var curV int
					// ---- pre-state
					switch {
					case e.singleton:
						if ps == "absent" || ps == "recreated" {
							continue
						}
						e.create(caseNo % 7)
						_, stale, _ = e.read()
						curV = caseNo%7 + 1
						e.create(curV)
						if ps == "re-written" {
							_, stale, _ = e.read()
							curV++
							e.create(curV)
						}
					case ps == "absent":
					case ps == "present":
						curV = 1
						e.create(curV)
					case ps == "re-written":
						e.create(1)
						_, stale, _ = e.read()
						curV = 2
						e.create(curV)
					case ps == "recreated":
						e.create(1)
						_, stale, _ = e.read()
						e.remove()
						curV = 2
						e.create(curV)
					}
					kvSet("c10/other-newer", fmt.Sprint(caseNo))
					_, newerIdx, _ := kvGet("c10/other-newer")
					exists, cur, fp := e.read()
					if ps != "absent" && !exists {
						run.Inconclusive(fmt.Sprintf("%s: could not build pre-state %s: %v", f.name, ps, e.create(1)))
						continue
					}
					var x uint64
					switch su {
					case "zero":
						x = 0
					case "current":
						x = cur
						if !exists {
							continue
						}
					case "stale":
						x = stale
						if stale == 0 || stale == cur {
							continue
						}
					case "future":
						x = cur + 100000
					case "other-older":
						x = olderIdx
					case "other-newer":
						x = newerIdx
					}
					v := curV + 1
					if content == "identical" {
						if !exists || e.isDelete || e.noEffect {
							continue
						}
						v = curV
					}
					before := zv10Proj(srv, e.tables)
					lastTxnErrs = ""
					reported, err := e.cond(x, v)
					after := zv10Proj(srv, e.tables)
					exists2, cur2, fp2 := e.read()
					run.Eval()
					run.Distinct("family", f.name)
					run.Count("cases")
					var matched bool
					switch {
					case e.isDelete || e.noEffect:
						matched = exists && x == cur
					case e.singleton:
						matched = x == cur || (f.name == "feature-gate:set" && x == 0)
					case e.zeroMeansCreate:
						matched = (x == 0 && !exists) || (x != 0 && exists && x == cur)
					}
					wit := map[string]any{"family": f.name, "pre_state": ps, "supplied": su, "supplied_index": x, "current_index": cur, "exists": exists, "content": content, "reported": reported, "error": fmt.Sprint(err), "read_back": fmt.Sprintf("exists=%v index=%d content=%q", exists2, cur2, fp2), "txn_errors": lastTxnErrs}
					desc := fmt.Sprintf("%s on %s entity (current index %d, content %q) with %s index %d and %s content: reply success=%v err=%v %s; read back exists=%v index=%d content=%q", f.name, ps, cur, fp, su, x, content, reported, err, lastTxnErrs, exists2, cur2, fp2)
					if (x != 0 && exists) || (x == 0 && !exists) {
						run.NonTrivial(core.Hash(f.name, ps, su, content))
					}
					if run.WantSample() {
						run.Sample(wit)
					}
					if err != nil {
						// refused for a reason of the endpoint's own: nothing may change
						run.Count("refused-with-error")
						if before != after {
							run.Violation("C10:server:"+f.name+":refused-with-error-but-state-changed", desc+": "+zv10FirstDiff(before, after), wit)
						}
						continue
					}
					unchanged := before == after
					if e.isDelete && !exists {
						run.Count("delete-of-absent")
						if e.sibling != nil {
							// the rest of the transaction is applied iff the reply says so
							if sp := e.sibling(); sp != reported {
								run.Violation("C10:server:"+f.name+":sibling-write-disagrees-with-reply", fmt.Sprintf("%s: the unconditional write in the same transaction is present=%v", desc, sp), wit)
							}
							if reported {
								continue
							}
						}
						if !unchanged {
							run.Violation("C10:server:"+f.name+":absent:changed-state", desc+": "+zv10FirstDiff(before, after), wit)
						}
						continue
					}
					var applied bool
					switch {
					case e.noEffect:
						applied = true
					case e.isDelete:
						applied = !exists2
					default:
						applied = exists2 && fp2 == e.wantFP(v) && (cur2 > cur || content == "identical")
					}
					switch {
					case matched && !reported:
						run.Violation("C10:server:"+f.name+":matched-but-not-reported", desc+": the expected index matches but success was not reported", wit)
					case matched && !applied:
						run.Violation("C10:server:"+f.name+":matched-but-not-applied", desc+": success was reported but the read-back does not show the write", wit)
					case !matched && reported:
						k := "C10:server:" + f.name + ":reported-although-not-matched"
						if content == "identical" {
							k += ":identical-content"
						}
						run.Violation(k, desc+": the expected index does not match but success was reported", wit)
					}
					if (!matched || e.noEffect) && !unchanged && !(e.noEffect && reported) {
						run.Violation("C10:server:"+f.name+":not-matched-but-state-changed", desc+": "+zv10FirstDiff(before, after), wit)
					}
					if e.sibling != nil {
						if sp := e.sibling(); sp != reported {
							run.Violation("C10:server:"+f.name+":sibling-write-disagrees-with-reply", fmt.Sprintf("%s: the unconditional write in the same transaction is present=%v", desc, sp), wit)
						}
					}
					if matched {
						run.Count("matched")
					} else {
						run.Count("not-matched")
					}
				}
			}
		}
	}
	run.FloorDistinct("family", 14)
	run.Floor("matched", 60)
	run.Floor("not-matched", 200)
	if run.Finish() == 1 {
		t.Fail()
	}
}
