//go:build verif

// C06 — blocking-query contract: a change is never missed.
// Oracle (store level): after EVERY write of generated histories every query of a fixed universe is
// evaluated with a fresh WatchSet. If the result differs from the previous evaluation then the
// reported index must have grown AND the WatchSet collected with the previous result must have fired
// (never the converse: spurious wake-ups are allowed). Indexes must not decrease except across a
// tombstone reap / snapshot restore. Wake-up: the real blockingquery.Query is parked on the old index
// before a sampled subset of writes and must return with a larger index after the write.
package c06

import (
	"context"
	"encoding/json"
	"fmt"
	"reflect"
	"sort"
	"strings"
	"sync"
	"testing"
	"time"

	"github.com/hashicorp/go-hclog"
	memdb "github.com/hashicorp/go-memdb"

	"github.com/hashicorp/consul/acl"
	"github.com/hashicorp/consul/agent/blockingquery"
	"github.com/hashicorp/consul/agent/consul/state"
	"github.com/hashicorp/consul/agent/structs"
	"github.com/hashicorp/consul/api"
	"github.com/hashicorp/consul/types"
	"github.com/hashicorp/consul/zzverif/core"
	"github.com/hashicorp/consul/zzverif/dump"
	"github.com/hashicorp/consul/zzverif/fsmkit"
	"github.com/hashicorp/consul/zzverif/gen"
)

type query struct {
	name string
	fn   func(s *state.Store, ws memdb.WatchSet) (uint64, any, error)
}

func universe() []query {
	var qs []query
	add := func(name string, fn func(s *state.Store, ws memdb.WatchSet) (uint64, any, error)) {
		qs = append(qs, query{name, fn})
	}
	for _, k := range gen.Keys {
		k := k
		add("KVSGet:"+k, func(s *state.Store, ws memdb.WatchSet) (uint64, any, error) { i, r, e := s.KVSGet(ws, k, nil); return i, r, e })
	}
	for _, p := range gen.Prefixes {
		p := p
		add("KVSList:"+p, func(s *state.Store, ws memdb.WatchSet) (uint64, any, error) { i, r, e := s.KVSList(ws, p, nil); return i, r, e })
	}
	add("SessionList", func(s *state.Store, ws memdb.WatchSet) (uint64, any, error) { i, r, e := s.SessionList(ws, nil); return i, r, e })
	add("Nodes", func(s *state.Store, ws memdb.WatchSet) (uint64, any, error) { i, r, e := s.Nodes(ws, nil, ""); return i, r, e })
	add("Nodes:peerA", func(s *state.Store, ws memdb.WatchSet) (uint64, any, error) { i, r, e := s.Nodes(ws, nil, "peerA"); return i, r, e })
	add("NodesByMeta:role=a", func(s *state.Store, ws memdb.WatchSet) (uint64, any, error) {
		i, r, e := s.NodesByMeta(ws, map[string]string{"role": "a"}, nil, "")
		return i, r, e
	})
	add("Services", func(s *state.Store, ws memdb.WatchSet) (uint64, any, error) { i, r, e := s.Services(ws, nil, "", false); return i, r, e })
	add("ServiceList", func(s *state.Store, ws memdb.WatchSet) (uint64, any, error) { i, r, e := s.ServiceList(ws, nil, ""); return i, r, e })
	add("ServiceList:peerA", func(s *state.Store, ws memdb.WatchSet) (uint64, any, error) { i, r, e := s.ServiceList(ws, nil, "peerA"); return i, r, e })
	for _, n := range []string{"n1", "n2", "n3", "n1x"} {
		n := n
		add("NodeServices:"+n, func(s *state.Store, ws memdb.WatchSet) (uint64, any, error) { i, r, e := s.NodeServices(ws, n, nil, ""); return i, r, e })
		add("NodeServiceList:"+n, func(s *state.Store, ws memdb.WatchSet) (uint64, any, error) { i, r, e := s.NodeServiceList(ws, n, nil, ""); return i, r, e })
		add("NodeChecks:"+n, func(s *state.Store, ws memdb.WatchSet) (uint64, any, error) { i, r, e := s.NodeChecks(ws, n, nil, ""); return i, r, e })
		add("NodeSessions:"+n, func(s *state.Store, ws memdb.WatchSet) (uint64, any, error) { i, r, e := s.NodeSessions(ws, n, nil); return i, r, e })
		add("Coordinate:"+n, func(s *state.Store, ws memdb.WatchSet) (uint64, any, error) { i, r, e := s.Coordinate(ws, n, nil); return i, r, e })
	}
	for _, sv := range append(append([]string{}, gen.Services...), "web-sidecar-proxy", "igw", "tgw") {
		sv := sv
		add("ServiceNodes:"+sv, func(s *state.Store, ws memdb.WatchSet) (uint64, any, error) { i, r, e := s.ServiceNodes(ws, sv, nil, ""); return i, r, e })
		add("ServiceChecks:"+sv, func(s *state.Store, ws memdb.WatchSet) (uint64, any, error) { i, r, e := s.ServiceChecks(ws, sv, nil, ""); return i, r, e })
		add("CheckServiceNodes:"+sv, func(s *state.Store, ws memdb.WatchSet) (uint64, any, error) { i, r, e := s.CheckServiceNodes(ws, sv, nil, ""); return i, r, e })
	}
	for _, sv := range []string{"web", "db", "api"} {
		sv := sv
		add("ConnectServiceNodes:"+sv, func(s *state.Store, ws memdb.WatchSet) (uint64, any, error) { i, r, e := s.ConnectServiceNodes(ws, sv, nil, ""); return i, r, e })
		add("CheckConnectServiceNodes:"+sv, func(s *state.Store, ws memdb.WatchSet) (uint64, any, error) {
			i, r, e := s.CheckConnectServiceNodes(ws, sv, nil, "")
			return i, r, e
		})
		add("CheckIngressServiceNodes:"+sv, func(s *state.Store, ws memdb.WatchSet) (uint64, any, error) {
			i, r, e := s.CheckIngressServiceNodes(ws, sv, nil)
			return i, r, e
		})
		add("ServiceTagNodes:"+sv+":v1", func(s *state.Store, ws memdb.WatchSet) (uint64, any, error) {
			i, r, e := s.ServiceTagNodes(ws, sv, []string{"v1"}, nil, "")
			return i, r, e
		})
		add("CheckServiceTagNodes:"+sv+":v1", func(s *state.Store, ws memdb.WatchSet) (uint64, any, error) {
			i, r, e := s.CheckServiceTagNodes(ws, sv, []string{"v1"}, nil, "")
			return i, r, e
		})
		add("CheckServiceNodes:peerA:"+sv, func(s *state.Store, ws memdb.WatchSet) (uint64, any, error) {
			i, r, e := s.CheckServiceNodes(ws, sv, nil, "peerA")
			return i, r, e
		})
		add("IntentionMatch:dst:"+sv, func(s *state.Store, ws memdb.WatchSet) (uint64, any, error) {
			i, r, e := s.IntentionMatch(ws, &structs.IntentionQueryMatch{Type: structs.IntentionMatchDestination, Entries: []structs.IntentionMatchEntry{{Namespace: "default", Partition: "default", Name: sv}}})
			return i, r, e
		})
		for _, kind := range []string{structs.ServiceDefaults, structs.ServiceResolver, structs.ServiceSplitter, structs.ServiceRouter, structs.ServiceIntentions} {
			kind := kind
			add("ConfigEntry:"+kind+"/"+sv, func(s *state.Store, ws memdb.WatchSet) (uint64, any, error) { i, r, e := s.ConfigEntry(ws, kind, sv, nil); return i, r, e })
		}
	}
	for _, st := range []string{api.HealthAny, api.HealthCritical, api.HealthPassing} {
		st := st
		add("ChecksInState:"+st, func(s *state.Store, ws memdb.WatchSet) (uint64, any, error) { i, r, e := s.ChecksInState(ws, st, nil, ""); return i, r, e })
	}
	for _, gw := range []string{"igw", "tgw"} {
		gw := gw
		add("GatewayServices:"+gw, func(s *state.Store, ws memdb.WatchSet) (uint64, any, error) { i, r, e := s.GatewayServices(ws, gw, nil); return i, r, e })
	}
	add("NodeDump", func(s *state.Store, ws memdb.WatchSet) (uint64, any, error) { i, r, e := s.NodeDump(ws, nil, ""); return i, r, e })
	add("ServiceDump", func(s *state.Store, ws memdb.WatchSet) (uint64, any, error) { i, r, e := s.ServiceDump(ws, "", false, nil, ""); return i, r, e })
	add("ServiceDump:connect-proxy", func(s *state.Store, ws memdb.WatchSet) (uint64, any, error) {
		i, r, e := s.ServiceDump(ws, structs.ServiceKindConnectProxy, true, nil, "")
		return i, r, e
	})
	for _, kind := range []string{structs.ServiceDefaults, structs.ServiceResolver, structs.IngressGateway, structs.TerminatingGateway, structs.ServiceIntentions, structs.ExportedServices, structs.ProxyDefaults, structs.MeshConfig} {
		kind := kind
		add("ConfigEntriesByKind:"+kind, func(s *state.Store, ws memdb.WatchSet) (uint64, any, error) { i, r, e := s.ConfigEntriesByKind(ws, kind, nil); return i, r, e })
	}
	add("ConfigEntries", func(s *state.Store, ws memdb.WatchSet) (uint64, any, error) { i, r, e := s.ConfigEntries(ws, nil); return i, r, e })
	add("Intentions", func(s *state.Store, ws memdb.WatchSet) (uint64, any, error) { i, r, _, e := s.Intentions(ws, nil); return i, r, e })
	add("PreparedQueryList", func(s *state.Store, ws memdb.WatchSet) (uint64, any, error) { i, r, e := s.PreparedQueryList(ws); return i, r, e })
	add("Coordinates", func(s *state.Store, ws memdb.WatchSet) (uint64, any, error) { i, r, e := s.Coordinates(ws, nil); return i, r, e })
	add("CARoots", func(s *state.Store, ws memdb.WatchSet) (uint64, any, error) { i, r, e := s.CARoots(ws); return i, r, e })
	add("CAConfig", func(s *state.Store, ws memdb.WatchSet) (uint64, any, error) { i, r, e := s.CAConfig(ws); return i, r, e })
	add("PeeringList", func(s *state.Store, ws memdb.WatchSet) (uint64, any, error) {
		i, r, e := s.PeeringList(ws, *structs.DefaultEnterpriseMetaInDefaultPartition())
		return i, r, e
	})
	for _, p := range []string{"peerA", "peerB"} {
		p := p
		add("PeeringRead:"+p, func(s *state.Store, ws memdb.WatchSet) (uint64, any, error) { i, r, e := s.PeeringRead(ws, state.Query{Value: p}); return i, r, e })
	}
	add("PeeringTrustBundleList", func(s *state.Store, ws memdb.WatchSet) (uint64, any, error) {
		i, r, e := s.PeeringTrustBundleList(ws, *structs.DefaultEnterpriseMetaInDefaultPartition())
		return i, r, e
	})
	add("FederationStateList", func(s *state.Store, ws memdb.WatchSet) (uint64, any, error) { i, r, e := s.FederationStateList(ws); return i, r, e })
	add("SystemMetadataList", func(s *state.Store, ws memdb.WatchSet) (uint64, any, error) { i, r, e := s.SystemMetadataList(ws); return i, r, e })
	add("ServiceNamesOfKind:connect-enabled", func(s *state.Store, ws memdb.WatchSet) (uint64, any, error) {
		i, r, e := s.ServiceNamesOfKind(ws, structs.ServiceKindConnectEnabled)
		return i, r, e
	})
	return qs
}

type obs struct {
	idx uint64
	fp  string
	ws  memdb.WatchSet
	err string
}

func eval(s *state.Store, q query) obs {
	ws := memdb.NewWatchSet()
	i, r, e := q.fn(s, ws)
	o := obs{idx: i, ws: ws}
	if e != nil {
		o.err = e.Error()
		o.fp = "error:" + e.Error()
		return o
	}
	o.fp = canon(r)
	return o
}

// canon renders a query result; a top-level list is rendered as a sorted multiset because several
// store methods build their result from Go maps (ServiceList, Services, ...) and the order of a
// listing is not "data that changed" in the sense of the blocking-query contract.
func canon(r any) string {
	v := reflect.ValueOf(r)
	if v.IsValid() && v.Kind() == reflect.Slice {
		parts := make([]string, v.Len())
		for i := range parts {
			parts[i] = dump.Render(v.Index(i).Interface())
		}
		sort.Strings(parts)
		return "[" + strings.Join(parts, " ") + "]"
	}
	return dump.Render(r)
}

func fired(ws memdb.WatchSet) bool {
	for ch := range ws {
		select {
		case <-ch:
			return true
		default:
		}
	}
	return false
}

// fsmServer lets the real blockingquery.Query run against the replica's store
type fsmServer struct {
	r        *fsmkit.Replica
	shutdown chan struct{}
}

func (f *fsmServer) ConsistentRead() error                         { return nil }
func (f *fsmServer) DecrementBlockingQueries() uint64              { return 0 }
func (f *fsmServer) GetShutdownChannel() chan struct{}             { return f.shutdown }
func (f *fsmServer) GetState() *state.Store                        { return f.r.State() }
func (f *fsmServer) IncrementBlockingQueries() uint64              { return 1 }
func (f *fsmServer) RPCQueryTimeout(time.Duration) time.Duration   { return 20 * time.Second }
func (f *fsmServer) SetQueryMeta(blockingquery.ResponseMeta, string) {}

type respMeta struct{ structs.QueryMeta }

func TestZZVerifC06(t *testing.T) {
	run := core.NewRun("C06", "exploration",
		"PRNG-generated write histories (all FSM command families, catalog- and KV-weighted variants) applied through FSM.Apply; after EVERY write each of ~190 queries (KV get/list on prefix-related keys, sessions, nodes, services, service nodes incl. connect/tag filters/peer, node services, checks, service health, ingress, gateway services, dumps, config entries by name and kind, intentions, prepared queries, coordinates, CA roots/config, peerings, trust bundles, federation states, ACL lists, system metadata, kind-service-names) is evaluated with a fresh WatchSet and compared with its previous evaluation: result changed => index grew AND the previous WatchSet fired; index never decreases except across a tombstone reap. For a sampled subset of (query, write) pairs the real blockingquery.Query is parked on the old index before the write and must return a larger index after it. non-trivial = (query, write) pair where the result changed; distinct by (query, write class)")
	run.Assume("index >= 1 for empty results is enforced by Server.SetQueryMeta at the RPC layer (needs a live server); the store-level monitor therefore does not judge zero indexes", "snapshot restore resets the monotonicity baseline as the property allows (not exercised here; C02 covers restore)")
	rng := core.NewRand(core.Seed())
	qs := universe()
	run.Extra("queries_in_universe", len(qs))
	nh := core.N(120, 1500)
	ln := core.N(60, 80)
	logger := hclog.NewNullLogger()
	_ = logger

	for h := 0; h < nh && run.Violations() < 40; h++ {
		hr := rng.Fork(uint64(h))
		w := gen.AllWeights()
		switch h % 3 {
		case 1:
			w = gen.CatalogWeights()
		case 2:
			w = gen.SessionWeights()
		}
		g := gen.New(hr, w)
		if h%3 == 2 {
			g.Focus = true
		}
		r := fsmkit.New(fsmkit.Opts{})
		srv := &fsmServer{r: r, shutdown: make(chan struct{})}
		idx := uint64(4)
		var log []string
		prev := make([]obs, len(qs))
		for i, q := range qs {
			prev[i] = eval(r.State(), q)
		}
		var prelude []gen.Cmd
		if h%3 == 1 {
			prelude = gen.VIPPrelude()
		}
		for step := 0; step < ln; step++ {
			idx += 1 + uint64(hr.Intn(2))
			var c gen.Cmd
			if step < len(prelude) {
				c = prelude[step]
			} else {
				c = g.Next(r.State(), idx)
				// the intention-format flag is an internal one-way migration marker (legacy -> config
				// entries); flipping it back and forth is not a client write history
				for strings.Contains(c.Class, "intention-format") {
					c = g.Next(r.State(), idx)
				}
			}
			log = append(log, fmt.Sprintf("@%d %s", idx, trunc(c.Desc, 400)))
			core.Progress("C06", fmt.Sprintf("history %d step %d %s", h, step, c.Desc))

			// ---- park real blocking queries on a few queries before the write
			type parked struct {
				qi   int
				min  uint64
				done chan uint64
			}
			var parks []parked
			if hr.Chance(25) {
				for k := 0; k < 4; k++ {
					qi := hr.Intn(len(qs))
					if prev[qi].idx == 0 || prev[qi].err != "" {
						continue
					}
					p := parked{qi: qi, min: prev[qi].idx, done: make(chan uint64, 1)}
					q := qs[qi]
					var wg sync.WaitGroup
					wg.Add(1)
					go func() {
						opts := &structs.QueryOptions{MinQueryIndex: p.min, MaxQueryTime: 15 * time.Second}
						meta := &respMeta{}
						first := true
						err := blockingquery.Query(srv, opts, &meta.QueryMeta, func(ws memdb.WatchSet, s *state.Store) error {
							if first {
								first = false
								wg.Done()
							}
							i, _, e := q.fn(s, ws)
							meta.Index = i
							return e
						})
						if err != nil {
							p.done <- 0
							return
						}
						p.done <- meta.Index
					}()
					wg.Wait()
					parks = append(parks, p)
				}
			}

			cause := rebound(r.State(), c)
			res := r.ApplyBytes(idx, c.Bytes)
			run.Count("writes")
			run.Eval()
			run.Distinct("write-class", c.Class)
			reap := c.Class == "tombstone-reap"
			changedQ := map[int]bool{}
			for i, q := range qs {
				cur := eval(r.State(), q)
				p := prev[i]
				run.Count("evaluations")
				if cur.fp != p.fp {
					changedQ[i] = true
					run.Count("result-changes")
					run.NonTrivial(core.Hash(q.name, c.Class))
					run.Distinct("query-with-observed-change", q.name)
					wit := map[string]any{"log": log, "query": q.name, "before": map[string]any{"index": p.idx, "result": trunc(p.fp, 1500)}, "after": map[string]any{"index": cur.idx, "result": trunc(cur.fp, 1500)}, "write_result": trunc(fsmkit.RenderResult(res, dump.Render), 200)}
					if cur.idx <= p.idx {
						run.Violation(vkey("changed-without-index-growth", q.name, c.Class, cause), fmt.Sprintf("history %d step %d: the result of %s changed after %s but the reported index went %d -> %d", h, step, q.name, trunc(c.Desc, 160), p.idx, cur.idx), wit)
					}
					if !fired(p.ws) {
						run.Violation(vkey("changed-without-watch-firing", q.name, c.Class, cause), fmt.Sprintf("history %d step %d: the result of %s changed after %s but the WatchSet taken with the old result did not fire", h, step, q.name, trunc(c.Desc, 160)), wit)
					}
					if run.WantSample() {
						run.Sample(map[string]any{"query": q.name, "write": trunc(c.Desc, 200), "index_before": p.idx, "index_after": cur.idx})
					}
				}
				if cur.idx < p.idx && !reap {
					run.Violation(vkey("index-decreased", q.name, c.Class, cause), fmt.Sprintf("history %d step %d: the index of %s went backwards %d -> %d after %s", h, step, q.name, p.idx, cur.idx, trunc(c.Desc, 160)),
						map[string]any{"log": log, "query": q.name, "index_before": p.idx, "index_after": cur.idx})
				}
				if cur.idx < p.idx && reap {
					run.Count("index-decrease-across-reap(allowed)")
				}
				prev[i] = cur
			}
			// ---- parked blocking queries whose result changed must have been released with a larger index
			for _, p := range parks {
				if !changedQ[p.qi] {
					continue // spurious wake-ups or staying parked are both fine
				}
				select {
				case got := <-p.done:
					run.Count("blocking-queries-released")
					if got <= p.min {
						run.Violation("C06:blocking-query:released-without-larger-index:"+qname(qs[p.qi].name), fmt.Sprintf("history %d step %d: blockingquery.Query on %s parked at index %d returned index %d after %s changed its result", h, step, qs[p.qi].name, p.min, got, trunc(c.Desc, 160)),
							map[string]any{"log": log, "query": qs[p.qi].name})
					}
				case <-time.After(10 * time.Second):
					// decided logically: it did not return although the result changed and the store committed.
					// The bound is a watchdog: on a loaded machine treat as inconclusive unless the watch
					// demonstrably did not fire (which the store-level oracle above reports on its own).
					run.Inconclusive(fmt.Sprintf("history %d step %d: parked blocking query on %s did not return within 10s", h, step, qs[p.qi].name))
				}
			}
		}
		close(srv.shutdown)
		r.Close()
	}
	run.FloorDistinct("query-with-observed-change", 100)
	run.FloorDistinct("write-class", 60)
	run.Floor("result-changes", 6000)
	run.Floor("blocking-queries-released", 20)
	if run.Finish() == 1 {
		t.Fail()
	}
}

// rebound recognises one specific kind of write: a registration that re-uses the ID of an existing
// check but binds it to a different service (or turns a node-level check into a service check or
// back). It is tagged in violation keys because consul only refreshes the indexes of the check's NEW
// owner (see known_findings.json), which is a defect of its own.
func rebound(s *state.Store, c gen.Cmd) string {
	if c.Class != "register" && c.Class != "txn" {
		return ""
	}
	i := strings.Index(c.Desc, "{")
	if i < 0 {
		return ""
	}
	type chk struct{ Node, CheckID, ServiceID string }
	var cs []chk
	if c.Class == "register" {
		var req struct {
			Node   string
			Check  *chk
			Checks []chk
		}
		if json.Unmarshal([]byte(c.Desc[i:]), &req) != nil {
			return ""
		}
		for _, k := range req.Checks {
			k.Node = req.Node
			cs = append(cs, k)
		}
		if req.Check != nil {
			k := *req.Check
			k.Node = req.Node
			cs = append(cs, k)
		}
	} else {
		var req struct {
			Ops []struct {
				Check *struct {
					Verb  string
					Check chk
				}
			}
		}
		if json.Unmarshal([]byte(c.Desc[i:]), &req) != nil {
			return ""
		}
		for _, op := range req.Ops {
			if op.Check != nil && (op.Check.Verb == "set" || op.Check.Verb == "cas") {
				cs = append(cs, op.Check.Check)
			}
		}
	}
	for _, k := range cs {
		if _, e, _ := s.NodeCheck(k.Node, types.CheckID(k.CheckID), nil, ""); e != nil && e.ServiceID != k.ServiceID {
			return ":check-rebound-to-other-service"
		}
	}
	return ""
}

func vkey(kind, q, class, cause string) string {
	if cause != "" {
		return "C06" + cause + ":" + kind
	}
	return "C06:" + kind + ":" + keyTail(q, class)
}

// keyTail: query family + write family. For the three connect/gateway query families whose index
// computation is known to be defective (see known_findings.json) the key is the family alone, so
// that the set of known keys is closed under seeds.
func keyTail(q, class string) string {
	switch f := qname(q); f {
	case "ConnectServiceNodes", "CheckConnectServiceNodes", "CheckIngressServiceNodes", "ServiceDump":
		return f
	default:
		return f + ":" + wgroup(class)
	}
}

// wgroup reduces a write class to its family (register, deregister, config, kvs, txn, ...)
func wgroup(c string) string {
	for i := 0; i < len(c); i++ {
		if c[i] == ':' {
			return c[:i]
		}
	}
	return c
}

// qname reduces a query name to its family (method) for violation keys
func qname(n string) string {
	for i := 0; i < len(n); i++ {
		if n[i] == ':' {
			return n[:i]
		}
	}
	return n
}

func trunc(s string, n int) string {
	if len(s) > n {
		return s[:n] + "…"
	}
	return s
}

var _ = acl.WildcardName
var _ = context.Background
