//go:build verif

// C02 — snapshot and restore reproduce the state exactly, at any point of any history.
// Oracle: differential between the live replica A and a replica R restored from A's snapshot
// (production persisters / restorers), at cut points of generated histories: canonical dumps of all
// tables (incl. derived tables and the index table), then the SUFFIX of the history is applied to
// both and every result and the final dumps are compared.
package c02

import (
	"fmt"

	"github.com/hashicorp/raft"
	"strings"
	"testing"

	"github.com/hashicorp/consul/zzverif/core"
	"github.com/hashicorp/consul/zzverif/dump"
	"github.com/hashicorp/consul/zzverif/fsmkit"
	"github.com/hashicorp/consul/zzverif/gen"
)

type entry struct {
	Idx   uint64 `json:"idx"`
	Class string `json:"class"`
	Desc  string `json:"desc"`
	bytes []byte
}

func descs(log []entry) []string {
	var out []string
	for _, e := range log {
		d := e.Desc
		if len(d) > 300 {
			d = d[:300] + "…"
		}
		out = append(out, fmt.Sprintf("@%d %s", e.Idx, d))
	}
	return out
}

// lastWriter: class of the last entry (for keys), or the table's most plausible family
func keyFor(kind string, d dump.Diff) string {
	return "C02:" + kind + ":" + d.Table + ":" + dump.FieldName(d.A, d.B)
}

// Tables that consul does not persist but rebuilds during restore from the base tables.
var derivedTables = map[string]bool{"kind-service-names": true, "usage": true, "mesh-topology": true, "gateway-services": true}

// diffKey: base tables get a fine-grained key (table + differing fields); for the rebuilt tables the
// row pairing is not stable enough for that, so the key is table + whether only index stamps differ.
func diffKey(x dump.RowDiff) string {
	if !derivedTables[x.Table] {
		return x.Key()
	}
	if x.Kind == "changed" {
		only := true
		for _, f := range x.Fields {
			if f != "raftindex" && f != "index" && f != "RaftIndex" && f != "Index" {
				only = false
			}
		}
		if only {
			return "derived:" + x.Table + ":index-only"
		}
	}
	return "derived:" + x.Table + ":content"
}

// normalize drops usage rows whose count is zero: a missing row and a zero count are the same
// answer for every usage query.
func normalize(d *dump.Dump) *dump.Dump {
	rows := d.Tables["usage"]
	var keep []string
	for _, r := range rows {
		if strings.Contains(r, "Count:") || strings.Contains(r, "count:") {
			keep = append(keep, r)
		}
	}
	d.Tables["usage"] = keep
	return d
}

func TestZZVerifC02(t *testing.T) {
	run := core.NewRun("C02", "exploration",
		"PRNG-generated command histories (same generator as C01: all FSM command families) applied to a live replica A; at cut points k (quick: every 7th prefix; thorough: every prefix) A is snapshotted through FSM.Snapshot().Persist, a fresh replica R restores the bytes through FSM.Restore; oracle: canonical dump(R) == dump(A_k) for every memdb table incl. derived tables and the index table, then h[k:] is applied to A' (a second live replica that replayed h[:k]) and R: every command result and the final dumps must be equal. non-trivial = cut whose snapshot had rows in >=8 tables incl. >=1 derived table (gateway-services, mesh-topology, kind-service-names, service-virtual-ips, usage); distinct by snapshot dump hash")
	run.Assume("resource-storage (v2) snapshot content is exercised only as far as an empty store; the raft layer (log truncation etc.) is not in the loop")
	rng := core.NewRand(core.Seed())
	nh := core.N(30, 400)
	ln := core.N(50, 80)
	every := core.N(7, 1)
	derived := map[string]bool{"gateway-services": true, "mesh-topology": true, "kind-service-names": true, "service-virtual-ips": true, "usage": true, "free-virtual-ips": true}

	for h := 0; h < nh && run.Violations() < 40; h++ {
		hr := rng.Fork(uint64(h))
		w := gen.AllWeights()
		if h%3 == 1 {
			w = gen.CatalogWeights()
		}
		if h%5 == 4 {
			w = gen.IntentionWeights()
		}
		g := gen.New(hr, w)
		a := fsmkit.New(fsmkit.Opts{})
		var log []entry
		idx := uint64(4)
		var prelude []gen.Cmd
		if h%3 != 0 {
			prelude = gen.VIPPrelude()
		}
		if h%5 == 4 {
			prelude = gen.IntentionPrelude()
		}
		forced := map[int]bool{}
		if h%7 == 3 {
			// peering secrets life cycle; a cut is forced in the middle of the secret rotation
			var mid int
			prelude, mid = gen.PeeringSecretsScenario()
			forced[mid] = true
			forced[2] = true
		}
		for i := 0; i < ln; i++ {
			idx += 1 + uint64(hr.Intn(2))
			var c gen.Cmd
			if i < len(prelude) {
				c = prelude[i]
			} else {
				c = g.Next(a.State(), idx)
			}
			log = append(log, entry{Idx: idx, Class: c.Class, Desc: c.Desc, bytes: c.Bytes})
			a.ApplyBytes(idx, c.Bytes)
			run.Distinct("class", c.Class)
		}
		a.Close()
		// cut points
		off := hr.Intn(every)
		live := fsmkit.New(fsmkit.Opts{}) // replays the log step by step; snapshot source
		// deferred persist: raft takes the snapshot handle at the cut but writes it out while later
		// commands are already being applied; the persisted bytes must still be the state AT the cut
		type deferred struct {
			snap   raft.FSMSnapshot
			before *dump.Dump
			k      int
		}
		var pend *deferred
		for k := 0; k <= ln; k++ {
			if k > 0 {
				live.ApplyBytes(log[k-1].Idx, log[k-1].bytes)
			}
			if pend != nil && pend.before != nil && (k == pend.k+4 || k == ln) {
				b, err := fsmkit.PersistHandle(pend.snap)
				if err != nil {
					run.Violation("C02:deferred-persist:error", fmt.Sprintf("history %d: persisting the snapshot taken at cut %d after %d further commands failed: %v", h, pend.k, k-pend.k, err), map[string]any{"log": descs(log[:k])})
				} else {
					rr := fsmkit.New(fsmkit.Opts{})
					if err := rr.RestoreBytes(b); err != nil {
						run.Violation("C02:deferred-persist:restore-error", fmt.Sprintf("history %d cut %d: %v", h, pend.k, err), map[string]any{"log": descs(log[:k])})
					} else {
						seen := map[string]bool{}
						for _, x := range dump.RowDiffs(pend.before.Fold(), normalize(dump.Of(rr.State())).Fold(), 400, nil) {
							// differences that a prompt persist of the same handle point does not show are due
							// to the snapshot not being point-in-time
							key := "C02:deferred-persist:not-point-in-time:" + x.Key()
							if seen[key] {
								continue
							}
							seen[key] = true
							run.Violation(key, fmt.Sprintf("history %d: snapshot taken at cut %d but persisted after %d further commands restores differently: table %s %s row: persisted-at-once=%s persisted-later=%s", h, pend.k, k-pend.k, x.Table, x.Kind, trunc(x.A, 300), trunc(x.B, 300)),
								map[string]any{"log": descs(log[:k]), "cut": pend.k, "persisted_after": k, "diff": x})
						}
						run.Count("deferred-persist-cuts")
					}
					rr.Close()
				}
				pend = nil
			}
			if k%every != off && k != ln && !forced[k] {
				continue
			}
			core.Progress("C02", fmt.Sprintf("history %d cut %d", h, k))
			run.Eval()
			before := normalize(dump.Of(live.State()))
			var mine *deferred
			if pend == nil && k+4 <= ln {
				if hd, err := live.SnapshotHandle(); err == nil {
					mine = &deferred{snap: hd, k: k}
				}
			}
			snap, err := live.SnapshotBytes()
			if err != nil {
				run.Violation("C02:snapshot-error", fmt.Sprintf("history %d cut %d: snapshot failed: %v", h, k, err), map[string]any{"log": descs(log[:k])})
				if mine != nil {
					mine.snap.Release()
				}
				continue
			}
			// taking a snapshot must not change the live state
			if d := dump.Compare(before, normalize(dump.Of(live.State())), 3, nil); len(d) > 0 {
				run.Violation(keyFor("snapshot-mutates-live", d[0]), fmt.Sprintf("history %d cut %d: taking a snapshot changed the live state: %s: %s", h, k, d[0].Table, dump.FieldDiff(d[0].A, d[0].B)), map[string]any{"log": descs(log[:k]), "diffs": d})
			}
			r := fsmkit.New(fsmkit.Opts{})
			if err := r.RestoreBytes(snap); err != nil {
				run.Violation("C02:restore-error", fmt.Sprintf("history %d cut %d: restore failed: %v", h, k, err), map[string]any{"log": descs(log[:k])})
				r.Close()
				if mine != nil {
					mine.snap.Release()
				}
				continue
			}
			after := normalize(dump.Of(r.State()))
			if mine != nil {
				// reference = what the SAME cut restores to when persisted at once: differences between the
				// two are due to nothing but the delay (restore-time rebuilds are the same in both)
				mine.before = after
				pend = mine
			}
			nd := 0
			for _, tn := range before.NonEmptyTables() {
				run.Distinct("table-in-snapshot", tn)
				if derived[tn] {
					nd++
				}
			}
			if len(before.NonEmptyTables()) >= 8 && nd >= 1 {
				run.NonTrivial(before.Hash())
			}
			bad := false
			differs := false
			restoredKeys := map[string]bool{}
			if d := dump.RowDiffs(before, after, 400, nil); len(d) > 0 {
				// differences that vanish when letter case is ignored come from case-variant node
				// names (n1 / N1 are one node for the catalog): one specific class of their own
				fd := dump.RowDiffs(before.Fold(), after.Fold(), 400, nil)
				if len(fd) < len(d) {
					if run.Violation("C02:restored-state:case-variant-node-name", fmt.Sprintf("history %d cut %d: rows registered under a case-variant of an existing node name come back under the node's canonical name, e.g. live=%s restored=%s", h, k, trunc(d[0].A, 200), trunc(d[0].B, 200)),
						map[string]any{"log": descs(log[:k]), "diffs": d}) {
						bad = true
					}
				}
				d = fd
				seen := map[string]bool{}
				for _, x := range d {
					key := "C02:restored-state:" + diffKey(x)
					restoredKeys[key] = true
					if seen[key] {
						continue
					}
					seen[key] = true
					if run.Violation(key, fmt.Sprintf("history %d cut %d: restored replica differs from the live one: table %s %s row: live=%s restored=%s", h, k, x.Table, x.Kind, trunc(x.A, 300), trunc(x.B, 300)),
						map[string]any{"log": descs(log[:k]), "diff": x}) {
						bad = true
					}
				}
				if len(d) > 0 {
					differs = true
				}
			}
			// suffix on both: a twin of the live replica (re-played) and the restored one
			if !bad && k < ln {
				_ = differs
				twin := fsmkit.New(fsmkit.Opts{})
				for _, e := range log[:k] {
					twin.ApplyBytes(e.Idx, e.bytes)
				}
				for j := k; j < ln; j++ {
					ra := fsmkit.RenderResult(twin.ApplyBytes(log[j].Idx, log[j].bytes), dump.Render)
					rb := fsmkit.RenderResult(r.ApplyBytes(log[j].Idx, log[j].bytes), dump.Render)
					run.Count("suffix_commands_compared")
					if ra != rb {
						run.Violation("C02:suffix-result:"+log[j].Class, fmt.Sprintf("history %d cut %d: command %d (%s) returns %s on the live replica and %s on the restored one", h, k, j, trunc(log[j].Desc, 200), trunc(ra, 200), trunc(rb, 200)),
							map[string]any{"log": descs(log[:j+1]), "cut": k, "live": ra, "restored": rb})
						bad = true
						break
					}
				}
				if !bad {
					seen := map[string]bool{}
					for _, x := range dump.RowDiffs(normalize(dump.Of(twin.State())).Fold(), normalize(dump.Of(r.State())).Fold(), 400, nil) {
						key := "C02:suffix-final-state:" + diffKey(x)
						// the rebuilt tables already differ right after the restore (reported under
						// restored-state); the same difference carried through the suffix is the same finding
						if derivedTables[x.Table] || restoredKeys["C02:restored-state:"+diffKey(x)] {
							key = "C02:restored-state:" + diffKey(x)
						} else if x.Table == "index" {
							for dt := range derivedTables {
								n := strings.ReplaceAll(dt, "-", "_")
								if strings.Contains(x.A+x.B, `key:"`+dt) || strings.Contains(x.A+x.B, `key:"`+n) {
									key = "C02:restored-state:derived:" + dt + ":index-only"
								}
							}
						}
						if seen[key] {
							continue
						}
						seen[key] = true
						run.Violation(key, fmt.Sprintf("history %d cut %d: after applying the suffix the restored replica differs: table %s %s row: live=%s restored=%s", h, k, x.Table, x.Kind, trunc(x.A, 300), trunc(x.B, 300)),
							map[string]any{"log": descs(log), "cut": k, "diff": x})
					}
				}
				twin.Close()
			}
			if run.WantSample() && len(before.NonEmptyTables()) >= 8 {
				run.Sample(map[string]any{"history": h, "cut": k, "snapshot_bytes": len(snap), "tables_in_snapshot": before.NonEmptyTables(), "log_prefix": descs(log[:min(k, 6)])})
			}
			r.Close()
		}
		live.Close()
	}
	run.FloorDistinct("table-in-snapshot", 25)
	run.FloorDistinct("class", 60)
	run.Floor("suffix_commands_compared", 2000)
	run.Floor("deferred-persist-cuts", 50)
	if run.Finish() == 1 {
		t.Fail()
	}
}

func trunc(s string, n int) string {
	if len(s) > n {
		return s[:n] + "…"
	}
	return s
}

var _ = strings.Join
