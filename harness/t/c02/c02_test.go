//go:build verif

// C02 — snapshot and restore reproduce the state exactly, at any point of any history.
// Oracle: differential between the live replica A and a replica R restored from A's snapshot
// (production persisters / restorers), at cut points of generated histories: canonical dumps of all
// tables (incl. derived tables and the index table), then the SUFFIX of the history is applied to
// both and every result and the final dumps are compared.
package c02

import (
	"fmt"
	"strings"
	"testing"

	"github.com/hashicorp/consul/zzverif/core"
	"github.com/hashicorp/consul/zzverif/dump"
	"github.com/hashicorp/consul/zzverif/fsmkit"
	"github.com/hashicorp/consul/zzverif/gen"
)

type entry struct {
	Idx   uint64 `json:"idx"`
	Class string `json:"class"`
	Desc  string `json:"desc"`
	bytes []byte
}

func descs(log []entry) []string {
	var out []string
	for _, e := range log {
		d := e.Desc
		if len(d) > 300 {
			d = d[:300] + "…"
		}
		out = append(out, fmt.Sprintf("@%d %s", e.Idx, d))
	}
	return out
}

// lastWriter: class of the last entry (for keys), or the table's most plausible family
func keyFor(kind string, d dump.Diff) string {
	return "C02:" + kind + ":" + d.Table + ":" + dump.FieldName(d.A, d.B)
}

func TestZZVerifC02(t *testing.T) {
	run := core.NewRun("C02", "exploration",
		"PRNG-generated command histories (same generator as C01: all FSM command families) applied to a live replica A; at cut points k (quick: every 7th prefix; thorough: every prefix) A is snapshotted through FSM.Snapshot().Persist, a fresh replica R restores the bytes through FSM.Restore; oracle: canonical dump(R) == dump(A_k) for every memdb table incl. derived tables and the index table, then h[k:] is applied to A' (a second live replica that replayed h[:k]) and R: every command result and the final dumps must be equal. non-trivial = cut whose snapshot had rows in >=8 tables incl. >=1 derived table (gateway-services, mesh-topology, kind-service-names, service-virtual-ips, usage); distinct by snapshot dump hash")
	run.Assume("resource-storage (v2) snapshot content is exercised only as far as an empty store; the raft layer (log truncation etc.) is not in the loop")
	rng := core.NewRand(core.Seed())
	nh := core.N(30, 400)
	ln := core.N(50, 80)
	every := core.N(7, 1)
	derived := map[string]bool{"gateway-services": true, "mesh-topology": true, "kind-service-names": true, "service-virtual-ips": true, "usage": true, "free-virtual-ips": true}

	for h := 0; h < nh && run.Violations() < 40; h++ {
		hr := rng.Fork(uint64(h))
		w := gen.AllWeights()
		if h%3 == 1 {
			w = gen.CatalogWeights()
		}
		g := gen.New(hr, w)
		a := fsmkit.New(fsmkit.Opts{})
		var log []entry
		idx := uint64(4)
		var prelude []gen.Cmd
		if h%3 != 0 {
			prelude = gen.VIPPrelude()
		}
		for i := 0; i < ln; i++ {
			idx += 1 + uint64(hr.Intn(2))
			var c gen.Cmd
			if i < len(prelude) {
				c = prelude[i]
			} else {
				c = g.Next(a.State(), idx)
			}
			log = append(log, entry{Idx: idx, Class: c.Class, Desc: c.Desc, bytes: c.Bytes})
			a.ApplyBytes(idx, c.Bytes)
			run.Distinct("class", c.Class)
		}
		a.Close()
		// cut points
		off := hr.Intn(every)
		live := fsmkit.New(fsmkit.Opts{}) // replays the log step by step; snapshot source
		for k := 0; k <= ln; k++ {
			if k > 0 {
				live.ApplyBytes(log[k-1].Idx, log[k-1].bytes)
			}
			if k%every != off && k != ln {
				continue
			}
			core.Progress("C02", fmt.Sprintf("history %d cut %d", h, k))
			run.Eval()
			before := dump.Of(live.State())
			snap, err := live.SnapshotBytes()
			if err != nil {
				run.Violation("C02:snapshot-error", fmt.Sprintf("history %d cut %d: snapshot failed: %v", h, k, err), map[string]any{"log": descs(log[:k])})
				continue
			}
			// taking a snapshot must not change the live state
			if d := dump.Compare(before, dump.Of(live.State()), 3, nil); len(d) > 0 {
				run.Violation(keyFor("snapshot-mutates-live", d[0]), fmt.Sprintf("history %d cut %d: taking a snapshot changed the live state: %s: %s", h, k, d[0].Table, dump.FieldDiff(d[0].A, d[0].B)), map[string]any{"log": descs(log[:k]), "diffs": d})
			}
			r := fsmkit.New(fsmkit.Opts{})
			if err := r.RestoreBytes(snap); err != nil {
				run.Violation("C02:restore-error", fmt.Sprintf("history %d cut %d: restore failed: %v", h, k, err), map[string]any{"log": descs(log[:k])})
				r.Close()
				continue
			}
			after := dump.Of(r.State())
			nd := 0
			for _, tn := range before.NonEmptyTables() {
				run.Distinct("table-in-snapshot", tn)
				if derived[tn] {
					nd++
				}
			}
			if len(before.NonEmptyTables()) >= 8 && nd >= 1 {
				run.NonTrivial(before.Hash())
			}
			bad := false
			if d := dump.Compare(before, after, 6, nil); len(d) > 0 {
				seen := map[string]bool{}
				for _, x := range d {
					key := keyFor("restored-state", x)
					if seen[key] {
						continue
					}
					seen[key] = true
					if run.Violation(key, fmt.Sprintf("history %d cut %d: restored replica differs from the live one in table %s: %s", h, k, x.Table, dump.FieldDiff(x.A, x.B)),
						map[string]any{"log": descs(log[:k]), "diffs": d}) {
						bad = true
					}
				}
			}
			// suffix on both: a twin of the live replica (re-played) and the restored one
			if !bad && k < ln {
				twin := fsmkit.New(fsmkit.Opts{})
				for _, e := range log[:k] {
					twin.ApplyBytes(e.Idx, e.bytes)
				}
				for j := k; j < ln; j++ {
					ra := fsmkit.RenderResult(twin.ApplyBytes(log[j].Idx, log[j].bytes), dump.Render)
					rb := fsmkit.RenderResult(r.ApplyBytes(log[j].Idx, log[j].bytes), dump.Render)
					run.Count("suffix_commands_compared")
					if ra != rb {
						run.Violation("C02:suffix-result:"+log[j].Class, fmt.Sprintf("history %d cut %d: command %d (%s) returns %s on the live replica and %s on the restored one", h, k, j, trunc(log[j].Desc, 200), trunc(ra, 200), trunc(rb, 200)),
							map[string]any{"log": descs(log[:j+1]), "cut": k, "live": ra, "restored": rb})
						bad = true
						break
					}
				}
				if !bad {
					if d := dump.Compare(dump.Of(twin.State()), dump.Of(r.State()), 4, nil); len(d) > 0 {
						run.Violation(keyFor("suffix-final-state", d[0]), fmt.Sprintf("history %d cut %d: after applying the suffix the restored replica differs in table %s: %s", h, k, d[0].Table, dump.FieldDiff(d[0].A, d[0].B)),
							map[string]any{"log": descs(log), "cut": k, "diffs": d})
					}
				}
				twin.Close()
			}
			if run.WantSample() && len(before.NonEmptyTables()) >= 8 {
				run.Sample(map[string]any{"history": h, "cut": k, "snapshot_bytes": len(snap), "tables_in_snapshot": before.NonEmptyTables(), "log_prefix": descs(log[:min(k, 6)])})
			}
			r.Close()
		}
		live.Close()
	}
	run.FloorDistinct("table-in-snapshot", 25)
	run.FloorDistinct("class", 60)
	run.Floor("suffix_commands_compared", 2000)
	if run.Finish() == 1 {
		t.Fail()
	}
}

func trunc(s string, n int) string {
	if len(s) > n {
		return s[:n] + "…"
	}
	return s
}

var _ = strings.Join
