//go:build verif

// C05 — transactions are all-or-nothing and isolated.
// Oracle: for every generated operation list, executed on a generated pre-state:
//
//	failed txn  => canonical dump (all tables + index table) byte-identical, no batch queued for the
//	               event publisher, no watch channel of the query universe fired, no tombstone-GC hint;
//	successful  => results and final dump equal to a TWIN store that applies the same operations one
//	               by one as single-operation transactions at the same index (later ops see earlier ones);
//	read-only   => TxnRO never changes the dump.
//
// The failing position is ENUMERATED: for each successful list of length n, the n+1 variants with a
// guaranteed-failing operation inserted at position p are run as well.
package c05

import (
	"fmt"
	"regexp"
	"strconv"
	"strings"
	"testing"
	"time"

	memdb "github.com/hashicorp/go-memdb"

	"github.com/hashicorp/consul/agent/consul/state"
	"github.com/hashicorp/consul/agent/structs"
	"github.com/hashicorp/consul/api"
	"github.com/hashicorp/consul/zzverif/core"
	"github.com/hashicorp/consul/zzverif/dump"
	"github.com/hashicorp/consul/zzverif/fsmkit"
	"github.com/hashicorp/consul/zzverif/gen"
)

type world struct {
	r   *fsmkit.Replica
	gc  *state.TombstoneGC
	idx uint64
}

func newWorld() *world {
	gc, _ := state.NewTombstoneGC(time.Hour, time.Minute)
	gc.SetEnabled(true)
	return &world{r: fsmkit.New(fsmkit.Opts{Publisher: true, GC: gc}), gc: gc}
}

func (w *world) drain() {
	for {
		if _, ok := w.r.Pub.VerifDrainOne(); !ok {
			return
		}
	}
}

// build applies the pre-history; returns the commands so a twin can be built identically
func (w *world) apply(cmds []gen.Cmd, idxs []uint64) {
	for i, c := range cmds {
		w.r.ApplyBytes(idxs[i], c.Bytes)
		w.idx = idxs[i]
		w.drain()
	}
}

// watch set over a query universe
func watchAll(s *state.Store) memdb.WatchSet {
	ws := memdb.NewWatchSet()
	for _, p := range gen.Prefixes {
		s.KVSList(ws, p, nil)
	}
	for _, k := range gen.Keys {
		s.KVSGet(ws, k, nil)
	}
	s.Nodes(ws, nil, "")
	s.Services(ws, nil, "", false)
	s.SessionList(ws, nil)
	for _, n := range []string{"n1", "n2", "n3", "n1x"} {
		s.NodeServices(ws, n, nil, "")
		s.NodeChecks(ws, n, nil, "")
		s.NodeSessions(ws, n, nil)
	}
	for _, sv := range gen.Services {
		s.ServiceNodes(ws, sv, nil, "")
		s.CheckServiceNodes(ws, sv, nil, "")
		s.ServiceChecks(ws, sv, nil, "")
	}
	s.ChecksInState(ws, api.HealthAny, nil, "")
	return ws
}

func fired(ws memdb.WatchSet) int {
	n := 0
	for ch := range ws {
		select {
		case <-ch:
			n++
		default:
		}
	}
	return n
}

func failingOp(k int) *structs.TxnOp {
	switch k % 6 {
	case 0:
		return &structs.TxnOp{KV: &structs.TxnKVOp{Verb: api.KVGet, DirEnt: structs.DirEntry{Key: "never/existed"}}}
	case 1:
		return &structs.TxnOp{KV: &structs.TxnKVOp{Verb: api.KVCheckIndex, DirEnt: structs.DirEntry{Key: "never/existed", RaftIndex: structs.RaftIndex{ModifyIndex: 7}}}}
	case 2:
		return &structs.TxnOp{KV: &structs.TxnKVOp{Verb: api.KVLock, DirEnt: structs.DirEntry{Key: "a", Session: "0000dead-aaaa-bbbb-cccc-00000000dead"}}}
	case 3:
		return &structs.TxnOp{Service: &structs.TxnServiceOp{Verb: api.ServiceSet, Node: "ghost-node", Service: structs.NodeService{ID: "web", Service: "web", Port: 1}}}
	case 4:
		return &structs.TxnOp{Check: &structs.TxnCheckOp{Verb: api.CheckGet, Check: structs.HealthCheck{Node: "ghost-node", CheckID: "nope"}}}
	default:
		return &structs.TxnOp{Node: &structs.TxnNodeOp{Verb: api.NodeGet, Node: structs.Node{Node: "ghost-node"}}}
	}
}

func runTxn(w *world, idx uint64, ops structs.TxnOps) structs.TxnResponse {
	req := structs.TxnRequest{Datacenter: "dc1", Ops: ops}
	v := w.r.ApplyBytes(idx, fsmkit.Encode(structs.TxnRequestType, &req))
	resp, ok := v.(structs.TxnResponse)
	if !ok {
		panic(fmt.Sprintf("txn returned %T %v", v, v))
	}
	return resp
}

func cloneOps(ops structs.TxnOps) structs.TxnOps {
	// ops are re-encoded per use (ApplyBytes copies/decodes), so sharing the pointers is safe as
	// long as nobody mutates them; Encode does not.
	out := make(structs.TxnOps, len(ops))
	copy(out, ops)
	return out
}

func classOf(op *structs.TxnOp) string {
	switch {
	case op.KV != nil:
		return "kv:" + string(op.KV.Verb)
	case op.Node != nil:
		return "node:" + string(op.Node.Verb)
	case op.Service != nil:
		return "service:" + string(op.Service.Verb)
	case op.Check != nil:
		return "check:" + string(op.Check.Verb)
	case op.Session != nil:
		return "session:" + string(op.Session.Verb)
	}
	return "?"
}

func TestZZVerifC05(t *testing.T) {
	run := core.NewRun("C05", "fault_enumeration",
		"pre-states from PRNG command histories (catalog, KV, sessions with held locks, transactions); operation lists of length 1-6 mixing all KV, node, service, check and session verbs incl. guards and cascading verbs. Each list runs as one transaction on world A; if it fails: full-dump equality before/after, event-publisher queue empty, no watch of a 60-query universe fired, no tombstone-GC hint; if it succeeds: results and final dump must equal a twin world that applies the operations one at a time at the same index. For every successful list the n+1 variants with a guaranteed-failing operation inserted at every position are executed too (failing position enumerated). Read-only lists also run through TxnRO (dump unchanged). non-trivial = aborted transaction whose prefix before the failing operation contained >=2 mutating operations that are accepted on their own; distinct by (pre-state hash, operation list)")
	run.Assume("isolation is decided for the serial case (operations see earlier operations of the same transaction; aborted transactions leave no trace); concurrent readers are covered by memdb snapshot isolation which consul does not re-implement")
	rng := core.NewRand(core.Seed())
	nworlds := core.N(40, 600)
	listsPerWorld := core.N(25, 40)

	for wi := 0; wi < nworlds && run.Violations() < 40; wi++ {
		wr := rng.Fork(uint64(wi))
		g := gen.New(wr, gen.SessionWeights())
		g.Focus = true
		g.NodeNames = []string{"n1", "n2", "n1x"}
		// pre-history generated against a scratch world
		scratch := newWorld()
		var cmds []gen.Cmd
		var idxs []uint64
		idx := uint64(4)
		pre := 25 + wr.Intn(30)
		for i := 0; i < pre; i++ {
			idx += 1
			c := g.Next(scratch.r.State(), idx)
			cmds = append(cmds, c)
			idxs = append(idxs, idx)
			scratch.r.ApplyBytes(idx, c.Bytes)
			scratch.drain()
		}
		preHash := dump.Of(scratch.r.State()).Hash()

		for li := 0; li < listsPerWorld; li++ {
			n := 1 + wr.Intn(6)
			var ops structs.TxnOps
			for i := 0; i < n; i++ {
				ops = append(ops, g.TxnOp(scratch.r.State(), idx+1))
			}
			// idempotent rewrites: every 4th list also writes existing keys again with exactly their stored
			// content (set, cas at the current index, re-acquisition by the holder): the store skips such a
			// write, the result must still be the stored entry
			if li%4 == 1 {
				if _, ents, err := scratch.r.State().KVSList(nil, "", nil); err == nil {
					for k := 0; k < 3 && len(ents) > 0; k++ {
						e := ents[wr.Intn(len(ents))]
						d := structs.DirEntry{Key: e.Key, Value: append([]byte{}, e.Value...), Flags: e.Flags}
						switch {
						case e.Session != "" && wr.Chance(60):
							d.Session = e.Session
							ops = append(ops, &structs.TxnOp{KV: &structs.TxnKVOp{Verb: api.KVLock, DirEnt: d}})
						case wr.Chance(40):
							d.ModifyIndex = e.ModifyIndex
							ops = append(ops, &structs.TxnOp{KV: &structs.TxnKVOp{Verb: api.KVCAS, DirEnt: d}})
						default:
							ops = append(ops, &structs.TxnOp{KV: &structs.TxnKVOp{Verb: api.KVSet, DirEnt: d}})
						}
						run.Count("idempotent_rewrite_ops_generated")
					}
					n = len(ops)
				}
			}
			// "operations see the effects of earlier operations in the same transaction": read back what
			// the list itself wrote (point reads and a listing of the enclosing prefix)
			nrb := 0
			if wr.Chance(60) {
				rb := readBacks(ops)
				nrb = len(rb)
				ops = append(ops, rb...)
				n = len(ops)
			}
			variants := []structs.TxnOps{ops}
			// try the list first to know whether it commits; then enumerate failing positions
			probe := newWorld()
			probe.apply(cmds, idxs)
			pr := runTxn(probe, idx+1, cloneOps(ops))
			probe.r.Close()
			if len(pr.Errors) == 0 {
				for p := 0; p <= n; p++ {
					v := make(structs.TxnOps, 0, n+1)
					v = append(v, ops[:p]...)
					v = append(v, failingOp(wi+li+p))
					v = append(v, ops[p:]...)
					variants = append(variants, v)
				}
			}
			for vi, v := range variants {
				core.Progress("C05", fmt.Sprintf("world %d list %d variant %d", wi, li, vi))
				a := newWorld()
				a.apply(cmds, idxs)
				before := dump.Of(a.r.State())
				ws := watchAll(a.r.State())
				pendingBefore := a.r.Pub.VerifPending()
				hintBefore := a.gc.PendingExpiration()
				delaysBefore := lockDelays(a.r.State())
				resp := runTxn(a, idx+1, cloneOps(v))
				after := dump.Of(a.r.State())
				run.Eval()
				var classes []string
				for _, op := range v {
					classes = append(classes, classOf(op))
					run.Distinct("verb", classOf(op))
				}
				wit := func() map[string]any {
					return map[string]any{"pre_history": descs(cmds, idxs), "txn_index": idx + 1, "ops": core.JSON(v), "errors": core.JSON(resp.Errors)}
				}
				if len(resp.Errors) > 0 {
					run.Count("txn_aborted")
					first := resp.Errors[0].OpIndex
					run.Distinct("failing-position", fmt.Sprint(first))
					if d := dump.RowDiffs(before, after, 5, nil); len(d) > 0 {
						run.Violation("C05:abort:state-changed:"+d[0].Key(), fmt.Sprintf("aborted transaction (errors %s) changed table %s: before=%s after=%s; ops=%v", core.JSON(resp.Errors), d[0].Table, trunc(d[0].A, 200), trunc(d[0].B, 200), classes), wit())
					}
					if p := a.r.Pub.VerifPending(); p != pendingBefore {
						run.Violation("C05:abort:events-published", fmt.Sprintf("aborted transaction handed %d event batch(es) to the publisher; ops=%v", p-pendingBefore, classes), wit())
					}
					if f := fired(ws); f > 0 {
						run.Violation("C05:abort:watch-fired", fmt.Sprintf("aborted transaction fired %d watch channel(s); ops=%v", f, classes), wit())
					}
					if a.gc.PendingExpiration() != hintBefore {
						run.Violation("C05:abort:tombstone-gc-hint", fmt.Sprintf("aborted transaction left a tombstone GC hint; ops=%v", classes), wit())
					}
					if resp.Results != nil {
						run.Violation("C05:abort:results-returned", "aborted transaction returned results", wit())
					}
					if d := lockDelays(a.r.State()); d != delaysBefore {
						run.Violation("C05:abort:lock-delay-armed", fmt.Sprintf("aborted transaction armed a lock-delay (keys with a pending lock-delay before: [%s], after: [%s]); ops=%v", delaysBefore, d, classes), wit())
					}
					run.Count("aborted_txn_lock_delay_checked")
					// the guards up to the failing operation, against the independent statement of when
					// a guard has to fail (walk: one operation at a time on a twin)
					gw := newWorld()
					gw.apply(cmds, idxs)
					for _, op := range v {
						must, why := guardMustFail(gw.r.State(), op)
						r := runTxn(gw, idx+1, structs.TxnOps{op})
						if must {
							run.Count("guards_that_must_fail_checked")
							if len(r.Errors) == 0 {
								run.Violation("C05:guard-must-fail-but-passed:"+classOf(op), fmt.Sprintf("operation %s passed its check although %s", classOf(op), why), wit())
							}
						}
						if len(r.Errors) > 0 {
							break
						}
					}
					gw.r.Close()
					// non-trivial: >=2 mutating ops before the failing one
					mut := 0
					for i := 0; i < first && i < len(v); i++ {
						if isMutating(v[i]) {
							mut++
						}
					}
					if mut >= 2 {
						run.NonTrivial(core.Hash(preHash, core.JSON(v)))
						run.Count("aborted_after_>=2_mutations")
						if run.WantSample() {
							run.Sample(map[string]any{"ops": classes, "failing_position": first, "prestate_tables": before.NonEmptyTables()})
						}
					}
				} else {
					run.Count("txn_committed")
					if vi == 0 && nrb > 0 {
						run.Count("txn_committed_with_read_back_of_own_writes")
					}
					// twin: same ops one at a time at the same index
					b := newWorld()
					b.apply(cmds, idxs)
					var twinResults structs.TxnResults
					twinFailed := false
					for _, op := range v {
						must, why := guardMustFail(b.r.State(), op)
						r := runTxn(b, idx+1, structs.TxnOps{op})
						if must {
							run.Count("guards_that_must_fail_checked")
						}
						if must && len(r.Errors) == 0 {
							// (never reached for a committed list on a correct tree: the op would have aborted it)
							run.Violation("C05:guard-must-fail-but-passed:"+classOf(op), fmt.Sprintf("operation %s passed its check although %s; the transaction was committed instead of rolled back", classOf(op), why), wit())
						}
						if len(r.Errors) > 0 {
							twinFailed = true
							run.Violation("C05:commit:op-fails-alone:"+classOf(op), fmt.Sprintf("operation %s succeeded inside the transaction but fails when applied on its own after the preceding operations: %s", classOf(op), core.JSON(r.Errors)), wit())
							break
						}
						twinResults = append(twinResults, r.Results...)
						// "returns their results": the entry a write verb reports is the entry the store now holds
						// (the operation was applied alone, so nothing else touched the key)
						if op.KV != nil && (op.KV.Verb == api.KVSet || op.KV.Verb == api.KVCAS || op.KV.Verb == api.KVLock || op.KV.Verb == api.KVUnlock) {
							for _, res := range r.Results {
								if res.KV == nil {
									continue
								}
								run.Count("write_results_compared_with_stored_entry")
								_, e, err := b.r.State().KVSGet(nil, res.KV.Key, &res.KV.EnterpriseMeta)
								if err != nil || e == nil {
									run.Violation("C05:commit:result-of-write-without-stored-entry:"+classOf(op), fmt.Sprintf("operation %s returned an entry for key %q but the store holds none", classOf(op), res.KV.Key), wit())
									continue
								}
								if e.ModifyIndex != res.KV.ModifyIndex || e.CreateIndex != res.KV.CreateIndex || e.LockIndex != res.KV.LockIndex || e.Session != res.KV.Session || e.Flags != res.KV.Flags {
									run.Violation("C05:commit:result-differs-from-stored-entry:"+classOf(op), fmt.Sprintf("operation %s on key %q returned create/modify/lock index %d/%d/%d session %q flags %d but the store holds %d/%d/%d session %q flags %d", classOf(op), res.KV.Key, res.KV.CreateIndex, res.KV.ModifyIndex, res.KV.LockIndex, res.KV.Session, res.KV.Flags, e.CreateIndex, e.ModifyIndex, e.LockIndex, e.Session, e.Flags), wit())
								}
							}
						}
					}
					if !twinFailed {
						if ra, rb := dump.Render(resp.Results), dump.Render(twinResults); ra != rb && (len(resp.Results) > 0 || len(twinResults) > 0) {
							run.Violation("C05:commit:results-differ", fmt.Sprintf("transaction results differ from sequential application: txn=%s sequential=%s", trunc(ra, 300), trunc(rb, 300)), wit())
						}
						if d := dump.RowDiffs(usageCounts(after), usageCounts(dump.Of(b.r.State())), 5, nil); len(d) > 0 {
							run.Violation("C05:commit:state-differs:"+d[0].Key(), fmt.Sprintf("state after the transaction differs from sequential application in table %s: txn=%s sequential=%s; ops=%v", d[0].Table, trunc(d[0].A, 200), trunc(d[0].B, 200), classes), wit())
						}
					}
					b.r.Close()
					// "applies all of its operations at one index": every row the transaction wrote or changed
					// carries the transaction's index as modify index, and every index-table row it moved
					// was moved to exactly that index
					for _, x := range dump.RowDiffs(before, after, 4000, nil) {
						if x.B == "" || x.Kind == "order" {
							continue // deleted rows carry no stamp
						}
						var got uint64
						ok := false
						if x.Table == "index" {
							if m := reIndexValue.FindStringSubmatch(x.B); m != nil {
								got, _ = strconv.ParseUint(m[1], 10, 64)
								ok = true
							}
						} else if m := reModifyIndex.FindStringSubmatch(x.B); m != nil {
							got, _ = strconv.ParseUint(m[1], 10, 64)
							ok = true
						}
						if !ok {
							continue
						}
						run.Count("rows_written_by_committed_txn_checked_for_index")
						if got != idx+1 {
							what := "row"
							if x.Table == "index" {
								what = "index-table row"
							}
							run.Violation("C05:commit:not-at-one-index:"+x.Table, fmt.Sprintf("transaction at index %d left a %s of table %s stamped %d: before=%s after=%s; ops=%v", idx+1, what, x.Table, got, trunc(x.A, 200), trunc(x.B, 200), classes), wit())
							break
						}
					}
				}
				// read-only path
				if allReadOnly(v) {
					ro := newWorld()
					ro.apply(cmds, idxs)
					b0 := dump.Of(ro.r.State())
					ro.r.State().TxnRO(cloneOps(v))
					if d := dump.RowDiffs(b0, dump.Of(ro.r.State()), 3, nil); len(d) > 0 {
						run.Violation("C05:read-only:state-changed:"+d[0].Key(), "a read-only transaction changed table "+d[0].Table, wit())
					}
					run.Count("read_only_txn")
					ro.r.Close()
				}
				a.r.Close()
			}
		}
		scratch.r.Close()
	}
	run.FloorDistinct("verb", 25)
	run.FloorDistinct("failing-position", 5)
	run.Floor("txn_committed", 100)
	run.Floor("aborted_after_>=2_mutations", 50)
	run.Floor("read_only_txn", 10)
	run.Floor("guards_that_must_fail_checked", 50)
	run.Floor("txn_committed_with_read_back_of_own_writes", 20)
	run.Floor("rows_written_by_committed_txn_checked_for_index", 300)
	if run.Finish() == 1 {
		t.Fail()
	}
}

var reModifyIndex = regexp.MustCompile(`(?i)modifyindex:(\d+)`)
var reIndexValue = regexp.MustCompile(`(?i)value:(\d+)`)

// lockDelays lists the keys for which the store holds a pending lock-delay (the un-replicated map the
// leader consults before accepting a lock): part of what an aborted transaction must leave alone.
func lockDelays(s *state.Store) string {
	_, ents, err := s.KVSList(nil, "", nil)
	if err != nil {
		return "error"
	}
	var out []string
	for _, e := range ents {
		if !s.KVSLockDelay(e.Key, nil).IsZero() {
			out = append(out, e.Key)
		}
	}
	return strings.Join(out, ",")
}

// readBacks returns read operations for everything the list writes: the twin (which commits every
// operation before the next one runs) and the transaction must return the same for them.
func readBacks(ops structs.TxnOps) structs.TxnOps {
	var out structs.TxnOps
	seen := map[string]bool{}
	for _, op := range ops {
		switch {
		case op.KV != nil && isMutating(op):
			k := op.KV.DirEnt.Key
			if k == "" || seen["kv:"+k] {
				continue
			}
			seen["kv:"+k] = true
			if op.KV.Verb != api.KVDeleteTree {
				out = append(out, &structs.TxnOp{KV: &structs.TxnKVOp{Verb: api.KVGet, DirEnt: structs.DirEntry{Key: k}}})
			}
			pfx := k
			if i := strings.LastIndex(strings.TrimSuffix(k, "/"), "/"); i >= 0 {
				pfx = k[:i+1]
			}
			out = append(out, &structs.TxnOp{KV: &structs.TxnKVOp{Verb: api.KVGetTree, DirEnt: structs.DirEntry{Key: pfx}}})
		case op.Node != nil && op.Node.Verb != api.NodeGet && op.Node.Verb != api.NodeDelete && op.Node.Verb != api.NodeDeleteCAS:
			if !seen["node:"+op.Node.Node.Node] {
				seen["node:"+op.Node.Node.Node] = true
				out = append(out, &structs.TxnOp{Node: &structs.TxnNodeOp{Verb: api.NodeGet, Node: structs.Node{Node: op.Node.Node.Node}}})
			}
		case op.Service != nil && (op.Service.Verb == api.ServiceSet || op.Service.Verb == api.ServiceCAS):
			k := op.Service.Node + "/" + op.Service.Service.ID
			if !seen["svc:"+k] {
				seen["svc:"+k] = true
				out = append(out, &structs.TxnOp{Service: &structs.TxnServiceOp{Verb: api.ServiceGet, Node: op.Service.Node, Service: structs.NodeService{ID: op.Service.Service.ID}}})
			}
		case op.Check != nil && (op.Check.Verb == api.CheckSet || op.Check.Verb == api.CheckCAS):
			k := op.Check.Check.Node + "/" + string(op.Check.Check.CheckID)
			if !seen["chk:"+k] {
				seen["chk:"+k] = true
				out = append(out, &structs.TxnOp{Check: &structs.TxnCheckOp{Verb: api.CheckGet, Check: structs.HealthCheck{Node: op.Check.Check.Node, CheckID: op.Check.Check.CheckID}}})
			}
		}
	}
	return out
}

// guardMustFail is an independent statement of when a KV guard has to fail, evaluated on the state the
// operation sees (the twin has applied the preceding operations of the list).
func guardMustFail(s *state.Store, op *structs.TxnOp) (bool, string) {
	if op == nil {
		return false, ""
	}
	// catalog verbs: compare-and-set / compare-and-delete against the entity's modify index
	casRule := func(what string, exists bool, cur, given uint64, isDelete bool) (bool, string) {
		switch {
		case isDelete && exists && cur != given:
			return true, fmt.Sprintf("the given index %d is not the modify index %d of the %s", given, cur, what)
		case !isDelete && given == 0 && exists:
			return true, fmt.Sprintf("index 0 means create-only and the %s exists", what)
		case !isDelete && given != 0 && (!exists || cur != given):
			return true, fmt.Sprintf("the given index %d is not the modify index of the %s", given, what)
		}
		return false, ""
	}
	switch {
	case op.Node != nil && (op.Node.Verb == api.NodeCAS || op.Node.Verb == api.NodeDeleteCAS):
		_, n, err := s.GetNode(op.Node.Node.Node, nil, op.Node.Node.PeerName)
		if err != nil {
			return false, ""
		}
		var cur uint64
		if n != nil {
			cur = n.ModifyIndex
		}
		return casRule("node", n != nil, cur, op.Node.Node.ModifyIndex, op.Node.Verb == api.NodeDeleteCAS)
	case op.Service != nil && (op.Service.Verb == api.ServiceCAS || op.Service.Verb == api.ServiceDeleteCAS):
		_, e, err := s.NodeService(nil, op.Service.Node, op.Service.Service.ID, nil, op.Service.Service.PeerName)
		if err != nil {
			return false, ""
		}
		var cur uint64
		if e != nil {
			cur = e.ModifyIndex
		}
		return casRule("service instance", e != nil, cur, op.Service.Service.ModifyIndex, op.Service.Verb == api.ServiceDeleteCAS)
	case op.Check != nil && (op.Check.Verb == api.CheckCAS || op.Check.Verb == api.CheckDeleteCAS):
		_, e, err := s.NodeCheck(op.Check.Check.Node, op.Check.Check.CheckID, nil, op.Check.Check.PeerName)
		if err != nil {
			return false, ""
		}
		var cur uint64
		if e != nil {
			cur = e.ModifyIndex
		}
		return casRule("check", e != nil, cur, op.Check.Check.ModifyIndex, op.Check.Verb == api.CheckDeleteCAS)
	}
	if op.Session != nil && op.Session.Verb == api.SessionDelete {
		_, sess, err := s.SessionGet(nil, op.Session.Session.ID, &op.Session.Session.EnterpriseMeta)
		if err == nil && sess == nil {
			return true, "the session to delete does not exist"
		}
		return false, ""
	}
	if op.KV == nil {
		return false, ""
	}
	d := op.KV.DirEnt
	_, e, err := s.KVSGet(nil, d.Key, &d.EnterpriseMeta)
	if err != nil {
		return false, ""
	}
	switch op.KV.Verb {
	case api.KVCAS:
		if d.ModifyIndex == 0 && e != nil {
			return true, "index 0 means create-only and the key exists"
		}
		if d.ModifyIndex != 0 && (e == nil || e.ModifyIndex != d.ModifyIndex) {
			return true, fmt.Sprintf("the given index %d is not the key's modify index", d.ModifyIndex)
		}
	case api.KVDeleteCAS:
		if e != nil && e.ModifyIndex != d.ModifyIndex {
			return true, fmt.Sprintf("the given index %d is not the key's modify index %d", d.ModifyIndex, e.ModifyIndex)
		}
	case api.KVCheckIndex:
		if e == nil || e.ModifyIndex != d.ModifyIndex {
			return true, fmt.Sprintf("the given index %d is not the key's modify index", d.ModifyIndex)
		}
	case api.KVCheckNotExists:
		if e != nil {
			return true, "the key exists"
		}
	case api.KVCheckSession:
		if e == nil || e.Session != d.Session {
			return true, "the key is not held by the given session"
		}
	}
	return false, ""
}

// usageCounts reduces the usage table to (id, count>0): one transaction and the same operations
// committed one by one legitimately differ in WHEN a usage row is (re)stamped (a net-zero delta inside
// one commit leaves the row untouched), while the counts must agree.
func usageCounts(d *dump.Dump) *dump.Dump {
	var keep []string
	for _, r := range d.Tables["usage"] {
		i := strings.Index(r, " Index:")
		j := strings.Index(r, " Count:")
		if i < 0 || j < 0 {
			continue // zero count
		}
		keep = append(keep, r[:i]+r[j:])
	}
	d.Tables["usage"] = keep
	return d
}

func isMutating(op *structs.TxnOp) bool {
	switch {
	case op.KV != nil:
		switch op.KV.Verb {
		case api.KVGet, api.KVGetOrEmpty, api.KVGetTree, api.KVCheckIndex, api.KVCheckSession, api.KVCheckNotExists:
			return false
		}
		return true
	case op.Node != nil:
		return op.Node.Verb != api.NodeGet
	case op.Service != nil:
		return op.Service.Verb != api.ServiceGet
	case op.Check != nil:
		return op.Check.Verb != api.CheckGet
	}
	return true
}

func allReadOnly(ops structs.TxnOps) bool {
	for _, op := range ops {
		if isMutating(op) {
			return false
		}
	}
	return true
}

func descs(cmds []gen.Cmd, idxs []uint64) []string {
	var out []string
	for i, c := range cmds {
		out = append(out, fmt.Sprintf("@%d %s", idxs[i], trunc(c.Desc, 300)))
	}
	return out
}

func trunc(s string, n int) string {
	if len(s) > n {
		return s[:n] + "…"
	}
	return s
}
