//go:build verif

package c18

import (
	"testing"

	"github.com/hashicorp/consul/zzverif/core"
)

func runServicePart(t *testing.T, run *core.Run, rng *core.Rand) {}
