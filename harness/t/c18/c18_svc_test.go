//go:build verif

// C18 part S: the same monitors applied to the backend-boundary history produced by concurrent clients
// of the real resource SERVICE (agent/grpc-external/services/resource: Write / Delete / Read), where
// UIDs are assigned by the server. The service's storage backend (a real inmem.Backend) is wrapped
// by a recorder that sees every Backend call the service makes; watchers watch the backend directly.
package c18

import (
	"context"
	"fmt"
	"runtime"
	"sync"
	"testing"
	"time"

	"github.com/hashicorp/go-hclog"
	"google.golang.org/grpc/codes"
	"google.golang.org/grpc/status"
	"google.golang.org/protobuf/proto"

	"github.com/hashicorp/consul/acl"
	"github.com/hashicorp/consul/acl/resolver"
	svc "github.com/hashicorp/consul/agent/grpc-external/services/resource"
	"github.com/hashicorp/consul/internal/resource"
	"github.com/hashicorp/consul/internal/resource/demo"
	"github.com/hashicorp/consul/internal/storage"
	"github.com/hashicorp/consul/internal/storage/inmem"
	"github.com/hashicorp/consul/proto-public/pbresource"
	"github.com/hashicorp/consul/zzverif/core"
)

var svcUniverse = &universe{typ: demo.TypeV2Album, tens: [2][2]string{{"default", "default"}, {"zz-unused", "zz-unused"}}}

type zvACL struct{}

func (zvACL) ResolveTokenAndDefaultMeta(string, *acl.EnterpriseMeta, *acl.AuthorizerContext) (resolver.Result, error) {
	return resolver.Result{Authorizer: acl.ManageAll()}, nil
}

type zvTenancy struct{}

func (zvTenancy) PartitionExists(string) (bool, error)                    { return true, nil }
func (zvTenancy) IsPartitionMarkedForDeletion(string) (bool, error)       { return false, nil }
func (zvTenancy) NamespaceExists(string, string) (bool, error)            { return true, nil }
func (zvTenancy) IsNamespaceMarkedForDeletion(string, string) (bool, error) { return false, nil }

// ---------------- recording backend ----------------

type svcKey struct{}

type recBackend struct {
	inner storage.Backend
	h     *hist
	mu    sync.Mutex
	recs  []opRec
}

func (b *recBackend) resIndex(id *pbresource.ID) int {
	if id == nil || id.Type == nil || id.Tenancy == nil || !proto.Equal(id.Type, b.h.U.typ) {
		return -1
	}
	for r := 0; r < b.h.P.Active; r++ {
		if b.h.U.tens[resTen(r)][0] == id.Tenancy.Partition && b.h.U.tens[resTen(r)][1] == id.Tenancy.Namespace && resName(r) == id.Name {
			return r
		}
	}
	return -1
}

func svcCall(ctx context.Context) int {
	if v, ok := ctx.Value(svcKey{}).(int); ok {
		return v
	}
	return 0
}

func (b *recBackend) add(op opRec) {
	b.mu.Lock()
	b.recs = append(b.recs, op)
	b.mu.Unlock()
}

func (b *recBackend) Read(ctx context.Context, c storage.ReadConsistency, id *pbresource.ID) (*pbresource.Resource, error) {
	r := b.resIndex(id)
	if r < 0 {
		return b.inner.Read(ctx, c, id)
	}
	op := opRec{Kind: "read", Res: r, Uid: id.Uid, Mode: "svc-backend-read", Svc: svcCall(ctx)}
	op.Call = b.h.now()
	out, err := b.inner.Read(ctx, c, id)
	op.Ret = b.h.now()
	op.Err = errClass(err)
	if err == nil {
		it := b.h.U.parseItem(out)
		op.Out = &it
	}
	b.add(op)
	return out, err
}

func (b *recBackend) WriteCAS(ctx context.Context, res *pbresource.Resource) (*pbresource.Resource, error) {
	r := b.resIndex(res.GetId())
	if r < 0 {
		return b.inner.WriteCAS(ctx, res)
	}
	op := opRec{Kind: "write", Res: r, Uid: res.Id.Uid, Ver: res.Version, Pid: res.Metadata["pid"], Mode: "svc-backend-write", Svc: svcCall(ctx)}
	op.Call = b.h.now()
	out, err := b.inner.WriteCAS(ctx, res)
	op.Ret = b.h.now()
	op.Err = errClass(err)
	if err == nil {
		it := b.h.U.parseItem(out)
		op.Out = &it
	}
	b.add(op)
	return out, err
}

func (b *recBackend) DeleteCAS(ctx context.Context, id *pbresource.ID, version string) error {
	r := b.resIndex(id)
	if r < 0 {
		return b.inner.DeleteCAS(ctx, id, version)
	}
	op := opRec{Kind: "delete", Res: r, Uid: id.Uid, Ver: version, Mode: "svc-backend-delete", Svc: svcCall(ctx)}
	op.Call = b.h.now()
	err := b.inner.DeleteCAS(ctx, id, version)
	op.Ret = b.h.now()
	op.Err = errClass(err)
	b.add(op)
	return err
}

func (b *recBackend) List(ctx context.Context, c storage.ReadConsistency, t storage.UnversionedType, ten *pbresource.Tenancy, prefix string) ([]*pbresource.Resource, error) {
	return b.inner.List(ctx, c, t, ten, prefix)
}
func (b *recBackend) WatchList(ctx context.Context, t storage.UnversionedType, ten *pbresource.Tenancy, prefix string) (storage.Watch, error) {
	return b.inner.WatchList(ctx, t, ten, prefix)
}
func (b *recBackend) ListByOwner(ctx context.Context, id *pbresource.ID) ([]*pbresource.Resource, error) {
	return b.inner.ListByOwner(ctx, id)
}

// ---------------- service clients ----------------

type svcRec struct {
	ID     int    `json:"id"`
	Client int    `json:"c"`
	Kind   string `json:"k"`
	Res    int    `json:"r"`
	Uid    string `json:"uid,omitempty"`
	Ver    string `json:"ver,omitempty"`
	Pid    string `json:"pid,omitempty"`
	Mode   string `json:"mode,omitempty"`
	Call   int64  `json:"call"`
	Ret    int64  `json:"ret"`
	Code   string `json:"code"`
	Msg    string `json:"msg,omitempty"`
	OutUid string `json:"outuid,omitempty"`
	OutVer string `json:"outver,omitempty"`
}

type svcClient struct {
	id   int
	h    *hist
	srv  *svc.Server
	rng  *core.Rand
	know [nRes]knowledge
	recs []svcRec
	n    int
}

func (c *svcClient) callID() int { c.n++; return (c.id+1)*10000 + c.n }

func (c *svcClient) id4(r int, uid string) *pbresource.ID { return c.h.U.resID(r, uid) }

func codeOf(err error) (string, string) {
	if err == nil {
		return "OK", ""
	}
	st, _ := status.FromError(err)
	if st == nil {
		return "non-status", err.Error()
	}
	return st.Code().String(), st.Message()
}

func (c *svcClient) write(r int, uid, ver, mode string) {
	id := c.callID()
	rec := svcRec{ID: id, Client: c.id, Kind: "write", Res: r, Uid: uid, Ver: ver, Pid: fmt.Sprintf("s%d", id), Mode: mode}
	ctx := context.WithValue(bg, svcKey{}, id)
	req := &pbresource.WriteRequest{Resource: &pbresource.Resource{Id: c.id4(r, uid), Version: ver, Metadata: map[string]string{"pid": rec.Pid}}}
	rec.Call = c.h.now()
	rsp, err := c.srv.Write(ctx, req)
	rec.Ret = c.h.now()
	rec.Code, rec.Msg = codeOf(err)
	if err == nil {
		rec.OutUid, rec.OutVer = rsp.Resource.Id.Uid, rsp.Resource.Version
		c.know[r].learn(pair{rec.OutUid, rec.OutVer})
	}
	c.recs = append(c.recs, rec)
}

func (c *svcClient) del(r int, uid, ver, mode string) {
	id := c.callID()
	rec := svcRec{ID: id, Client: c.id, Kind: "delete", Res: r, Uid: uid, Ver: ver, Mode: mode}
	ctx := context.WithValue(bg, svcKey{}, id)
	rec.Call = c.h.now()
	_, err := c.srv.Delete(ctx, &pbresource.DeleteRequest{Id: c.id4(r, uid), Version: ver})
	rec.Ret = c.h.now()
	rec.Code, rec.Msg = codeOf(err)
	if err == nil && (uid == "" || uid == c.know[r].cur.uid) {
		c.know[r].learn(pair{})
	}
	c.recs = append(c.recs, rec)
}

func (c *svcClient) read(r int, uid, mode string) {
	id := c.callID()
	rec := svcRec{ID: id, Client: c.id, Kind: "read", Res: r, Uid: uid, Mode: mode}
	ctx := context.WithValue(bg, svcKey{}, id)
	rec.Call = c.h.now()
	rsp, err := c.srv.Read(ctx, &pbresource.ReadRequest{Id: c.id4(r, uid)})
	rec.Ret = c.h.now()
	rec.Code, rec.Msg = codeOf(err)
	if err == nil {
		rec.OutUid, rec.OutVer = rsp.Resource.Id.Uid, rsp.Resource.Version
		c.know[r].learn(pair{rec.OutUid, rec.OutVer})
	} else if rec.Code == "NotFound" && uid == "" {
		c.know[r].learn(pair{})
	}
	c.recs = append(c.recs, rec)
}

func (c *svcClient) run() {
	rng := c.rng
	for i := 0; i < c.h.P.Ops; i++ {
		r := rng.Intn(c.h.P.Active)
		k := &c.know[r]
		old := pair{}
		if len(k.old) > 0 {
			old = k.old[rng.Intn(len(k.old))]
		}
		switch x := rng.Intn(100); {
		case x < 45: // write
			switch y := rng.Intn(100); {
			case y < 30:
				c.write(r, k.cur.uid, k.cur.ver, "cas-current") // with uid+version (a controller); create if nothing known
			case y < 45:
				c.write(r, "", k.cur.ver, "cas-by-name")
			case y < 55:
				c.write(r, "", "", "non-cas-by-name") // a user write: retried by the service on CAS failure
			case y < 70 && old.uid != "":
				c.write(r, old.uid, old.ver, "stale-uid-and-version")
			case y < 80 && old.uid != "":
				c.write(r, old.uid, "", "stale-uid-non-cas")
			case y < 90 && old.uid != "" && k.cur.uid != "":
				c.write(r, old.uid, k.cur.ver, "stale-uid-current-version")
			default:
				c.write(r, k.cur.uid, bogusVersion, "bogus-version")
			}
		case x < 70: // delete
			switch y := rng.Intn(100); {
			case y < 35:
				c.del(r, k.cur.uid, k.cur.ver, "delete-cas-current")
			case y < 50:
				c.del(r, "", "", "delete-by-name")
			case y < 60:
				c.del(r, k.cur.uid, "", "delete-by-uid-any-version")
			case y < 75 && old.uid != "":
				c.del(r, old.uid, old.ver, "delete-stale-uid-and-version")
			case y < 85 && old.uid != "":
				c.del(r, old.uid, "", "delete-stale-uid-any-version")
			case y < 93 && old.uid != "" && k.cur.uid != "":
				c.del(r, old.uid, k.cur.ver, "delete-stale-uid-current-version")
			default:
				c.del(r, k.cur.uid, bogusVersion, "delete-bogus-version")
			}
		default:
			switch y := rng.Intn(100); {
			case y < 70:
				c.read(r, "", "read-by-name")
			case y < 85 && old.uid != "":
				c.read(r, old.uid, "read-stale-uid")
			default:
				c.read(r, k.cur.uid, "read-by-uid")
			}
		}
		if rng.Chance(c.h.P.Yield) {
			runtime.Gosched()
		}
	}
}

// ---------------- one service history ----------------

type svcHist struct {
	h    *hist
	svc  []svcRec
	stop func()
}

func runServiceHistory(p hparams, rng *core.Rand) *svcHist {
	h := &hist{P: p, U: svcUniverse, start: time.Now(), flushed: make(chan struct{}), mainClient: p.Clients}
	inner, err := inmem.NewBackend()
	if err != nil {
		panic(err)
	}
	ctx, cancel := context.WithCancel(context.Background())
	defer cancel()
	go inner.Run(ctx)
	rec := &recBackend{inner: inner, h: h}
	reg := resource.NewRegistry()
	demo.RegisterTypes(reg)
	srv := svc.NewServer(svc.Config{Logger: hclog.NewNullLogger(), Registry: reg, Backend: rec, ACLResolver: zvACL{}, TenancyBridge: zvTenancy{}})

	clients := make([]*svcClient, p.Clients)
	var workers []func()
	for i := range clients {
		c := &svcClient{id: i, h: h, srv: srv, rng: rng.Fork(uint64(500 + i))}
		clients[i] = c
		workers = append(workers, c.run)
	}
	driveHistory(h, &sut{be: inner, cancel: func() {}}, rng, workers)
	sh := &svcHist{h: h}
	// the service's backend calls join the history (they ARE the client boundary of the backend here)
	h.Ops = append(h.Ops, rec.recs...)
	for _, c := range clients {
		sh.svc = append(sh.svc, c.recs...)
	}
	return sh
}

func checkServiceHistory(run *core.Run, sh *svcHist) {
	h := sh.h
	a := &analysis{h: h, run: run}
	run.Eval()
	if h.Incomplete != "" {
		run.Inconclusive(fmt.Sprintf("service history %d: %s", h.P.Idx, h.Incomplete))
	}
	a.index()
	a.direct()
	a.watches()
	a.linearizability()

	bySvc := map[int][]*opRec{}
	for i := range h.Ops {
		if op := &h.Ops[i]; op.Svc != 0 {
			bySvc[op.Svc] = append(bySvc[op.Svc], op)
		}
	}
	ex := func(s *svcRec) map[string]any {
		return map[string]any{"service_call": s, "backend_calls_of_it": bySvc[s.ID], "service_calls": sh.svc}
	}
	for i := range sh.svc {
		s := &sh.svc[i]
		run.Count("svc_calls")
		run.Distinct("svc-class", s.Kind+":"+s.Mode+":"+s.Code)
		if s.Code == "Internal" || s.Code == "Unknown" || s.Code == "non-status" {
			a.viol("svc:internal-error:"+s.Kind, fmt.Sprintf("service %s(%d uid=%q ver=%q) failed with %s: %s", s.Kind, s.Res, s.Uid, s.Ver, s.Code, s.Msg), ex(s))
			continue
		}
		switch {
		case s.Kind == "write" && s.Code == "OK":
			run.Count("svc_writes_ok")
			w := a.wr[s.Res][s.OutVer]
			if w == nil || w.Out.Uid != s.OutUid || w.Svc != s.ID {
				a.viol("svc:write-response-not-backed-by-a-backend-write", fmt.Sprintf("service Write(%d) answered uid=%s version=%s but no successful WriteCAS of that call produced it", s.Res, s.OutUid, s.OutVer), ex(s))
				continue
			}
			if s.Ver != "" && w.Ver != s.Ver {
				a.viol("svc:cas-write-applied-on-other-version", fmt.Sprintf("service Write(%d) with version %s succeeded by a WriteCAS presenting version %q", s.Res, s.Ver, w.Ver), ex(s))
			}
			if s.Uid != "" && s.Ver != "" && s.OutUid != s.Uid {
				a.viol("svc:uid-qualified-write-landed-on-other-lifetime", fmt.Sprintf("service Write(%d uid=%s ver=%s) succeeded on uid %s", s.Res, s.Uid, s.Ver, s.OutUid), ex(s))
			}
			if w.Ver == "" {
				run.Count("svc_creates_with_server_assigned_uid")
			}
		case s.Kind == "write" && s.Code == codes.FailedPrecondition.String():
			run.Count("svc_writes_wrong_uid")
		case s.Kind == "write" && s.Code == codes.Aborted.String():
			run.Count("svc_writes_cas_failure")
		case s.Kind == "delete":
			for _, b := range bySvc[s.ID] {
				if b.Kind == "delete" && s.Uid != "" && b.Uid != s.Uid {
					a.viol("svc:uid-qualified-delete-aimed-at-other-lifetime", fmt.Sprintf("service Delete(%d uid=%s ver=%q) issued DeleteCAS for uid %s", s.Res, s.Uid, s.Ver, b.Uid), ex(s))
				}
				if b.Kind == "delete" && s.Ver != "" && s.Uid != "" && b.Ver != s.Ver {
					a.viol("svc:cas-delete-applied-on-other-version", fmt.Sprintf("service Delete(%d uid=%s ver=%s) issued DeleteCAS for version %s", s.Res, s.Uid, s.Ver, b.Ver), ex(s))
				}
			}
		}
	}
	nt, fp := a.coverage()
	if nt {
		run.NonTrivial("svc:" + fp)
	}
}

func runServicePart(t *testing.T, run *core.Run, rng *core.Rand) {
	n := core.N(60, 1200)
	if zvRace {
		n = core.N(12, 120)
	}
	ncpu := runtime.NumCPU()
	scopes := []scope{{0, ""}, {0, "a"}, {-1, ""}, {-3, ""}, {-2, "ab"}, {-1, "b"}}
	params := make([]hparams, n)
	rngs := make([]*core.Rand, n)
	for i := 0; i < n; i++ {
		hr := rng.Fork(uint64(i))
		p := hparams{Idx: 1_000_000 + i, Backend: "inmem-under-service", Clients: 4 + hr.Intn(3), Ops: 16, Yield: core.Pick(hr, []int{0, 20, 50}), Procs: []int{2, 4, ncpu}[i%3], Active: 3}
		for k := 0; k < 2; k++ {
			wp := wparams{Scope: core.Pick(hr, scopes)}
			if hr.Chance(50) {
				wp.Warmup = hr.Intn(40)
			}
			p.Watchers = append(p.Watchers, wp)
		}
		params[i], rngs[i] = p, hr
	}
	for _, procs := range []int{2, 4, ncpu} {
		var idx []int
		for i := range params {
			if params[i].Procs == procs {
				idx = append(idx, i)
			}
		}
		if run.Violations() >= 30 {
			break
		}
		hs := make([]*svcHist, len(idx))
		runtime.GOMAXPROCS(procs)
		parallel(6, len(idx), func(k int) {
			ch := make(chan *svcHist, 1)
			go func() { ch <- runServiceHistory(params[idx[k]], rngs[idx[k]]) }()
			select {
			case hs[k] = <-ch:
			case <-time.After(60 * time.Second):
				run.Eval()
				run.Inconclusive(fmt.Sprintf("service history %d: watchdog fired", params[idx[k]].Idx))
			}
		})
		runtime.GOMAXPROCS(ncpu)
		parallel(ncpu, len(idx), func(k int) {
			if hs[k] != nil {
				checkServiceHistory(run, hs[k])
			}
		})
	}
	run.CountN("service_histories", n)
	run.Floor("svc_creates_with_server_assigned_uid", n/2)
	run.Floor("svc_writes_wrong_uid", n/4)
	run.FloorDistinct("svc-class", 20)
}
