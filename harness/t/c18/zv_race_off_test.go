//go:build verif && !race

package c18

const zvRace = false
