//go:build verif

// C18 oracles: (1) porcupine linearizability check of every recorded history against a sequential
// specification of the storage.Backend contract, partitioned by resource; (2) direct CAS / UID
// invariants; (3) exact watch-stream monitor; (4) snapshot/restore checks.
package c18

import (
	"fmt"
	"sort"
	"strconv"
	"strings"
	"time"

	"github.com/anishathalye/porcupine"

	"github.com/hashicorp/consul/zzverif/core"
)

// ---------------- sequential specification (written from internal/storage/storage.go docs) ----------------

type mstate struct {
	Exists         bool
	Uid, Ver, Pid  string
	Owner          int
	DelUid, DelVer string // identity of the most recently deleted version (while absent)
}

type minput struct {
	K     string // write delete read listed owned obs-upsert obs-delete snapread restore
	Uid   string
	Ver   string
	Pid   string
	Owner int
	Set   *item // restore: content to install (nil = absent)
}

type moutput struct {
	Err   string
	Found bool
	It    item
}

func sameItem(s mstate, it item) bool {
	return s.Exists && s.Uid == it.Uid && s.Ver == it.Ver && s.Pid == it.Pid && s.Owner == it.Owner
}

func zvStep(st, in, out interface{}) (bool, interface{}) {
	s, i, o := st.(mstate), in.(minput), out.(moutput)
	switch i.K {
	case "write":
		var want []string // acceptable outcomes
		switch {
		case !s.Exists && i.Ver == "":
			want = []string{""}
		case !s.Exists:
			want = []string{"cas"} // "if it does not match [what is stored] ErrCASFailure"
		default:
			uidOK, verOK := i.Uid == s.Uid, i.Ver == s.Ver
			switch {
			case uidOK && verOK:
				want = []string{""}
			case uidOK:
				want = []string{"cas"}
			case verOK:
				want = []string{"uid"}
			default:
				want = []string{"uid", "cas"} // both wrong: the contract does not say which error wins
			}
		}
		ok := false
		for _, w := range want {
			ok = ok || w == o.Err
		}
		if !ok {
			return false, s
		}
		if o.Err != "" {
			return true, s
		}
		// success: the stored resource is what was written, under a fresh version
		if o.It.Uid != i.Uid || o.It.Pid != i.Pid || o.It.Owner != i.Owner || o.It.Ver == "" || o.It.Ver == s.Ver || o.It.Ver == i.Ver {
			return false, s
		}
		return true, mstate{Exists: true, Uid: i.Uid, Ver: o.It.Ver, Pid: i.Pid, Owner: i.Owner}
	case "delete":
		switch {
		case !s.Exists, i.Uid != s.Uid: // absent: ok; other uid: "the deletion will be a no-op"
			return o.Err == "", s
		case i.Ver != s.Ver:
			return o.Err == "cas", s
		}
		return o.Err == "", mstate{DelUid: s.Uid, DelVer: s.Ver}
	case "read":
		if s.Exists && (i.Uid == "" || i.Uid == s.Uid) {
			return o.Err == "" && sameItem(s, o.It), s
		}
		return o.Err == "notfound", s
	case "listed", "snapread":
		if o.Found {
			return sameItem(s, o.It), s
		}
		return !s.Exists, s
	case "owned":
		if o.Found {
			return sameItem(s, o.It) && s.Owner == i.Owner, s
		}
		return !(s.Exists && s.Owner == i.Owner), s
	case "obs-upsert":
		return sameItem(s, o.It), s
	case "obs-delete":
		return !s.Exists && s.DelUid == o.It.Uid && s.DelVer == o.It.Ver, s
	case "restore":
		if i.Set == nil {
			return true, mstate{}
		}
		return true, mstate{Exists: true, Uid: i.Set.Uid, Ver: i.Set.Ver, Pid: i.Set.Pid, Owner: i.Set.Owner}
	}
	panic("model: unknown op " + i.K)
}

var zvModel = porcupine.Model{
	Init: func() interface{} { return mstate{} },
	Step: zvStep,
	DescribeOperation: func(in, out interface{}) string {
		return fmt.Sprintf("%+v -> %+v", in, out)
	},
}

// ---------------- analysis of one history ----------------

type analysis struct {
	h    *hist
	run  *core.Run
	wr   [nRes]map[string]*opRec // successful writes by returned version
	dels [nRes][]*opRec          // deletes that returned nil
	nv   int
}

func (a *analysis) witness(extra map[string]any) map[string]any {
	w := map[string]any{"params": a.h.P, "ops": a.h.Ops, "watches": a.h.Gens}
	if a.h.Snap != nil {
		w["snapshot"] = map[string]any{"call": a.h.Snap.Call, "ret": a.h.Snap.Ret, "idx": a.h.Snap.Idx, "items": a.h.Snap.Items}
	}
	if a.h.Rest != nil {
		w["restore"] = a.h.Rest
	}
	for k, v := range extra {
		w[k] = v
	}
	return w
}

func (a *analysis) viol(key, what string, extra map[string]any) {
	a.nv++
	a.run.Violation("C18:"+key, fmt.Sprintf("history %d (%s, %d clients, GOMAXPROCS %d): %s", a.h.P.Idx, a.h.P.Backend, a.h.P.Clients, a.h.P.Procs, what), a.witness(extra))
}

func (a *analysis) restored() bool { return a.h.Rest != nil }

// rolledBack: (raft) the version was assigned to a log entry between the snapshot and the restore
func (a *analysis) rolledBack(ver string) bool {
	if a.h.Rest == nil {
		return false
	}
	n, err := strconv.ParseUint(ver, 10, 64)
	return err == nil && n > a.h.Snap.Idx && n <= a.h.Rest.Idx
}

// pred returns the version presented by the successful write that produced ver
func (a *analysis) pred(r int, ver string) (string, bool) {
	w := a.wr[r][ver]
	if w == nil {
		return "", false
	}
	return w.Ver, true
}

// isAncestor: anc is a strict ancestor of ver in the version chain of one lifetime
func (a *analysis) isAncestor(r int, anc, ver string) bool {
	for i := 0; i < 100000; i++ {
		p, ok := a.pred(r, ver)
		if !ok || p == "" {
			return false
		}
		if p == anc {
			return true
		}
		ver = p
	}
	return false
}

// root: the creating write of the lifetime ver belongs to
func (a *analysis) root(r int, ver string) *opRec {
	for i := 0; i < 100000; i++ {
		w := a.wr[r][ver]
		if w == nil {
			return nil
		}
		if w.Ver == "" {
			return w
		}
		ver = w.Ver
	}
	return nil
}

func (a *analysis) index() {
	h := a.h
	for r := range a.wr {
		a.wr[r] = map[string]*opRec{}
	}
	for i := range h.Ops {
		op := &h.Ops[i]
		if strings.HasPrefix(op.Err, "other:") {
			a.viol("op:unexpected-error:"+op.Kind, fmt.Sprintf("%s on resource %d returned an error outside the documented set: %s", op.Kind, op.Res, op.Err), map[string]any{"op": op})
		}
		switch {
		case op.Kind == "write" && op.Err == "":
			o := op.Out
			if o.Bad != "" || o.Res != op.Res || o.Uid != op.Uid || o.Pid != op.Pid || o.Owner != op.Owner || o.Ver == "" {
				a.viol("cas:write-result-garbled", fmt.Sprintf("WriteCAS(%d uid=%s ver=%q) returned %+v", op.Res, op.Uid, op.Ver, *o), map[string]any{"op": op})
				continue
			}
			if prev := a.wr[op.Res][o.Ver]; prev != nil {
				a.viol("cas:version-reused", fmt.Sprintf("two successful writes of resource %d were both given version %s", op.Res, o.Ver), map[string]any{"first": prev, "second": op})
				continue
			}
			a.wr[op.Res][o.Ver] = op
		case op.Kind == "delete" && op.Err == "":
			a.dels[op.Res] = append(a.dels[op.Res], op)
		}
	}
}

// ---------------- (2) direct CAS / UID invariants ----------------

func (a *analysis) direct() {
	h := a.h
	type sv struct {
		r   int
		ver string
	}
	succ := map[sv][]*opRec{}
	uidsUsed := [nRes]map[string]*opRec{}
	var writes []*opRec
	for i := range h.Ops {
		if op := &h.Ops[i]; op.Kind == "write" && op.Err == "" && op.Out.Bad == "" {
			writes = append(writes, op)
		}
	}
	sort.Slice(writes, func(i, j int) bool { return writes[i].Call < writes[j].Call })
	for _, op := range writes {
		if op.Ver == "" {
			// a create opens a new lifetime: its uid must not be the uid of an earlier lifetime
			if uidsUsed[op.Res] == nil {
				uidsUsed[op.Res] = map[string]*opRec{}
			}
			if prev := uidsUsed[op.Res][op.Out.Uid]; prev != nil {
				a.viol("uid:reused-on-recreate", fmt.Sprintf("resource %d was created twice with the same uid %s", op.Res, op.Out.Uid), map[string]any{"first": prev, "second": op})
			}
			uidsUsed[op.Res][op.Out.Uid] = op
			continue
		}
		k := sv{op.Res, op.Ver}
		succ[k] = append(succ[k], op)
		p := a.wr[op.Res][op.Ver]
		if p == nil {
			a.viol("cas:write-succeeded-on-unissued-version", fmt.Sprintf("WriteCAS(%d uid=%s) presenting version %s succeeded although no write ever produced that version", op.Res, op.Uid, op.Ver), map[string]any{"op": op})
			continue
		}
		if p.Uid != op.Uid {
			a.viol("uid:changed-within-lifetime", fmt.Sprintf("resource %d: version %s has uid %s, its successor %s has uid %s", op.Res, op.Ver, p.Uid, op.Out.Ver, op.Uid), map[string]any{"pred": p, "op": op})
		}
		// stale writer: the (uid, version) it presents was already proven dead before it was called
		for _, d := range a.dels[op.Res] {
			if d.Uid == op.Uid && d.Ver == op.Ver && d.Ret < op.Call && !(a.restored() && op.Ret > h.Rest.Call) {
				a.viol("uid:stale-writer-succeeded", fmt.Sprintf("WriteCAS(%d uid=%s ver=%s) succeeded after DeleteCAS of exactly that uid/version had returned", op.Res, op.Uid, op.Ver), map[string]any{"delete": d, "op": op})
				break
			}
		}
	}
	for k, ws := range succ {
		live, rolled := 0, 0
		for _, w := range ws {
			if a.rolledBack(w.Out.Ver) {
				rolled++
			} else {
				live++
			}
		}
		if live > 1 || rolled > 1 {
			a.viol("cas:two-winners-same-version", fmt.Sprintf("%d writes of resource %d presenting version %s all succeeded", len(ws), k.r, k.ver), map[string]any{"winners": ws})
		}
	}
}

// ---------------- (1) linearizability ----------------

type pop struct {
	op  porcupine.Operation
	cls int // 0 core, 1 list, 2 list-by-owner, 3 watch observation
}

func (a *analysis) partitions() [nRes][]pop {
	h := a.h
	var parts [nRes][]pop
	add := func(r, cls, cid int, in minput, out moutput, call, ret int64) {
		parts[r] = append(parts[r], pop{porcupine.Operation{ClientId: cid, Input: in, Output: out, Call: call, Return: ret}, cls})
	}
	for i := range h.Ops {
		op := &h.Ops[i]
		if strings.HasPrefix(op.Err, "other:") {
			continue
		}
		switch op.Kind {
		case "write":
			o := moutput{Err: op.Err}
			if op.Out != nil {
				o.It = *op.Out
			}
			add(op.Res, 0, op.Client, minput{K: "write", Uid: op.Uid, Ver: op.Ver, Pid: op.Pid, Owner: op.Owner}, o, op.Call, op.Ret)
		case "delete":
			add(op.Res, 0, op.Client, minput{K: "delete", Uid: op.Uid, Ver: op.Ver}, moutput{Err: op.Err}, op.Call, op.Ret)
		case "read":
			o := moutput{Err: op.Err}
			if op.Out != nil {
				if op.Out.Bad != "" || op.Out.Res != op.Res {
					a.viol("read:foreign-result", fmt.Sprintf("Read(%d) returned %+v", op.Res, *op.Out), map[string]any{"op": op})
					continue
				}
				o.It = *op.Out
			}
			add(op.Res, 0, op.Client, minput{K: "read", Uid: op.Uid}, o, op.Call, op.Ret)
		case "list":
			seen := map[int]bool{}
			bad := false
			for _, it := range op.Items {
				if it.Bad != "" || !op.Scope.matches(it.Res) || seen[it.Res] {
					a.viol("list:foreign-or-duplicate-item", fmt.Sprintf("List(%+v) returned %+v", *op.Scope, it), map[string]any{"op": op})
					bad = true
					break
				}
				seen[it.Res] = true
				add(it.Res, 1, op.Client, minput{K: "listed"}, moutput{Found: true, It: it}, op.Call, op.Ret)
			}
			if bad {
				continue
			}
			for r := 0; r < nRes; r++ {
				if op.Scope.matches(r) && !seen[r] {
					add(r, 1, op.Client, minput{K: "listed"}, moutput{}, op.Call, op.Ret)
				}
			}
		case "listowner":
			if op.OUid != "o" {
				if len(op.Items) != 0 {
					a.viol("list-by-owner:wrong-owner-uid-matched", fmt.Sprintf("ListByOwner(own%d uid=%s) returned %d resources although no resource has an owner with that uid", op.Owner, op.OUid, len(op.Items)), map[string]any{"op": op})
				}
				continue
			}
			seen := map[int]bool{}
			bad := false
			for _, it := range op.Items {
				if it.Bad != "" || seen[it.Res] {
					a.viol("list-by-owner:foreign-or-duplicate-item", fmt.Sprintf("ListByOwner(own%d) returned %+v", op.Owner, it), map[string]any{"op": op})
					bad = true
					break
				}
				seen[it.Res] = true
				add(it.Res, 2, op.Client, minput{K: "owned", Owner: op.Owner}, moutput{Found: true, It: it}, op.Call, op.Ret)
			}
			if bad {
				continue
			}
			for r := 0; r < nRes; r++ {
				if !seen[r] {
					add(r, 2, op.Client, minput{K: "owned", Owner: op.Owner}, moutput{}, op.Call, op.Ret)
				}
			}
		}
	}
	for _, g := range h.Gens {
		for i := range g.Events {
			e := &g.Events[i]
			if e.It.Res < 0 || e.It.Bad != "" {
				continue
			}
			switch e.Kind {
			case "upsert":
				add(e.It.Res, 3, 100+g.Watcher, minput{K: "obs-upsert"}, moutput{It: e.It}, 0, e.T)
			case "delete":
				add(e.It.Res, 3, 100+g.Watcher, minput{K: "obs-delete"}, moutput{It: e.It}, 0, e.T)
			}
			if rd := e.Read; rd != nil && !strings.HasPrefix(rd.Err, "other:") {
				o := moutput{Err: rd.Err}
				if rd.Out != nil {
					if rd.Out.Bad != "" || rd.Out.Res != rd.Res {
						a.viol("read:foreign-result", fmt.Sprintf("Read(%d) returned %+v", rd.Res, *rd.Out), map[string]any{"op": rd})
						continue
					}
					o.It = *rd.Out
				}
				add(rd.Res, 0, rd.Client, minput{K: "read"}, o, rd.Call, rd.Ret)
			}
		}
	}
	if h.Snap != nil {
		for r := 0; r < nRes; r++ {
			o := moutput{}
			if it, ok := h.Snap.Items[r]; ok {
				o = moutput{Found: true, It: it}
			}
			add(r, 0, 200, minput{K: "snapread"}, o, h.Snap.Call, h.Snap.Ret)
		}
	}
	if h.Rest != nil {
		for r := 0; r < nRes; r++ {
			in := minput{K: "restore"}
			if it, ok := h.Snap.Items[r]; ok {
				c := it
				in.Set = &c
			}
			add(r, 0, 200, in, moutput{}, h.Rest.Call, h.Rest.Ret)
		}
	}
	return parts
}

var clsName = []string{"core", "list", "list-by-owner", "watch-observation"}

func (a *analysis) linearizability() {
	parts := a.partitions()
	timeout := 20 * time.Second
	for r := 0; r < nRes; r++ {
		var ops []porcupine.Operation
		for _, p := range parts[r] {
			ops = append(ops, p.op)
		}
		a.run.Count("porcupine_partitions")
		a.run.CountN("porcupine_operations", len(ops))
		switch porcupine.CheckOperationsTimeout(zvModel, ops, timeout) {
		case porcupine.Ok:
			continue
		case porcupine.Unknown:
			a.run.Inconclusive(fmt.Sprintf("history %d resource %d: porcupine timed out on %d operations", a.h.P.Idx, r, len(ops)))
			continue
		}
		// not linearizable: find the smallest class of operations that already refutes it
		cls := -1
		for c := 0; c <= 3; c++ {
			var sub []porcupine.Operation
			for _, p := range parts[r] {
				if p.cls <= c {
					sub = append(sub, p.op)
				}
			}
			if porcupine.CheckOperationsTimeout(zvModel, sub, timeout) == porcupine.Illegal {
				cls = c
				break
			}
		}
		name := "all"
		if cls >= 0 {
			name = clsName[cls]
		}
		var dump []string
		for _, p := range parts[r] {
			if cls < 0 || p.cls <= cls {
				dump = append(dump, fmt.Sprintf("[%d,%d] c%d %+v -> %+v", p.op.Call, p.op.Return, p.op.ClientId, p.op.Input, p.op.Output))
			}
		}
		sort.Strings(dump)
		a.viol("linearizability:"+name, fmt.Sprintf("the operations on resource %d (%s/%s) have no linearization w.r.t. the sequential storage contract (refuted using %s operations, %d ops)", r, a.h.U.tens[resTen(r)][1], resName(r), name, len(dump)),
			map[string]any{"resource": r, "partition": dump})
	}
}

func (a *analysis) watches() {
	h := a.h
	for _, g := range h.Gens {
		a.run.Count("watch_generations")
		if g.End == "closed" {
			a.run.Count("watch_generations_closed_by_restore")
		}
		a.watchGen(g)
	}
	if a.restored() {
		// every watch that was established before the restore began must have been closed by it
		for _, g := range h.Gens {
			if g.Ret < h.Rest.Call && g.End != "closed" && h.Incomplete == "" {
				a.viol("restore:watch-not-closed", fmt.Sprintf("watcher %d generation %d was established at %d, before the restore (%d..%d), and ended with %q instead of ErrWatchClosed", g.Watcher, g.Gen, g.Ret, h.Rest.Call, h.Rest.Ret, g.End), map[string]any{"watch": g})
			}
		}
		if h.Rest.Diff != "" {
			a.viol("restore:content-differs-from-snapshot", "after Restore+Commit a strong List differs from the snapshot: "+h.Rest.Diff, nil)
		}
		a.run.Count("restores")
	}
}

// ---------------- coverage ----------------

func (a *analysis) coverage() (nontrivial bool, fp string) {
	h, run := a.h, a.run
	var sb strings.Builder
	races := 0
	type sv struct {
		r   int
		ver string
	}
	byVer := map[sv][]*opRec{}
	first, lastT := int64(1<<62), int64(0)
	for i := range h.Ops {
		op := &h.Ops[i]
		run.Count("ops")
		run.Count("op:" + op.Kind)
		run.Distinct("op-class", op.Kind+":"+op.Mode+":"+op.Err)
		fmt.Fprintf(&sb, "%d/%s/%d/%s/%s/%s;", op.Client, op.Kind, op.Res, op.Uid, op.Ver, op.Err)
		if op.Client < h.P.Clients {
			if op.Call < first {
				first = op.Call
			}
			if op.Ret > lastT {
				lastT = op.Ret
			}
		}
		switch {
		case op.Kind == "write" && op.Err == "":
			run.Count("writes_ok")
		case op.Kind == "write" && op.Err == "cas":
			run.Count("writes_cas_failure")
		case op.Kind == "write" && op.Err == "uid":
			run.Count("writes_wrong_uid")
		case op.Kind == "delete" && op.Err == "cas":
			run.Count("deletes_cas_failure")
		}
		if op.Kind == "write" && op.Ver != "" && op.Ver != bogusVersion {
			byVer[sv{op.Res, op.Ver}] = append(byVer[sv{op.Res, op.Ver}], op)
		}
		// operations presenting the uid of a lifetime that had provably ended before they were called
		if (op.Kind == "write" || op.Kind == "delete") && op.Uid != "" {
			for _, d := range a.endsOf(op.Res, op.Uid) {
				if d.Ret < op.Call && a.wr[op.Res][d.Ver] != nil {
					run.Count("stale_uid_ops")
					if op.Kind == "write" && op.Err != "" {
						run.Count("stale_uid_writes_rejected")
					}
					break
				}
			}
		}
	}
	for _, ws := range byVer {
		// concurrent writers presenting the same version
		for i := range ws {
			for j := i + 1; j < len(ws); j++ {
				if ws[i].Call <= ws[j].Ret && ws[j].Call <= ws[i].Ret {
					races++
				}
			}
		}
	}
	run.CountN("cas_races_overlapping_same_version", races)
	recreated := 0
	for r := 0; r < nRes; r++ {
		n := 0
		for _, w := range a.wr[r] {
			if w.Ver == "" {
				n++
			}
		}
		if n > 1 {
			recreated += n - 1
		}
	}
	run.CountN("lifetimes_recreated", recreated)
	live := 0
	for _, g := range h.Gens {
		sawEos := false
		for _, e := range g.Events {
			if e.Kind == "eos" {
				sawEos = true
			} else if sawEos {
				live++
			}
		}
		if g.Call > first && g.Call < lastT {
			run.Count("watches_started_mid_history")
		}
	}
	run.Count("histories:" + h.P.Backend)
	run.Distinct("gomaxprocs", strconv.Itoa(h.P.Procs))
	return races > 0 && recreated > 0 && live > 0, core.Hash(sb.String())
}

func checkHistory(run *core.Run, h *hist) {
	a := &analysis{h: h, run: run}
	run.Eval()
	if h.Incomplete != "" {
		run.Inconclusive(fmt.Sprintf("history %d: %s", h.P.Idx, h.Incomplete))
	}
	a.index()
	a.direct()
	a.watches()
	a.linearizability()
	nt, fp := a.coverage()
	if nt {
		run.NonTrivial(fp)
		if run.WantSample() {
			run.Sample(map[string]any{"params": h.P, "first_ops": h.Ops[:min(len(h.Ops), 12)], "ops": len(h.Ops), "watch_generations": len(h.Gens)})
		}
	}
}
