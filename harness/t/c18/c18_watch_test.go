//go:build verif

// C18 oracle (3): exact monitor of one watch generation (one WatchList call and everything its
// Next delivered), judged against the history of acknowledged writes and deletes.
//
// Commit order per resource is known exactly without any search: every successful WriteCAS presented
// the version it replaced and was given a fresh unique version, so the successful writes of one
// lifetime form a chain (create -> update -> ... ), a delete event names the version it removed, and
// the next event after a delete must be a create. A correct stream for resource r is therefore:
// the listed state X_r, then events each of which is the DIRECT successor of the previous one.
package c18

import (
	"fmt"
	"strconv"
	"strings"
)

type wstate struct {
	present  bool
	uid, ver string // while absent: identity of the version whose delete was seen ("" = none)
}

func (a *analysis) endsOf(r int, uid string) []*opRec {
	var out []*opRec
	for _, d := range a.dels[r] {
		if d.Uid == uid {
			out = append(out, d)
		}
	}
	return out
}

func evState(e *wevent) wstate {
	return wstate{present: e.Kind == "upsert", uid: e.It.Uid, ver: e.It.Ver}
}

// adjacent: is event e the direct successor (in commit order) of view s of resource r?
func (a *analysis) adjacent(r int, s wstate, e *wevent) (bool, string) {
	it := e.It
	if e.Kind == "upsert" {
		w := a.wr[r][it.Ver]
		p := w.Ver // the version the producing write presented
		switch {
		case !s.present && p == "":
			if s.uid != "" { // a create after a delete: it must not be an OLDER lifetime than the deleted one
				if prevRoot := a.root(r, s.ver); prevRoot != nil && w.Ret < prevRoot.Call {
					return false, "older-lifetime-after-newer"
				}
			}
			return true, ""
		case !s.present:
			return false, "update-without-predecessor"
		case p == s.ver && it.Uid == s.uid:
			return true, ""
		case it.Ver == s.ver:
			return false, "duplicate"
		case a.isAncestor(r, it.Ver, s.ver):
			return false, "stale"
		case a.isAncestor(r, s.ver, it.Ver):
			return false, "gap"
		}
		return false, "unrelated-version"
	}
	switch {
	case !s.present:
		return false, "delete-of-absent"
	case s.ver == it.Ver && s.uid == it.Uid:
		return true, ""
	case a.isAncestor(r, it.Ver, s.ver):
		return false, "delete-stale"
	case a.isAncestor(r, s.ver, it.Ver):
		return false, "delete-gap"
	}
	return false, "delete-unrelated-version"
}

// calledBefore: the operation that produced event e had been called before time t
func (a *analysis) calledBefore(r int, e *wevent, t int64) bool {
	if e.Kind == "upsert" {
		return a.wr[r][e.It.Ver].Call < t
	}
	for _, d := range a.dels[r] {
		if d.Uid == e.It.Uid && d.Ver == e.It.Ver && d.Call < t {
			return true
		}
	}
	return false
}

// possiblyPreRestore: the operation that produced e had been called before the restore began
func (a *analysis) possiblyPreRestore(r int, e *wevent) bool {
	return a.calledBefore(r, e, a.h.Rest.Call)
}

type verdict struct{ key, what string }

type liveResult struct {
	v        *verdict // first strict violation (nil: the stream is in order)
	replay   string   // non-empty: pre-listing events were replayed after the listing (description)
	counts   map[string]int
	final    [nRes]wstate
}

// judgeLive checks the live events (indexes into g.Events, stream order) against the listing.
func (a *analysis) judgeLive(g *watchGen, listing map[int]item, liveIdx []int, postRestore bool) liveResult {
	h := a.h
	res := liveResult{counts: map[string]int{}}
	what := func(s string, args ...any) string {
		return fmt.Sprintf("watcher %d generation %d scope %+v: ", g.Watcher, g.Gen, g.Scope) + fmt.Sprintf(s, args...)
	}
	var live [nRes][]int
	for _, i := range liveIdx {
		r := g.Events[i].It.Res
		live[r] = append(live[r], i)
	}
	// ---- per resource, exact commit order
	for r := 0; r < nRes; r++ {
		if !g.Scope.matches(r) {
			continue
		}
		x := wstate{}
		if it, ok := listing[r]; ok {
			x = wstate{true, it.Uid, it.Ver}
		}
		evs := live[r]
		s := x
		k := 0
		if len(evs) > 0 {
			if ok, cls := a.adjacent(r, x, &g.Events[evs[0]]); !ok {
				// The first event does not continue the listing. The one tolerated explanation (reported
				// under its own key, it is a defect of its own): events committed BEFORE the listing was
				// taken are delivered after it — a run of events, each the direct successor of the
				// previous, all produced by operations called before WatchList returned, that ends in
				// exactly the listed state.
				j := 0
				rs := wstate{}
				back := false
				for ; j < len(evs); j++ {
					e := &g.Events[evs[j]]
					if !a.calledBefore(r, e, g.Ret) {
						break
					}
					if j > 0 {
						if ok, _ := a.adjacent(r, rs, e); !ok {
							break
						}
					}
					rs = evState(e)
					if rs.present == x.present && (!x.present || rs.ver == x.ver) {
						back = true
						j++
						break
					}
				}
				if !back && j == len(evs) {
					back = true // the watch ended (closed by a restore, or stopped) while the replay was still going on
				}
				if !back {
					res.v = &verdict{"watch:order:" + cls, what("event %d (%s %+v) does not directly follow the listed state %+v of resource %d [%s], and the events after the listing are not a replay of earlier history either", evs[0], g.Events[evs[0]].Kind, g.Events[evs[0]].It, x, r, cls)}
					return res
				}
				if res.replay == "" {
					res.replay = what("the initial listing has resource %d as %+v; after EndOfSnapshot the watch delivers %d event(s) that were committed BEFORE the listing was taken (first: event %d, %s %+v [%s]), i.e. the watcher sees the resource go back in time", r, x, j, evs[0], g.Events[evs[0]].Kind, g.Events[evs[0]].It, cls)
				}
				res.counts["watch_pre_listing_events_replayed"] += j
				k = j
				if !x.present {
					s = rs // keep the identity of the deleted version for the lifetime-order check
				}
			}
		}
		var lastIdx uint64
		if x.present && strings.HasPrefix(h.P.Backend, "raft") {
			lastIdx, _ = strconv.ParseUint(x.ver, 10, 64)
		}
		for ; k < len(evs); k++ {
			e := &g.Events[evs[k]]
			if ok, cls := a.adjacent(r, s, e); !ok {
				res.v = &verdict{"watch:order:" + cls, what("event %d (%s %+v) does not directly follow the watcher's view %+v of resource %d [%s]", evs[k], e.Kind, e.It, s, r, cls)}
				return res
			}
			s = evState(e)
			if strings.HasPrefix(h.P.Backend, "raft") {
				// raft backend: versions are log indexes, so per resource they also grow numerically
				n, _ := strconv.ParseUint(e.It.Ver, 10, 64)
				if n < lastIdx || (e.Kind == "upsert" && n == lastIdx) {
					res.v = &verdict{"watch:order:raft-index-not-increasing", what("event %d (%s %+v) follows version %d of resource %d", evs[k], e.Kind, e.It, lastIdx, r)}
					return res
				}
				lastIdx = n
			}
		}
		res.final[r] = s
	}

	// ---- read-after-event monotonicity
	for _, i := range liveIdx {
		e := &g.Events[i]
		rd := e.Read
		if rd == nil {
			continue
		}
		it, r := e.It, e.It.Res
		if a.restored() && !postRestore && rd.Ret > h.Rest.Call {
			continue // the restore may legitimately have taken the store back
		}
		res.counts["reads_after_event_judged"]++
		switch {
		case rd.Err == "" && rd.Out.Ver == it.Ver && rd.Out.Uid == it.Uid:
			if e.Kind == "delete" {
				res.v = &verdict{"watch:read-after-delete-event-sees-deleted-version", what("after the delete event %d for %+v a strong Read returned that very version", i, it)}
				return res
			}
			res.counts["reads_after_event_same_version"]++
		case rd.Err == "" && a.isAncestor(r, rd.Out.Ver, it.Ver):
			res.v = &verdict{"watch:read-older-than-event", what("after event %d (%s %+v) a strong Read returned the OLDER version %s", i, e.Kind, it, rd.Out.Ver)}
			return res
		case rd.Err == "" && rd.Out.Uid != it.Uid:
			if rr, er := a.root(r, rd.Out.Ver), a.root(r, it.Ver); rr != nil && er != nil && rr.Ret < er.Call {
				res.v = &verdict{"watch:read-older-lifetime-than-event", what("after event %d (%s %+v) a strong Read returned %+v of a lifetime created earlier", i, e.Kind, it, *rd.Out)}
				return res
			}
			res.counts["reads_after_event_newer"]++
		case rd.Err == "" && e.Kind == "delete":
			res.v = &verdict{"watch:read-after-delete-event-sees-deleted-lifetime", what("after the delete event %d for %+v a strong Read returned %+v of the same lifetime", i, it, *rd.Out)}
			return res
		case rd.Err == "notfound" && e.Kind == "upsert":
			if len(a.endsOf(r, it.Uid)) == 0 {
				res.v = &verdict{"watch:read-notfound-after-upsert-event", what("after event %d (upsert %+v) a strong Read returned NotFound although no delete of that lifetime ever succeeded", i, it)}
				return res
			}
			res.counts["reads_after_event_newer"]++
		default:
			res.counts["reads_after_event_newer"]++
		}
	}
	return res
}

func (a *analysis) watchGen(g *watchGen) {
	h := a.h
	run := a.run
	what := func(s string, args ...any) string {
		return fmt.Sprintf("watcher %d generation %d scope %+v: ", g.Watcher, g.Gen, g.Scope) + fmt.Sprintf(s, args...)
	}
	ex := map[string]any{"watch": g}
	if strings.HasPrefix(g.End, "err:") {
		a.viol("watch:unexpected-error", what("ended with %s", g.End), ex)
		return
	}
	postRestore := a.restored() && g.Call > h.Rest.Ret
	beforeRestore := a.restored() && g.Ret < h.Rest.Call
	straddles := a.restored() && !postRestore && !beforeRestore

	// ---- pass A: structure of the stream, content of every event
	eos := -1
	eosT := int64(-1)
	listing := map[int]item{}
	var liveIdx []int
	for i := range g.Events {
		e := &g.Events[i]
		switch e.Kind {
		case "eos":
			if eos >= 0 {
				a.viol("watch:second-end-of-snapshot", what("event %d is a second EndOfSnapshot", i), ex)
				return
			}
			eos, eosT = i, e.T
			if len(listing) > 0 {
				run.Count("watch_nonempty_initial_listings")
			}
			continue
		case "unknown":
			a.viol("watch:unknown-event-type", what("event %d has an unknown type", i), ex)
			return
		}
		it := e.It
		if it.Bad != "" || it.Res < 0 || !g.Scope.matches(it.Res) {
			a.viol("watch:event-outside-scope", what("event %d (%s %+v) is not covered by the watch", i, e.Kind, it), ex)
			return
		}
		r := it.Res
		w := a.wr[r][it.Ver]
		if w == nil || w.Out.Uid != it.Uid || w.Out.Pid != it.Pid || w.Out.Owner != it.Owner {
			a.viol("watch:event-content-never-written", what("event %d (%s %+v) does not carry a version any write produced", i, e.Kind, it), ex)
			return
		}
		if e.Kind == "delete" {
			found := false
			for _, d := range a.dels[r] {
				found = found || (d.Uid == it.Uid && d.Ver == it.Ver)
			}
			if !found {
				a.viol("watch:delete-event-without-delete", what("event %d deletes %+v but no DeleteCAS presenting that uid and version ever returned success", i, it), ex)
				return
			}
		}
		// (4) a watch that existed when the restore happened must not survive it: it may still hand out
		// what it had already buffered, but never anything produced by an operation called after the
		// restore returned
		if beforeRestore && eos >= 0 && !a.calledBefore(r, e, h.Rest.Ret) {
			a.viol("restore:watch-not-closed", what("event %d (%s %+v), produced by an operation called after the restore returned at %d, was delivered by a watch established before the restore", i, e.Kind, it, h.Rest.Ret), ex)
			return
		}
		if eos < 0 { // initial listing
			if e.Kind != "upsert" {
				a.viol("watch:delete-in-initial-listing", what("event %d is a delete before EndOfSnapshot", i), ex)
				return
			}
			if _, dup := listing[r]; dup {
				a.viol("watch:duplicate-in-initial-listing", what("resource %d is listed twice before EndOfSnapshot", r), ex)
				return
			}
			if postRestore && a.rolledBack(it.Ver) {
				a.viol("restore:new-watch-lists-rolled-back-version", what("the initial listing of a watch started after the restore contains %+v, which the restore rolled back", it), ex)
				return
			}
			listing[r] = it
			run.Count("watch_snapshot_events")
			continue
		}
		run.Count("watch_live_events")
		if e.Read != nil {
			run.Count("reads_after_event")
		}
		liveIdx = append(liveIdx, i)
	}
	if eos < 0 {
		if g.End == "closed" || h.Incomplete != "" {
			return // closed by a restore before the listing ended
		}
		a.viol("watch:no-end-of-snapshot", what("the watch never delivered EndOfSnapshot"), ex)
		return
	}
	if straddles {
		run.Count("watch_generations_straddling_restore_not_order_checked")
		return
	}

	// ---- passes B and C. For a watch created after a restore, events of the time before the restore
	// may leak into it (reported under its own key, a defect of its own): the tolerated explanation is
	// a PREFIX of the live events, each produced by an operation called before the restore began, after
	// which everything is in order.
	res := a.judgeLive(g, listing, liveIdx, postRestore)
	if postRestore && res.v != nil {
		maxK := 0
		for maxK < len(liveIdx) && a.possiblyPreRestore(g.Events[liveIdx[maxK]].It.Res, &g.Events[liveIdx[maxK]]) {
			maxK++
		}
		for k := 1; k <= maxK; k++ {
			if alt := a.judgeLive(g, listing, liveIdx[k:], postRestore); alt.v == nil {
				e := &g.Events[liveIdx[0]]
				kind := "committed before the restore"
				for _, i := range liveIdx[:k] {
					if g.Events[i].Kind == "upsert" && a.rolledBack(g.Events[i].It.Ver) {
						kind = "committed before the restore, at least one of them ROLLED BACK by it"
					}
				}
				a.viol("restore:new-watch-delivers-pre-restore-event", what("the first %d live event(s) (first: event %d, %s %+v) of a watch started at %d, after the restore returned at %d (snapshot index %d, restore after index %d), were %s; judged without them the stream is in order (otherwise: %s)", k, liveIdx[0], e.Kind, e.It, g.Call, h.Rest.Ret, h.Snap.Idx, h.Rest.Idx, kind, res.v.key), ex)
				run.CountN("watch_pre_restore_events_leaked", k)
				res = alt
				break
			}
		}
	}
	if res.v != nil {
		a.viol(res.v.key, res.v.what, ex)
		return
	}
	if res.replay != "" {
		a.viol("watch:order:pre-listing-events-replayed-after-initial-listing", res.replay, ex)
	}
	for k, n := range res.counts {
		run.CountN(k, n)
	}
	final := res.final

	// ---- initial listing: complete, and not older than what had been acknowledged before the watch
	// (the publisher may serve a snapshot it cached for an earlier watch on the same subject; then the
	// bound is the call time of the earliest such watch)
	e0 := int64(-1)
	if postRestore {
		e0 = h.Rest.Ret
	}
	bound := g.Call
	for _, o := range h.Gens {
		// o.Ret > e0: it may have subscribed after the restore even if it was called during it
		if o.Scope.subject() == g.Scope.subject() && o.Call < bound && o.Ret > e0 {
			bound = max(o.Call, e0)
		}
	}
	cachedOlder := false
	for r := 0; r < nRes; r++ {
		if !g.Scope.matches(r) {
			continue
		}
		x, listed := listing[r]
		// acknowledged states: writes that had returned (and, after a restore, the restored content)
		type ack struct {
			w      *opRec
			strict bool
		}
		var acks []ack
		for _, w := range a.wr[r] {
			if w.Ret < g.Call && w.Call > e0 {
				acks = append(acks, ack{w, w.Ret < bound})
			}
		}
		if postRestore {
			if it, ok := h.Snap.Items[r]; ok {
				if w := a.wr[r][it.Ver]; w != nil {
					acks = append(acks, ack{w, true})
				}
			}
		}
		for _, k := range acks {
			w := k.w
			bad := ""
			if listed {
				if a.isAncestor(r, x.Ver, w.Out.Ver) {
					bad = fmt.Sprintf("the initial listing has resource %d at version %s although its successor %s had been acknowledged (write returned at %d)", r, x.Ver, w.Out.Ver, w.Ret)
				}
			} else {
				// not listed: fine only if that lifetime may have been ended by a delete called before the listing ended
				ended := false
				for _, d := range a.endsOf(r, w.Out.Uid) {
					if d.Call < eosT && d.Ret > e0 {
						ended = true
					}
				}
				if !ended {
					bad = fmt.Sprintf("the initial listing omits resource %d although version %s (uid %s) had been acknowledged (write returned at %d) and no delete of that lifetime was called before EndOfSnapshot was received at %d", r, w.Out.Ver, w.Out.Uid, w.Ret, eosT)
				}
			}
			if bad == "" {
				continue
			}
			if !k.strict {
				cachedOlder = true
				continue
			}
			key := "watch:initial-listing:stale-version"
			if !listed {
				key = "watch:initial-listing:missing-resource"
			}
			a.viol(key, what("%s before WatchList was called at %d (earliest watch on the same subject: %d)", bad, g.Call, bound), ex)
			return
		}
	}
	if cachedOlder {
		run.Count("watch_initial_listings_from_cached_snapshot_older_than_call")
	}

	if g.End == "stopped" && h.Incomplete == "" {
		// the watcher stopped only after it had seen the final version of every resource in scope; with
		// the chain checks above its materialised view therefore equals the final content
		for r := 0; r < h.P.Active; r++ {
			if g.Scope.matches(r) && !(final[r].present && final[r].ver == h.Finals[r]) {
				a.viol("watch:final-view-differs", what("at the end the watcher's view of resource %d is %+v, the store has version %s", r, final[r], h.Finals[r]), ex)
				return
			}
		}
		run.Count("watch_final_views_equal")
	}
}
