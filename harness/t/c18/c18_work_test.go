//go:build verif

// C18 — resource store: version CAS, stable UIDs, ordered watches.
//
// This file: the workload. Concurrent client goroutines and watcher goroutines drive the REAL
// storage backends (inmem.Backend; raft.Backend over a serialising loop-back handle, optionally with
// a snapshot/restore in the middle) and record, at the client boundary of storage.Backend, every call
// with its arguments, call time, return time and result (one monotonic clock).
// The oracles are in c18_check_test.go.
package c18

import (
	"context"
	"errors"
	"fmt"
	"io"
	"runtime"
	"sort"
	"strconv"
	"strings"
	"sync"
	"sync/atomic"
	"time"

	"github.com/hashicorp/go-hclog"
	"google.golang.org/grpc"
	"google.golang.org/protobuf/proto"

	"github.com/hashicorp/consul/internal/storage"
	"github.com/hashicorp/consul/internal/storage/inmem"
	raftstorage "github.com/hashicorp/consul/internal/storage/raft"
	"github.com/hashicorp/consul/proto-public/pbresource"
	"github.com/hashicorp/consul/zzverif/core"
)

// ---------------- universe ----------------

// universe: the resource type and the two tenancies a history works in
type universe struct {
	typ  *pbresource.Type
	tens [2][2]string
}

var (
	zvOwner = &pbresource.Type{Group: "zv", GroupVersion: "v1", Kind: "owner"}
	// two tenancies with prefix-related namespace names
	storageUniverse = &universe{typ: &pbresource.Type{Group: "zv", GroupVersion: "v1", Kind: "thing"}, tens: [2][2]string{{"default", "ns"}, {"default", "ns2"}}}
	zvNames         = [3]string{"a", "ab", "b"} // prefix-related names
)

const nRes = 6 // resource index = tenancy*3 + name

func resTen(r int) int     { return r / 3 }
func resName(r int) string { return zvNames[r%3] }
func (u *universe) tenancy(t int) *pbresource.Tenancy {
	return &pbresource.Tenancy{Partition: u.tens[t][0], Namespace: u.tens[t][1]}
}
func (u *universe) resID(r int, uid string) *pbresource.ID {
	return &pbresource.ID{Type: proto.Clone(u.typ).(*pbresource.Type), Tenancy: u.tenancy(resTen(r)), Name: resName(r), Uid: uid}
}
func (u *universe) ownerID(o int, uid string) *pbresource.ID {
	return &pbresource.ID{Type: proto.Clone(zvOwner).(*pbresource.Type), Tenancy: u.tenancy(0), Name: fmt.Sprintf("own%d", o), Uid: uid}
}

// scope of a List / WatchList call.
// Ten: 0,1 = exact tenancy; -1 = */*; -2 = default/*; -3 = */ns
type scope struct {
	Ten    int    `json:"ten"`
	Prefix string `json:"prefix,omitempty"`
}

func (s scope) tenancy(u *universe) *pbresource.Tenancy {
	switch s.Ten {
	case -1:
		return &pbresource.Tenancy{Partition: storage.Wildcard, Namespace: storage.Wildcard}
	case -2:
		return &pbresource.Tenancy{Partition: u.tens[0][0], Namespace: storage.Wildcard}
	case -3:
		return &pbresource.Tenancy{Partition: storage.Wildcard, Namespace: u.tens[0][1]}
	}
	return u.tenancy(s.Ten)
}

// matches is the harness' own statement of which resources a scope covers.
func (s scope) matches(r int) bool {
	switch s.Ten {
	case 0, 1:
		if resTen(r) != s.Ten {
			return false
		}
	case -3:
		if resTen(r) != 0 {
			return false
		}
	}
	n := resName(r)
	return len(n) >= len(s.Prefix) && n[:len(s.Prefix)] == s.Prefix
}

// subject: watches with the same subject share event buffers / snapshots inside the publisher
func (s scope) subject() string {
	if s.Ten < 0 {
		return "*"
	}
	return strconv.Itoa(s.Ten)
}

var allScopes = []scope{{0, ""}, {1, ""}, {-1, ""}, {-2, ""}, {-3, ""}, {0, "a"}, {1, "ab"}, {-1, "a"}, {-1, "b"}, {-2, "ab"}}

// ---------------- records ----------------

// item is what the harness keeps of a returned resource.
type item struct {
	Res   int    `json:"r"`
	Uid   string `json:"uid"`
	Ver   string `json:"ver"`
	Pid   string `json:"pid"`
	Owner int    `json:"own,omitempty"`
	Bad   string `json:"bad,omitempty"` // non-empty: the resource does not parse into the universe
}

func (u *universe) parseItem(res *pbresource.Resource) item {
	it := item{Res: -1}
	if res == nil || res.Id == nil || res.Id.Type == nil || res.Id.Tenancy == nil {
		it.Bad = "nil id/type/tenancy"
		return it
	}
	it.Uid, it.Ver, it.Pid = res.Id.Uid, res.Version, res.Metadata["pid"]
	if !proto.Equal(res.Id.Type, u.typ) {
		it.Bad = "type " + res.Id.Type.String()
		return it
	}
	for r := 0; r < nRes; r++ {
		if u.tens[resTen(r)][0] == res.Id.Tenancy.Partition && u.tens[resTen(r)][1] == res.Id.Tenancy.Namespace && resName(r) == res.Id.Name {
			it.Res = r
		}
	}
	if it.Res < 0 {
		it.Bad = "unknown id " + res.Id.String()
		return it
	}
	if res.Owner != nil {
		switch {
		case res.Owner.Name == "own1" && res.Owner.Uid == "o":
			it.Owner = 1
		case res.Owner.Name == "own2" && res.Owner.Uid == "o":
			it.Owner = 2
		default:
			it.Bad = "owner " + res.Owner.String()
		}
	}
	return it
}

// opRec is one call at the storage.Backend boundary.
type opRec struct {
	Client int    `json:"c"`
	Kind   string `json:"k"` // write delete read list listowner
	Res    int    `json:"r"` // write/delete/read
	Uid    string `json:"uid,omitempty"`
	Ver    string `json:"ver,omitempty"`
	Pid    string `json:"pid,omitempty"`
	Owner  int    `json:"own,omitempty"`  // written owner (write) / queried owner (listowner)
	OUid   string `json:"ouid,omitempty"` // queried owner uid (listowner)
	Scope  *scope `json:"scope,omitempty"`
	Mode   string `json:"mode,omitempty"` // how the arguments were chosen (coverage only)
	Svc    int    `json:"svc,omitempty"`  // part S: id of the service call that made this backend call
	Call   int64  `json:"call"`
	Ret    int64  `json:"ret"`
	Err    string `json:"err,omitempty"` // "", cas, uid, notfound, other:<msg>
	Out    *item  `json:"out,omitempty"`
	Items  []item `json:"items,omitempty"`
}

type wevent struct {
	Kind     string `json:"k"` // upsert delete eos closed
	It       item   `json:"it"`
	NextCall int64  `json:"nc"`
	T        int64  `json:"t"`
	Read     *opRec `json:"read,omitempty"` // the strong Read done right after the event
}

type watchGen struct {
	Watcher   int      `json:"w"`
	Gen       int      `json:"gen"`
	Scope     scope    `json:"scope"`
	Call      int64    `json:"call"`
	Ret       int64    `json:"ret"`
	Events    []wevent `json:"events"`
	End       string   `json:"end"` // stopped | closed | err:...
	EndCall   int64    `json:"endcall"`
	EndT      int64    `json:"endt"`
	LateClose bool     `json:"lateclose,omitempty"`
	ClosedAt  int64    `json:"closedat"` // when Watch.Close was called by the harness
}

type wparams struct {
	Scope     scope `json:"scope"`
	Warmup    int   `json:"warmup"` // strong reads done before WatchList (delays the start into the history)
	LateClose bool  `json:"lateclose,omitempty"`
}

type hparams struct {
	Idx       int       `json:"idx"`
	Backend   string    `json:"backend"` // inmem | raft | raft-restore
	Clients   int       `json:"clients"`
	Ops       int       `json:"ops"`
	Yield     int       `json:"yield"`
	Watchers  []wparams `json:"watchers"`
	SnapAt    int       `json:"snapat,omitempty"`
	RestoreAt int       `json:"restoreat,omitempty"`
	Procs     int       `json:"procs"`
	Active    int       `json:"active"` // resources 0..Active-1 are used
}

type snapInfo struct {
	Call, Ret int64
	Idx       uint64
	Items     map[int]item
	raw       [][]byte
}
type restInfo struct {
	Call, Ret int64
	Idx       uint64
	Diff      string // non-empty: content after restore differs from the snapshot
}

type hist struct {
	P          hparams
	U          *universe
	start      time.Time
	Ops        []opRec
	Gens       []*watchGen
	Snap       *snapInfo
	Rest       *restInfo
	Finals     [nRes]string
	flushed    chan struct{}
	Incomplete string // non-empty: watchdog fired (history is not judged for completeness)
	mainClient int
}

func (h *hist) now() int64 { return time.Since(h.start).Nanoseconds() }

// ---------------- system under test ----------------

type zvHandle struct {
	mu        sync.Mutex
	h         *hist
	be        *raftstorage.Backend
	idx       uint64
	applies   int
	snapAt    int
	restoreAt int
}

func (z *zvHandle) Apply(msg []byte) (any, error) {
	z.mu.Lock()
	defer z.mu.Unlock()
	z.applies++
	if z.snapAt > 0 && z.applies >= z.snapAt && z.h.Snap == nil {
		z.snapshot()
	}
	if z.restoreAt > 0 && z.applies >= z.restoreAt && z.h.Rest == nil {
		z.restore()
	}
	z.idx++
	rsp := z.be.Apply(msg, z.idx)
	// as consul's raftApplyEncoded does: an error returned by the FSM is the error of the apply
	if err, ok := rsp.(error); ok {
		return nil, err
	}
	return rsp, nil
}
func (*zvHandle) IsLeader() bool                                { return true }
func (*zvHandle) EnsureStrongConsistency(context.Context) error { return nil }
func (*zvHandle) DialLeader() (*grpc.ClientConn, error)         { return nil, errors.New("no leader dial") }

// snapshot / restore are serialised with applies (as raft does); callers hold z.mu
func (z *zvHandle) snapshot() {
	si := &snapInfo{Call: z.h.now(), Idx: z.idx, Items: map[int]item{}}
	s, err := z.be.Snapshot()
	if err != nil {
		panic(err)
	}
	for {
		b, err := s.Next()
		if err != nil {
			panic(err)
		}
		if b == nil {
			break
		}
		si.raw = append(si.raw, b)
		var res pbresource.Resource
		if err := res.UnmarshalBinary(b); err != nil {
			panic(err)
		}
		it := z.h.U.parseItem(&res)
		si.Items[it.Res] = it
	}
	si.Ret = z.h.now()
	z.h.Snap = si
}

func (z *zvHandle) restore() {
	ri := &restInfo{Call: z.h.now(), Idx: z.idx}
	r, err := z.be.Restore()
	if err != nil {
		panic(err)
	}
	for _, b := range z.h.Snap.raw {
		if err := r.Apply(b); err != nil {
			panic(err)
		}
	}
	r.Commit()
	ri.Ret = z.h.now()
	// post-restore content must equal the snapshot (strong list over everything)
	got, err := z.be.List(context.Background(), storage.StrongConsistency, storage.UnversionedTypeFrom(z.h.U.typ), scope{Ten: -1}.tenancy(z.h.U), "")
	if err != nil {
		ri.Diff = "list error: " + err.Error()
	} else {
		var want []*pbresource.Resource
		for _, b := range z.h.Snap.raw {
			var res pbresource.Resource
			res.UnmarshalBinary(b)
			want = append(want, &res)
		}
		ri.Diff = diffResources(want, got)
	}
	z.h.Rest = ri
}

// finish forces the pending snapshot / restore (histories with too few applies)
func (z *zvHandle) finish() {
	z.mu.Lock()
	defer z.mu.Unlock()
	if z.snapAt > 0 && z.h.Snap == nil {
		z.snapshot()
	}
	if z.restoreAt > 0 && z.h.Rest == nil {
		z.restore()
	}
}

func diffResources(want, got []*pbresource.Resource) string {
	key := func(r *pbresource.Resource) string { return r.Id.Tenancy.Partition + "/" + r.Id.Tenancy.Namespace + "/" + r.Id.Name }
	sort.Slice(want, func(i, j int) bool { return key(want[i]) < key(want[j]) })
	sort.Slice(got, func(i, j int) bool { return key(got[i]) < key(got[j]) })
	if len(want) != len(got) {
		return fmt.Sprintf("snapshot has %d resources, store has %d", len(want), len(got))
	}
	for i := range want {
		if !proto.Equal(want[i], got[i]) {
			return fmt.Sprintf("snapshot %v != store %v", want[i], got[i])
		}
	}
	return ""
}

type sut struct {
	be     storage.Backend
	handle *zvHandle
	cancel context.CancelFunc
}

func newSUT(h *hist) *sut {
	ctx, cancel := context.WithCancel(context.Background())
	s := &sut{cancel: cancel}
	if h.P.Backend == "inmem" {
		be, err := inmem.NewBackend()
		if err != nil {
			panic(err)
		}
		go be.Run(ctx)
		s.be = be
		return s
	}
	z := &zvHandle{h: h, snapAt: h.P.SnapAt, restoreAt: h.P.RestoreAt}
	be, err := raftstorage.NewBackend(z, hclog.New(&hclog.LoggerOptions{Output: io.Discard, Level: hclog.Off}))
	if err != nil {
		panic(err)
	}
	z.be = be
	go be.Run(ctx)
	s.be, s.handle = be, z
	return s
}

// ---------------- clients ----------------

type pair struct{ uid, ver string }

type knowledge struct {
	cur pair // what this client believes is stored ("" = absent / unknown)
	old []pair
}

func (k *knowledge) learn(p pair) {
	if k.cur == p {
		return
	}
	if k.cur.uid != "" {
		k.old = append(k.old, k.cur)
		if len(k.old) > 8 {
			k.old = k.old[1:]
		}
	}
	k.cur = p
}

type client struct {
	id   int
	h    *hist
	be   storage.Backend
	rng  *core.Rand
	recs []opRec
	know [nRes]knowledge
	n    int
}

func errClass(err error) string {
	switch {
	case err == nil:
		return ""
	case errors.Is(err, storage.ErrCASFailure):
		return "cas"
	case errors.Is(err, storage.ErrWrongUid):
		return "uid"
	case errors.Is(err, storage.ErrNotFound):
		return "notfound"
	}
	return "other:" + err.Error()
}

func (c *client) freshUid() string {
	c.n++
	return fmt.Sprintf("u%d.%d.%d", c.h.P.Idx, c.id, c.n)
}
func (c *client) freshPid() string {
	c.n++
	return fmt.Sprintf("p%d.%d", c.id, c.n)
}

var bg = context.Background()

func (c *client) write(r int, uid, ver string, owner int, mode string) *opRec {
	res := &pbresource.Resource{Id: c.h.U.resID(r, uid), Version: ver, Metadata: map[string]string{"pid": c.freshPid()}}
	if owner > 0 {
		res.Owner = c.h.U.ownerID(owner, "o")
	}
	op := opRec{Client: c.id, Kind: "write", Res: r, Uid: uid, Ver: ver, Pid: res.Metadata["pid"], Owner: owner, Mode: mode}
	op.Call = c.h.now()
	out, err := c.be.WriteCAS(bg, res)
	op.Ret = c.h.now()
	op.Err = errClass(err)
	if err == nil {
		it := c.h.U.parseItem(out)
		op.Out = &it
		c.know[r].learn(pair{it.Uid, it.Ver})
	}
	c.recs = append(c.recs, op)
	return &c.recs[len(c.recs)-1]
}

func (c *client) delete(r int, uid, ver string, mode string) *opRec {
	op := opRec{Client: c.id, Kind: "delete", Res: r, Uid: uid, Ver: ver, Mode: mode}
	op.Call = c.h.now()
	err := c.be.DeleteCAS(bg, c.h.U.resID(r, uid), ver)
	op.Ret = c.h.now()
	op.Err = errClass(err)
	if err == nil && c.know[r].cur.uid == uid {
		c.know[r].learn(pair{})
	}
	c.recs = append(c.recs, op)
	return &c.recs[len(c.recs)-1]
}

func doRead(h *hist, be storage.Backend, cid, r int, uid, mode string) opRec {
	op := opRec{Client: cid, Kind: "read", Res: r, Uid: uid, Mode: mode}
	op.Call = h.now()
	out, err := be.Read(bg, storage.StrongConsistency, h.U.resID(r, uid))
	op.Ret = h.now()
	op.Err = errClass(err)
	if err == nil {
		it := h.U.parseItem(out)
		op.Out = &it
	}
	return op
}

func (c *client) read(r int, uid, mode string) *opRec {
	op := doRead(c.h, c.be, c.id, r, uid, mode)
	if op.Err == "" {
		c.know[r].learn(pair{op.Out.Uid, op.Out.Ver})
	} else if op.Err == "notfound" && uid == "" {
		c.know[r].learn(pair{})
	}
	c.recs = append(c.recs, op)
	return &c.recs[len(c.recs)-1]
}

func (c *client) list(sc scope) {
	op := opRec{Client: c.id, Kind: "list", Res: -1, Scope: &sc}
	op.Call = c.h.now()
	out, err := c.be.List(bg, storage.StrongConsistency, storage.UnversionedTypeFrom(c.h.U.typ), sc.tenancy(c.h.U), sc.Prefix)
	op.Ret = c.h.now()
	op.Err = errClass(err)
	for _, x := range out {
		it := c.h.U.parseItem(x)
		op.Items = append(op.Items, it)
		if it.Res >= 0 {
			c.know[it.Res].learn(pair{it.Uid, it.Ver})
		}
	}
	c.recs = append(c.recs, op)
}

func (c *client) listOwner(o int, ouid string) {
	op := opRec{Client: c.id, Kind: "listowner", Res: -1, Owner: o, OUid: ouid}
	op.Call = c.h.now()
	out, err := c.be.ListByOwner(bg, c.h.U.ownerID(o, ouid))
	op.Ret = c.h.now()
	op.Err = errClass(err)
	for _, x := range out {
		op.Items = append(op.Items, c.h.U.parseItem(x))
	}
	c.recs = append(c.recs, op)
}

const bogusVersion = "990000001" // never issued by either backend within a history

func (c *client) anyOld(r int) (pair, bool) {
	k := &c.know[r]
	if len(k.old) == 0 {
		return pair{}, false
	}
	return k.old[c.rng.Intn(len(k.old))], true
}

// step performs one randomly chosen operation (a read-modify-write counts as two).
func (c *client) step() int {
	rng := c.rng
	r := rng.Intn(c.h.P.Active)
	k := &c.know[r]
	switch x := rng.Intn(100); {
	case x < 38: // write
		owner := rng.Intn(3)
		switch y := rng.Intn(100); {
		case y < 50:
			if k.cur.uid != "" {
				c.write(r, k.cur.uid, k.cur.ver, owner, "update-current")
			} else {
				c.write(r, c.freshUid(), "", owner, "create")
			}
		case y < 62:
			c.write(r, c.freshUid(), "", owner, "create-blind")
		case y < 76:
			if p, ok := c.anyOld(r); ok {
				c.write(r, p.uid, p.ver, owner, "stale-pair")
			} else {
				c.write(r, c.freshUid(), "", owner, "create-blind")
			}
		case y < 86:
			if p, ok := c.anyOld(r); ok && k.cur.uid != "" && p.uid != k.cur.uid {
				c.write(r, p.uid, k.cur.ver, owner, "old-uid-current-version")
			} else if k.cur.uid != "" {
				c.write(r, c.freshUid(), k.cur.ver, owner, "fresh-uid-current-version")
			} else {
				c.write(r, c.freshUid(), bogusVersion, owner, "bogus-version-absent")
			}
		default:
			if k.cur.uid != "" {
				c.write(r, k.cur.uid, bogusVersion, owner, "bogus-version")
			} else {
				c.write(r, c.freshUid(), bogusVersion, owner, "bogus-version-absent")
			}
		}
	case x < 50: // read-modify-write: the classic CAS race
		op := c.read(r, "", "rmw-read")
		if rng.Chance(c.h.P.Yield) {
			runtime.Gosched()
		}
		if op.Err == "" {
			c.write(r, op.Out.Uid, op.Out.Ver, rng.Intn(3), "rmw-update")
		} else {
			c.write(r, c.freshUid(), "", rng.Intn(3), "rmw-create")
		}
		return 2
	case x < 64: // delete
		switch y := rng.Intn(100); {
		case y < 60 && k.cur.uid != "":
			c.delete(r, k.cur.uid, k.cur.ver, "delete-current")
		case y < 75:
			if p, ok := c.anyOld(r); ok {
				c.delete(r, p.uid, p.ver, "delete-stale-pair")
			} else {
				c.delete(r, c.freshUid(), bogusVersion, "delete-unknown")
			}
		case y < 88:
			if p, ok := c.anyOld(r); ok && k.cur.uid != "" && p.uid != k.cur.uid {
				c.delete(r, p.uid, k.cur.ver, "delete-old-uid-current-version")
			} else if k.cur.uid != "" {
				c.delete(r, c.freshUid(), k.cur.ver, "delete-fresh-uid-current-version")
			} else {
				c.delete(r, c.freshUid(), bogusVersion, "delete-unknown")
			}
		default:
			if k.cur.uid != "" {
				c.delete(r, k.cur.uid, bogusVersion, "delete-bogus-version")
			} else {
				c.delete(r, c.freshUid(), bogusVersion, "delete-unknown")
			}
		}
	case x < 80: // read
		switch y := rng.Intn(100); {
		case y < 70:
			c.read(r, "", "read")
		case y < 85 && k.cur.uid != "":
			c.read(r, k.cur.uid, "read-current-uid")
		default:
			if p, ok := c.anyOld(r); ok {
				c.read(r, p.uid, "read-old-uid")
			} else {
				c.read(r, "", "read")
			}
		}
	case x < 92:
		c.list(core.Pick(rng, allScopes))
	default:
		if rng.Chance(15) {
			c.listOwner(1+rng.Intn(2), "other")
		} else {
			c.listOwner(1+rng.Intn(2), "o")
		}
	}
	return 1
}

func (c *client) run() {
	for done := 0; done < c.h.P.Ops; {
		done += c.step()
		if c.rng.Chance(c.h.P.Yield) {
			runtime.Gosched()
		}
	}
}

// ---------------- watchers ----------------

type watcher struct {
	id   int
	h    *hist
	be   storage.Backend
	p    wparams
	gens []*watchGen
	recs []opRec // warm-up reads
}

func (w *watcher) finalsSeen(g *watchGen) bool {
	seen := 0
	need := 0
	eos := false
	for i := range g.Events {
		eos = eos || g.Events[i].Kind == "eos"
	}
	if !eos {
		return false
	}
	for r := 0; r < w.h.P.Active; r++ {
		if !g.Scope.matches(r) {
			continue
		}
		need++
		for i := range g.Events {
			if g.Events[i].Kind == "upsert" && g.Events[i].It.Res == r && g.Events[i].It.Ver == w.h.Finals[r] {
				seen++
				break
			}
		}
	}
	return seen == need
}

func (w *watcher) run(stop <-chan struct{}) {
	h := w.h
	cid := 100 + w.id
	for i := 0; i < w.p.Warmup; i++ {
		w.recs = append(w.recs, doRead(h, w.be, cid, (i+w.id)%h.P.Active, "", "warmup-read"))
	}
	var prev storage.Watch
	var prevGen *watchGen
	for gen := 0; ; gen++ {
		g := &watchGen{Watcher: w.id, Gen: gen, Scope: w.p.Scope, LateClose: w.p.LateClose}
		w.gens = append(w.gens, g)
		g.Call = h.now()
		wt, err := w.be.WatchList(bg, storage.UnversionedTypeFrom(h.U.typ), w.p.Scope.tenancy(h.U), w.p.Scope.Prefix)
		g.Ret = h.now()
		if err != nil {
			g.End = "err:watchlist:" + err.Error()
			return
		}
		closed := false
		for !closed {
			select {
			case <-stop:
				g.End, g.EndT = "stopped", h.now()
				wt.Close()
				g.ClosedAt = h.now()
				if prev != nil {
					prev.Close()
					prevGen.ClosedAt = h.now()
				}
				return
			default:
			}
			flushed := false
			select {
			case <-h.flushed:
				flushed = true
			default:
			}
			if flushed && w.finalsSeen(g) {
				g.End, g.EndT = "stopped", h.now()
				wt.Close()
				g.ClosedAt = h.now()
				if prev != nil {
					prev.Close()
					prevGen.ClosedAt = h.now()
				}
				return
			}
			ctx, cancel := context.WithTimeout(bg, 20*time.Millisecond)
			nc := h.now()
			ev, err := wt.Next(ctx)
			t := h.now()
			cancel()
			switch {
			case errors.Is(err, context.DeadlineExceeded):
				continue
			case errors.Is(err, storage.ErrWatchClosed):
				g.End, g.EndCall, g.EndT = "closed", nc, t
				closed = true
			case err != nil:
				g.End, g.EndCall, g.EndT = "err:"+err.Error(), nc, t
				wt.Close()
				g.ClosedAt = h.now()
				return
			default:
				we := wevent{NextCall: nc, T: t}
				switch {
				case ev.GetUpsert() != nil:
					we.Kind, we.It = "upsert", h.U.parseItem(ev.GetUpsert().Resource)
				case ev.GetDelete() != nil:
					we.Kind, we.It = "delete", h.U.parseItem(ev.GetDelete().Resource)
				case ev.GetEndOfSnapshot() != nil:
					we.Kind = "eos"
					if prev != nil { // a late closer lets go of its closed watch only now
						prev.Close()
						prevGen.ClosedAt = h.now()
						prev, prevGen = nil, nil
					}
				default:
					we.Kind = "unknown"
				}
				if (we.Kind == "upsert" || we.Kind == "delete") && we.It.Res >= 0 {
					rd := doRead(h, w.be, cid, we.It.Res, "", "read-after-event")
					we.Read = &rd
				}
				g.Events = append(g.Events, we)
			}
		}
		// the watch was closed by the backend (restore): start over, as a controller would
		if w.p.LateClose {
			prev, prevGen = wt, g
		} else {
			wt.Close()
			g.ClosedAt = h.now()
		}
	}
}

// ---------------- one history ----------------

func runHistory(p hparams, rng *core.Rand) *hist {
	h := &hist{P: p, U: storageUniverse, start: time.Now(), flushed: make(chan struct{}), mainClient: p.Clients}
	s := newSUT(h)
	defer s.cancel()
	return driveHistory(h, s, rng, nil)
}

// driveHistory: prelude, concurrent phase (storage-level clients, or the given extra workers), flush, collection.
func driveHistory(h *hist, s *sut, rng *core.Rand, extra []func()) *hist {
	p := h.P
	// sequential prelude: some resources exist (and one was already re-created) before anything concurrent
	mc := &client{id: p.Clients, h: h, be: s.be, rng: rng.Fork(7)}
	for r := 0; r < p.Active; r++ {
		switch mc.rng.Intn(4) {
		case 0:
		case 1:
			mc.write(r, mc.freshUid(), "", mc.rng.Intn(3), "prelude-create")
		case 2:
			op := mc.write(r, mc.freshUid(), "", mc.rng.Intn(3), "prelude-create")
			mc.write(r, op.Out.Uid, op.Out.Ver, mc.rng.Intn(3), "prelude-update")
		case 3:
			op := mc.write(r, mc.freshUid(), "", mc.rng.Intn(3), "prelude-create")
			mc.delete(r, op.Out.Uid, op.Out.Ver, "prelude-delete")
			mc.write(r, mc.freshUid(), "", mc.rng.Intn(3), "prelude-recreate")
		}
	}

	startCh := make(chan struct{})
	stop := make(chan struct{})
	var cwg, wwg sync.WaitGroup
	var clients []*client
	if extra == nil {
		clients = make([]*client, p.Clients)
		for i := range clients {
			c := &client{id: i, h: h, be: s.be, rng: rng.Fork(uint64(100 + i))}
			// clients start with what the prelude left (so that early ops collide on real versions)
			c.know = mc.know
			for r := range c.know {
				c.know[r].old = append([]pair(nil), mc.know[r].old...)
			}
			clients[i] = c
			cwg.Add(1)
			go func() { defer cwg.Done(); <-startCh; c.run() }()
		}
	}
	for _, fn := range extra {
		cwg.Add(1)
		go func() { defer cwg.Done(); <-startCh; fn() }()
	}
	watchers := make([]*watcher, len(p.Watchers))
	for i, wp := range p.Watchers {
		w := &watcher{id: i, h: h, be: s.be, p: wp}
		watchers[i] = w
		wwg.Add(1)
		go func() { defer wwg.Done(); <-startCh; w.run(stop) }()
	}
	close(startCh)
	cwg.Wait()

	if s.handle != nil {
		s.handle.finish()
	}
	// flush: one final sequential write per resource; every watcher must get to see it
	for r := 0; r < p.Active; r++ {
		op := mc.read(r, "", "flush-read")
		var w *opRec
		if op.Err == "" {
			w = mc.write(r, op.Out.Uid, op.Out.Ver, mc.rng.Intn(3), "flush-update")
		} else {
			w = mc.write(r, mc.freshUid(), "", mc.rng.Intn(3), "flush-create")
		}
		if w.Err == "" {
			h.Finals[r] = w.Out.Ver
		} else {
			h.Finals[r] = "!flush-write-failed"
		}
	}
	close(h.flushed)
	done := make(chan struct{})
	go func() { wwg.Wait(); close(done) }()
	select {
	case <-done:
	case <-time.After(10 * time.Second):
		h.Incomplete = "watchers did not observe the final writes within 10s"
		close(stop)
		<-done
	}

	for _, c := range clients {
		h.Ops = append(h.Ops, c.recs...)
	}
	h.Ops = append(h.Ops, mc.recs...)
	for _, w := range watchers {
		h.Ops = append(h.Ops, w.recs...)
		h.Gens = append(h.Gens, w.gens...)
	}
	return h
}

// ---------------- watchdog ----------------

var watchdogSeconds atomic.Int64

func init() { watchdogSeconds.Store(30) }

var (
	stuckMu   sync.Mutex
	stuckSeen = map[string]bool{} // goroutine ids already attributed to an earlier stuck history
)

// runHistoryGuarded runs one history under a watchdog. If it does not finish, the goroutine dump is
// searched for a PROVEN lock cycle inside the code under test (each side blocked on a lock the other
// holds); only that is reported as a deadlock, anything else is inconclusive.
func runHistoryGuarded(p hparams, rng *core.Rand) (h *hist, deadlock, dump string) {
	ch := make(chan *hist, 1)
	go func() { ch <- runHistory(p, rng) }()
	select {
	case h := <-ch:
		return h, "", ""
	case <-time.After(time.Duration(watchdogSeconds.Load()) * time.Second):
	}
	buf := make([]byte, 16<<20)
	buf = buf[:runtime.Stack(buf, true)]
	stuckMu.Lock()
	defer stuckMu.Unlock()
	var commit, subscribe string
	var mine []string
	for _, g := range strings.Split(string(buf), "\n\n") {
		id := g
		if i := strings.Index(g, " ["); i > 0 {
			id = g[:i]
		}
		if stuckSeen[id] {
			continue
		}
		switch {
		case strings.Contains(g, "inmem.(*Restoration).Commit") && strings.Contains(g, "stream.(*EventPublisher).RefreshTopic") && strings.Contains(g, "Mutex.Lock"):
			commit = g
			stuckSeen[id] = true
		case strings.Contains(g, "inmem.(*Store).watchSnapshot") && strings.Contains(g, "inmem.(*Store).txn") && strings.Contains(g, "stream.(*EventPublisher).Subscribe") && strings.Contains(g, "RWMutex.RLock"):
			subscribe = g
			stuckSeen[id] = true
		case strings.Contains(g, "zzverif/c18"):
			mine = append(mine, g)
		}
	}
	if commit != "" && subscribe != "" {
		watchdogSeconds.Store(12) // the defect is on record; do not spend 30 s on each further occurrence
		return nil, "Restoration.Commit holds Store.mu (write) and waits for EventPublisher.lock in RefreshTopic, while WatchList -> EventPublisher.Subscribe holds EventPublisher.lock and waits for Store.mu (read) in the snapshot handler watchSnapshot", commit + "\n\n" + subscribe
	}
	if len(mine) > 12 {
		mine = mine[:12]
	}
	return nil, "", strings.Join(mine, "\n\n")
}
