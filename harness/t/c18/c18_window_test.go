//go:build verif

// C18 part W: writes that commit BETWEEN Store.Restore() and Restoration.Commit() ("the restore
// window"), with watchers on the same subject whose topic buffer survives the restore, and new watches
// opened after Commit(). Driven through the public API of inmem.Store (Snapshot, Restore -> Apply /
// Commit, WriteCAS, DeleteCAS, Read, List, WatchList); versions are assigned by the harness as the
// backends do. Two forms: a deterministic sequential family (no scheduling luck needed) and a
// concurrent one (one writer goroutine per resource running across the window).
//
// Oracle (everything the property already states): the restore replaces the content wholesale, so
// every commit made after Snapshot() and before Commit() is blown away; every operation's outcome must
// equal that of a sequential model with the restore at the Commit point; a watch opened after Commit()
// lists a state of the post-restore sequence of each resource and then delivers exactly the following
// post-restore commits of that resource, in order, none missing, none of the blown-away ones; a Read
// after a delivered upsert returns that version or a newer one, NotFound only if a delete committed;
// watches that existed before Commit() end with ErrWatchClosed.
package c18

import (
	"context"
	"errors"
	"fmt"
	"runtime"
	"sort"
	"sync"
	"sync/atomic"
	"testing"
	"time"

	"github.com/hashicorp/consul/internal/storage"
	"github.com/hashicorp/consul/internal/storage/inmem"
	"github.com/hashicorp/consul/proto-public/pbresource"
	"github.com/hashicorp/consul/zzverif/core"
)

type wwParams struct {
	Idx        int    `json:"idx"`
	Mode       string `json:"mode"`   // seq | conc
	Window     int    `json:"window"` // seq: bit set of window writes: 1 create "b", 2 update "a", 4 delete "ab"
	PreWindow  bool   `json:"prewindow"`  // seq: also a write after Snapshot() but before Restore()
	W1bFirst   bool   `json:"w1bfirst"`   // the second old watcher closes BEFORE the first one re-watches
	W2Scope    scope  `json:"w2scope"`
	Drain      bool   `json:"drain"`      // seq: old watchers consume every event before the next step
	PostKind   int    `json:"postkind"`   // seq: first write after Commit: 0 create "b" again, 1 update "a", 2 create "ab"/update
	Writers    int    `json:"writers"`    // conc
	Ops        int    `json:"ops"`        // conc: operations per writer
	Procs      int    `json:"procs"`
}

type wwOp struct {
	Res    int    `json:"r"`
	Kind   string `json:"k"` // write delete read
	Uid    string `json:"uid,omitempty"`
	Ver    string `json:"ver,omitempty"` // presented
	New    string `json:"new,omitempty"` // version written
	Call   int64  `json:"call"`
	Ret    int64  `json:"ret"`
	Err    string `json:"err,omitempty"`
	OutUid string `json:"outuid,omitempty"`
	OutVer string `json:"outver,omitempty"`
	Note   string `json:"note,omitempty"`
}

type wwEvent struct {
	Kind     string `json:"k"` // upsert delete eos
	Res      int    `json:"r"`
	Uid      string `json:"uid,omitempty"`
	Ver      string `json:"ver,omitempty"`
	NextCall int64  `json:"nc"`
	T        int64  `json:"t"`
	ReadErr  string `json:"readerr,omitempty"`
	ReadVer  string `json:"readver,omitempty"`
	ReadCall int64  `json:"readcall,omitempty"`
	ReadRet  int64  `json:"readret,omitempty"`
}

type wwWatch struct {
	Name   string    `json:"name"`
	Scope  scope     `json:"scope"`
	Call   int64     `json:"call"`
	Ret    int64     `json:"ret"`
	Events []wwEvent `json:"events"`
	End    string    `json:"end"` // closed | done | timeout | err:...
	EndNC  int64     `json:"endnc"`
	w      *inmem.Watch
}

type wwHist struct {
	P        wwParams
	start    time.Time
	u        *universe
	s        *inmem.Store
	vsn      atomic.Uint64
	uidn     atomic.Uint64
	mu       sync.Mutex // guards Ops appends from writer goroutines (appended after they finish)
	Ops      []wwOp
	Watches  []*wwWatch
	SnapCall, SnapRet, RestCall, CommitCall, CommitRet int64
	SnapItems map[int][2]string // res -> uid, ver
	PostList  string            // non-empty: content right after Commit differs from the snapshot
	Finals    [nRes]string
	Timeout   string
	Starved   string
}

func (h *wwHist) now() int64 { return time.Since(h.start).Nanoseconds() }
func (h *wwHist) newVer() string { return fmt.Sprintf("v%d", h.vsn.Add(1)) }
func (h *wwHist) newUid() string { return fmt.Sprintf("w%d.%d", h.P.Idx, h.uidn.Add(1)) }

// ---- store operations (recorded) ----

func (h *wwHist) write(r int, uid, ver, note string) wwOp {
	op := wwOp{Res: r, Kind: "write", Uid: uid, Ver: ver, New: h.newVer(), Note: note}
	res := &pbresource.Resource{Id: h.u.resID(r, uid), Version: op.New, Metadata: map[string]string{"pid": op.New}}
	op.Call = h.now()
	err := h.s.WriteCAS(res, ver)
	op.Ret = h.now()
	op.Err = errClass(err)
	return op
}

func (h *wwHist) del(r int, uid, ver, note string) wwOp {
	op := wwOp{Res: r, Kind: "delete", Uid: uid, Ver: ver, Note: note}
	op.Call = h.now()
	err := h.s.DeleteCAS(h.u.resID(r, uid), ver)
	op.Ret = h.now()
	op.Err = errClass(err)
	return op
}

func (h *wwHist) read(r int, note string) wwOp {
	op := wwOp{Res: r, Kind: "read", Note: note}
	op.Call = h.now()
	out, err := h.s.Read(h.u.resID(r, ""))
	op.Ret = h.now()
	op.Err = errClass(err)
	if err == nil {
		op.OutUid, op.OutVer = out.Id.Uid, out.Version
	}
	return op
}

func (h *wwHist) rec(op wwOp) wwOp { h.Ops = append(h.Ops, op); return op }

// ---- watchers ----

func (h *wwHist) open(name string, sc scope) *wwWatch {
	w := &wwWatch{Name: name, Scope: sc}
	w.Call = h.now()
	x, err := h.s.WatchList(storage.UnversionedTypeFrom(h.u.typ), sc.tenancy(h.u), sc.Prefix)
	w.Ret = h.now()
	if err != nil {
		w.End = "err:watchlist:" + err.Error()
	}
	w.w = x
	return w
}

// next takes one step of the watch; returns false when nothing arrived within the wait.
func (h *wwHist) next(w *wwWatch, wait time.Duration) bool {
	if w.End != "" {
		return false
	}
	ctx, cancel := context.WithTimeout(context.Background(), wait)
	nc := h.now()
	ev, err := w.w.Next(ctx)
	t := h.now()
	cancel()
	switch {
	case errors.Is(err, context.DeadlineExceeded):
		return false
	case errors.Is(err, storage.ErrWatchClosed):
		w.End, w.EndNC = "closed", nc
		return true
	case err != nil:
		w.End, w.EndNC = "err:"+err.Error(), nc
		return true
	}
	e := wwEvent{NextCall: nc, T: t, Res: -1}
	var res *pbresource.Resource
	switch {
	case ev.GetUpsert() != nil:
		e.Kind, res = "upsert", ev.GetUpsert().Resource
	case ev.GetDelete() != nil:
		e.Kind, res = "delete", ev.GetDelete().Resource
	default:
		e.Kind = "eos"
	}
	if res != nil {
		it := h.u.parseItem(res)
		e.Res, e.Uid, e.Ver = it.Res, it.Uid, it.Ver
		if it.Res >= 0 {
			e.ReadCall = h.now()
			out, err := h.s.Read(h.u.resID(it.Res, ""))
			e.ReadRet = h.now()
			e.ReadErr = errClass(err)
			if err == nil {
				e.ReadVer = out.Version
			}
		}
	}
	w.Events = append(w.Events, e)
	return true
}

// sawFinals: the watch has delivered EndOfSnapshot and the final version of every resource in scope
func (h *wwHist) sawFinals(w *wwWatch) bool {
	eos := false
	seen := map[int]bool{}
	for _, e := range w.Events {
		eos = eos || e.Kind == "eos"
		if e.Kind == "upsert" && e.Res >= 0 && e.Ver == h.Finals[e.Res] {
			seen[e.Res] = true
		}
	}
	for r := 0; r < nRes; r++ {
		if w.Scope.matches(r) && h.Finals[r] != "" && !seen[r] {
			return false
		}
	}
	return eos
}

// starved decides a watch that did not deliver the final marker writes in logical steps first: the writes
// returned (they are committed), and a FRESH watch of the same scope, opened now, delivers them in its listing
// and reaches end-of-snapshot while the old watch - still open, given 10 s - has not: the old watch lost
// committed events. If the fresh watch does not complete either, the machine is too slow to tell (inconclusive).
func (h *wwHist) starved(w *wwWatch) {
	f := h.open(w.Name+"-fresh-after-timeout", w.Scope)
	if f.End != "" {
		return
	}
	ok := h.drainUntil(f, func() bool { return h.sawFinals(f) }, 10*time.Second)
	f.w.Close()
	if ok {
		h.Starved = fmt.Sprintf("watch %s (opened after the restore) did not deliver the final marker writes within 10 s although they are committed and a fresh watch of the same scope, opened afterwards, delivered all of them and reached end-of-snapshot", w.Name)
		h.Timeout = ""
	}
}

// drainUntil consumes the watch until cond holds, the watch ends, or the watchdog fires.
func (h *wwHist) drainUntil(w *wwWatch, cond func() bool, watchdog time.Duration) bool {
	deadline := time.Now().Add(watchdog)
	for !cond() {
		if w.End != "" {
			return false
		}
		if time.Now().After(deadline) {
			return false
		}
		h.next(w, 10*time.Millisecond)
	}
	return true
}

func (h *wwHist) sawVersion(w *wwWatch, ver string) func() bool {
	return func() bool {
		for _, e := range w.Events {
			if e.Ver == ver && e.Kind != "eos" {
				return true
			}
		}
		return false
	}
}

func (h *wwHist) sawEOS(w *wwWatch) func() bool {
	return func() bool {
		for _, e := range w.Events {
			if e.Kind == "eos" {
				return true
			}
		}
		return false
	}
}

// ---- snapshot / restore ----

func (h *wwHist) snapshot() []*pbresource.Resource {
	h.SnapCall = h.now()
	sn, err := h.s.Snapshot()
	if err != nil {
		panic(err)
	}
	var out []*pbresource.Resource
	h.SnapItems = map[int][2]string{}
	for r := sn.Next(); r != nil; r = sn.Next() {
		out = append(out, r)
		it := h.u.parseItem(r)
		h.SnapItems[it.Res] = [2]string{it.Uid, it.Ver}
	}
	h.SnapRet = h.now()
	return out
}

func (h *wwHist) checkContent(want []*pbresource.Resource) {
	got, err := h.s.List(storage.UnversionedTypeFrom(h.u.typ), scope{Ten: -1}.tenancy(h.u), "")
	if err != nil {
		h.PostList = "list error: " + err.Error()
		return
	}
	h.PostList = diffResources(append([]*pbresource.Resource(nil), want...), append([]*pbresource.Resource(nil), got...))
}

// ---- deterministic sequential family ----

func runWindowSeq(p wwParams) *wwHist {
	h := &wwHist{P: p, start: time.Now(), u: storageUniverse}
	s, err := inmem.NewStore()
	if err != nil {
		panic(err)
	}
	h.s = s
	ctx, cancel := context.WithCancel(context.Background())
	defer cancel()
	go s.Run(ctx)
	const a, ab, b = 0, 1, 2
	cur := map[int][2]string{} // what the single (sequential) client knows
	wr := func(r int, create bool, note string) wwOp {
		var op wwOp
		if create || cur[r][0] == "" {
			op = h.rec(h.write(r, h.newUid(), "", note))
		} else {
			op = h.rec(h.write(r, cur[r][0], cur[r][1], note))
		}
		if op.Err == "" {
			cur[r] = [2]string{op.Uid, op.New}
		}
		return op
	}
	resync := func() {
		for r := 0; r < 3; r++ {
			op := h.rec(h.read(r, "resync"))
			if op.Err == "" {
				cur[r] = [2]string{op.OutUid, op.OutVer}
			} else {
				delete(cur, r)
			}
		}
	}
	old := scope{Ten: 0}
	var w1, w1b *wwWatch
	sync1 := func(ver string) {
		if p.Drain {
			h.drainUntil(w1, h.sawVersion(w1, ver), 5*time.Second)
			h.drainUntil(w1b, h.sawVersion(w1b, ver), 5*time.Second)
		}
	}
	wr(a, true, "write a")
	wr(ab, true, "write ab")
	w1, w1b = h.open("w1", old), h.open("w1b", old)
	h.Watches = append(h.Watches, w1, w1b)
	h.drainUntil(w1, h.sawEOS(w1), 5*time.Second)
	h.drainUntil(w1b, h.sawEOS(w1b), 5*time.Second)
	sync1(wr(a, false, "update a (seen by the old watchers)").New)
	snap := h.snapshot()
	if p.PreWindow {
		sync1(wr(a, false, "update a after Snapshot(), before Restore()").New)
	}
	h.RestCall = h.now()
	rest, err := s.Restore()
	if err != nil {
		panic(err)
	}
	for _, r := range snap {
		if err := rest.Apply(r); err != nil {
			panic(err)
		}
	}
	// writes that commit inside the window
	if p.Window&1 != 0 {
		sync1(wr(b, true, "WINDOW create b").New)
	}
	if p.Window&2 != 0 {
		sync1(wr(a, false, "WINDOW update a").New)
	}
	if p.Window&4 != 0 {
		op := h.rec(h.del(ab, cur[ab][0], cur[ab][1], "WINDOW delete ab"))
		if op.Err == "" {
			delete(cur, ab)
		}
	}
	h.CommitCall = h.now()
	rest.Commit()
	h.CommitRet = h.now()
	h.checkContent(snap)
	resync()
	// the old watchers: w1 re-watches right away; w1b lets go of its closed watch before or after that
	h.drainUntil(w1, func() bool { return false }, 5*time.Second)
	if p.W1bFirst {
		h.drainUntil(w1b, func() bool { return false }, 5*time.Second)
		w1b.w.Close()
	}
	w1r := h.open("w1-rewatch", old)
	w2 := h.open("w2", p.W2Scope)
	h.Watches = append(h.Watches, w1r, w2)
	// writes after the restore
	switch p.PostKind {
	case 0:
		wr(b, true, "write c (create b)")
	case 1:
		wr(a, false, "write c (update a)")
	default:
		wr(ab, false, "write c (ab)")
	}
	if !p.W1bFirst {
		h.drainUntil(w1b, func() bool { return false }, 5*time.Second)
		w1b.w.Close()
	}
	w1.w.Close()
	// marker writes: two more commits per resource; the last one is what every new watch must get to see
	for k := 0; k < 2; k++ {
		for r := 0; r < 3; r++ {
			op := wr(r, false, fmt.Sprintf("marker %d", k))
			if op.Err == "" {
				h.Finals[r] = op.New
			}
		}
	}
	for _, w := range []*wwWatch{w1r, w2} {
		if !h.drainUntil(w, func() bool { return h.sawFinals(w) }, 10*time.Second) && w.End == "" {
			w.End = "timeout"
			h.Timeout = w.Name + " did not deliver the final marker writes within 10s"
			h.starved(w)
		} else if w.End == "" {
			w.End = "done"
		}
		w.w.Close()
	}
	return h
}

// ---- concurrent family ----

func runWindowConc(p wwParams, rng *core.Rand) *wwHist {
	h := &wwHist{P: p, start: time.Now(), u: storageUniverse}
	s, err := inmem.NewStore()
	if err != nil {
		panic(err)
	}
	h.s = s
	ctx, cancel := context.WithCancel(context.Background())
	defer cancel()
	go s.Run(ctx)

	// prelude (sequential): half of the resources exist
	for r := 0; r < p.Writers; r++ {
		if r%2 == 0 {
			h.rec(h.write(r, h.newUid(), "", "prelude"))
		}
	}
	var gate sync.RWMutex // writers hold it shared per operation; Snapshot() and Commit() take it exclusively
	var okWrites atomic.Int64
	var wg sync.WaitGroup
	recs := make([][]wwOp, p.Writers)
	for i := 0; i < p.Writers; i++ {
		wg.Add(1)
		wrng := rng.Fork(uint64(i))
		go func(r int) { // writer r owns resource r
			defer wg.Done()
			var uid, ver string
			resync := func() {
				gate.RLock()
				op := h.read(r, "sync")
				gate.RUnlock()
				recs[r] = append(recs[r], op)
				uid, ver = op.OutUid, op.OutVer
			}
			resync()
			for n := 0; n < p.Ops; n++ {
				gate.RLock()
				var op wwOp
				switch x := wrng.Intn(10); {
				case uid == "":
					op = h.write(r, h.newUid(), "", "create")
				case x < 7:
					op = h.write(r, uid, ver, "update")
				case x < 9:
					op = h.del(r, uid, ver, "delete")
				default:
					op = h.write(r, h.newUid(), "", "create-on-existing")
				}
				gate.RUnlock()
				recs[r] = append(recs[r], op)
				switch {
				case op.Err == "" && op.Kind == "write":
					uid, ver = op.Uid, op.New
					okWrites.Add(1)
				case op.Err == "" && op.Kind == "delete":
					uid, ver = "", ""
					okWrites.Add(1)
				case op.Err != "":
					resync() // the restore took the resource back, or a blind create hit an existing one
				}
				if wrng.Chance(30) {
					runtime.Gosched()
				}
			}
		}(i)
	}
	waitFor := func(target int64) {
		dl := time.Now().Add(2 * time.Second)
		for okWrites.Load() < target && time.Now().Before(dl) {
			time.Sleep(20 * time.Microsecond)
		}
	}
	old := scope{Ten: -1}
	w1, w1b := h.open("w1", old), h.open("w1b", old)
	h.Watches = append(h.Watches, w1, w1b)
	total := int64(p.Writers * p.Ops)
	waitFor(total / 8)
	h.next(w1, time.Millisecond)
	h.next(w1b, time.Millisecond)
	gate.Lock()
	snap := h.snapshot()
	gate.Unlock()
	waitFor(okWrites.Load() + 3)
	h.RestCall = h.now()
	rest, err := s.Restore()
	if err != nil {
		panic(err)
	}
	for _, r := range snap {
		if err := rest.Apply(r); err != nil {
			panic(err)
		}
		runtime.Gosched()
	}
	waitFor(okWrites.Load() + int64(4+rng.Intn(12))) // let writes commit inside the window
	for i := 0; i < 4; i++ {
		h.next(w1, time.Millisecond)
	}
	gate.Lock()
	h.CommitCall = h.now()
	rest.Commit()
	h.CommitRet = h.now()
	h.checkContent(snap)
	gate.Unlock()
	// old watchers
	h.drainUntil(w1, func() bool { return false }, 5*time.Second)
	if p.W1bFirst {
		h.drainUntil(w1b, func() bool { return false }, 5*time.Second)
		w1b.w.Close()
	}
	w1r := h.open("w1-rewatch", old)
	w2 := h.open("w2", p.W2Scope)
	h.Watches = append(h.Watches, w1r, w2)
	// consume while the writers go on
	done := make(chan struct{})
	go func() { wg.Wait(); close(done) }()
	for running := true; running; {
		select {
		case <-done:
			running = false
		default:
			h.next(w2, time.Millisecond)
			h.next(w1r, time.Millisecond)
		}
	}
	if !p.W1bFirst {
		h.drainUntil(w1b, func() bool { return false }, 5*time.Second)
		w1b.w.Close()
	}
	w1.w.Close()
	for _, rr := range recs {
		h.Ops = append(h.Ops, rr...)
	}
	// marker writes by the main goroutine
	for k := 0; k < 2; k++ {
		for r := 0; r < p.Writers; r++ {
			rd := h.rec(h.read(r, "marker-read"))
			var op wwOp
			if rd.Err == "" {
				op = h.rec(h.write(r, rd.OutUid, rd.OutVer, fmt.Sprintf("marker %d", k)))
			} else {
				op = h.rec(h.write(r, h.newUid(), "", fmt.Sprintf("marker %d", k)))
			}
			if op.Err == "" {
				h.Finals[r] = op.New
			}
		}
	}
	for _, w := range []*wwWatch{w1r, w2} {
		if !h.drainUntil(w, func() bool { return h.sawFinals(w) }, 10*time.Second) && w.End == "" {
			w.End = "timeout"
			h.Timeout = w.Name + " did not deliver the final marker writes within 10s"
			h.starved(w)
		} else if w.End == "" {
			w.End = "done"
		}
		w.w.Close()
	}
	return h
}

// ---- oracle ----

type wwState struct {
	present  bool
	uid, ver string
}

func checkWindow(run *core.Run, h *wwHist) {
	run.Eval()
	run.Count("restore-window:scenarios")
	run.Count("restore-window:scenarios:" + h.P.Mode)
	nv := 0
	viol := func(key, what string, extra map[string]any) {
		nv++
		w := map[string]any{"params": h.P, "ops": h.Ops, "watches": h.Watches, "snapshot": h.SnapItems,
			"times": map[string]int64{"snapshot_call": h.SnapCall, "snapshot_ret": h.SnapRet, "restore_call": h.RestCall, "commit_call": h.CommitCall, "commit_ret": h.CommitRet}}
		for k, v := range extra {
			w[k] = v
		}
		run.Violation("C18:restore-window:"+key, fmt.Sprintf("restore-window scenario %d (%s): %s", h.P.Idx, h.P.Mode, what), w)
	}
	if h.Starved != "" {
		viol("post-restore-commit-not-delivered:watch-starved", h.Starved, nil)
	}
	if h.Timeout != "" {
		run.Inconclusive(fmt.Sprintf("restore-window scenario %d: %s", h.P.Idx, h.Timeout))
	}
	if h.PostList != "" {
		viol("content-after-commit-differs-from-snapshot", "right after Commit() the store does not equal the snapshot: "+h.PostList, nil)
	}
	// per resource: the operations in program order (one writer per resource), the model with the
	// restore at the Commit point
	var post [nRes][]wwState     // post-restore state sequence, [0] = restored state
	blown := map[string]string{} // version -> note, of commits the restore must have blown away
	blownDel := map[string]bool{} // "uid/ver" of deletes that were blown away
	preVer := map[string]bool{}  // versions committed before the snapshot (or in it)
	committedDel := map[string][]wwOp{}
	inside := 0
	for r := 0; r < nRes; r++ {
		var ops []wwOp
		for _, op := range h.Ops {
			if op.Res == r {
				ops = append(ops, op)
			}
		}
		sort.SliceStable(ops, func(i, j int) bool { return ops[i].Call < ops[j].Call })
		st := wwState{}
		snapDone, restDone := false, false
		snapSt := wwState{}
		if it, ok := h.SnapItems[r]; ok {
			snapSt = wwState{true, it[0], it[1]}
		}
		doSnap := func() {
			snapDone = true
			if st.present != snapSt.present || (st.present && (st.uid != snapSt.uid || st.ver != snapSt.ver)) {
				viol("snapshot-differs-from-store", fmt.Sprintf("Snapshot() has resource %d as %+v, the operations so far leave it as %+v", r, snapSt, st), nil)
			}
		}
		doRest := func() {
			restDone = true
			st = snapSt
			post[r] = []wwState{st}
		}
		for _, op := range ops {
			if !snapDone && op.Call > h.SnapRet {
				doSnap()
			}
			if !restDone && op.Call > h.CommitRet {
				doRest()
			}
			if op.Call < h.CommitRet && op.Ret > h.CommitCall || op.Call < h.SnapRet && op.Ret > h.SnapCall {
				continue // cannot happen (gate); such an operation would have no defined fate
			}
			want := ""
			switch op.Kind {
			case "write":
				switch {
				case !st.present && op.Ver == "":
				case !st.present:
					want = "cas"
				case op.Uid != st.uid && op.Ver != st.ver:
					want = "uid|cas"
				case op.Uid != st.uid:
					want = "uid"
				case op.Ver != st.ver:
					want = "cas"
				}
			case "delete":
				if st.present && op.Uid == st.uid && op.Ver != st.ver {
					want = "cas"
				}
			case "read":
				if !st.present {
					want = "notfound"
				}
			}
			okOutcome := op.Err == want || (want == "uid|cas" && (op.Err == "uid" || op.Err == "cas"))
			if op.Kind == "read" && op.Err == "" && want == "" && (op.OutUid != st.uid || op.OutVer != st.ver) {
				okOutcome = false
			}
			if !okOutcome {
				phase := "before the restore"
				if restDone {
					phase = "AFTER Commit() (expected content: the snapshot plus later commits)"
				}
				viol("store-diverges-from-model:"+op.Kind, fmt.Sprintf("%s on resource %d presenting uid=%q ver=%q returned %q (read: %s/%s), %s the sequential model has %+v and expects %q", op.Kind, r, op.Uid, op.Ver, op.Err, op.OutUid, op.OutVer, phase, st, want), map[string]any{"op": op})
				break
			}
			if op.Err != "" {
				continue
			}
			window := snapDone && !restDone
			switch op.Kind {
			case "write":
				st = wwState{true, op.Uid, op.New}
				if window {
					blown[op.New] = op.Note
				} else if !snapDone {
					preVer[op.New] = true
				}
			case "delete":
				if st.present && op.Uid == st.uid {
					if window {
						blownDel[st.uid+"/"+st.ver] = true
					} else if restDone {
						committedDel[st.ver] = append(committedDel[st.ver], op)
					}
					st = wwState{false, st.uid, st.ver}
				} else {
					continue
				}
			default:
				continue
			}
			if window && op.Call > h.RestCall {
				inside++
			}
			if restDone {
				post[r] = append(post[r], st)
			}
		}
		if !snapDone {
			doSnap()
		}
		if !restDone {
			doRest()
		}
		preVer[snapSt.ver] = true
	}
	run.CountN("restore-window:writes-inside-window", inside)
	run.CountN("restore-window:commits-blown-away", len(blown)+len(blownDel))
	if nv > 0 {
		return
	}

	// watches
	for _, w := range h.Watches {
		ex := map[string]any{"watch": w}
		if len(w.End) > 4 && w.End[:4] == "err:" {
			viol("watch-error", fmt.Sprintf("watch %s ended with %s", w.Name, w.End), ex)
			continue
		}
		if w.Ret < h.CommitCall { // existed before Commit(): must be closed by it
			if w.End != "closed" {
				viol("old-watch-not-closed", fmt.Sprintf("watch %s, established before Commit(), ended with %q instead of ErrWatchClosed", w.Name, w.End), ex)
			}
			for _, e := range w.Events {
				if e.Kind != "eos" && e.NextCall > h.CommitRet && !preVer[e.Ver] && blown[e.Ver] == "" {
					viol("old-watch-delivers-post-restore-event", fmt.Sprintf("watch %s, established before Commit(), delivered %s %d/%s produced after the restore", w.Name, e.Kind, e.Res, e.Ver), ex)
					break
				}
			}
			run.Count("restore-window:old-watches-closed")
			continue
		}
		if w.Call < h.CommitRet {
			continue
		}
		// a watch opened after Commit()
		run.Count("restore-window:post-restore-watches")
		pos := map[int]int{} // resource -> index into post[r] the watcher's view is at
		eos := false
		bad := false
		for i, e := range w.Events {
			if bad {
				break
			}
			if e.Kind == "eos" {
				if eos {
					viol("second-end-of-snapshot", fmt.Sprintf("watch %s: event %d is a second EndOfSnapshot", w.Name, i), ex)
					bad = true
				}
				eos = true
				for r := 0; r < nRes && !bad; r++ {
					if _, listed := pos[r]; listed || !w.Scope.matches(r) {
						continue
					}
					absent := false
					for _, st := range post[r] {
						absent = absent || !st.present
					}
					if !absent {
						viol("listing-omits-resource", fmt.Sprintf("watch %s, opened after Commit(), does not list resource %d although it exists in every state of the post-restore sequence %+v", w.Name, r, post[r]), ex)
						bad = true
					}
				}
				continue
			}
			r := e.Res
			if r < 0 || !w.Scope.matches(r) {
				viol("event-outside-scope", fmt.Sprintf("watch %s: event %d (%s %d/%s) is outside its scope", w.Name, i, e.Kind, e.Res, e.Ver), ex)
				bad = true
				continue
			}
			seq := post[r]
			isBlown := (e.Kind == "upsert" && blown[e.Ver] != "") || (e.Kind == "delete" && blownDel[e.Uid+"/"+e.Ver])
			find := func(from int) int {
				for k := from; k < len(seq); k++ {
					if e.Kind == "upsert" && seq[k].present && seq[k].ver == e.Ver && seq[k].uid == e.Uid {
						return k
					}
					if e.Kind == "delete" && !seq[k].present && seq[k].ver == e.Ver && seq[k].uid == e.Uid && k > 0 {
						return k
					}
				}
				return -1
			}
			if !eos { // initial listing
				if e.Kind != "upsert" {
					viol("delete-in-initial-listing", fmt.Sprintf("watch %s: event %d is a delete before EndOfSnapshot", w.Name, i), ex)
					bad = true
					continue
				}
				if _, dup := pos[r]; dup {
					viol("duplicate-in-initial-listing", fmt.Sprintf("watch %s lists resource %d twice", w.Name, r), ex)
					bad = true
					continue
				}
				k := find(0)
				switch {
				case k >= 0:
					pos[r] = k
				case isBlown:
					viol("listing-has-blown-away-version", fmt.Sprintf("watch %s, opened after Commit(), lists resource %d at version %s (%s) which the restore blew away", w.Name, r, e.Ver, blown[e.Ver]), ex)
					bad = true
				default:
					viol("listing-not-a-post-restore-state", fmt.Sprintf("watch %s, opened after Commit(), lists resource %d at %s/%s which is not a state of the post-restore sequence %+v", w.Name, r, e.Uid, e.Ver, seq), ex)
					bad = true
				}
				continue
			}
			run.Count("restore-window:post-restore-events")
			cur, listed := pos[r]
			if !listed {
				// absent in the listing: the view is at the latest absent state compatible with what follows;
				// take the first absent state at or after the start whose successor matches this event
				cur = -1
				for k := 0; k < len(seq); k++ {
					if !seq[k].present && k+1 < len(seq) && e.Kind == "upsert" && seq[k+1].present && seq[k+1].ver == e.Ver {
						cur = k
						break
					}
				}
				if cur < 0 {
					cur = 0
					if len(seq) > 0 && seq[0].present {
						// the resource exists from the restore on and was not listed
						for k := range seq {
							if !seq[k].present {
								cur = k
								break
							}
						}
					}
				}
			}
			next := cur + 1
			matches := next < len(seq) && ((e.Kind == "upsert" && seq[next].present && seq[next].ver == e.Ver && seq[next].uid == e.Uid) ||
				(e.Kind == "delete" && !seq[next].present && seq[next].ver == e.Ver && seq[next].uid == e.Uid))
			switch {
			case matches:
				pos[r] = next
			case isBlown:
				viol("event-for-blown-away-resource", fmt.Sprintf("watch %s, opened after Commit(), delivers event %d (%s resource %d uid %s version %s: %q) — a commit made between Restore() and Commit(), which the restore blew away", w.Name, i, e.Kind, r, e.Uid, e.Ver, blown[e.Ver]), ex)
				bad = true
			case preVer[e.Ver] || find(0) >= 0 && find(0) <= cur:
				viol("stale-event-delivered", fmt.Sprintf("watch %s, opened after Commit(), delivers event %d (%s %d/%s) which is not newer than the watcher's view %+v", w.Name, i, e.Kind, r, e.Ver, seq[min(cur, len(seq)-1)]), ex)
				bad = true
			case find(next+1) >= 0:
				miss := seq[next]
				viol("post-restore-commit-not-delivered", fmt.Sprintf("watch %s: event %d (%s %d/%s) arrives while the watcher's view of resource %d is %+v; the post-restore commit %+v in between was never delivered", w.Name, i, e.Kind, r, e.Ver, r, seq[cur], miss), ex)
				bad = true
			default:
				viol("unexpected-event", fmt.Sprintf("watch %s: event %d (%s %d uid %s version %s) is not the successor of the watcher's view in the post-restore sequence %+v (view index %d)", w.Name, i, e.Kind, r, e.Uid, e.Ver, seq, cur), ex)
				bad = true
			}
			if bad {
				continue
			}
			// read after the event
			if e.Kind == "upsert" {
				run.Count("restore-window:reads-after-event")
				switch {
				case e.ReadErr == "notfound":
					deleted := false
					for k := pos[r] + 1; k < len(seq); k++ {
						deleted = deleted || !seq[k].present
					}
					if !deleted {
						viol("read-after-event-notfound", fmt.Sprintf("watch %s: after event %d (upsert %d/%s) Read returned NotFound although no later delete of the resource committed", w.Name, i, r, e.Ver), ex)
						bad = true
					}
				case e.ReadErr == "":
					k := -1
					for j := range seq {
						if seq[j].present && seq[j].ver == e.ReadVer {
							k = j
						}
					}
					if k >= 0 && k < pos[r] {
						viol("read-after-event-older", fmt.Sprintf("watch %s: after event %d (upsert %d/%s) Read returned the older version %s", w.Name, i, r, e.Ver, e.ReadVer), ex)
						bad = true
					}
				default:
					viol("read-after-event-error", fmt.Sprintf("watch %s: Read after event %d failed: %s", w.Name, i, e.ReadErr), ex)
					bad = true
				}
			}
		}
		if bad || w.End != "done" {
			continue
		}
		// complete: the watcher has the final version of everything in scope, so with the adjacency above
		// every post-restore commit after its listing was delivered
		for r := 0; r < nRes; r++ {
			if !w.Scope.matches(r) || len(post[r]) == 0 || h.Finals[r] == "" {
				continue
			}
			if k, ok := pos[r]; !ok || k != len(post[r])-1 {
				viol("post-restore-commit-not-delivered", fmt.Sprintf("watch %s ended with its view of resource %d at index %d of the post-restore sequence %+v", w.Name, r, k, post[r]), ex)
				break
			}
		}
		run.Count("restore-window:post-restore-watches-complete")
	}
	if inside > 0 {
		var fp string
		for _, op := range h.Ops {
			fp += fmt.Sprintf("%d/%s/%s/%s;", op.Res, op.Kind, op.Ver, op.Err)
		}
		run.NonTrivial("window:" + core.Hash(fp, core.JSON(h.P)))
	}
}

func runWindowPart(t *testing.T, run *core.Run, rng *core.Rand) {
	ncpu := runtime.NumCPU()
	scopes := []scope{{Ten: 0}, {Ten: -1}}
	var seq []wwParams
	rounds := core.N(2, 12)
	if zvRace {
		rounds = 1
	}
	idx := 2_000_000
	for round := 0; round < rounds; round++ {
		for win := 1; win < 8; win++ {
			for v := 0; v < 16; v++ {
				p := wwParams{Idx: idx, Mode: "seq", Window: win, PreWindow: v&1 != 0, W1bFirst: v&2 != 0, W2Scope: scopes[(v>>2)&1], Drain: v&8 != 0, PostKind: (win + v + round) % 3, Procs: []int{2, 4, ncpu}[(idx)%3]}
				seq = append(seq, p)
				idx++
			}
		}
	}
	nconc := core.N(60, 1200)
	if zvRace {
		nconc = core.N(20, 200)
	}
	var conc []wwParams
	var crng []*core.Rand
	for i := 0; i < nconc; i++ {
		hr := rng.Fork(uint64(i))
		conc = append(conc, wwParams{Idx: idx, Mode: "conc", W1bFirst: hr.Bool(), W2Scope: core.Pick(hr, []scope{{Ten: -1}, {Ten: 0}, {Ten: -2, Prefix: "a"}}), Writers: 3 + hr.Intn(4), Ops: 60 + hr.Intn(60), Procs: []int{2, 4, ncpu}[i%3]})
		crng = append(crng, hr)
		idx++
	}
	guarded := func(p wwParams, fn func() *wwHist) *wwHist {
		ch := make(chan *wwHist, 1)
		go func() { ch <- fn() }()
		select {
		case h := <-ch:
			return h
		case <-time.After(60 * time.Second):
			run.Eval()
			run.Inconclusive(fmt.Sprintf("restore-window scenario %d: watchdog fired", p.Idx))
			return nil
		}
	}
	for _, procs := range []int{2, 4, ncpu} {
		if run.Violations() >= 30 {
			break
		}
		runtime.GOMAXPROCS(procs)
		var hs []*wwHist
		var mu sync.Mutex
		var list []func() *wwHist
		var ps []wwParams
		for i := range seq {
			if seq[i].Procs == procs {
				p := seq[i]
				list, ps = append(list, func() *wwHist { return runWindowSeq(p) }), append(ps, p)
			}
		}
		for i := range conc {
			if conc[i].Procs == procs {
				p, r := conc[i], crng[i]
				list, ps = append(list, func() *wwHist { return runWindowConc(p, r) }), append(ps, p)
			}
		}
		parallel(4, len(list), func(i int) {
			if h := guarded(ps[i], list[i]); h != nil {
				mu.Lock()
				hs = append(hs, h)
				mu.Unlock()
			}
		})
		runtime.GOMAXPROCS(ncpu)
		sort.Slice(hs, func(i, j int) bool { return hs[i].P.Idx < hs[j].P.Idx })
		for _, h := range hs {
			checkWindow(run, h)
		}
	}
	nseq := len(seq)
	run.Floor("restore-window:scenarios", (nseq+nconc)*3/4)
	run.Floor("restore-window:writes-inside-window", nseq/2+nconc)
	run.Floor("restore-window:post-restore-watches-complete", (nseq+nconc))
	run.Floor("restore-window:old-watches-closed", (nseq+nconc))
}
