//go:build verif

package c18

import (
	"fmt"
	"runtime"
	"sync"
	"testing"

	"github.com/hashicorp/consul/zzverif/core"
)

func genParams(i int, rng *core.Rand, procs int) hparams {
	p := hparams{Idx: i, Clients: 4 + rng.Intn(5), Ops: 30, Yield: core.Pick(rng, []int{0, 10, 30, 60}), Procs: procs, Active: nRes}
	switch x := rng.Intn(10); {
	case x < 5:
		p.Backend = "inmem"
	case x < 7:
		p.Backend = "raft"
	default:
		p.Backend = "raft-restore"
	}
	nw := 2 + rng.Intn(2)
	for k := 0; k < nw; k++ {
		wp := wparams{Scope: core.Pick(rng, allScopes)}
		if rng.Chance(60) {
			wp.Warmup = rng.Intn(p.Ops * 2)
		}
		if p.Backend == "raft-restore" && rng.Chance(50) {
			wp.LateClose = true
		}
		p.Watchers = append(p.Watchers, wp)
	}
	if p.Backend == "raft-restore" {
		total := p.Clients * p.Ops / 2
		p.SnapAt = 6 + rng.Intn(total/2)
		p.RestoreAt = p.SnapAt + 1 + rng.Intn(total/3)
	}
	return p
}

func parallel(par, n int, fn func(i int)) {
	var wg sync.WaitGroup
	ch := make(chan int)
	for w := 0; w < par; w++ {
		wg.Add(1)
		go func() {
			defer wg.Done()
			for i := range ch {
				fn(i)
			}
		}()
	}
	for i := 0; i < n; i++ {
		ch <- i
	}
	close(ch)
	wg.Wait()
}

func TestZZVerifC18(t *testing.T) {
	run := core.NewRun("C18", "exploration",
		"concurrent histories against the real storage backends (inmem.Backend; raft.Backend over a serialising loop-back handle, 30% with a snapshot + restore in the middle): 4-8 client goroutines x 30 operations (WriteCAS create/update/stale/wrong-uid/bogus-version, read-modify-write, DeleteCAS current/stale/old-uid, strong Read with and without uid, List over 10 tenancy/prefix scopes, ListByOwner) over 3 prefix-related names x 2 tenancies, 2-3 watcher goroutines (WatchList, started at a PRNG-chosen depth into the history, a strong Read after every event, re-subscribing after ErrWatchClosed), GOMAXPROCS in {2,4,all}; every call recorded at the storage.Backend boundary with call/return time from one monotonic clock; every written payload carries a unique id. Each history is checked (1) with porcupine against a sequential specification of the documented contract, partitioned by resource (lists decomposed per resource, watch events as observations, snapshot/restore as model operations), (2) by direct CAS/UID invariants, (3) by an exact watch-stream monitor (initial listing, per-resource commit order via the version chain, read-after-event), (4) restore checks. Part S: the same monitors on the backend-boundary history produced by concurrent clients of the resource SERVICE (server-assigned UIDs). Part W (restore window): inmem.Store driven through Snapshot/Restore/Apply/Commit with writes committing BETWEEN Restore() and Commit() while two watchers share the subject (one re-watching before the other closed), new watches opened after Commit() and further writes; a deterministic sequential family (all 7 window-write sets x 16 variants) and a concurrent one (one writer goroutine per resource across the window); judged by a sequential model with the restore at the Commit point and the exact post-restore event sequence per resource. non-trivial = history with >=1 pair of overlapping writers presenting the same version, >=1 re-created resource and >=1 live watch event; distinct by the sequence of (client, op, arguments, outcome)")
	run.Assume("the loop-back raft handle applies log entries, snapshots and restores one at a time with increasing indexes, as hashicorp/raft does for an FSM",
		"clients never invent a uid that was used before (creates use fresh uids), as the resource service does with ULIDs",
		"List/ListByOwner on a single in-process backend are treated as linearizable per resource (they read the same MemDB)")
	rng := core.NewRand(core.Seed())
	ncpu := runtime.NumCPU()
	defer runtime.GOMAXPROCS(runtime.GOMAXPROCS(0))

	n := core.N(400, 8000)
	if zvRace {
		n = core.N(60, 1500)
	}
	procsList := []int{2, 4, ncpu}
	params := make([]hparams, n)
	rngs := make([]*core.Rand, n)
	for i := 0; i < n; i++ {
		hr := rng.Fork(uint64(i))
		params[i] = genParams(i, hr, procsList[i*len(procsList)/n])
		rngs[i] = hr
	}
	const chunk = 120
	for lo := 0; lo < n && run.Violations() < 30; {
		hi := lo
		for hi < n && hi-lo < chunk && params[hi].Procs == params[lo].Procs {
			hi++
		}
		hs := make([]*hist, hi-lo)
		runtime.GOMAXPROCS(params[lo].Procs)
		parallel(4, hi-lo, func(i int) {
			h, deadlock, dump := runHistoryGuarded(params[lo+i], rngs[lo+i])
			hs[i] = h
			if h != nil {
				return
			}
			run.Eval()
			if deadlock != "" {
				run.Violation("C18:restore:deadlock:commit-vs-watchlist-lock-order", fmt.Sprintf("history %d (%s, GOMAXPROCS %d) never finished: %s; every later operation on the store blocks for ever", params[lo+i].Idx, params[lo+i].Backend, params[lo+i].Procs, deadlock),
					map[string]any{"params": params[lo+i], "blocked_goroutines": dump})
			} else {
				run.Inconclusive(fmt.Sprintf("history %d: watchdog fired without a provable lock cycle in the code under test: %.2000s", params[lo+i].Idx, dump))
			}
		})
		runtime.GOMAXPROCS(ncpu)
		parallel(ncpu, hi-lo, func(i int) {
			if hs[i] != nil {
				checkHistory(run, hs[i])
			}
		})
		lo = hi
	}
	run.CountN("histories", n)

	runServicePart(t, run, rng.Fork(1<<40))
	runWindowPart(t, run, rng.Fork(1<<41))

	hmin := func(q, th int) int {
		if zvRace {
			return q / 8
		}
		return core.N(q, th)
	}
	run.Floor("cas_races_overlapping_same_version", hmin(120, 2400))
	run.Floor("lifetimes_recreated", hmin(400, 8000))
	run.Floor("stale_uid_writes_rejected", hmin(100, 2000))
	run.Floor("watch_live_events", hmin(2000, 40000))
	run.Floor("watches_started_mid_history", hmin(60, 1200))
	run.Floor("watch_generations_closed_by_restore", hmin(60, 1200))
	run.Floor("reads_after_event", hmin(2000, 40000))
	run.Floor("watch_final_views_equal", hmin(300, 6000))
	run.FloorDistinct("op-class", 30)
	if run.Finish() == 1 {
		t.Fail()
	}
}
