//go:build verif

// C14 — the proxy RBAC policy enforces exactly the intention decision.
// For generated intention sets (validated by consul's own config-entry validation) the REAL
// makeRBACNetworkFilter / makeRBACHTTPFilter are run for both default policies; the emitted RBAC
// proto is evaluated (c14_eval_test.go) for every caller identity and request of a mechanically
// generated universe and compared with the intention-precedence reference (c14_ref_test.go).
package xds

import (
	"fmt"
	"runtime"
	"sort"
	"strings"
	"sync"
	"testing"

	envoy_rbac_v3 "github.com/envoyproxy/go-control-plane/envoy/config/rbac/v3"
	envoy_http_rbac_v3 "github.com/envoyproxy/go-control-plane/envoy/extensions/filters/http/rbac/v3"
	envoy_network_rbac_v3 "github.com/envoyproxy/go-control-plane/envoy/extensions/filters/network/rbac/v3"
	"google.golang.org/protobuf/encoding/protojson"

	"github.com/hashicorp/consul/agent/connect"
	"github.com/hashicorp/consul/agent/structs"
	"github.com/hashicorp/consul/proto/private/pbpeering"
	"github.com/hashicorp/consul/zzverif/core"
)

// ---------------- generator ----------------

func zvWeighted(rng *core.Rand, items []string, weights []int) string {
	t := 0
	for _, w := range weights {
		t += w
	}
	x := rng.Intn(t)
	for i, w := range weights {
		if x < w {
			return items[i]
		}
		x -= w
	}
	return items[len(items)-1]
}

func zvGenPerm(rng *core.Rand) zvPerm {
	p := zvPerm{Action: core.Pick(rng, []string{"allow", "deny"})}
	switch rng.Intn(4) {
	case 1:
		p.PathExact = core.Pick(rng, []string{"/admin", "/v1/x.y", "/"})
	case 2:
		p.PathPrefix = core.Pick(rng, []string{"/v1", "/", "/admin", "/v1/", "/admin/"})
	case 3:
		p.PathRegex = core.Pick(rng, []string{"/v[0-9]+/.*", "/admin.*", "/a.b"})
	}
	nh := 0
	if x := rng.Intn(100); x >= 85 {
		nh = 2
	} else if x >= 50 {
		nh = 1
	}
	for i := 0; i < nh; i++ {
		h := zvHdrM{Name: core.Pick(rng, []string{"x-role", "X-Env"})}
		switch rng.Intn(6) {
		case 0:
			h.Present = true
		case 1:
			h.Exact = core.Pick(rng, []string{"admin", "Admin"})
		case 2:
			h.Prefix = "adm"
		case 3:
			h.Suffix = "min"
		case 4:
			h.Contains = "dmi"
		case 5:
			h.Regex = core.Pick(rng, []string{"adm.n", "(dev|qa)"})
		}
		h.Invert = rng.Chance(25)
		if !h.Present && h.Regex == "" {
			h.IgnoreCase = rng.Chance(30)
		}
		p.Hdr = append(p.Hdr, h)
	}
	if rng.Chance(40) {
		all := []string{"GET", "POST", "PUT", "DELETE"}
		perm := rng.Perm(len(all))
		for i := 0; i < 1+rng.Intn(2); i++ {
			p.Methods = append(p.Methods, all[perm[i]])
		}
	}
	if p.PathExact == "" && p.PathPrefix == "" && p.PathRegex == "" && len(p.Hdr) == 0 && len(p.Methods) == 0 {
		p.PathPrefix = "/"
	}
	return p
}

var (
	zvSrcNames   = []string{"web", "web.v1", "webxv1", "db", "w+b", "a|b", "db(1", "*"}
	zvSrcWeights = []int{22, 22, 8, 10, 8, 4, 2, 24}
)

func zvGenCase(rng *core.Rand) *zvCase {
	c := &zvCase{LocalTD: zvWeighted(rng, []string{"test.consul", "11111111-2222-3333-4444-555555555555.consul"}, []int{75, 25})}
	if rng.Chance(50) {
		c.Bundles = append(c.Bundles, zvBundle{Peer: "peerA", TD: "peera.consul"})
		if rng.Chance(50) {
			b := zvBundle{Peer: "peerB", TD: "peerb.consul", Part: "part-1"}
			if rng.Chance(20) {
				b.TD = c.LocalTD // another partition of a cluster sharing our trust domain
			}
			c.Bundles = append(c.Bundles, b)
		}
	}
	n := 1 + rng.Intn(5)
	seen := map[string]bool{}
	for i := 0; i < n; i++ {
		ix := zvIxn{Src: zvWeighted(rng, zvSrcNames, zvSrcWeights), Dst: "api"}
		if len(c.Bundles) > 0 && rng.Chance(35) {
			peers := []string{}
			for _, b := range c.Bundles {
				peers = append(peers, b.Peer)
			}
			ix.Peer = core.Pick(rng, peers)
			if rng.Chance(6) {
				ix.Peer = "peerC" // no trust bundle (yet)
			}
		}
		if rng.Chance(25) {
			ix.Dst = "*"
		}
		if ix.Dst != "*" && rng.Chance(35) {
			for j := 0; j < 1+rng.Intn(3); j++ {
				ix.Perms = append(ix.Perms, zvGenPerm(rng))
			}
		} else {
			ix.Action = core.Pick(rng, []string{"allow", "deny"})
		}
		k := ix.Src + "|" + ix.Peer + "|" + ix.Dst
		if seen[k] {
			continue
		}
		seen[k] = true
		c.Ixns = append(c.Ixns, ix)
	}
	return c
}

// ---------------- real side ----------------

// build turns the case into what proxycfg hands to the xDS generator: service-intentions config
// entries (normalized and validated by consul) converted to intentions, in shuffled order.
func (c *zvCase) build(order []int) (structs.SimplifiedIntentions, []*pbpeering.PeeringTrustBundle, error) {
	var all structs.Intentions
	for _, dst := range []string{"api", "*"} {
		e := &structs.ServiceIntentionsConfigEntry{Kind: structs.ServiceIntentions, Name: dst}
		for _, ix := range c.Ixns {
			if ix.Dst != dst {
				continue
			}
			s := &structs.SourceIntention{Name: ix.Src, Peer: ix.Peer, Action: structs.IntentionAction(ix.Action)}
			for _, p := range ix.Perms {
				hp := &structs.IntentionHTTPPermission{PathExact: p.PathExact, PathPrefix: p.PathPrefix, PathRegex: p.PathRegex,
					Methods: append([]string{}, p.Methods...)}
				for _, h := range p.Hdr {
					hp.Header = append(hp.Header, structs.IntentionHTTPHeaderPermission{Name: h.Name, Present: h.Present, Exact: h.Exact,
						Prefix: h.Prefix, Suffix: h.Suffix, Contains: h.Contains, Regex: h.Regex, Invert: h.Invert, IgnoreCase: h.IgnoreCase})
				}
				s.Permissions = append(s.Permissions, &structs.IntentionPermission{Action: structs.IntentionAction(p.Action), HTTP: hp})
			}
			e.Sources = append(e.Sources, s)
		}
		if len(e.Sources) == 0 {
			continue
		}
		if err := e.Normalize(); err != nil {
			return nil, nil, fmt.Errorf("normalize %s: %v", dst, err)
		}
		if err := e.Validate(); err != nil {
			return nil, nil, fmt.Errorf("validate %s: %v", dst, err)
		}
		all = append(all, e.ToIntentions()...)
	}
	out := make(structs.SimplifiedIntentions, 0, len(all))
	for _, i := range order {
		if i < len(all) {
			out = append(out, all[i])
		}
	}
	if len(out) != len(all) {
		return nil, nil, fmt.Errorf("order does not cover the intentions")
	}
	var bundles []*pbpeering.PeeringTrustBundle
	for _, b := range c.Bundles {
		bundles = append(bundles, &pbpeering.PeeringTrustBundle{PeerName: b.Peer, TrustDomain: b.TD, ExportedPartition: b.Part})
	}
	return out, bundles, nil
}

// rules runs the real filter constructors and extracts the RBAC rules from the emitted filter.
func (c *zvCase) rules(defAllow, http bool, order []int) (r *envoy_rbac_v3.RBAC, err error, panicked string) {
	ixns, bundles, err := c.build(order)
	if err != nil {
		return nil, err, ""
	}
	defer func() {
		if p := recover(); p != nil {
			panicked = fmt.Sprint(p)
		}
	}()
	li := rbacLocalInfo{trustDomain: c.LocalTD, datacenter: "dc1", partition: "default"}
	if http {
		f, err := makeRBACHTTPFilter(ixns, defAllow, li, bundles, nil)
		if err != nil {
			return nil, err, ""
		}
		var cfg envoy_http_rbac_v3.RBAC
		if err := f.GetTypedConfig().UnmarshalTo(&cfg); err != nil {
			return nil, err, ""
		}
		return cfg.Rules, nil, ""
	}
	f, err := makeRBACNetworkFilter(ixns, defAllow, li, bundles)
	if err != nil {
		return nil, err, ""
	}
	var cfg envoy_network_rbac_v3.RBAC
	if err := f.GetTypedConfig().UnmarshalTo(&cfg); err != nil {
		return nil, err, ""
	}
	return cfg.Rules, nil, ""
}

// ---------------- per-set recorder (merged into the run in set order: deterministic) ----------------

type zvViol struct {
	key, what string
	witness   any
}

type zvRec struct {
	evals    int
	nontriv  []string
	counts   map[string]int
	distinct map[string]map[string]struct{}
	viols    []zvViol
	inconcl  []string
	samples  []any
}

func zvNewRec() *zvRec {
	return &zvRec{counts: map[string]int{}, distinct: map[string]map[string]struct{}{}}
}
func (r *zvRec) count(k string, n int) { r.counts[k] += n }
func (r *zvRec) dist(set, m string) {
	s := r.distinct[set]
	if s == nil {
		s = map[string]struct{}{}
		r.distinct[set] = s
	}
	s[m] = struct{}{}
}
func (r *zvRec) violation(key, what string, w any) {
	for _, v := range r.viols {
		if v.key == key {
			r.count("violating-comparisons:"+key, 1)
			return
		}
	}
	r.count("violating-comparisons:"+key, 1)
	r.viols = append(r.viols, zvViol{key, what, w})
}
func (r *zvRec) mergeInto(run *core.Run) {
	run.EvalN(r.evals)
	for _, f := range r.nontriv {
		run.NonTrivial(f)
	}
	for k, n := range r.counts {
		run.CountN(k, n)
	}
	for set, ms := range r.distinct {
		for m := range ms {
			run.Distinct(set, m)
		}
	}
	for _, v := range r.viols {
		run.Violation(v.key, v.what, v.witness)
	}
	for _, s := range r.inconcl {
		run.Inconclusive(s)
	}
	for _, s := range r.samples {
		run.Sample(s)
	}
}

// ---------------- the monitor ----------------

func zvProtoJSON(r *envoy_rbac_v3.RBAC) string {
	if r == nil {
		return "null"
	}
	b, err := protojson.Marshal(r)
	if err != nil {
		return "marshal error: " + err.Error()
	}
	return string(b)
}

func zvDefName(a bool) string {
	if a {
		return "allow"
	}
	return "deny"
}
func zvLsnName(h bool) string {
	if h {
		return "http"
	}
	return "tcp"
}

const zvDest = "/ns/default/dc/dc1/svc/api"

// evalOne evaluates the emitted rules for one caller/request under a sanitization variant.
func zvEvalOne(env *zvEnv, rules *envoy_rbac_v3.RBAC, c *zvCase, http bool, cl zvCaller, r *zvReq, s zvSanSet) (allowed bool, matched []string, trusted bool) {
	before := env.nUnsup
	xf := ""
	if http {
		xf = cl.xfcc(s, "spiffe://"+c.LocalTD+zvDest)
	}
	env.reset(cl.Conn.render(s), r, xf)
	allowed, matched = env.zvAllowed(rules)
	return allowed, matched, env.nUnsup == before
}

var zvSanVariants = []struct {
	name string
	set  zvSanSet
}{
	{"service-name", zvSanSet{svc: true}},
	{"trust-domain", zvSanSet{td: true}},
	{"exported-partition", zvSanSet{ap: true}},
	{"multiple-parts", zvSanSet{svc: true, td: true, ap: true}},
}

// zvAttr attributes disagreements of one configuration: does the disagreement disappear when the
// regex metacharacters of ONE interpolated part (in the intention set, the trust bundles and the
// caller alike) are replaced by plain letters and the real translation is run again? Then that
// part's missing escaping is the cause. The re-translated rules are cached per configuration.
type zvAttr struct {
	c        *zvCase
	defAllow bool
	http     bool
	order    []int
	cases    []*zvCase
	rules    []*envoy_rbac_v3.RBAC
	done     []bool
}

func (a *zvAttr) variant(i int) (*zvCase, *envoy_rbac_v3.RBAC) {
	if a.done == nil {
		n := len(zvSanVariants)
		a.cases, a.rules, a.done = make([]*zvCase, n), make([]*envoy_rbac_v3.RBAC, n), make([]bool, n)
	}
	if !a.done[i] {
		a.done[i] = true
		sc := a.c.sanitized(zvSanVariants[i].set)
		rules, err, pan := sc.rules(a.defAllow, a.http, a.order)
		if err == nil && pan == "" {
			a.cases[i], a.rules[i] = sc, rules
		}
	}
	return a.cases[i], a.rules[i]
}

// attributeInvalid: which part's sanitization makes every emitted regex compile?
func (a *zvAttr) attributeInvalid(cl zvCaller, r *zvReq) string {
	for i, v := range zvSanVariants {
		sc, rules := a.variant(i)
		if sc == nil {
			continue
		}
		env := zvNewEnv(a.http, "", nil, "")
		zvEvalOne(env, rules, sc, a.http, cl, r, v.set) // the evaluator walks (and compiles) every matcher
		if len(env.badRegex) == 0 {
			return v.name
		}
	}
	return ""
}

func (a *zvAttr) attribute(cl zvCaller, r *zvReq, refAllow bool) (string, string) {
	for i, v := range zvSanVariants {
		sc, rules := a.variant(i)
		if sc == nil {
			continue
		}
		ref := sc.zvDecide(a.defAllow, a.http, cl.Conn.render(v.set), cl.inURIs(v.set), r)
		if ref.Amb != "" || ref.Allow != refAllow {
			return "", "sanitization changed the reference decision"
		}
		env := zvNewEnv(a.http, "", nil, "")
		got, _, ok := zvEvalOne(env, rules, sc, a.http, cl, r, v.set)
		if ok && len(env.badRegex) == 0 && got == ref.Allow {
			return v.name, ""
		}
	}
	return "", ""
}

func (c *zvCase) isPeerIdentity(uri string) bool {
	id, ok := zvParseSvc(uri)
	if !ok {
		return false
	}
	if id.td == c.LocalTD && id.ap == "default" {
		return false
	}
	for _, b := range c.Bundles {
		ap := strings.ToLower(b.Part)
		if ap == "" {
			ap = "default"
		}
		if id.td == b.TD && id.ap == ap {
			return true
		}
	}
	return false
}

// crossCheck: for a well-formed local or peered service identity, the first intention of consul's
// precedence-sorted list that consul's own connect.IntentionMatch accepts must be the reference's
// winner ("" = agreement or not applicable).
func (c *zvCase) crossCheck(sorted structs.Intentions, ref zvRef) string {
	id, ok := zvParseSvc(ref.Eff)
	if !ok || id.ns != "default" || sorted == nil {
		return ""
	}
	peer, known := "", false
	if id.td == c.LocalTD && id.ap == "default" {
		known = true
	} else {
		for _, b := range c.Bundles {
			ap := strings.ToLower(b.Part)
			if ap == "" {
				ap = "default"
			}
			if id.td == b.TD && id.ap == ap {
				peer, known = b.Peer, true
			}
		}
	}
	if !known {
		return ""
	}
	got := "none"
	for _, ixn := range sorted {
		if connect.IntentionMatch(id.svc, "default", "default", peer, ixn, structs.IntentionMatchSource) {
			got = ixn.SourceName + "|" + ixn.SourcePeer + "|" + ixn.DestinationName
			break
		}
	}
	want := "none"
	if ref.Winner >= 0 {
		w := c.Ixns[ref.Winner]
		want = w.Src + "|" + w.Peer + "|" + w.Dst
	}
	if got != want {
		return fmt.Sprintf("reference winner %s but consul's IntentionMatch over the precedence-sorted list picks %s", want, got)
	}
	return ""
}

func zvRunSet(idx int, rng *core.Rand, wantSample bool) *zvRec {
	return zvRunCase(fmt.Sprintf("set %d", idx), zvGenCase(rng), rng, wantSample)
}

func zvRunCase(name string, c *zvCase, rng *core.Rand, wantSample bool) *zvRec {
	rec := zvNewRec()
	reqs := c.zvRequests(8, rng.Intn)
	order := rng.Perm(len(c.Ixns))
	caseJSON := core.JSON(c)
	rec.count("intention-sets", 1)
	rec.count("intentions", len(c.Ixns))
	for _, ix := range c.Ixns {
		k := zvKind(ix)
		if len(ix.Perms) > 0 {
			k += "-l7"
		}
		rec.dist("intention-kind", k)
		if zvHasMeta(strings.ReplaceAll(ix.Src, "*", "")) {
			rec.count("intentions:source-name-with-regex-metacharacter", 1)
		}
	}
	// consul's own view of the same set (what Intention.Check / IntentionDecision walk): the real
	// intentions in the real precedence order; used to cross-check the reference's winner
	var sorted structs.Intentions
	if ixns, _, err := c.build(order); err == nil {
		sorted = structs.Intentions(ixns)
		sort.Sort(structs.IntentionPrecedenceSorter(sorted))
	}
	for _, http := range []bool{false, true} {
		callers := c.zvCallers(http)
		for _, defAllow := range []bool{false, true} {
			cfgName := fmt.Sprintf("%s %s default-%s", name, zvLsnName(http), zvDefName(defAllow))
			rules, err, pan := c.rules(defAllow, http, order)
			rec.evals++
			rec.count("configs:"+zvLsnName(http)+":default-"+zvDefName(defAllow), 1)
			if pan != "" {
				rec.violation("C14:translation:panic", fmt.Sprintf("%s: makeRBAC*Filter panicked on a validated intention set %s: %s", cfgName, caseJSON, pan),
					map[string]any{"case": c, "default_allow": defAllow, "http": http, "order": order, "panic": pan})
				continue
			}
			if err != nil {
				rec.inconcl = append(rec.inconcl, cfgName+": "+err.Error())
				rec.count("configs:error", 1)
				continue
			}
			env := zvNewEnv(http, "", nil, "")
			attr := &zvAttr{c: c, defAllow: defAllow, http: http, order: order}
			var theReqs []*zvReq
			if http {
				if c.hasL7() {
					for i := range reqs {
						theReqs = append(theReqs, &reqs[i])
					}
				} else {
					theReqs = []*zvReq{&reqs[0], {Method: "POST", Path: "/admin", Hdr: map[string]string{"x-role": "admin"}}}
				}
			} else {
				theReqs = []*zvReq{nil}
			}
			sawAllow, sawDeny, sawPrecedence := false, false, false
			invalid := false
			unsupportedHere := false
		callers:
			for _, cl := range callers {
				conn := cl.Conn.render(zvSanSet{})
				in := cl.inURIs(zvSanSet{})
				for _, r := range theReqs {
					ref := c.zvDecide(defAllow, http, conn, in, r)
					got, matched, ok := zvEvalOne(env, rules, c, http, cl, r, zvSanSet{})
					if len(env.badRegex) > 0 {
						// Envoy rejects a listener carrying an invalid regex: no policy is enforced at all
						invalid = true
						part := attr.attributeInvalid(cl, r)
						key := "C14:translation:invalid-regex"
						if part != "" {
							key = "C14:spiffe-pattern:unescaped-regex-meta:" + part + ":invalid-regex"
						}
						rec.violation(key, fmt.Sprintf("%s: the emitted RBAC contains the regex %q which does not compile (RE2): Envoy rejects the update; intention set %s",
							cfgName, env.badRegex[0], caseJSON),
							map[string]any{"case": c, "default_allow": defAllow, "http": http, "order": order, "bad_regex": env.badRegex[0], "rbac": zvProtoJSON(rules)})
						break callers
					}
					if !ok {
						unsupportedHere = true
						continue
					}
					rec.count("comparisons", 1)
					if ref.Amb != "" {
						rec.count("comparisons:skipped:reference-undefined", 1)
						continue
					}
					if http && c.isPeerIdentity(conn) {
						// outside the universe (assumption): on HTTP listeners peered callers arrive through the
						// local mesh gateway; a peer certificate presented directly is only tallied
						rec.count("info:http-direct-peer-certificate", 1)
						if got != ref.Allow {
							rec.count("info:http-direct-peer-certificate:rbac-differs-from-reference", 1)
						}
						continue
					}
					rec.dist("caller-class", cl.Class)
					if !http {
						if d := c.crossCheck(sorted, ref); d != "" {
							rec.inconcl = append(rec.inconcl, cfgName+": caller "+conn+": "+d)
							rec.count("reference-vs-consul-matcher:disagreements", 1)
							continue
						}
					}
					if ref.Allow {
						sawAllow = true
						rec.count("reference:allow", 1)
					} else {
						sawDeny = true
						rec.count("reference:deny", 1)
					}
					wk := "none"
					if ref.Winner >= 0 {
						w := c.Ixns[ref.Winner]
						wk = zvKind(w)
						if len(w.Perms) > 0 {
							wk += "-l7"
							switch {
							case !http:
								rec.count("l7:on-tcp-listener", 1)
							case ref.Perm == 0:
								rec.count("l7:first-permission-decides", 1)
							case ref.Perm > 0:
								rec.count("l7:later-permission-decides", 1)
							default:
								rec.count("l7:no-permission-matches", 1)
							}
						}
						if len(ref.Matching) > 1 {
							sawPrecedence = true
							rec.count("precedence-decided-among-several", 1)
						}
					}
					rec.dist("winner-kind", wk)
					if got == ref.Allow {
						continue
					}
					// ---- disagreement ----
					part, herr := attr.attribute(cl, r, ref.Allow)
					if herr != "" {
						rec.inconcl = append(rec.inconcl, cfgName+": "+herr)
						continue
					}
					var also []string
					for _, m := range ref.Matching {
						if m != ref.Winner {
							also = append(also, zvKind(c.Ixns[m]))
						}
					}
					sort.Strings(also)
					verb := map[bool]string{true: "allows", false: "denies"}
					// precedence order and source specificity disagree: the winner has a wildcard source (and an
					// exact destination) while a lower-precedence matching intention names the source exactly
					inversion := false
					if ref.Winner >= 0 && c.Ixns[ref.Winner].Src == "*" {
						for _, m := range ref.Matching {
							if m != ref.Winner && c.Ixns[m].Src != "*" {
								inversion = true
							}
						}
					}
					var key string
					if part != "" {
						key = "C14:spiffe-pattern:unescaped-regex-meta:" + part
					} else if inversion {
						key = "C14:source-precedence:wildcard-source-exact-destination-over-exact-source-wildcard-destination:lower-precedence-intention-enforced"
					} else {
						key = fmt.Sprintf("C14:precedence:%s:winner=%s:also-matching=[%s]:rbac-%s", zvLsnName(http), wk, strings.Join(also, ","), verb[got])
					}
					reqStr := ""
					if r != nil {
						reqStr = " request " + core.JSON(r)
					}
					what := fmt.Sprintf("%s: caller %s (%s)%s: RBAC %s (matching policies %v) but the intentions %s (%s; effective identity %s); intention set %s",
						cfgName, conn, cl.Class, reqStr, verb[got], matched, map[bool]string{true: "allow", false: "deny"}[ref.Allow], ref.Why, ref.Eff, caseJSON)
					rec.violation(key, what, map[string]any{"case": c, "default_allow": defAllow, "http": http, "order": order,
						"caller": cl, "principal": conn, "xfcc": env.xfcc, "request": r, "reference": ref, "rbac_allows": got,
						"matched_policies": matched, "rbac": zvProtoJSON(rules), "disappears_when_sanitizing": part})
				}
			}
			for k := range env.seen {
				rec.dist("proto-construct", k)
			}
			for k, n := range env.unsupported {
				rec.count("unsupported:"+k, n)
			}
			if unsupportedHere {
				rec.inconcl = append(rec.inconcl, fmt.Sprintf("%s: evaluator met unsupported constructs %v", cfgName, env.unsupported))
				rec.count("configs:unsupported-construct", 1)
				continue
			}
			if invalid {
				continue
			}
			rec.count("configs:decided", 1)
			if sawAllow && sawDeny && sawPrecedence {
				rec.nontriv = append(rec.nontriv, core.Hash(caseJSON, zvDefName(defAllow), zvLsnName(http)))
				if wantSample && len(rec.samples) == 0 && http && c.hasL7() {
					rec.samples = append(rec.samples, map[string]any{"case": c, "default_allow": defAllow, "listener": zvLsnName(http),
						"callers": len(callers), "requests": len(theReqs), "rbac": zvProtoJSON(rules)})
				}
			}
		}
	}
	return rec
}

func TestZZVerifC14(t *testing.T) {
	run := core.NewRun("C14", "exploration",
		"PRNG intention sets for destination 'api' (1-5 intentions over sources {web, web.v1, webxv1, db, w+b, a|b, db(1, *} x {local, peerA, peerB, peer without bundle} x destination {api, *}; allow / deny / 1-3 L7 permissions with path exact|prefix|regex, header present|exact|prefix|suffix|contains|regex with invert and ignore-case, methods), accepted by consul's own Normalize+Validate, given in shuffled order to the real makeRBACNetworkFilter and makeRBACHTTPFilter for both default policies. The emitted RBAC proto is evaluated by an independent evaluator (regexes as RE2 full match) for every caller of a universe generated mechanically from the set (every mentioned and a fresh name, locally and at every peer; near-misses of every name and trust domain: each regex metacharacter replaced/removed/expanded, prefix, suffix, truncation, case; other dc / namespace / partition; extra path segments, other schemes, non-service identities; requests forwarded by the local mesh gateway with x-forwarded-client-cert, near-miss gateways, forged headers) and, on HTTP listeners, for requests derived from every permission (a satisfying request, one-field near-misses, cross combinations, a fresh one), and compared with the precedence reference. one evaluation = one (set, default, listener) configuration; non-trivial = configuration in which the reference allowed some and denied other callers/requests and for some caller several intentions matched (precedence decided); distinct by (set, default, listener)")
	run.Assume(
		"Go regexp (RE2 syntax) anchored at both ends decides like Envoy's safe_regex (RE2::FullMatch)",
		"an identity that is not a well-formed service SPIFFE ID matches no intention (default policy applies)",
		"CE build: every intention source is in namespace 'default' / partition 'default'; a peered source is identified by its bundle's trust domain + exported partition",
		"on HTTP listeners peered callers arrive through the local mesh gateway (identity = URI of the first x-forwarded-client-cert element, header shape as documented in rbac.go); a peer certificate presented directly to an HTTP listener is tallied (info:*) but not judged",
		"an L7 intention met on a TCP listener denies (rbac.go comment and Intention.Check)",
		"user-supplied PathRegex / header Regex are full-match RE2 expressions; an inverted value match on an absent header is undefined by the documentation and such comparisons are skipped",
		"JWT requirements are not generated (outside the property's quantifier); metadata matchers would be counted as unsupported and make the configuration inconclusive",
	)
	root := core.NewRand(core.Seed())
	nsets := core.N(2000, 40000)
	rngs := make([]*core.Rand, nsets)
	for i := range rngs {
		rngs[i] = root.Fork(uint64(i))
	}
	workers := runtime.NumCPU()
	if workers > 16 {
		workers = 16
	}
	if !core.Thorough() && workers > 4 {
		workers = 4
	}
	// ---- Part A: every set of <= 2 L4 intentions over a reduced alphabet (smallest witnesses first)
	var alpha []zvIxn
	for _, src := range []string{"web", "web.v1", "*"} {
		for _, peer := range []string{"", "peerA"} {
			for _, dst := range []string{"api", "*"} {
				for _, act := range []string{"allow", "deny"} {
					alpha = append(alpha, zvIxn{Src: src, Peer: peer, Dst: dst, Action: act})
				}
			}
		}
	}
	var enum []*zvCase
	mk := func(ix ...zvIxn) {
		enum = append(enum, &zvCase{LocalTD: "test.consul", Bundles: []zvBundle{{Peer: "peerA", TD: "peera.consul"}}, Ixns: ix})
	}
	for i := range alpha {
		mk(alpha[i])
	}
	for i := range alpha {
		for j := i + 1; j < len(alpha); j++ {
			a, b := alpha[i], alpha[j]
			if a.Src == b.Src && a.Peer == b.Peer && a.Dst == b.Dst {
				continue // the same source->destination pair cannot be defined twice
			}
			mk(a, b)
		}
	}
	for i, c := range enum {
		zvRunCase(fmt.Sprintf("enum %d", i), c, root.Fork(uint64(1_000_000+i)), false).mergeInto(run)
	}
	run.CountN("enumerated-sets", len(enum))

	// ---- Part B: PRNG sets
	const chunk = 64
	for base := 0; base < nsets && run.Violations() <= 30; base += chunk {
		end := base + chunk
		if end > nsets {
			end = nsets
		}
		recs := make([]*zvRec, end-base)
		var wg sync.WaitGroup
		sem := make(chan struct{}, workers)
		for i := base; i < end; i++ {
			wg.Add(1)
			sem <- struct{}{}
			go func(i int) {
				defer wg.Done()
				defer func() { <-sem }()
				recs[i-base] = zvRunSet(i, rngs[i], true)
			}(i)
		}
		wg.Wait()
		for _, r := range recs {
			r.mergeInto(run)
		}
	}
	run.Floor("intention-sets", nsets)
	run.Floor("enumerated-sets", 250)
	run.Floor("configs:decided", nsets*3)
	run.Floor("comparisons", nsets*600)
	run.Floor("precedence-decided-among-several", nsets*12)
	run.Floor("l7:first-permission-decides", nsets*6)
	run.Floor("l7:later-permission-decides", nsets*3)
	run.Floor("l7:no-permission-matches", nsets*8)
	run.Floor("l7:on-tcp-listener", nsets)
	run.FloorDistinct("winner-kind", 11)
	run.FloorDistinct("caller-class", 25)
	run.FloorDistinct("proto-construct", 18)
	if run.Finish() == 1 {
		t.Fail()
	}
}
